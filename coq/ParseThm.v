(* ParseThm.v — proofs about Parse.v (C04, C03, C07). *)
From Coq Require Import NArith ZArith List Bool.
Import ListNotations.
Require Import OPC.Uni OPC.Names OPC.NamesThm OPC.Codec OPC.Endpoint OPC.Parse.
Open Scope N_scope.

(* a response that documents no content (absent or empty map) is a no-content response, never an error *)
Theorem empty_content_is_no_content : response_plan [] = RNoContent.
Proof. reflexivity. Qed.

(* the first media type with a known source decides, whatever follows it *)
Theorem first_supported_wins : forall pre ct hs src rest,
  (forall c, In c pre -> response_source (fst c) = None) -> response_source ct = Some src ->
  first_supported (pre ++ (ct, hs) :: rest) = Some (src, hs).
Proof.
  induction pre as [|[c h] pre IH]; intros ct hs src rest Hpre Hct; cbn [app first_supported].
  - rewrite Hct. reflexivity.
  - pose proof (Hpre (c, h) (or_introl eq_refl)) as Hc. cbn [fst] in Hc. rewrite Hc. apply IH; [|exact Hct]. intros c' Hc'. apply Hpre. right. exact Hc'.
Qed.

(* only when NO documented media type is supported is the response rejected (with a diagnostic), never silently *)
Theorem unsupported_only_is_error : forall content,
  content <> [] -> (forall c, In c content -> response_source (fst c) = None) -> response_plan content = RError.
Proof.
  intros content Hne Hall. destruct content as [|c r]; [contradiction|].
  unfold response_plan.
  assert (H : first_supported (c :: r) = None).
  { clear Hne. revert Hall. generalize (c :: r). induction l as [|[x h] l IH]; intros Hall; [reflexivity|].
    cbn [first_supported]. pose proof (Hall (x, h) (or_introl eq_refl)) as Hx. cbn [fst] in Hx. rewrite Hx. apply IH. intros c' Hc'. apply Hall. right. exact Hc'. }
  rewrite H. reflexivity.
Qed.

Theorem supported_is_never_error : forall content c src,
  In c content -> response_source (fst c) = Some src -> response_plan content <> RError.
Proof.
  intros content c src Hin Hsrc.
  assert (H : exists r, first_supported content = Some r).
  { induction content as [|[x h] l IH]; [contradiction|]. cbn [first_supported].
    destruct (response_source x) eqn:E; [eexists; reflexivity|].
    destruct Hin as [Heq|Hin]; [subst c; cbn in Hsrc; congruence|]. apply IH. exact Hin. }
  destruct H as [[s b] H]. unfold response_plan. destruct content; [contradiction|]. rewrite H. destruct b; discriminate.
Qed.

(* JSON, +json suffixes, text/*, octet-stream map to their sources *)
Theorem source_json : response_source (Some s_app_json) = Some SJson. Proof. reflexivity. Qed.
Theorem source_octet : response_source (Some s_octet) = Some SBytes. Proof. reflexivity. Qed.
Theorem source_text : forall rest, response_source (Some (s_text_ ++ rest)) = Some SText.
Proof. intros rest. reflexivity. Qed.

(* a request media type is a body of its own type or a diagnostic; a supported type with a schema is never dropped *)
Theorem body_plan_json : forall s, str_eqb s s_app_json = true -> body_plan (Some s) true = BBody BJson.
Proof.
  intros s H. unfold body_plan. cbn [negb].
  destruct (str_eqb s s_form) eqn:E1.
  { apply str_eqb_eq in E1. apply str_eqb_eq in H. subst. discriminate. }
  destruct (str_eqb s s_multipart) eqn:E2.
  { apply str_eqb_eq in E2. apply str_eqb_eq in H. subst. discriminate. }
  destruct (str_eqb s s_octet) eqn:E3.
  { apply str_eqb_eq in E3. apply str_eqb_eq in H. subst. discriminate. }
  rewrite H. reflexivity.
Qed.
Theorem body_plan_total : forall ct hs, exists p, body_plan ct hs = p /\ (p = BInvalidType \/ p = BMissingSchema \/ p = BUnsupported \/ exists t, p = BBody t).
Proof.
  intros ct hs. eexists; split; [reflexivity|]. unfold body_plan. destruct ct as [s|]; [|auto].
  destruct hs; cbn [negb]; [|auto].
  destruct (str_eqb s s_form); [right; right; right; eexists; reflexivity|].
  destruct (str_eqb s s_multipart); [right; right; right; eexists; reflexivity|].
  destruct (str_eqb s s_octet); [right; right; right; eexists; reflexivity|].
  destruct (str_eqb s s_app_json || ends_with s_plus_json s); [right; right; right; eexists; reflexivity|auto].
Qed.
