(* Order.v -- model of how the generator turns unordered collections (Python sets) into text (C12).
   Model file: definitions only.

   * str_leb      : Python's order on str (lexicographic on code points).
   * ksort key    : sorted(l, key=key) -- a STABLE sort (elements whose keys tie keep their input order), as list.sort is.
   * py_sorted    : sorted(S) for a set of strings (parser/properties/union.py, parser/openapi.py response_type).
   * jinja_sort   : the Jinja filter `| sort` with its defaults = sorted(value, key=str.lower): case-insensitive and stable
                    (jinja2/filters.py do_sort, ignore_case).  Hence two strings that differ only in case keep the order in
                    which the set enumerated them: the guard keys_distinct below.
   * emit / render: a template loop site emits either the enumeration order of the set (unsorted site) or its jinja_sort.
   * loop_site    : one row of the regenerated table gen/GenLoops.v (harness/translate/gen_loops.py). *)
From Coq Require Import NArith List Bool.
Import ListNotations.
Require Import OPC.Uni.
Open Scope N_scope.

Fixpoint str_leb (a b : str) : bool :=
  match a, b with
  | [], _ => true
  | _ :: _, [] => false
  | x :: a', y :: b' => if x <? y then true else if x =? y then str_leb a' b' else false
  end.

Section KeySort.
  Context {A : Type} (key : A -> str).
  Definition kle (x y : A) : bool := str_leb (key x) (key y).
  (* insert x in front of the first element whose key is >= key x: with ksort folding from the right this is a stable sort *)
  Fixpoint kinsert (x : A) (l : list A) : list A :=
    match l with
    | [] => [x]
    | y :: l' => if kle x y then x :: l else y :: kinsert x l'
    end.
  Fixpoint ksort (l : list A) : list A :=
    match l with
    | [] => []
    | x :: l' => kinsert x (ksort l')
    end.
  (* no two elements of l have the same key *)
  Fixpoint keys_distinct (l : list A) : bool :=
    match l with
    | [] => true
    | x :: l' => negb (existsb (fun y => str_eqb (key x) (key y)) l') && keys_distinct l'
    end.
End KeySort.

Definition py_sorted (l : list str) : list str := ksort (fun s => s) l.
Definition jinja_sort (l : list str) : list str := ksort lower l.

(* what one loop site writes, given the order in which the set happened to enumerate its elements *)
Definition emit (sorted : bool) (order : list str) : list str := if sorted then jinja_sort order else order.

(* a rendering = the emissions of all sites, site i enumerating its set in the order enums[i] *)
Fixpoint render (sites : list bool) (enums : list (list str)) : list (list str) :=
  match sites, enums with
  | s :: ss, e :: es => emit s e :: render ss es
  | _, _ => []
  end.

(* ------------------------------------------------------------------ the regenerated table *)
Inductive effect := ENone (* loop body commutes: only set.add/update/del *) | EDiag (* only diagnostic text depends on the order *) | EOutput.
Record loop_site := { ls_file : str; ls_line : N; ls_iter : str; ls_sorted : bool; ls_known : bool; ls_effect : effect }.

Definition is_output (e : effect) : bool := match e with EOutput => true | _ => false end.
(* a site is safe when it sorts, or when it is a classified set iteration whose order cannot reach the generated files *)
Definition loop_ok (s : loop_site) : bool := ls_sorted s || (ls_known s && negb (is_output (ls_effect s))).

(* known finding lazy_unsorted: the lazy_imports loops of templates/model.py.jinja (identified by file + iterable) *)
Definition lazy_file : str := (* openapi_python_client/templates/model.py.jinja *)
  [111; 112; 101; 110; 97; 112; 105; 95; 112; 121; 116; 104; 111; 110; 95; 99; 108; 105; 101; 110; 116; 47; 116; 101; 109; 112; 108; 97; 116; 101; 115; 47; 109; 111; 100; 101; 108; 46; 112; 121; 46; 106; 105; 110; 106; 97].
Definition lazy_iters : list str :=
  [ (* model.lazy_imports *) [109; 111; 100; 101; 108; 46; 108; 97; 122; 121; 95; 105; 109; 112; 111; 114; 116; 115];
    (* model.additional_properties.lazy_imports *)
    [109; 111; 100; 101; 108; 46; 97; 100; 100; 105; 116; 105; 111; 110; 97; 108; 95; 112; 114; 111; 112; 101; 114; 116; 105; 101; 115; 46; 108; 97; 122; 121; 95; 105; 109; 112; 111; 114; 116; 115] ].
Definition is_lazy_site (s : loop_site) : bool := str_eqb (ls_file s) lazy_file && mem_str (ls_iter s) lazy_iters && ls_known s && is_output (ls_effect s).
Definition known_lazy_unsorted (s : loop_site) : bool := is_lazy_site s && negb (ls_sorted s).
(* known finding int_enum_twin_order: templates/int_enum.py.jinja iterates the name->value dict of an int enum in insertion order; the dict of
   the LAST same-named declaration wins in Schemas.classes_by_name (the compatibility check compares dicts, which ignores order) *)
Definition int_enum_file : str := (* openapi_python_client/templates/int_enum.py.jinja *)
  [111; 112; 101; 110; 97; 112; 105; 95; 112; 121; 116; 104; 111; 110; 95; 99; 108; 105; 101; 110; 116; 47; 116; 101; 109; 112; 108; 97; 116; 101; 115; 47; 105; 110; 116; 95; 101; 110; 117; 109; 46; 112; 121; 46; 106; 105; 110; 106; 97].
Definition int_enum_iters : list str := [ (* enum.values.items() *) [101; 110; 117; 109; 46; 118; 97; 108; 117; 101; 115; 46; 105; 116; 101; 109; 115; 40; 41] ].
Definition is_int_enum_site (s : loop_site) : bool := str_eqb (ls_file s) int_enum_file && mem_str (ls_iter s) int_enum_iters && ls_known s && is_output (ls_effect s).
Definition known_int_enum_unsorted (s : loop_site) : bool := is_int_enum_site s && negb (ls_sorted s).
Definition known_unsorted (s : loop_site) : bool := known_lazy_unsorted s || known_int_enum_unsorted s.
Definition loop_ok_or_known (s : loop_site) : bool := loop_ok s || known_unsorted s.
Definition int_enum_fixed (tbl : list loop_site) : bool := negb (existsb known_int_enum_unsorted tbl).
(* true once no listed known unsorted site is left *)
Definition known_fixed (tbl : list loop_site) : bool := negb (existsb known_unsorted tbl).
(* true once the fix (| sort on the lazy_imports loops) is in the tree *)
Definition lazy_fixed (tbl : list loop_site) : bool := negb (existsb known_lazy_unsorted tbl).
(* the sites that write into generated files, as the sorted-flags consumed by render *)
Definition output_sites (tbl : list loop_site) : list bool := map ls_sorted (filter (fun s => is_output (ls_effect s)) tbl).
Definition site_sorted (tbl : list loop_site) (file iter : str) (line : N) : option bool :=
  match filter (fun s => str_eqb (ls_file s) file && str_eqb (ls_iter s) iter && (ls_line s =? line)) tbl with
  | s :: _ => Some (ls_sorted s)
  | [] => None
  end.
Fixpoint list_str_eqb (a b : list str) : bool :=
  match a, b with
  | [], [] => true
  | x :: a', y :: b' => str_eqb x y && list_str_eqb a' b'
  | _, _ => false
  end.
