(* Graph.v -- the schema section of a document as a graph, and the machine that builds `Schemas` from it
   (parser/properties/__init__.py:313-417 _create_schemas / _propogate_removal / _process_model_errors / _process_models /
   build_schemas; schemas.py Schemas.add_dependencies, update_schemas_with_data; model_property.py ModelProperty.build,
   process_model; union.py / list_property.py / enum_property.py as far as they touch `Schemas`).
   Model file: definitions only, executable, stdlib only.

   Abstraction (harness/abstract_graph.py, checked by the correspondence of C08): every component schema is a NODE.  What
   property_from_data does with the node's schema, as far as `Schemas` is concerned, is flattened into a list of primitive
   INSTRUCTIONS, once for the create phase (n_create) and once per model class the node gives rise to (an ENTRY: the work
   process_model does later with the roots the ModelProperty carries).  References are outgoing EDGES; the edge KIND says where
   the reference sits, because the code resolves and RECORDS them differently:

     kind          resolved in        roots handed to Schemas.add_dependencies
     item          create             the component's own reference (ListProperty.build passes `roots` down)
     wrapper       create             the same (single-$ref allOf/anyOf/oneOf goes through _property_from_ref with `roots`)
     union_member  create             before commit 204aaa6: NONE (UnionProperty.build called property_from_data without `roots`);
                                      since the fix: the enclosing roots, like every other edge.  The abstraction reads from the
                                      code which of the two holds (abstract_graph.union_roots_recorded); the machine below is the same
     prop, addl    process_model      the model's roots (its reference and its class name, plus enclosing inline classes)
     allof         process_model      the same; the parent must already have been processed

   Everything that is not a reference or a class-name operation (defaults, enum values, items missing, ...) is the node's
   intrinsic validity: an `OFail` instruction at the position where property_from_data would return the error.

   State that survives a failed attempt: `dependencies` (the dict is shared by every `evolve`d copy of Schemas and mutated in
   place); everything else is the pre-step value (`schemas` is only rebound on success). *)
From Coq Require Import NArith List Bool.
Import ListNotations.
Open Scope N_scope.

Definition ref := N.   (* interned reference path /components/schemas/<name> *)
Definition cls := N.   (* interned class name (utils.ClassName) *)
Inductive root := RRef (r : ref) | RCls (c : cls).     (* element of a `roots` set / of a `dependencies` value *)
Definition root_eqb (a b : root) : bool :=
  match a, b with RRef x, RRef y => x =? y | RCls x, RCls y => x =? y | _, _ => false end.

Inductive ekind := EItem | EWrapper | EUnion | EProp | EAddl | EAllOf.
Definition ekind_eqb (a b : ekind) : bool :=
  match a, b with
  | EItem, EItem | EWrapper, EWrapper | EUnion, EUnion | EProp, EProp | EAddl, EAddl | EAllOf, EAllOf => true
  | _, _ => false
  end.
Inductive cinfo := CModel | CEnum (v : N).              (* what classes_by_name holds: a model, or an enum with value table v *)

(* error categories (the harness maps the implementation's error text to the same numbers) *)
Definition cat_intrinsic : N := 1.         (* anything property_from_data rejects by itself *)
Definition cat_ref_missing : N := 2.       (* Could not find reference in parsed models or enums *)
Definition cat_dup : N := 3.               (* Attempted to generate duplicate models with name *)
Definition cat_enum_conflict : N := 4.     (* Found conflicting enums named *)
Definition cat_allof_missing : N := 5.     (* Reference ... not found (allOf) *)
Definition cat_allof_nonobject : N := 6.   (* Cannot take allOf a non-object *)
Definition cat_allof_unprocessed : N := 7. (* Reference ... in allOf was not processed *)
Definition cat_recursive : N := 8.         (* ... + Recursive allOf reference found: final at once, never retried *)
Definition cat_reference_schema : N := 9.  (* Reference schemas are not supported. *)
Definition cat_union : N := 10.            (* Invalid property in union (UnionProperty.build replaces the member's error) *)

Inductive op :=
| OFail (cat : N)                                   (* intrinsic failure *)
| ONeed (k : ekind) (t : ref) (rs : list root) (nm : N) (recur : bool)
     (* _property_from_ref: target must be in classes_by_reference; add_dependencies(t, rs); nm: the name the copy gets
        (wrapper); recur: the $ref text ends with /<class being processed> (then _process_models calls a failure recursive) *)
| OAllOf (t : ref) (rs : list root) (recur : bool)  (* allOf $ref: target must be a processed model; add_dependencies(t, rs) *)
| ODep (r : ref) (c : cls)                          (* ModelProperty.build (processed inline): add_dependencies(r, {c}) *)
| OMintModel (c : cls) (q : option nat)             (* duplicate check, classes_by_name[c], models_to_process += entry q *)
| OMintEnum (c : cls) (v : N).                      (* conflicting-enum check, classes_by_name[c] *)
Record instr := mkI { i_op : op; i_ovr : N }.       (* i_ovr <> 0: the error category reported instead (union context) *)

Record entry := mkE { e_name : N; e_cls : cls; e_roots : list root; e_prog : list instr }.
Inductive top := TModel (e : nat) | TWrap (t : ref) | TOther.
Record node := mkN { n_ref : ref; n_isref : bool; n_top : top; n_create : list instr; n_entries : list entry }.
Definition graph := list node.

Inductive payload := PModel (e : entry) | POther.
Record qitem := mkQ { q_owner : option ref; q_name : N; q_entry : entry }.
Record st := mkSt {
  s_cbr : list (ref * payload);      (* classes_by_reference *)
  s_cbn : list (cls * cinfo);        (* classes_by_name *)
  s_deps : list (ref * root);        (* dependencies, as a relation; only ever extended *)
  s_queue : list qitem;              (* models_to_process *)
  s_done : list ref }.               (* references whose ModelProperty object has required_properties set *)
Definition st0 : st := mkSt [] [] [] [] [].

Fixpoint lookup {A : Type} (l : list (N * A)) (k : N) : option A :=
  match l with [] => None | (k', v) :: l' => if k' =? k then Some v else lookup l' k end.
Definition has {A : Type} (l : list (N * A)) (k : N) : bool := match lookup l k with Some _ => true | None => false end.
Definition del {A : Type} (k : N) (l : list (N * A)) : list (N * A) := filter (fun p => negb (fst p =? k)) l.
Definition mem (k : N) (l : list N) : bool := existsb (N.eqb k) l.
Definition mem_root (r : root) (l : list root) : bool := existsb (root_eqb r) l.

Definition add_deps (d : list (ref * root)) (t : ref) (rs : list root) : list (ref * root) := map (fun r => (t, r)) rs ++ d.
(* where an instruction list runs: inside update_schemas_with_data for a component (its reference, what the component is at
   top level, its entries), or inside process_model (no component: additions to models_to_process are not seen) *)
Record ctx := mkC { c_ref : ref; c_top : top; c_ents : list entry }.
Definition ctx_proc : ctx := mkC 0 TOther [].
Definition ctx_of (n : node) : ctx := mkC (n_ref n) (n_top n) (n_entries n).
Definition wrap_owner (cx : ctx) : option ref := match c_top cx with TWrap _ => Some (c_ref cx) | _ => None end.
Definition push_entry (cx : ctx) (q : option nat) : list qitem :=
  match q with
  | Some k => match nth_error (c_ents cx) k with
              | Some e => [mkQ (match c_top cx with TModel k' => if Nat.eqb k k' then Some (c_ref cx) else None | _ => None end) (e_name e) e]
              | None => []
              end
  | None => []
  end.

Definition exec_op (cx : ctx) (s : st) (o : op) : st * option N :=
  match o with
  | OFail c => (s, Some c)
  | ONeed k t rs nm recur =>
      match lookup (s_cbr s) t with
      | None => (s, Some (if recur then cat_recursive else cat_ref_missing))
      | Some pl =>
          let qs := match k, pl with EWrapper, PModel e => [mkQ (wrap_owner cx) nm e] | _, _ => [] end in
          (mkSt (s_cbr s) (s_cbn s) (add_deps (s_deps s) t rs) (s_queue s ++ qs) (s_done s), None)
      end
  | OAllOf t rs recur =>
      match lookup (s_cbr s) t with
      | None => (s, Some cat_allof_missing)
      | Some POther => (s, Some cat_allof_nonobject)
      | Some (PModel _) =>
          if mem t (s_done s) then (mkSt (s_cbr s) (s_cbn s) (add_deps (s_deps s) t rs) (s_queue s) (s_done s), None)
          else (s, Some (if recur then cat_recursive else cat_allof_unprocessed))
      end
  | ODep r c => (mkSt (s_cbr s) (s_cbn s) (add_deps (s_deps s) r [RCls c]) (s_queue s) (s_done s), None)
  | OMintModel c q =>
      if has (s_cbn s) c then (s, Some cat_dup)
      else (mkSt (s_cbr s) ((c, CModel) :: s_cbn s) (s_deps s) (s_queue s ++ push_entry cx q) (s_done s), None)
  | OMintEnum c v =>
      match lookup (s_cbn s) c with
      | None => (mkSt (s_cbr s) ((c, CEnum v) :: s_cbn s) (s_deps s) (s_queue s) (s_done s), None)
      | Some (CEnum v') => if v' =? v then (s, None) else (s, Some cat_enum_conflict)
      | Some CModel => (s, Some cat_enum_conflict)
      end
  end.

Fixpoint exec (cx : ctx) (s : st) (p : list instr) : st * option N :=
  match p with
  | [] => (s, None)
  | i :: p' =>
      match exec_op cx s (i_op i) with
      | (s', None) => exec cx s' p'
      | (s', Some c) => (s', Some (if (i_ovr i =? 0) || (c =? cat_recursive) then c else i_ovr i))
      end
  end.

(* a failed step leaves the pre-step Schemas, except for the shared `dependencies` dict *)
Definition revert (s0 s1 : st) : st := mkSt (s_cbr s0) (s_cbn s0) (s_deps s1) (s_queue s0) (s_done s0).

(* update_schemas_with_data for one component *)
Definition node_payload (n : node) (s1 : st) : payload :=
  match n_top n with
  | TModel e => match nth_error (n_entries n) e with Some en => PModel en | None => POther end
  | TWrap t => match lookup (s_cbr s1) t with Some pl => pl | None => POther end
  | TOther => POther
  end.
Definition create_try (s : st) (n : node) : st * option N :=
  match exec (ctx_of n) s (n_create n) with
  | (s1, Some c) => (revert s s1, Some c)
  | (s1, None) => (mkSt ((n_ref n, node_payload n s1) :: s_cbr s1) (s_cbn s1) (s_deps s1) (s_queue s1) (s_done s1), None)
  end.

(* process_model for one element of models_to_process (the list itself is a snapshot: additions are not seen) *)
Definition proc_try (s : st) (q : qitem) : st * option N :=
  match exec ctx_proc s (e_prog (q_entry q)) with
  | (s1, Some c) => (revert s s1, Some c)
  | (s1, None) => (mkSt (s_cbr s1) (s_cbn s1) (s_deps s1) (s_queue s)
                        (match q_owner q with Some r => r :: s_done s1 | None => s_done s1 end), None)
  end.

(* ---------------------------------------------------------------- the retry loops
   `while still_making_progress:` one pass over the pending list threading the state; failures are queued for the next round,
   errors are kept from the last round only.  `is_final c`: the error is recorded at once and the item is not retried. *)
Record rres (St It : Type) := mkR { r_st : St; r_retry : list (It * N); r_final : list (It * N); r_prog : bool }.
Arguments mkR {St It}. Arguments r_st {St It}. Arguments r_retry {St It}. Arguments r_final {St It}. Arguments r_prog {St It}.

Section Retry.
  Context {St It : Type}.
  Variable try : St -> It -> St * option N.
  Variable is_final : N -> bool.

  Fixpoint round (s : St) (todo : list It) : rres St It :=
    match todo with
    | [] => mkR s [] [] false
    | x :: t =>
        match try s x with
        | (s', None) => let r := round s' t in mkR (r_st r) (r_retry r) (r_final r) true
        | (s', Some c) =>
            let r := round s' t in
            if is_final c then mkR (r_st r) (r_retry r) ((x, c) :: r_final r) (r_prog r)
            else mkR (r_st r) ((x, c) :: r_retry r) (r_final r) (r_prog r)
        end
    end.

  Fixpoint loop (fuel : nat) (s : St) (todo : list It) (fin : list (It * N)) : rres St It :=
    match fuel with
    | O => mkR s [] fin false
    | S f =>
        let r := round s todo in
        if r_prog r then loop f (r_st r) (map fst (r_retry r)) (fin ++ r_final r)
        else mkR (r_st r) (r_retry r) (fin ++ r_final r) false
    end.

  (* the fuel the model gives the loop: number of pending items + 1 *)
  Definition run_loop (s : St) (todo : list It) : rres St It := loop (S (length todo)) s todo [].
End Retry.

(* ---------------------------------------------------------------- diagnostics *)
Record err := mkErr { er_create : bool; er_unit : N; er_cat : N; er_removed : list ref; er_roots : list root }.
(* er_roots: the roots of the ModelProperty that failed (not part of the diagnostic text; used by the guards) *)

(* ---------------------------------------------------------------- _create_schemas *)
Definition no_final (c : N) : bool := false.
Definition create_todo (g : graph) : list node := filter (fun n => negb (n_isref n)) g.
Definition ref_errs (g : graph) : list err :=
  map (fun n => mkErr true (n_ref n) cat_reference_schema [] []) (filter n_isref g).
Definition create_loop (g : graph) : rres st node := run_loop create_try no_final st0 (create_todo g).
Definition create_errs (g : graph) : list err :=
  ref_errs g ++ map (fun xc => mkErr true (n_ref (fst xc)) (snd xc) [] []) (r_retry (create_loop g)).

(* ---------------------------------------------------------------- _propogate_removal as a work list (depth first, deletes the
   reference before its dependants are visited, so every reference is expanded at most once) *)
Definition children (D : list (ref * root)) (r : ref) : list root := map snd (filter (fun p => fst p =? r) D).
Fixpoint remove_wl (fuel : nat) (D : list (ref * root)) (work : list root)
         (cbr : list (ref * payload)) (cbn : list (cls * cinfo)) (acc : list ref)
  : list (ref * payload) * list (cls * cinfo) * list ref :=
  match fuel with
  | O => (cbr, cbn, acc)
  | S f =>
      match work with
      | [] => (cbr, cbn, acc)
      | RCls c :: w => remove_wl f D w cbr (del c cbn) acc
      | RRef r :: w => if has cbr r then remove_wl f D (children D r ++ w) (del r cbr) cbn (acc ++ [r])
                       else remove_wl f D w cbr cbn acc
      end
  end.
Definition remove_fuel (D : list (ref * root)) (work : list root) (cbr : list (ref * payload)) : nat :=
  S (length work + length cbr * S (length D)).
Definition remove_roots (D : list (ref * root)) (work : list root) (cbr : list (ref * payload)) (cbn : list (cls * cinfo)) :=
  remove_wl (remove_fuel D work cbr) D work cbr cbn [].

(* _process_model_errors: the errors in order; each lists the references its own cascade deleted *)
Fixpoint model_errors (D : list (ref * root)) (mes : list (qitem * N)) (cbr : list (ref * payload)) (cbn : list (cls * cinfo))
  : list (ref * payload) * list (cls * cinfo) * list err :=
  match mes with
  | [] => (cbr, cbn, [])
  | (q, c) :: rest =>
      match remove_roots D (e_roots (q_entry q)) cbr cbn with
      | (cbr1, cbn1, acc) =>
          match model_errors D rest cbr1 cbn1 with
          | (cbr2, cbn2, es) => (cbr2, cbn2, mkErr false (q_name q) c acc (e_roots (q_entry q)) :: es)
          end
      end
  end.

(* ---------------------------------------------------------------- _process_models / build_schemas *)
Definition is_rec (c : N) : bool := c =? cat_recursive.
Definition process_loop (s : st) : rres st qitem := run_loop proc_try is_rec s (s_queue s).

Record result := mkRes {
  res_cbr : list (ref * payload); res_cbn : list (cls * cinfo); res_deps : list (ref * root); res_errs : list err;
  res_done : list ref }.

Definition build_schemas (g : graph) : result :=
  let cl := create_loop g in
  let pl := process_loop (r_st cl) in
  let s := r_st pl in
  match model_errors (s_deps s) (r_final pl ++ r_retry pl) (s_cbr s) (s_cbn s) with
  | (cbr, cbn, es) => mkRes cbr cbn (s_deps s) (create_errs g ++ es) (s_done s)
  end.

Definition survivors (g : graph) : list ref := map fst (res_cbr (build_schemas g)).
Definition classes (g : graph) : list cls := map fst (res_cbn (build_schemas g)).

(* ---------------------------------------------------------------- observation (stage B compares these with the implementation) *)
Definition subset (a b : list N) : bool := forallb (fun x => mem x b) a.
Definition same_set (a b : list N) : bool := subset a b && subset b a.
Definition err_eqb (e : err) (o : bool * (N * (N * list N))) : bool :=
  Bool.eqb (er_create e) (fst o) && (er_unit e =? fst (snd o)) && (er_cat e =? fst (snd (snd o)))
  && same_set (er_removed e) (snd (snd (snd o))).
Fixpoint errs_eqb (es : list err) (os : list (bool * (N * (N * list N)))) : bool :=
  match es, os with
  | [], [] => true
  | e :: es', o :: os' => err_eqb e o && errs_eqb es' os'
  | _, _ => false
  end.
Definition dep_code (p : ref * root) : N * (bool * N) := match snd p with RRef r => (fst p, (true, r)) | RCls c => (fst p, (false, c)) end.
Definition dep_mem (x : N * (bool * N)) (l : list (N * (bool * N))) : bool :=
  existsb (fun y => (fst x =? fst y) && Bool.eqb (fst (snd x)) (fst (snd y)) && (snd (snd x) =? snd (snd y))) l.
Definition deps_same (a b : list (N * (bool * N))) : bool :=
  forallb (fun x => dep_mem x b) a && forallb (fun x => dep_mem x a) b.
Definition graph_case (g : graph) (cbr : list N) (cbn : list N) (errs : list (bool * (N * (N * list N))))
           (deps : list (N * (bool * N))) : bool :=
  let r := build_schemas g in
  same_set (map fst (res_cbr r)) cbr && same_set (map fst (res_cbn r)) cbn && errs_eqb (res_errs r) errs
  && deps_same (map dep_code (res_deps r)) deps.

(* ---------------------------------------------------------------- edges and guards *)
Definition op_edge (o : op) : list (ekind * ref * list root) :=
  match o with
  | ONeed k t rs _ _ => [(k, t, rs)]
  | OAllOf t rs _ => [(EAllOf, t, rs)]
  | _ => []
  end.
Definition prog_edges (p : list instr) : list (ekind * ref * list root) := flat_map (fun i => op_edge (i_op i)) p.
Definition node_edges (n : node) : list (ekind * ref * list root) :=
  prog_edges (n_create n) ++ flat_map (fun e => prog_edges (e_prog e)) (n_entries n).
(* an edge of node n is RECORDED when the roots it hands to add_dependencies name the node itself *)
Definition recorded (n : node) (e : ekind * ref * list root) : bool := mem_root (RRef (n_ref n)) (snd e).

Definition is_rref (r : root) : bool := match r with RRef _ => true | RCls _ => false end.

(* g_no_union_edge_to_failing: every edge that is not recorded (the union_member rows of the table) points at a survivor,
   and every ModelProperty that failed processing carried a reference among its roots (inline objects inside a union do not) *)
Definition g_no_union_edge_to_failing (g : graph) : bool :=
  let r := build_schemas g in
  forallb (fun n => forallb (fun e => recorded n e || has (res_cbr r) (snd (fst e))) (node_edges n)) g
  && forallb (fun e => er_create e || existsb is_rref (er_roots e)) (res_errs r).

(* ---------------------------------------------------------------- well-formedness of an abstracted graph (facts about the
   abstraction function, evaluated on every abstracted graph by the harness): component names are distinct (a dict), every
   entry is queued by the create instructions of its node with its own class name, the only reference among the roots a node
   uses is the node itself *)
Fixpoint nodup_n (l : list N) : bool := match l with [] => true | x :: t => negb (mem x t) && nodup_n t end.
Definition pushes (p : list instr) (k : nat) (c : cls) : bool :=
  existsb (fun i => match i_op i with OMintModel c' (Some k') => Nat.eqb k k' && (c' =? c) | _ => false end) p.
Fixpoint entries_pushed (p : list instr) (k : nat) (es : list entry) : bool :=
  match es with [] => true | e :: es' => pushes p k (e_cls e) && entries_pushed p (S k) es' end.
Definition roots_self (r : ref) (rs : list root) : bool :=
  forallb (fun x => match x with RRef r' => r' =? r | RCls _ => true end) rs.
Definition op_self (r : ref) (o : op) : bool :=
  match o with
  | ONeed _ _ rs _ _ => roots_self r rs
  | OAllOf _ rs _ => roots_self r rs
  | ODep r' _ => r' =? r
  | _ => true
  end.
Definition prog_self (r : ref) (p : list instr) : bool := forallb (fun i => op_self r (i_op i)) p.
Definition wf_node (n : node) : bool :=
  entries_pushed (n_create n) 0 (n_entries n) && prog_self (n_ref n) (n_create n)
  && forallb (fun e => roots_self (n_ref n) (e_roots e) && prog_self (n_ref n) (e_prog e)) (n_entries n).
Definition wf_graph (g : graph) : bool := nodup_n (map n_ref g) && forallb wf_node g.

(* ---------------------------------------------------------------- g_no_name_pressure: the class names the instructions of
   different components mention (mint, use as a root, record as a dependant) are disjoint *)
Definition roots_cls (rs : list root) : list cls := flat_map (fun r => match r with RCls c => [c] | RRef _ => [] end) rs.
Definition op_cls (o : op) : list cls :=
  match o with
  | OFail _ => []
  | ONeed _ _ rs _ _ => roots_cls rs
  | OAllOf _ rs _ => roots_cls rs
  | ODep _ c => [c]
  | OMintModel c _ => [c]
  | OMintEnum c _ => [c]
  end.
Definition prog_cls (p : list instr) : list cls := flat_map (fun i => op_cls (i_op i)) p.
Definition entry_cls (e : entry) : list cls := e_cls e :: roots_cls (e_roots e) ++ prog_cls (e_prog e).
Definition node_cls (n : node) : list cls := prog_cls (n_create n) ++ flat_map entry_cls (n_entries n).
Fixpoint disjoint_all (ls : list (list N)) : bool :=
  match ls with
  | [] => true
  | l :: t => forallb (fun l' => forallb (fun x => negb (mem x l')) l) t && disjoint_all t
  end.
Definition g_no_name_pressure (g : graph) : bool := disjoint_all (map node_cls g).

Definition op_mints (o : op) : list cls := match o with OMintModel c _ => [c] | OMintEnum c _ => [c] | _ => [] end.
Definition prog_mints (p : list instr) : list cls := flat_map (fun i => op_mints (i_op i)) p.
Definition node_mints (n : node) : list cls := prog_mints (n_create n) ++ flat_map (fun e => prog_mints (e_prog e)) (n_entries n).

(* ---------------------------------------------------------------- guards of the containment theorem (GraphLfp.v) *)
(* every class-name operation reports its own category (it is not inside a union, whose error would hide it), and no instruction
   carries the "recursive" flag (a self allOf / a reference ending in the name of the class being processed) *)
Definition instr_plain (i : instr) : bool :=
  negb (i_ovr i =? cat_recursive) &&
  match i_op i with
  | OFail c => negb (c =? cat_recursive)
  | OMintModel _ _ | OMintEnum _ _ => i_ovr i =? 0
  | ONeed _ _ _ _ r => negb r
  | OAllOf _ _ r => negb r
  | _ => true
  end.
Definition all_progs (g : graph) : list (list instr) := flat_map (fun n => n_create n :: map e_prog (n_entries n)) g.
Definition g_plain (g : graph) : bool := forallb (forallb instr_plain) (all_progs g).
(* no duplicate-name / conflicting-enum diagnostic in the run *)
Definition g_no_dup_error (g : graph) : bool :=
  forallb (fun e => negb (er_cat e =? cat_dup) && negb (er_cat e =? cat_enum_conflict)) (res_errs (build_schemas g)).
Definition need_ts (p : list instr) : list ref := flat_map (fun i => match i_op i with ONeed _ t _ _ _ => [t] | _ => [] end) p.
Definition allof_ts (p : list instr) : list ref := flat_map (fun i => match i_op i with OAllOf t _ _ => [t] | _ => [] end) p.
Definition static_ok_c (p : list instr) : bool := forallb (fun i => match i_op i with OFail _ | OAllOf _ _ _ => false | _ => true end) p.
Definition static_ok_p (p : list instr) : bool := forallb (fun i => match i_op i with OFail _ => false | _ => true end) p.
Fixpoint find_node (g : graph) (r : ref) : option node :=
  match g with [] => None | n :: g' => if n_ref n =? r then Some n else find_node g' r end.
Definition is_twrap (n : node) : bool := match n_top n with TWrap _ => true | _ => false end.
(* no allOf parent is itself a single-reference wrapper component *)
Definition g_allof_direct (g : graph) : bool :=
  forallb (forallb (fun i => match i_op i with
                             | OAllOf t _ _ => match find_node g t with Some m => negb (is_twrap m) | None => true end
                             | _ => true end)) (all_progs g).
Definition g_contain (g : graph) : bool :=
  wf_graph g && g_plain g && g_allof_direct g && g_no_dup_error g && g_no_union_edge_to_failing g.
