(* NormThm.v — C17: notational variants of a schema normalise to the same property tree (proofs about Norm.v). *)
From Coq Require Import NArith ZArith List Bool Lia.
Import ListNotations.
Require Import OPC.gen.GenTables OPC.Uni OPC.Names OPC.PyLit OPC.Values OPC.Enums OPC.Norm.
Open Scope N_scope.

(* ------------------------------------------------------------------ small facts *)
Lemma mem_null_app : forall l, mem_jty JTNull (l ++ [JTNull]) = true.
Proof.
  induction l as [|x l IH]; [reflexivity|].
  unfold mem_jty in *. cbn [app existsb]. rewrite IH. apply orb_true_r.
Qed.

Lemma pre_null : pre null_sch = null_sch.
Proof. reflexivity. Qed.

Lemma build_null : forall c e p n, build c e p null_sch n = k_null n.
Proof. reflexivity. Qed.

(* the nullable flag of the outermost schema object is not looked at by the builder *)
Lemma build_flag : forall c e p ty nl nl' en any one all items pfx fmt d o,
  build c e p (SSch ty nl en any one all items pfx fmt d o) = build c e p (SSch ty nl' en any one all items pfx fmt d o).
Proof. reflexivity. Qed.

Lemma build_ssch : forall c e p ty nl en any one all items pfx fmt d o,
  build c e p (SSch ty nl en any one all items pfx fmt d o)
  = node_plain c e p ty en any one all (map (build c e p) any) (map (build c e p) one)
               (option_map (build_g c e p) items) (map (build_g c e p) pfx) fmt d o.
Proof. reflexivity. Qed.

(* ------------------------------------------------------------------ T1: 3.0 nullable vs 3.1 type list *)
Theorem nullable_forms_equal : forall c e parent top t en any one all items pfx fmt d o name,
  norm c e parent top (SSch (TyOne t) true en any one all items pfx fmt d o) name
  = norm c e parent top (SSch (TyList [t; JTNull]) false en any one all items pfx fmt d o) name.
Proof.
  intros. unfold norm, pre_at. destruct top; cbn [pre hn_again hn negb].
  - unfold hn. cbn [negb]. replace (mem_jty JTNull [t; JTNull]) with true by (destruct t; reflexivity). reflexivity.
  - reflexivity.
Qed.

Definition add_null (l : list jty) : list jty := if mem_jty JTNull l then l else l ++ [JTNull].

Theorem nullable_typelist_equal : forall c e parent top l en any one all items pfx fmt d o name,
  norm c e parent top (SSch (TyList l) true en any one all items pfx fmt d o) name
  = norm c e parent top (SSch (TyList (add_null l)) false en any one all items pfx fmt d o) name.
Proof.
  intros. unfold norm, pre_at, add_null. destruct top; cbn [pre hn_again hn negb].
  - unfold hn. cbn [negb]. destruct (mem_jty JTNull l) eqn:E.
    + rewrite E. reflexivity.
    + rewrite mem_null_app. reflexivity.
  - reflexivity.
Qed.

(* ------------------------------------------------------------------ T2: nullable union == explicit null member(s) *)
(* how many null members the validators add: one for a nested schema, two where the validators run twice *)
Definition nulls (top : bool) : list sch := if top then [null_sch; null_sch] else [null_sch].

Lemma map_pre_nulls : forall top, map pre (nulls top) = nulls top.
Proof. destruct top; reflexivity. Qed.

Theorem nullable_oneof_equal : forall c e parent top en any one all items pfx fmt d o name,
  one <> [] ->
  norm c e parent top (SSch TyAbsent true en any one all items pfx fmt d o) name
  = norm c e parent top (SSch TyAbsent false en any (one ++ nulls top) all items pfx fmt d o) name.
Proof.
  intros c e parent top en any one all items pfx fmt d o name Hne.
  unfold norm, pre_at. destruct one as [|o1 one']; [congruence|].
  destruct top; cbn [pre hn_again hn negb map app nulls].
  - rewrite map_app. cbn [map]. rewrite pre_null.
    rewrite <- app_assoc. cbn [app]. reflexivity.
  - rewrite map_app. cbn [map]. rewrite pre_null. reflexivity.
Qed.

Theorem nullable_anyof_equal : forall c e parent top en any all items pfx fmt d o name,
  any <> [] ->
  norm c e parent top (SSch TyAbsent true en any [] all items pfx fmt d o) name
  = norm c e parent top (SSch TyAbsent false en (any ++ nulls top) [] all items pfx fmt d o) name.
Proof.
  intros c e parent top en any all items pfx fmt d o name Hne.
  unfold norm, pre_at. destruct any as [|a1 any']; [congruence|].
  destruct top; cbn [pre hn_again hn negb map app nulls].
  - rewrite map_app. cbn [map]. rewrite pre_null.
    rewrite <- app_assoc. cbn [app]. reflexivity.
  - rewrite map_app. cbn [map]. rewrite pre_null. reflexivity.
Qed.

(* nullable allOf: oneOf [null, {allOf}] — null FIRST (and a second null after it where the validators run twice) *)
Theorem nullable_allof_equal : forall c e parent top en all items pfx fmt d o name,
  all <> [] ->
  norm c e parent top (SSch TyAbsent true en [] [] all items pfx fmt d o) name
  = norm c e parent top
      (SSch TyAbsent false en [] ([null_sch; SSch TyAbsent false [] [] [] all None [] None None o_none] ++ (if top then [null_sch] else []))
            [] items pfx fmt d o) name.
Proof.
  intros c e parent top en all items pfx fmt d o name Hne.
  unfold norm, pre_at. destruct all as [|a1 all']; [congruence|].
  destruct top; cbn [pre hn_again hn negb map app option_map]; reflexivity.
Qed.

(* where the validators run twice the single explicit null member is NOT what the code produces (tree level: one more None
   member; no generated byte depends on it in any probe) *)
Definition cfg0 : cfg := {| literal_enums := false; field_prefix := [102;105;101;108;100;95] |}.
Definition s_str : sch := SSch (TyOne JString) false [] [] [] [] None [] None None o_none.

Theorem nullable_union_top_refuted :
  exists name,
    norm cfg0 (envl []) [] true (SSch TyAbsent true [] [] [s_str] [] None [] None None o_none) name
    <> norm cfg0 (envl []) [] true (SSch TyAbsent false [] [] [s_str; null_sch] [] None [] None None o_none) name.
Proof. exists [112]. vm_compute. discriminate. Qed.

(* ------------------------------------------------------------------ T3: 3.1 type list == anyOf of the single types *)
Lemma single_not_ref : forall (f : jty -> sch) l,
  (forall t, exists ty nl en a o al it px fm d ot, f t = SSch ty nl en a o al it px fm d ot) ->
  forall (A : Type) (x : str -> A) (y : A),
  match [] ++ map f l ++ [] with [SRef r] => x r | _ => y end = y.
Proof.
  intros f l Hf A x y. cbn [app]. rewrite app_nil_r.
  destruct l as [|t l']; [reflexivity|]. cbn [map].
  destruct (Hf t) as (ty & nl & en & a & o & al & it & px & fm & d & ot & E). rewrite E.
  destruct (map f l'); reflexivity.
Qed.

Lemma dispatch_list : forall c p l tk ka ko ha ki kp fmt d o name,
  dispatch c p (TyList l) None tk ka ko ha ki kp fmt d o name = union_build name (ka ++ ko ++ tk) d.
Proof.
  intros. unfold dispatch. cbn [ty_is ty_is_list]. rewrite orb_true_r. reflexivity.
Qed.

Lemma dispatch_union_any : forall c p tk ka ko ha ki kp fmt d o name,
  ka <> [] -> dispatch c p TyAbsent None tk ka ko ha ki kp fmt d o name = union_build name (ka ++ ko ++ tk) d.
Proof.
  intros c p tk ka ko ha ki kp fmt d o name H. unfold dispatch. cbn [ty_is ty_is_list].
  destruct ka; [congruence|]. reflexivity.
Qed.

Lemma dispatch_union_one : forall c p ty tk ka ko ha ki kp fmt d o name,
  ty_is ty JBoolean = false -> ko <> [] -> dispatch c p ty None tk ka ko ha ki kp fmt d o name = union_build name (ka ++ ko ++ tk) d.
Proof.
  intros c p ty tk ka ko ha ki kp fmt d o name HB H. unfold dispatch. rewrite HB.
  destruct ko; [congruence|]. cbn [nonempty]. rewrite orb_true_r. reflexivity.
Qed.

Theorem typelist_anyof_equal : forall c e parent top l items pfx fmt d o o' name,
  l <> [] ->
  norm c e parent top (SSch (TyList l) false [] [] [] [] items pfx fmt d o) name
  = norm c e parent top
      (SSch TyAbsent false [] (map (fun t => SSch (TyOne t) false [] [] [] [] items pfx fmt None o) l) [] [] None [] None d o') name.
Proof.
  intros c e parent top l items pfx fmt d o o' name Hne.
  assert (Hpre : forall s, pre_at top s = pre s \/ True) by (intros; right; exact I).
  unfold norm.
  assert (E1 : pre_at top (SSch (TyList l) false [] [] [] [] items pfx fmt d o) = SSch (TyList l) false [] [] [] [] (option_map pre items) (map pre pfx) fmt d o)
    by (destruct top; reflexivity).
  assert (E2 : pre_at top (SSch TyAbsent false [] (map (fun t => SSch (TyOne t) false [] [] [] [] items pfx fmt None o) l) [] [] None [] None d o')
             = SSch TyAbsent false [] (map (fun t => SSch (TyOne t) false [] [] [] [] (option_map pre items) (map pre pfx) fmt None o) l) [] [] None [] None d o').
  { assert (M : map pre (map (fun t => SSch (TyOne t) false [] [] [] [] items pfx fmt None o) l)
              = map (fun t => SSch (TyOne t) false [] [] [] [] (option_map pre items) (map pre pfx) fmt None o) l).
    { rewrite map_map. apply map_ext. intro t. reflexivity. }
    destruct top; unfold pre_at; cbn [pre hn_again hn negb map option_map]; rewrite M; reflexivity. }
  rewrite E1, E2. clear E1 E2 Hpre.
  rewrite !build_ssch. unfold node_plain. cbn [app map option_map nonempty].
  rewrite (single_not_ref (fun t => SSch (TyOne t) false [] [] [] [] (option_map pre items) (map pre pfx) fmt None o) l).
  2:{ intro t. repeat eexists. }
  unfold pfd. cbn [type_copies map].
  rewrite dispatch_list. rewrite dispatch_union_any.
  2:{ destruct l; [congruence|discriminate]. }
  cbn [app]. rewrite app_nil_r.
  rewrite (map_map (fun t => SSch (TyOne t) false [] [] [] [] (option_map pre items) (map pre pfx) fmt None o) (build c e parent)).
  reflexivity.
Qed.

(* ------------------------------------------------------------------ T4: enum containing null == explicit union [null, enum of the rest] *)
Definition nonnull (en : list jval) : list jval := filter (fun j => negb (is_null j)) en.

Lemma filter_idem : forall (A : Type) (f : A -> bool) l, filter f (filter f l) = filter f l.
Proof.
  induction l as [|x l IH]; [reflexivity|]. cbn [filter]. destruct (f x) eqn:E; [|exact IH].
  cbn [filter]. rewrite E, IH. reflexivity.
Qed.

Lemma enum_build_rest : forall en vt vals, enum_build en = BNullable vt vals -> enum_build (nonnull en) = BPlain vt vals.
Proof.
  intros en vt vals H. unfold enum_build, nonnull in *. rewrite filter_idem.
  destruct (filter (fun j => negb (is_null j)) en) as [|j0 nn] eqn:E; [discriminate|].
  destruct (negb (forallb (fun j => tag_eqb (tag_of j) (tag_of j0)) (j0 :: nn))); [discriminate|].
  assert (L : (length (j0 :: nn) <? length (j0 :: nn))%nat = false) by apply Nat.ltb_irrefl.
  rewrite L.
  destruct (all_ints (j0 :: nn)) as [vi|].
  - destruct (length (j0 :: nn) <? length en)%nat; congruence.
  - destruct (all_strs (j0 :: nn)) as [vs|]; [|discriminate].
    destruct (length (j0 :: nn) <? length en)%nat; congruence.
Qed.

Lemma enum_build_nonempty : forall en vt vals, enum_build en = BNullable vt vals -> en <> [].
Proof. intros en vt vals H E. subst en. discriminate H. Qed.
Lemma enum_build_plain_nonempty : forall en vt vals, enum_build en = BPlain vt vals -> en <> [].
Proof. intros en vt vals H E. subst en. discriminate H. Qed.

Lemma pre_at_plain : forall top ty nl en items pfx fmt d o,
  g_enum_null ty nl = true ->
  pre_at top (SSch ty nl en [] [] [] items pfx fmt d o) = SSch ty nl en [] [] [] (option_map pre items) (map pre pfx) fmt d o.
Proof.
  intros top ty nl en items pfx fmt d o G. unfold g_enum_null in G.
  destruct ty as [|t|l]; [| |discriminate].
  - destruct top, nl; reflexivity.
  - destruct nl; [discriminate|]. destruct top; reflexivity.
Qed.

Lemma guard_not_bool : forall ty nl, g_enum_null ty nl = true -> ty_is ty JBoolean = false.
Proof.
  intros ty nl G. unfold g_enum_null in G. destruct ty as [|t|l]; try reflexivity.
  destruct nl; [discriminate|]. cbn [negb andb] in G. cbn [ty_is]. destruct t; try reflexivity; discriminate.
Qed.

Lemma guard_no_copies : forall c p ty nl ka ko ha ki kp fmt o, g_enum_null ty nl = true -> type_copies c p ty ka ko ha ki kp fmt o = [].
Proof. intros. destruct ty; try reflexivity. discriminate. Qed.

Lemma build_plain_enum : forall c e p ty nl en vt vals items pfx fmt d o n,
  g_enum_null ty nl = true -> enum_build en = BPlain vt vals ->
  build c e p (SSch ty nl en [] [] [] items pfx fmt d o) n = enum_direct c p vt vals d o n.
Proof.
  intros c e p ty nl en vt vals items pfx fmt d o n G H.
  pose proof (enum_build_plain_nonempty _ _ _ H) as NE.
  unfold build; cbn [build_g node node_plain andb app map]. unfold pfd. destruct en as [|j0 en']; [congruence|].
  unfold dispatch. rewrite (guard_not_bool _ _ G). unfold enum_branch. rewrite H. reflexivity.
Qed.

Lemma build_null_enum : forall c e p ty nl en vt vals items pfx fmt d o n,
  g_enum_null ty nl = true -> enum_build en = BNullable vt vals ->
  build c e p (SSch ty nl en [] [] [] items pfx fmt d o) n = union_build n [k_null; enum_direct c p vt vals d o] d.
Proof.
  intros c e p ty nl en vt vals items pfx fmt d o n G H.
  pose proof (enum_build_nonempty _ _ _ H) as NE.
  unfold build; cbn [build_g node node_plain andb app map]. unfold pfd. destruct en as [|j0 en']; [congruence|].
  unfold dispatch. rewrite (guard_not_bool _ _ G). unfold enum_branch. rewrite H.
  rewrite (guard_no_copies c p ty nl _ _ _ _ _ _ _ G). reflexivity.
Qed.

Lemma build_explicit_pair : forall c e p s2 d o' n,
  build c e p (SSch TyAbsent false [] [] [null_sch; s2] [] None [] None d o') n
  = union_build n [k_null; build c e p s2] d.
Proof.
  intros. unfold build; cbn [build_g node node_plain andb app map null_sch]. unfold pfd. cbn [type_copies].
  rewrite dispatch_union_one; [|reflexivity|discriminate]. reflexivity.
Qed.

Theorem enum_null_equal : forall c e parent top ty nl en vt vals items pfx fmt d o o' name,
  g_enum_null ty nl = true ->
  enum_build en = BNullable vt vals ->
  norm c e parent top (SSch ty nl en [] [] [] items pfx fmt d o) name
  = norm c e parent top
      (SSch TyAbsent false [] [] [null_sch; SSch ty nl (nonnull en) [] [] [] items pfx fmt d o] [] None [] None d o') name.
Proof.
  intros c e parent top ty nl en vt vals items pfx fmt d o o' name G HB.
  pose proof (enum_build_rest _ _ _ HB) as HR.
  unfold norm. rewrite (pre_at_plain top ty nl en items pfx fmt d o G).
  assert (E2 : pre_at top (SSch TyAbsent false [] [] [null_sch; SSch ty nl (nonnull en) [] [] [] items pfx fmt d o] [] None [] None d o')
             = SSch TyAbsent false [] [] [null_sch; SSch ty nl (nonnull en) [] [] [] (option_map pre items) (map pre pfx) fmt d o] [] None [] None d o').
  { pose proof (pre_at_plain false ty nl (nonnull en) items pfx fmt d o G) as P. unfold pre_at in P.
    destruct top; unfold pre_at; cbn [pre hn_again hn negb map option_map]; rewrite pre_null;
      change (hn ty nl (nonnull en) [] [] [] (option_map pre items) (map pre pfx) fmt d o) with (pre (SSch ty nl (nonnull en) [] [] [] items pfx fmt d o));
      rewrite P; reflexivity. }
  rewrite E2. clear E2.
  rewrite (build_null_enum c e parent ty nl en vt vals _ _ fmt d o name G HB).
  rewrite build_explicit_pair.
  unfold union_build. cbn [build_members].
  rewrite (build_plain_enum c e parent ty nl (nonnull en) vt vals _ _ fmt d o _ G HR).
  reflexivity.
Qed.

(* inside a type list (also: a typed schema with nullable: true) the rewrite is expanded once more per listed type:
   three enum classes instead of one *)
Definition s_a : jval := JStr [97].
Theorem enum_null_typelist_refuted :
  exists ty nl en name,
    g_enum_null ty nl = false /\
    norm cfg0 (envl []) [72] false (SSch ty nl en [] [] [] None [] None None o_none) name
    <> norm cfg0 (envl []) [72] false
         (SSch TyAbsent false [] [] [null_sch; SSch ty nl (nonnull en) [] [] [] None [] None None o_none] [] None [] None None o_none) name.
Proof.
  exists (TyOne JString), true, [s_a; JNull], [112]. split; [reflexivity|]. vm_compute. discriminate.
Qed.

(* what the type-list form does produce: the union of null, the enum, and for every listed type one more [null, enum] pair *)
Example enum_null_typelist_shape :
  norm cfg0 (envl []) [72] false (SSch (TyOne JString) true [s_a; JNull] [] [] [] None [] None None o_none) [112]
  = TUnion [112]
      [TLeaf LNone [112;95;116;121;112;101;95;48] None;
       TEnum false [112;95;116;121;112;101;95;49] [72;80;84;121;112;101;49] VStr [EStr [97]] None;
       TLeaf LNone [112;95;116;121;112;101;95;50;95;116;121;112;101;95;48] None;
       TEnum false [112;95;116;121;112;101;95;50;95;116;121;112;101;95;49] [72;80;84;121;112;101;50;84;121;112;101;49] VStr [EStr [97]] None;
       TLeaf LNone [112;95;116;121;112;101;95;51;95;116;121;112;101;95;48] None;
       TEnum false [112;95;116;121;112;101;95;51;95;116;121;112;101;95;49] [72;80;84;121;112;101;51;84;121;112;101;49] VStr [EStr [97]] None]
      None.
Proof. vm_compute. reflexivity. Qed.

Example enum_null_guard_nontrivial :
  g_enum_null (TyOne JString) false = true /\ enum_build [s_a; JNull; JStr [98]] = BNullable VStr [EStr [97]; EStr [98]].
Proof. split; reflexivity. Qed.

(* ------------------------------------------------------------------ T5: single-reference wrapper == bare reference *)
Inductive wkind := WAllOf | WOneOf | WAnyOf.
Definition wrapper (k : wkind) (r : str) (ty : tyspec) (nl : bool) (en : list jval) (items : option sch) (pfx : list sch) (fmt : option str)
                   (d : option jval) (o : other) : sch :=
  match k with
  | WAllOf => SSch ty nl en [] [] [SRef r] items pfx fmt d o
  | WOneOf => SSch ty nl en [] [SRef r] [] items pfx fmt d o
  | WAnyOf => SSch ty nl en [SRef r] [] [] items pfx fmt d o
  end.

(* the wrapper with its own default: the existing class renamed, the default re-validated against it *)
Theorem wrapper_exact : forall c e parent top k r ty nl en items pfx fmt d o name,
  g_wrapper ty nl None = true ->
  norm c e parent top (wrapper k r ty nl en items pfx fmt d o) name = ref_build e r name d.
Proof.
  intros c e parent top k r ty nl en items pfx fmt d o name G. unfold g_wrapper in G.
  unfold norm, pre_at.
  destruct k, ty as [|t|l], nl, top; try discriminate G; reflexivity.
Qed.

Theorem single_ref_wrapper : forall c e parent top k r ty nl en items pfx fmt d o name,
  g_wrapper ty nl d = true ->
  norm c e parent top (wrapper k r ty nl en items pfx fmt d o) name = norm c e parent top (SRef r) name.
Proof.
  intros c e parent top k r ty nl en items pfx fmt d o name G.
  assert (d = None) by (unfold g_wrapper in G; destruct d; [discriminate|reflexivity]). subst d.
  rewrite (wrapper_exact c e parent top k r ty nl en items pfx fmt None o name G).
  unfold norm, pre_at. destruct top; reflexivity.
Qed.

(* the referenced schema's OWN default never reaches the referring property: it carries the referring schema's default or none *)
Theorem from_ref_default_from_parent : forall t name d,
  tree_default (from_ref t name d) = d \/ tree_default (from_ref t name d) = None.
Proof.
  intros t name d. destruct t as [|k n d0|lit n cls vt vals d0|n i|n ms d0|n cls]; destruct d as [v|]; cbn [from_ref tree_default]; auto.
  - destruct k; cbn [tree_default]; auto. destruct (jval_eqb v (JStr s_None)); cbn [tree_default]; auto.
  - destruct k; cbn [tree_default]; auto.
  - destruct (enum_default_ok lit cls vt vals v); cbn [tree_default]; auto.
Qed.

Theorem ref_target_default_dropped : forall c e parent top r name,
  tree_default (norm c e parent top (SRef r) name) = None.
Proof.
  intros. replace (norm c e parent top (SRef r) name) with (ref_build e r name None) by (unfold norm, pre_at; destruct top; reflexivity).
  unfold ref_build. destruct (e r) as [t|]; [|reflexivity].
  destruct (from_ref_default_from_parent t name None) as [H|H]; exact H.
Qed.

Theorem wrapper_target_default_dropped : forall c e parent top k r ty nl en items pfx fmt o name,
  g_wrapper ty nl None = true ->
  tree_default (norm c e parent top (wrapper k r ty nl en items pfx fmt None o) name) = None.
Proof.
  intros c e parent top k r ty nl en items pfx fmt o name G.
  rewrite (single_ref_wrapper c e parent top k r ty nl en items pfx fmt None o name G). apply ref_target_default_dropped.
Qed.

(* non-vacuity: the referenced enum has its own default, reference and wrapper carry none, a wrapper default replaces it *)
Example target_default_example :
  let e := envl [([67], TEnum false [67] [67] VStr [EStr [103]; EStr [114]] (Some (JStr [103])))] in
  norm cfg0 e [] false (SRef [67]) [112] = TEnum false [112] [67] VStr [EStr [103]; EStr [114]] None /\
  norm cfg0 e [] false (wrapper WOneOf [67] TyAbsent false [] None [] None None o_none) [112] = TEnum false [112] [67] VStr [EStr [103]; EStr [114]] None /\
  norm cfg0 e [] false (wrapper WOneOf [67] TyAbsent false [] None [] None (Some (JStr [114])) o_none) [112]
    = TEnum false [112] [67] VStr [EStr [103]; EStr [114]] (Some (JStr [114])).
Proof. repeat split; vm_compute; reflexivity. Qed.

(* a default on the wrapper is re-validated against the referenced class: a model reference makes the property an error *)
Theorem wrapper_default_refuted :
  exists e k r d name,
    g_wrapper TyAbsent false (Some d) = false /\
    norm cfg0 e [] false (wrapper k r TyAbsent false [] None [] None (Some d) o_none) name = TErr /\
    norm cfg0 e [] false (SRef r) name = TModel name [82].
Proof.
  exists (envl [([82], TModel [82] [82])]), WAllOf, [82], (JStr [120]), [112].
  split; [reflexivity|]. split; vm_compute; reflexivity.
Qed.

(* nullable on an untyped wrapper makes it a union: null LAST for oneOf/anyOf, null FIRST for allOf *)
Theorem wrapper_nullable_refuted :
  exists e r name,
    g_wrapper TyAbsent true None = false /\
    norm cfg0 e [] false (wrapper WOneOf r TyAbsent true [] None [] None None o_none) name
      = TUnion name [TModel (sub_name name 0) [82]; TLeaf LNone (sub_name name 1) None] None /\
    norm cfg0 e [] false (wrapper WAllOf r TyAbsent true [] None [] None None o_none) name
      = TUnion name [TLeaf LNone (sub_name name 0) None; TModel (sub_name name 1) [82]] None.
Proof.
  exists (envl [([82], TModel [82] [82])]), [82], [112].
  split; [reflexivity|]. split; vm_compute; reflexivity.
Qed.

(* the equivalence is not a congruence under an enclosing one-member composition: the passthrough test is syntactic *)
Theorem wrapper_not_congruent_refuted :
  exists e r name,
    norm cfg0 e [] false (SSch TyAbsent false [] [wrapper WAllOf r TyAbsent false [] None [] None None o_none] [] [] None [] None None o_none) name
      = TUnion name [TModel (sub_name name 0) [82]] None /\
    norm cfg0 e [] false (SSch TyAbsent false [] [SRef r] [] [] None [] None None o_none) name = TModel name [82].
Proof.
  exists (envl [([82], TModel [82] [82])]), [82], [112]. split; vm_compute; reflexivity.
Qed.

Example wrapper_guard_nontrivial :
  g_wrapper (TyOne JObject) true None = true /\
  norm cfg0 (envl [([82], TModel [82] [82])]) [] true
       (wrapper WAnyOf [82] (TyOne JObject) true [] None [] None None {| o_const := false; o_props := true; o_title := Some [84]; o_extra := true |}) [112]
  = TModel [112] [82].
Proof. split; vm_compute; reflexivity. Qed.

(* ------------------------------------------------------------------ exclusiveMinimum / exclusiveMaximum *)
Theorem excl_bool_numeric_equal : forall m, hx {| b_lim := Some m; b_excl := XBool true |} = hx {| b_lim := None; b_excl := XNum m |}.
Proof. reflexivity. Qed.

Theorem hx_idempotent : forall b, hx (hx b) = hx b.
Proof. intros [[m|] [|[|]|x]]; reflexivity. Qed.

(* ------------------------------------------------------------------ loader *)
Lemma str_eqb_eq : forall a b, str_eqb a b = true <-> a = b.
Proof.
  induction a as [|x a IH]; destruct b as [|y b]; cbn [str_eqb]; split; intro H; try reflexivity; try discriminate.
  - apply andb_true_iff in H. destruct H as [H1 H2]. apply N.eqb_eq in H1. apply IH in H2. congruence.
  - inversion H; subst. rewrite N.eqb_refl. cbn. apply IH. reflexivity.
Qed.

(* JSON parser iff the content type is exactly application/json, YAML otherwise *)
Theorem parser_choice : forall ct, choose_parser ct = PJson <-> ct = Some s_app_json.
Proof.
  intros [ct|]; unfold choose_parser; split; intro H; try discriminate.
  - destruct (str_eqb ct s_app_json) eqn:E; [|discriminate]. apply str_eqb_eq in E. congruence.
  - inversion H; subst. replace (str_eqb s_app_json s_app_json) with true by (symmetry; apply str_eqb_eq; reflexivity). reflexivity.
Qed.

(* every source reaches the same loader with (its bytes, its content type) *)
Theorem loader_dispatch : forall (V : Type) (pj py : list N -> option V) (s : source),
  match s with
  | SFile content _ => get_document pj py s = load_yaml_or_json pj py content (content_type_of s)
  | SUrl (Some r) _ => get_document pj py s = load_yaml_or_json pj py (r_content r) (content_type_of s)
  | SUrl None _ => get_document pj py s = LFetchError
  end.
Proof. intros V pj py [content g|[r|] g]; reflexivity. Qed.

(* same bytes + same content type => same result, whichever way they arrived *)
Theorem file_url_same : forall (V : Type) (pj py : list N -> option V) content g h g',
  before_semi h = g ->
  get_document pj py (SFile content (Some g)) = get_document pj py (SUrl (Some {| r_content := content; r_ctype := Some h |}) g').
Proof. intros V pj py content g h g' H. cbn. rewrite H. reflexivity. Qed.

Theorem url_without_header_same : forall (V : Type) (pj py : list N -> option V) content g,
  get_document pj py (SFile content g) = get_document pj py (SUrl (Some {| r_content := content; r_ctype := None |}) g).
Proof. reflexivity. Qed.

Theorem json_parser_iff : forall (V : Type) (pj py : list N -> option V) data ct,
  (ct = Some s_app_json -> load_yaml_or_json pj py data ct = match pj data with Some v => LDoc v | None => LParseError PJson end) /\
  (ct <> Some s_app_json -> load_yaml_or_json pj py data ct = match py data with Some v => LDoc v | None => LParseError PYaml end).
Proof.
  intros V pj py data ct. split; intro H; unfold load_yaml_or_json.
  - apply parser_choice in H. rewrite H. reflexivity.
  - destruct (choose_parser ct) eqn:E; [apply parser_choice in E; contradiction|reflexivity].
Qed.

(* the comparison is exact: parameters are cut at the first semicolon, but case and surrounding blanks are not normalised *)
Example ctype_params_cut :
  content_type_of (SUrl (Some {| r_content := []; r_ctype := Some (s_app_json ++ [59;32;99;104;97;114;115;101;116;61;117;116;102;45;56]) |}) None) = Some s_app_json.
Proof. reflexivity. Qed.
Example ctype_case_sensitive :
  choose_parser (content_type_of (SUrl (Some {| r_content := []; r_ctype := Some [65;112;112;108;105;99;97;116;105;111;110;47;74;83;79;78] |}) None)) = PYaml
  /\ choose_parser (content_type_of (SUrl (Some {| r_content := []; r_ctype := Some (s_app_json ++ [32;59;32;99;104;97;114;115;101;116;61;117;116;102;45;56]) |}) None)) = PYaml.
Proof. split; reflexivity. Qed.

(* ------------------------------------------------------------------ congruence: sub-schemas that build the same trees are interchangeable
   (tuple arrays: prefixItems members and items; union members).  The builder never compares two sub-schemas with each other:
   no member is dropped or merged, whatever notation its siblings are written in. *)
Definition kid_eq (k k' : kid) : Prop := forall n, k n = k' n.
Definition akid_eq (k k' : akid) : Prop := forall b n, k b n = k' b n.
Definition oakid_eq (k k' : option akid) : Prop :=
  match k, k' with None, None => True | Some a, Some b => akid_eq a b | _, _ => False end.

Lemma kids_refl : forall ks, Forall2 kid_eq ks ks.
Proof. induction ks; constructor; [intro; reflexivity|assumption]. Qed.
Lemma akids_refl : forall ks, Forall2 akid_eq ks ks.
Proof. induction ks; constructor; [intros ? ?; reflexivity|assumption]. Qed.

Lemma build_members_ext : forall ks ks' name i, Forall2 kid_eq ks ks' -> build_members name i ks = build_members name i ks'.
Proof.
  intros ks ks' name i H. revert i. induction H as [|k k' ks ks' Hk _ IH]; intro i; [reflexivity|].
  cbn [build_members]. rewrite Hk, IH. reflexivity.
Qed.

Lemma union_build_ext : forall ks ks' name d, Forall2 kid_eq ks ks' -> union_build name ks d = union_build name ks' d.
Proof. intros. unfold union_build. rewrite (build_members_ext ks ks' name 0 H). reflexivity. Qed.

Lemma array_members_ext : forall ki ki' kp kp', oakid_eq ki ki' -> Forall2 akid_eq kp kp' ->
  Forall2 akid_eq (array_members ki kp) (array_members ki' kp').
Proof.
  intros ki ki' kp kp' Hi Hp. unfold array_members. apply Forall2_app; [assumption|].
  destruct ki, ki'; cbn in Hi; try contradiction; repeat constructor; assumption.
Qed.

Lemma revalidated_ext : forall ks ks', Forall2 akid_eq ks ks' -> Forall2 kid_eq (map (fun k : bool -> kid => k true) ks) (map (fun k : bool -> kid => k true) ks').
Proof. intros ks ks' H. induction H; cbn [map]; constructor; [intro; apply H|assumption]. Qed.

Lemma dispatch_ext : forall c p ty ec tk tk' ka ka' ko ko' ha ki ki' kp kp' fmt d o name,
  Forall2 kid_eq tk tk' -> Forall2 kid_eq ka ka' -> Forall2 kid_eq ko ko' -> oakid_eq ki ki' -> Forall2 akid_eq kp kp' ->
  dispatch c p ty ec tk ka ko ha ki kp fmt d o name = dispatch c p ty ec tk' ka' ko' ha ki' kp' fmt d o name.
Proof.
  intros c p ty ec tk tk' ka ka' ko ko' ha ki ki' kp kp' fmt d o name Ht Ha Ho Hi Hp.
  unfold dispatch. destruct (ty_is ty JBoolean); [reflexivity|]. destruct ec; [reflexivity|].
  assert (Na : nonempty ka = nonempty ka') by (destruct Ha; reflexivity).
  assert (No : nonempty ko = nonempty ko') by (destruct Ho; reflexivity).
  rewrite <- Na, <- No.
  destruct (nonempty ka || nonempty ko || ty_is_list ty).
  { apply union_build_ext. repeat apply Forall2_app; assumption. }
  destruct (o_const o); [reflexivity|].
  destruct (ty_is ty JString); [reflexivity|]. destruct (ty_is ty JNumber); [reflexivity|].
  destruct (ty_is ty JInteger); [reflexivity|]. destruct (ty_is ty JTNull); [reflexivity|].
  destruct (ty_is ty JArray); [|reflexivity].
  pose proof (array_members_ext ki ki' kp kp' Hi Hp) as Hm.
  destruct Hm as [|k k' ks ks' Hk Hks]; [reflexivity|].
  destruct Hks as [|k2 k2' ks ks' Hk2 Hks].
  - rewrite (Hk false). reflexivity.
  - rewrite (union_build_ext (map (fun k : bool -> kid => k true) (k :: k2 :: ks)) (map (fun k : bool -> kid => k true) (k' :: k2' :: ks')) (item_name name) None); [reflexivity|].
    apply revalidated_ext. repeat constructor; assumption.
Qed.

Lemma type_copies_ext : forall c p ty ka ka' ko ko' ha ki ki' kp kp' fmt o,
  Forall2 kid_eq ka ka' -> Forall2 kid_eq ko ko' -> oakid_eq ki ki' -> Forall2 akid_eq kp kp' ->
  Forall2 kid_eq (type_copies c p ty ka ko ha ki kp fmt o) (type_copies c p ty ka' ko' ha ki' kp' fmt o).
Proof.
  intros c p ty ka ka' ko ko' ha ki ki' kp kp' fmt o Ha Ho Hi Hp. destruct ty as [|t|l]; try constructor.
  cbn [type_copies]. induction l as [|t l IH]; cbn [map]; constructor; [|exact IH].
  intro n. apply dispatch_ext; try assumption. constructor.
Qed.

Lemma pfd_ext : forall c p ty en ka ka' ko ko' ha ki ki' kp kp' fmt d o name,
  Forall2 kid_eq ka ka' -> Forall2 kid_eq ko ko' -> oakid_eq ki ki' -> Forall2 akid_eq kp kp' ->
  pfd c p ty en ka ko ha ki kp fmt d o name = pfd c p ty en ka' ko' ha ki' kp' fmt d o name.
Proof.
  intros c p ty en ka ka' ko ko' ha ki ki' kp kp' fmt d o name Ha Ho Hi Hp. unfold pfd.
  assert (EB : enum_branch c p ty en ka ko ha ki kp fmt d o name = enum_branch c p ty en ka' ko' ha ki' kp' fmt d o name).
  { unfold enum_branch. destruct (enum_build en); try reflexivity.
    apply union_build_ext. apply Forall2_app; [assumption|]. apply Forall2_app; [apply kids_refl|].
    apply type_copies_ext; try assumption. apply kids_refl. }
  rewrite EB.
  apply dispatch_ext; try assumption. apply type_copies_ext; assumption.
Qed.

Lemma node_plain_ext : forall c e p ty en any one all ka ka' ko ko' ki ki' kp kp' fmt d o name,
  Forall2 kid_eq ka ka' -> Forall2 kid_eq ko ko' -> oakid_eq ki ki' -> Forall2 akid_eq kp kp' ->
  node_plain c e p ty en any one all ka ko ki kp fmt d o name = node_plain c e p ty en any one all ka' ko' ki' kp' fmt d o name.
Proof.
  intros. unfold node_plain.
  destruct (all ++ any ++ one) as [|[r|? ? ? ? ? ? ? ? ? ? ?] [|? ?]]; try reflexivity; apply pfd_ext; assumption.
Qed.

(* one more validator run on a built node = building the node validated once more: a tuple member is built like a top position *)
Lemma k_allof_spec : forall c e p all n, all <> [] ->
  k_allof c e p all n = build c e p (SSch TyAbsent false [] [] [] all None [] None None o_none) n.
Proof.
  intros c e p all n H. rewrite build_ssch. unfold k_allof, node_plain. cbn [app]. rewrite app_nil_r.
  destruct all as [|[r|? ? ? ? ? ? ? ? ? ? ?] [|? ?]]; try congruence; reflexivity.
Qed.

Lemma again_is_top : forall c e p s n, build_g c e p s true n = build c e p (hn_again s) n.
Proof.
  intros c e p s n. destruct s as [r|ty nl en any one all items pfx fmt d o]; [reflexivity|].
  cbn [hn_again build_g]. unfold hn, node. destruct nl; cbn [negb andb]; [|reflexivity].
  destruct ty as [|t|l]; try reflexivity.
  destruct one as [|o1 one']; [destruct any as [|a1 any']; [destruct all as [|l1 all']|]|].
  - reflexivity.
  - rewrite build_ssch. apply node_plain_ext; try apply kids_refl; try apply akids_refl; [|destruct (option_map (build_g c e p) items); cbn; [intros ? ?; reflexivity|exact I]].
    cbn [map]. constructor; [intro; reflexivity|]. constructor; [|constructor].
    intro m. apply k_allof_spec. discriminate.
  - rewrite build_ssch. rewrite map_app. reflexivity.
  - rewrite build_ssch. rewrite map_app. reflexivity.
Qed.

Lemma equiv_kids : forall c e parent l l', Forall2 (equiv c e parent) l l' ->
  Forall2 kid_eq (map (build c e parent) (map pre l)) (map (build c e parent) (map pre l')).
Proof. intros c e parent l l' H. induction H; cbn [map]; constructor; [intro n; exact (H false n)|assumption]. Qed.

Lemma equiv_akids : forall c e parent l l', Forall2 (equiv c e parent) l l' ->
  Forall2 akid_eq (map (build_g c e parent) (map pre l)) (map (build_g c e parent) (map pre l')).
Proof.
  intros c e parent l l' H. induction H as [|a b l l' Hab _ IH]; cbn [map]; constructor; [|assumption].
  intros again n. destruct again.
  - rewrite !again_is_top. exact (Hab true n).
  - exact (Hab false n).
Qed.

Lemma hn_shape : forall ty nl en any one all, exists ty2 any2 one2 all2,
  forall items pfx fmt d o, hn ty nl en any one all items pfx fmt d o = SSch ty2 nl en any2 one2 all2 items pfx fmt d o.
Proof.
  intros ty nl en any one all. destruct nl; [|do 4 eexists; intros; reflexivity].
  destruct ty as [|t|l]; [destruct one, any, all| |]; do 4 eexists; intros; reflexivity.
Qed.

Lemma pre_at_shape : forall top ty nl en any one all, exists ty2 any2 one2 all2,
  forall items pfx fmt d o,
    pre_at top (SSch ty nl en any one all items pfx fmt d o) = SSch ty2 nl en any2 one2 all2 (option_map pre items) (map pre pfx) fmt d o.
Proof.
  intros top ty nl en any one all.
  destruct (hn_shape ty nl en (map pre any) (map pre one) (map pre all)) as (ty2 & any2 & one2 & all2 & H1).
  destruct top.
  - destruct (hn_shape ty2 nl en any2 one2 all2) as (ty3 & any3 & one3 & all3 & H2).
    exists ty3, any3, one3, all3. intros. unfold pre_at. cbn [pre]. rewrite H1. cbn [hn_again]. apply H2.
  - exists ty2, any2, one2, all2. intros. unfold pre_at. cbn [pre]. apply H1.
Qed.

(* tuple arrays (and every other use of items): prefixItems members and items may each be written in any equivalent notation,
   independently of one another; equal members are kept, never merged *)
Theorem items_congruence : forall c e parent top ty nl en any one all items items' pfx pfx' fmt d o name,
  Forall2 (equiv c e parent) pfx pfx' -> oequiv c e parent items items' ->
  norm c e parent top (SSch ty nl en any one all items pfx fmt d o) name
  = norm c e parent top (SSch ty nl en any one all items' pfx' fmt d o) name.
Proof.
  intros c e parent top ty nl en any one all items items' pfx pfx' fmt d o name Hp Hi.
  unfold norm. destruct (pre_at_shape top ty nl en any one all) as (ty2 & any2 & one2 & all2 & H). rewrite !H.
  rewrite !build_ssch.
  apply node_plain_ext; try apply kids_refl; [|apply equiv_akids; assumption].
  destruct items as [a|], items' as [b|]; cbn in Hi |- *; try contradiction; [|exact I].
  intros again n. destruct again; [rewrite !again_is_top; exact (Hi true n)|exact (Hi false n)].
Qed.

Lemma forall2_len : forall (A B : Type) (R : A -> B -> Prop) l l', Forall2 R l l' -> length l = length l'.
Proof. intros A B R l l' H. induction H; cbn; congruence. Qed.

(* union members: each may be written in any equivalent notation as long as the composition is not a single-reference wrapper
   (that test is syntactic, see wrapper_not_congruent_refuted) *)
Theorem union_members_congruence : forall c e parent ty en any any' one one' all items pfx fmt d o name,
  Forall2 (equiv c e parent) any any' -> Forall2 (equiv c e parent) one one' ->
  length (all ++ any ++ one) <> 1%nat ->
  norm c e parent false (SSch ty false en any one all items pfx fmt d o) name
  = norm c e parent false (SSch ty false en any' one' all items pfx fmt d o) name.
Proof.
  intros c e parent ty en any any' one one' all items pfx fmt d o name Ha Ho L.
  assert (L' : length (all ++ any' ++ one') <> 1%nat).
  { rewrite !app_length in *. rewrite <- (forall2_len _ _ _ _ _ Ha), <- (forall2_len _ _ _ _ _ Ho). exact L. }
  unfold norm, pre_at. cbn [pre hn negb]. rewrite !build_ssch. unfold node_plain.
  assert (S1 : forall (A : Type) (x : str -> A) (y : A) (l : list sch), length l <> 1%nat -> match l with [SRef r] => x r | _ => y end = y).
  { intros A x y l Hl. destruct l as [|[r|? ? ? ? ? ? ? ? ? ? ?] [|? ?]]; try reflexivity. cbn in Hl. congruence. }
  rewrite S1 by (rewrite !app_length, !map_length in *; exact L).
  rewrite S1 by (rewrite !app_length, !map_length in *; exact L').
  apply pfd_ext; try apply akids_refl; try (apply equiv_kids; assumption).
  destruct (option_map (build_g c e parent) (option_map pre items)); cbn; [intros ? ?; reflexivity|exact I].
Qed.

(* non-vacuity + the tuple-array shape: prefixItems [T] with items written as nullable / type list, and a duplicate member kept *)
Example tuple_array_example :
  let P := SSch (TyList [JString; JTNull]) false [] [] [] [] None [] (Some s_date) None o_none in
  let I := SSch (TyOne JString) true [] [] [] [] None [] (Some s_date) None o_none in
  let arr i := SSch (TyOne JArray) false [] [] [] [] (Some i) [P] None None o_none in
  norm cfg0 (envl []) [72] false (arr P) [112] = norm cfg0 (envl []) [72] false (arr I) [112] /\
  norm cfg0 (envl []) [72] false (arr P) [112]
  = TList [112] (TUnion (item_name [112])
      [TLeaf LDate (sub_name (sub_name (item_name [112]) 0) 0) None; TLeaf LNone (sub_name (sub_name (item_name [112]) 0) 1) None;
       TLeaf LDate (sub_name (sub_name (item_name [112]) 1) 0) None; TLeaf LNone (sub_name (sub_name (item_name [112]) 1) 1) None] None).
Proof. split; vm_compute; reflexivity. Qed.

(* a tuple member is validated once more than a nested schema: a nullable union member gets a second null there *)
Example tuple_member_revalidated :
  norm cfg0 (envl []) [72] false
    (SSch (TyOne JArray) false [] [] [] [] (Some s_str) [SSch TyAbsent true [] [] [s_str] [] None [] None None o_none] None None o_none) [112]
  = TList [112] (TUnion (item_name [112])
      [TLeaf LStr (sub_name (sub_name (item_name [112]) 0) 0) None; TLeaf LNone (sub_name (sub_name (item_name [112]) 0) 1) None;
       TLeaf LNone (sub_name (sub_name (item_name [112]) 0) 2) None; TLeaf LStr (sub_name (item_name [112]) 1) None] None).
Proof. vm_compute. reflexivity. Qed.
