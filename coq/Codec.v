(* Codec.v — denotational model of the generated model classes' from_dict / to_dict
   (templates/model.py.jinja and templates/property_templates/*.jinja), of JSON values, and of JSON-Schema validity for the
   supported subset. Model file: definitions only.
   Which property kinds have a construct / transform / check_type_for_construct macro is NOT written here: it is read from
   gen/GenKinds.v, regenerated from the real templates on every run.
   JSON objects / Python dicts are finite maps represented as key-sorted association lists (Python dict equality ignores
   order); the harness canonicalises by sorting keys by code point. Floats are opaque tokens and denote NON-integral numbers
   (an integral number is a JInt). *)
From Coq Require Import NArith ZArith List Bool.
Import ListNotations.
Require Import OPC.gen.GenKinds OPC.Uni OPC.Names.
Open Scope N_scope.

(* ------------------------------------------------------------------ strings as ordered keys *)
Fixpoint str_cmp (a b : str) : comparison :=
  match a, b with
  | [], [] => Eq
  | [], _ :: _ => Lt
  | _ :: _, [] => Gt
  | x :: a', y :: b' => match N.compare x y with Eq => str_cmp a' b' | c => c end
  end.

Section Maps.
  Context {A : Type}.
  Definition smap := list (str * A).
  Fixpoint m_get (k : str) (m : smap) : option A :=
    match m with
    | [] => None
    | (k', v) :: m' => match str_cmp k k' with Eq => Some v | Lt => None | Gt => m_get k m' end
    end.
  Fixpoint m_del (k : str) (m : smap) : smap :=
    match m with
    | [] => []
    | (k', v) :: m' => match str_cmp k k' with Eq => m' | Lt => m | Gt => (k', v) :: m_del k m' end
    end.
  Fixpoint m_put (k : str) (v : A) (m : smap) : smap :=
    match m with
    | [] => [(k, v)]
    | (k', v') :: m' => match str_cmp k k' with Eq => (k, v) :: m' | Lt => (k, v) :: m | Gt => (k', v') :: m_put k v m' end
    end.
  Fixpoint m_sorted (m : smap) : bool :=
    match m with
    | [] => true
    | (k, _) :: m' => match m' with
                      | [] => true
                      | (k', _) :: _ => match str_cmp k k' with Lt => m_sorted m' | _ => false end
                      end
    end.
End Maps.
Arguments smap A : clear implicits.

(* ------------------------------------------------------------------ JSON *)
Inductive json :=
| JNull | JBool (b : bool) | JInt (z : Z) | JFlt (tok : str) | JStr (s : str)
| JArr (l : list json) | JObj (m : list (str * json)).

Fixpoint json_eqb (a b : json) {struct a} : bool :=
  match a, b with
  | JNull, JNull => true
  | JBool x, JBool y => Bool.eqb x y
  | JInt x, JInt y => Z.eqb x y
  | JFlt x, JFlt y => str_eqb x y
  | JStr x, JStr y => str_eqb x y
  | JArr x, JArr y =>
      (fix go (x y : list json) : bool :=
         match x, y with [], [] => true | a' :: x', b' :: y' => json_eqb a' b' && go x' y' | _, _ => false end) x y
  | JObj x, JObj y =>
      (fix go (x y : list (str * json)) : bool :=
         match x, y with
         | [], [] => true
         | (k1, a') :: x', (k2, b') :: y' => str_eqb k1 k2 && json_eqb a' b' && go x' y'
         | _, _ => false end) x y
  | _, _ => false
  end.

(* well-formed JSON: every object key-sorted with distinct keys *)
Fixpoint wf_json (j : json) : bool :=
  match j with
  | JArr l => forallb wf_json l
  | JObj m => m_sorted m && (fix go (m : list (str * json)) : bool := match m with [] => true | (_, v) :: m' => wf_json v && go m' end) m
  | _ => true
  end.

(* Python == on the scalars that reach an enum lookup / const comparison: bool is an int *)
Definition py_scalar_eqb (a b : json) : bool :=
  match a, b with
  | JBool x, JInt y | JInt y, JBool x => Z.eqb (if x then 1 else 0)%Z y
  | JArr _, _ | JObj _, _ | _, JArr _ | _, JObj _ => false
  | _, _ => json_eqb a b
  end.

Inductive jtag := TNull | TBool | TInt | TFlt | TStr | TArr | TObj.
Definition tag_of (j : json) : jtag :=
  match j with JNull => TNull | JBool _ => TBool | JInt _ => TInt | JFlt _ => TFlt | JStr _ => TStr | JArr _ => TArr | JObj _ => TObj end.
Definition jtag_eqb (a b : jtag) : bool :=
  match a, b with
  | TNull, TNull | TBool, TBool | TInt, TInt | TFlt, TFlt | TStr, TStr | TArr, TArr | TObj, TObj => true
  | _, _ => false
  end.

(* ------------------------------------------------------------------ property kinds and class table *)
Inductive vty := VTInt | VTStr.
Inductive pk :=
| KAny | KNone | KBool | KInt | KFloat | KStr | KDate | KDateTime | KUuid | KFile
| KConst (c : json)
| KEnum (cls : N) (vt : vty) (vals : list json)     (* Enum class cls; vals = the members' wire values *)
| KLitEnum (vt : vty) (vals : list json)
| KList (inner : pk)
| KUnion (ms : list pk)
| KModel (cls : N).

Record cdef := { c_props : list (str * (bool * pk));   (* required_properties ++ optional_properties: (wire name, (required, kind)) *)
                 c_addl : option pk }.                (* None: additionalProperties false; Some KAny: open; Some k: typed *)
Definition ctable := list cdef.
Definition get_class (T : ctable) (c : N) : option cdef := nth_error T (N.to_nat c).

Definition kfacts_of (k : pk) : kfacts :=
  match k with
  | KAny => kf_any | KNone => kf_none | KBool => kf_bool | KInt => kf_int | KFloat => kf_float | KStr => kf_str
  | KDate => kf_date | KDateTime => kf_datetime | KUuid => kf_uuid | KFile => kf_file | KConst _ => kf_const
  | KEnum _ _ _ => kf_enum | KLitEnum _ _ => kf_litenum | KList _ => kf_list | KUnion _ => kf_union | KModel _ => kf_model
  end.
Definition has_construct (k : pk) : bool := kf_construct (kfacts_of k).
Definition has_transform (k : pk) : bool := kf_transform (kfacts_of k).
Definition has_check (k : pk) : bool := kf_check (kfacts_of k).

(* ------------------------------------------------------------------ Python run-time values *)
Inductive pv :=
| PUnset
| PJ (j : json)                      (* JSON data passed through unchanged: None, bool, int, float, str, list, dict *)
| PDate (iso : str) | PDateTime (iso : str) | PUuid (s : str)    (* typed leaves, identified by their canonical text *)
| PEnum (cls : N) (v : json)         (* member of Enum class cls whose .value is v *)
| PList (l : list pv)
| PObj (cls : N) (fields : list (str * pv)) (addl : list (str * pv)).   (* attrs instance: fields by wire name, additional_properties *)

(* runtime parsers that are not re-implemented: each returns the canonical re-formatting of what it parsed
   (isoparse(s).date().isoformat(), isoparse(s).isoformat(), str(UUID(s))); None = the parser raises *)
Record oracles := { parse_date : str -> option str; parse_datetime : str -> option str; parse_uuid : str -> option str }.

Fixpoint map_opt {A B} (f : A -> option B) (l : list A) : option (list B) :=
  match l with
  | [] => Some []
  | x :: l' => match f x with
               | Some y => match map_opt f l' with Some r => Some (y :: r) | None => None end
               | None => None
               end
  end.
Fixpoint map_opt_snd {A B} (f : A -> option B) (l : list (str * A)) : option (list (str * B)) :=
  match l with
  | [] => Some []
  | (k, x) :: l' => match f x with
                    | Some y => match map_opt_snd f l' with Some r => Some ((k, y) :: r) | None => None end
                    | None => None
                    end
  end.

Definition is_str (j : json) : bool := match j with JStr _ => true | _ => false end.
Definition is_intlike (j : json) : bool := match j with JInt _ | JBool _ => true | _ => false end.   (* isinstance(x, int) *)
Definition vty_check (vt : vty) (j : json) : bool := match vt with VTStr => is_str j | VTInt => is_intlike j end.
(* bool(x) is False *)
Definition falsy (j : json) : bool :=
  match j with
  | JNull | JBool false | JInt Z0 | JStr [] | JArr [] | JObj [] => true
  | _ => false
  end.

(* check_type_for_construct of each template, on JSON data *)
Definition check_type (k : pk) (j : json) : bool :=
  match k with
  | KDate | KDateTime | KUuid => is_str j
  | KFile => false                                   (* isinstance(data, bytes): never true of JSON data *)
  | KEnum _ vt _ | KLitEnum vt _ => vty_check vt j
  | KList _ => match j with JArr _ => true | _ => false end
  | KModel _ => match j with JObj _ => true | _ => false end
  | _ => true
  end.

Definition is_knone (k : pk) : bool := match k with KNone => true | _ => false end.

Section Steps.
  Variable orc : oracles.
  Variable T : ctable.

  (* ================================================================ decoding (from_dict) *)
  Section DecStep.
    Variable d : pk -> json -> option pv.    (* the decoder one level down *)

    (* union_property.py.jinja construct: _parse_<name>(data) after the None / Unset short-circuits *)
    Fixpoint dec_union_loop (ms : list pk) (unmod : bool) (j : json) : option pv :=
      match ms with
      | [] => if unmod then Some (PJ j) else None
      | m :: rest =>
          if negb (has_construct m) then dec_union_loop rest true j
          else
            let last := match rest with [] => true | _ => false end in
            if has_check m && (negb last || unmod) then
              (* try: if not check: raise TypeError; construct; return ... except: pass *)
              if check_type m j then match d m j with Some v => Some v | None => dec_union_loop rest unmod j end
              else dec_union_loop rest unmod j
            else
              (* unguarded: returns or raises; whatever follows is dead code *)
              if has_check m && negb (check_type m j) then None else d m j
      end.
    Definition dec_union (ms : list pk) (j : json) : option pv :=
      if existsb is_knone ms && json_eqb j JNull then Some (PJ JNull) else dec_union_loop ms false j.

    (* a property read from the dict `d`: source is d.pop(name) / d.pop(name, UNSET) *)
    Definition dec_field (k : pk) (req : bool) (s : option json) : option pv :=
      match s with
      | None => if req then None (* KeyError *) else Some PUnset
      | Some j =>
          match k with
          | KList inner =>
              (* optional list: `for x in (_data or [])` *)
              if has_construct k && has_construct inner && negb req && falsy j then Some (PList []) else d k j
          | _ => d k j
          end
      end.

    (* the loop over required_properties + optional_properties, popping from the dict *)
    Fixpoint dec_props (ps : list (str * (bool * pk))) (m : list (str * json)) : option (list (str * pv) * list (str * json)) :=
      match ps with
      | [] => Some ([], m)
      | (name, (req, k)) :: ps' =>
          match dec_field k req (m_get name m) with
          | None => None
          | Some v => match dec_props ps' (m_del name m) with
                      | Some (fs, rest) => Some ((name, v) :: fs, rest)
                      | None => None
                      end
          end
      end.

    Definition dec_model (c : N) (j : json) : option pv :=
      match get_class T c with
      | None => None
      | Some cd =>
          match c_props cd, c_addl cd with
          | [], None => Some (PObj c [] [])            (* no `d = dict(src_dict)` at all: any input accepted *)
          | _, _ =>
              match j with
              | JObj m =>
                  match dec_props (c_props cd) m with
                  | None => None
                  | Some (fs, rest) =>
                      match c_addl cd with
                      | None => Some (PObj c fs [])          (* leftover keys are dropped *)
                      | Some ak =>
                          if has_construct ak then
                            match map_opt_snd (d ak) rest with Some ad => Some (PObj c fs ad) | None => None end
                          else Some (PObj c fs (map (fun kv => (fst kv, PJ (snd kv))) rest))
                      end
                  end
              | _ => None                                (* dict(src_dict) / .pop on a non-mapping *)
              end
          end
      end.

    (* construct_function of each template applied to a non-Unset value (the `required` rendering) *)
    Definition dec_step (k : pk) (j : json) : option pv :=
      if negb (has_construct k) then Some (PJ j) else
      match k with
      | KDate => match j with JStr s => option_map PDate (parse_date orc s) | _ => None end
      | KDateTime => match j with JStr s => option_map PDateTime (parse_datetime orc s) | _ => None end
      | KUuid => match j with JStr s => option_map PUuid (parse_uuid orc s) | _ => None end
      | KFile => None
      | KConst c => if py_scalar_eqb j c then Some (PJ j) else None
      | KEnum cls _ vals => match find (py_scalar_eqb j) vals with Some v => Some (PEnum cls v) | None => None end
      | KLitEnum _ vals => if existsb (py_scalar_eqb j) vals then Some (PJ j) else None
      | KList inner =>
          if has_construct inner then
            (* `for item_data in data`: no isinstance test guards the loop (only a union member's top level has one), so a str is
               iterated character by character and a dict key by key (the harness sends objects with sorted keys); None / numbers /
               booleans are not iterable *)
            match j with
            | JArr l => option_map PList (map_opt (d inner) l)
            | JStr s => option_map PList (map_opt (d inner) (map (fun c => JStr [c]) s))
            | JObj m => option_map PList (map_opt (d inner) (map (fun kv => JStr (fst kv)) m))
            | _ => None
            end
          else Some (PJ j)
      | KUnion ms => dec_union ms j
      | KModel c => dec_model c j
      | _ => Some (PJ j)
      end.
  End DecStep.

  Fixpoint dec (fuel : nat) (k : pk) (j : json) : option pv :=
    match fuel with O => None | S f => dec_step (dec f) k j end.

  (* ================================================================ encoding (to_dict) *)
  (* a value the templates copy into the output unchanged is plain JSON only if it is raw data *)
  Fixpoint plain (v : pv) : option json :=
    match v with
    | PJ j => Some j
    | PList l => option_map JArr ((fix go (l : list pv) : option (list json) :=
                    match l with [] => Some [] | x :: l' => match plain x with
                                                         | Some y => match go l' with Some r => Some (y :: r) | None => None end
                                                         | None => None end end) l)
    | _ => None
    end.

  (* isinstance(value, <get_instance_type_string of k>) as used by the union encoder *)
  Definition inst_match (k : pk) (v : pv) : bool :=
    match k, v with
    | KDate, (PDate _ | PDateTime _) => true            (* a datetime is a date *)
    | KDateTime, PDateTime _ => true
    | KUuid, PUuid _ => true
    | KEnum c _ _, PEnum c' _ => c =? c'
    | KLitEnum VTStr _, (PJ (JStr _) | PEnum _ (JStr _)) => true      (* str enum members are str instances *)
    | KLitEnum VTInt _, (PJ (JInt _) | PJ (JBool _) | PEnum _ (JInt _)) => true
    | KModel c, PObj c' _ _ => c =? c'
    | KList _, (PList _ | PJ (JArr _)) => true
    | _, _ => false
    end.

  Definition items (v : pv) : option (list pv) :=
    match v with PList l => Some l | PJ (JArr l) => Some (map PJ l) | _ => None end.

  Fixpoint put_all (kvs : list (str * json)) (m : list (str * json)) : list (str * json) :=
    match kvs with [] => m | (k, v) :: r => put_all r (m_put k v m) end.

  Section EncStep.
    Variable e : pk -> pv -> option json.

    (* union_property.py.jinja transform, after the Unset test *)
    Fixpoint enc_union_loop (ms : list pk) (has_if untransformed : bool) (v : pv) : option json :=
      match ms with
      | [] => plain v            (* `else: dest = src` / `dest = src`; (no member at all transformed and none skipped cannot be rendered) *)
      | m :: rest =>
          if negb (has_transform m) then enc_union_loop rest has_if true v
          else
            let last := match rest with [] => true | _ => false end in
            if negb has_if || negb last || untransformed then
              if inst_match m v then e m v else enc_union_loop rest true untransformed v
            else e m v           (* plain `else:` *)
      end.

    (* one attribute: None = exception, Some None = UNSET (key omitted), Some (Some j) = value *)
    Definition enc_field (k : pk) (req : bool) (v : pv) : option (option json) :=
      if has_transform k then
        match k with
        | KUnion ms =>
            match v with
            | PUnset => if req then option_map Some (enc_union_loop ms false false v) else Some None
            | _ => option_map Some (enc_union_loop ms (negb req) false v)
            end
        | _ => match v with
               | PUnset => if req then None else Some None
               | _ => option_map Some (e k v)
               end
        end
      else match v with
           | PUnset => if req then None else Some None
           | _ => option_map Some (plain v)
           end.

    Fixpoint enc_props (ps : list (str * (bool * pk))) (fs : list (str * pv)) : option (list (str * json)) :=
      match ps with
      | [] => Some []
      | (name, (req, k)) :: ps' =>
          match (fix look (fs : list (str * pv)) : option pv :=
                   match fs with [] => None | (n, v) :: r => if str_eqb n name then Some v else look r end) fs with
          | None => None
          | Some v =>
              match enc_field k req v with
              | None => None
              | Some o =>
                  match enc_props ps' fs with
                  | None => None
                  | Some r => Some (match o with Some j => (name, j) :: r | None => r end)
                  end
              end
          end
      end.

    Definition enc_obj (c : N) (fs ad : list (str * pv)) : option json :=
      match get_class T c with
      | None => None
      | Some cd =>
          match enc_props (c_props cd) fs with
          | None => None
          | Some kvs =>
              let base :=
                match c_addl cd with
                | None => Some []
                | Some ak => if has_transform ak then map_opt_snd (e ak) ad else map_opt_snd plain ad
                end in
              match base with
              | None => None
              | Some b => Some (JObj (put_all kvs (put_all b [])))
              end
          end
      end.

    (* transform of each template for a non-Unset value (the `required` rendering) *)
    Definition enc_step (k : pk) (v : pv) : option json :=
      if negb (has_transform k) then plain v else
      match k with
      | KDate | KDateTime => match v with PDate s | PDateTime s => Some (JStr s) | _ => None end      (* .isoformat() *)
      | KUuid => match v with PUuid s => Some (JStr s) | PJ (JStr s) => Some (JStr s) | _ => None end  (* str(x) *)
      | KFile => None                                     (* to_tuple(): not JSON data *)
      | KEnum _ _ _ => match v with PEnum _ j => Some j | _ => None end                                  (* .value *)
      | KLitEnum _ _ => plain v
      | KList inner =>
          if has_transform inner then
            match items v with Some l => option_map JArr (map_opt (e inner) l) | None => None end
          else plain v
      | KUnion ms => enc_union_loop ms false false v
      | KModel _ => match v with PObj c fs ad => enc_obj c fs ad | _ => None end    (* value.to_dict(): the value's own class *)
      | _ => plain v
      end.
  End EncStep.

  Fixpoint enc (fuel : nat) (k : pk) (v : pv) : option json :=
    match fuel with O => None | S f => enc_step (enc f) k v end.

  (* ================================================================ JSON-Schema validity (specification side) *)
  Section ValidStep.
    Variable vd : pk -> json -> bool.
    Fixpoint valid_props (ps : list (str * (bool * pk))) (m : list (str * json)) : option (list (str * json)) :=
      match ps with
      | [] => Some m
      | (name, (req, k)) :: ps' =>
          match m_get name m with
          | None => if req then None else valid_props ps' m
          | Some j => if vd k j then valid_props ps' (m_del name m) else None
          end
      end.
    Definition valid_step (k : pk) (j : json) : bool :=
      match k with
      | KAny => true
      | KNone => json_eqb j JNull
      | KBool => match j with JBool _ => true | _ => false end
      | KInt => match j with JInt _ => true | _ => false end
      | KFloat => match j with JInt _ | JFlt _ => true | _ => false end
      | KStr => is_str j
      | KDate => match j with JStr s => match parse_date orc s with Some s' => str_eqb s' s | None => false end | _ => false end
      | KDateTime => match j with JStr s => match parse_datetime orc s with Some s' => str_eqb s' s | None => false end | _ => false end
      | KUuid => match j with JStr s => match parse_uuid orc s with Some s' => str_eqb s' s | None => false end | _ => false end
      | KFile => false
      | KConst c => json_eqb j c
      | KEnum _ _ vals | KLitEnum _ vals => existsb (json_eqb j) vals
      | KList inner => match j with JArr l => forallb (vd inner) l | _ => false end
      | KUnion ms => existsb (fun m => vd m j) ms
      | KModel c =>
          match get_class T c, j with
          | Some cd, JObj m =>
              match valid_props (c_props cd) m with
              | None => false
              | Some rest => match c_addl cd with
                             | None => match rest with [] => true | _ => false end
                             | Some ak => forallb (fun kv => vd ak (snd kv)) rest
                             end
              end
          | _, _ => false
          end
      end.
  End ValidStep.
  Fixpoint valid (fuel : nat) (k : pk) (j : json) : bool :=
    match fuel with O => false | S f => valid_step (valid f) k j end.
End Steps.

(* ------------------------------------------------------------------ static well-formedness / the guard of the round trip *)
(* JSON tags a kind's check_type_for_construct lets through or its valid instances can have *)
Definition vty_tags (vt : vty) : list jtag := match vt with VTStr => [TStr] | VTInt => [TInt; TBool] end.
Definition ktags (k : pk) : list jtag :=
  match k with
  | KAny | KUnion _ | KConst _ | KFile => [TNull; TBool; TInt; TFlt; TStr; TArr; TObj]
  | KNone => [TNull] | KBool => [TBool] | KInt => [TInt] | KFloat => [TInt; TFlt]
  | KStr | KDate | KDateTime | KUuid => [TStr]
  | KEnum _ vt _ | KLitEnum vt _ => vty_tags vt
  | KList _ => [TArr] | KModel _ => [TObj]
  end.
Definition tags_disjoint (a b : list jtag) : bool := forallb (fun x => negb (existsb (jtag_eqb x) b)) a.
Fixpoint pairwise_disjoint (l : list (list jtag)) : bool :=
  match l with [] => true | a :: r => forallb (tags_disjoint a) r && pairwise_disjoint r end.
Definition vty_of_json (vt : vty) (j : json) : bool := match vt, j with VTInt, JInt _ | VTStr, JStr _ => true | _, _ => false end.

(* kind is inside the proved domain: no File (binary data is not JSON), no const / nested union inside a union,
   union members pairwise distinguishable by JSON tag, enum values typed and distinct *)
Fixpoint k_ok (k : pk) : bool :=
  match k with
  | KFile => false
  | KConst c => match c with JArr _ | JObj _ => false | _ => true end       (* const values are scalars *)
  | KEnum _ vt vals | KLitEnum vt vals => forallb (vty_of_json vt) vals
  | KList inner => k_ok inner
  | KUnion ms => negb (match ms with [] => true | _ => false end) && pairwise_disjoint (map ktags ms) &&
                 (fix go (ms : list pk) : bool :=
                    match ms with [] => true | m :: r => negb (match m with KUnion _ => true | _ => false end) && k_ok m && go r end) ms
                 (* the parser flattens nested unions *)
  | _ => true
  end.
Definition names_distinct (ps : list (str * (bool * pk))) : bool :=
  (fix go (l : list str) : bool := match l with [] => true | n :: r => negb (existsb (str_eqb n) r) && go r end) (map fst ps).
Definition cdef_ok (T : ctable) (cd : cdef) : bool :=
  forallb (fun p => k_ok (snd (snd p))) (c_props cd) && names_distinct (c_props cd) &&
  match c_addl cd with Some ak => k_ok ak | None => true end.
Definition table_ok (T : ctable) : bool := forallb (cdef_ok T) T.
