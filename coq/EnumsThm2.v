(* EnumsThm2.v — C14: two enums that derive ONE class name. Uses (read only) the model Scopes.model_decls of EnumProperty.build's
   same-class-name handling and its invariant from ScopesThm.v: an enum declaration that is not reported holds, under its class name,
   exactly its own declared value table. *)
From Coq Require Import NArith ZArith PeanoNat List Bool Lia.
Import ListNotations.
Require Import OPC.gen.GenTables OPC.Uni OPC.Names OPC.NamesThm OPC.Values OPC.ValuesThm OPC.Enums OPC.EnumsThm OPC.Scopes OPC.ScopesThm.
Open Scope N_scope.

Lemma tbl_equiv_In a b : NoDup (map fst a) -> NoDup (map fst b) -> tbl_equiv a b ->
  forall k v, In (k, v) a <-> In (k, v) b.
Proof.
  intros Ha Hb He k v. split; intros H.
  - apply elookup_Some_In. rewrite <- He. apply elookup_In_nodup; assumption.
  - apply elookup_Some_In. rewrite He. apply elookup_In_nodup; assumption.
Qed.

(* the class entry found under an unreported enum declaration's class name is an enum table equivalent to the declaration's own *)
Theorem unreported_enum_own_table : forall prefix ds tab errs p n vs,
  model_decls prefix ds = Some (tab, errs) -> In (DEnum p n vs) ds -> ~ In (DEnum p n vs) errs ->
  exists t t', values_from_list vs = Some t /\ clookup (decl_class prefix (DEnum p n vs)) tab = Some (CEnum t') /\
               NoDup (map fst t') /\ tbl_equiv t t'.
Proof.
  intros prefix ds tab errs p n vs H Hin Hne. unfold model_decls in H.
  assert (I0 : decls_inv prefix [] [] []).
  { split; [constructor|]. split; [intros c t Hl; discriminate|]. split; [intros d []|]. split; [intros d [] | intros ? ? ? []]. }
  pose proof (add_decls_inv _ _ _ _ _ _ _ I0 H) as (I1 & I2 & I3 & I4 & I5). cbn [app] in *.
  specialize (I3 _ Hin Hne). unfold entry_matches in I3. cbn [decl_table] in I3.
  destruct (values_from_list vs) as [t|] eqn:Ev.
  - destruct I3 as (t' & Hl & Heq). exists t, t'. split; [reflexivity|]. split; [exact Hl|]. split; [|exact Heq].
    destruct (I2 _ _ Hl) as (d' & _ & _ & Ht'). destruct d' as [m|p' n' vs']; [discriminate Ht'|]. cbn [decl_table] in Ht'.
    apply (values_from_list_keys_nodup _ _ Ht').
  - exfalso. apply (I5 _ _ _ Hin). exact Ev.
Qed.

(* ... hence, under the guard of vfl_exact, the shared class holds exactly the (member name, stored value) pairs of THIS declaration's
   own value list: a twin with the same member names and other wire values cannot have been merged into it *)
Theorem unreported_enum_class_exact : forall prefix ds tab errs p n vs,
  model_decls prefix ds = Some (tab, errs) -> In (DEnum p n vs) ds -> ~ In (DEnum p n vs) errs ->
  g_enum_sanitised_distinct vs = true ->
  exists t', clookup (decl_class prefix (DEnum p n vs)) tab = Some (CEnum t') /\
             forall q, In q t' <-> In q (entries_from 0 vs).
Proof.
  intros prefix ds tab errs p n vs H Hin Hne Hg.
  destruct (unreported_enum_own_table _ _ _ _ _ _ _ H Hin Hne) as (t & t' & Hv & Hl & Hn' & Heq).
  exists t'. split; [exact Hl|]. intros [k v].
  rewrite <- (tbl_equiv_In t t' (values_from_list_keys_nodup _ _ Hv) Hn' Heq k v).
  apply (vfl_exact vs t (key_functional_b_sound _ Hg) Hv).
Qed.

(* two unreported enum declarations with one class name list the same wire values under the same member names *)
Theorem twins_share_only_equal_tables : forall prefix ds tab errs p1 n1 vs1 p2 n2 vs2,
  model_decls prefix ds = Some (tab, errs) ->
  In (DEnum p1 n1 vs1) ds -> In (DEnum p2 n2 vs2) ds -> ~ In (DEnum p1 n1 vs1) errs -> ~ In (DEnum p2 n2 vs2) errs ->
  decl_class prefix (DEnum p1 n1 vs1) = decl_class prefix (DEnum p2 n2 vs2) ->
  g_enum_sanitised_distinct vs1 = true -> g_enum_sanitised_distinct vs2 = true ->
  forall q, In q (entries_from 0 vs1) <-> In q (entries_from 0 vs2).
Proof.
  intros prefix ds tab errs p1 n1 vs1 p2 n2 vs2 H H1 H2 E1 E2 Hc G1 G2 q.
  destruct (unreported_enum_class_exact _ _ _ _ _ _ _ H H1 E1 G1) as (t1 & L1 & X1).
  destruct (unreported_enum_class_exact _ _ _ _ _ _ _ H H2 E2 G2) as (t2 & L2 & X2).
  rewrite Hc in L1. rewrite L1 in L2. injection L2 as <-. rewrite <- X1. apply X2.
Qed.

(* the case of the finding's shape is reported by the model: [open, closed] vs [OPEN, CLOSED] under one class name *)
Example twin_case_reported :
  exists tab d, model_decls [102;105;101;108;100;95]
    [DEnum [79;114;100;101;114] [105;116;101;109;95;115;116;97;116;117;115] [EStr [111;112;101;110]; EStr [99;108;111;115;101;100]];
     DEnum [79;114;100;101;114;73;116;101;109] [115;116;97;116;117;115] [EStr [79;80;69;78]; EStr [67;76;79;83;69;68]]] = Some (tab, [d]).
Proof. eexists. eexists. vm_compute. reflexivity. Qed.

Print Assumptions unreported_enum_own_table.
Print Assumptions unreported_enum_class_exact.
Print Assumptions twins_share_only_equal_tables.

(* ================= to_text member = text of the declared value ================= *)

(* string enums: the member a listed value decodes to stringifies to exactly that value *)
Theorem enum_text_str : forall vs m,
  forallb ev_is_str vs = true -> g_no_bs_nl vs = true -> g_enum_sanitised_distinct vs = true -> g_member_names vs = true ->
  values_from_list vs = Some m ->
  exists cls, str_enum_class m = Some cls /\
    (forall s, In (EStr s) vs -> exists k, enum_decode cls (JStr s) = DMember k /\ enum_text cls k = Some s) /\
    (forall j k, enum_lookup cls j = Some k -> exists s, In (EStr s) vs /\ enum_text cls k = Some s).
Proof.
  intros vs m H1 H2 H3 H4 Hm.
  destruct (enum_exact_str vs m H1 H2 H3 H4 Hm) as (cls & Hc & Hl & Hs & _ & _).
  exists cls. split; [exact Hc|]. split.
  - intros s Hin. destruct (Hl s Hin) as (k & Hd & Hv). exists k. split; [exact Hd|]. unfold enum_text. rewrite Hv. reflexivity.
  - intros j k Hk. destruct (Hs j k Hk) as (s & _ & Hin & Hv). exists s. split; [exact Hin|]. unfold enum_text. rewrite Hv. reflexivity.
Qed.

(* integer enums: the member of z stringifies to the decimal text of z *)
Theorem enum_text_int : forall vs m,
  forallb ev_is_int vs = true -> values_from_list vs = Some m ->
  exists cls, int_enum_class m = Some cls /\
    (forall z, In (EInt z) vs -> exists k, enum_decode cls (JInt z) = DMember k /\ enum_text cls k = Some (dec_Z z)).
Proof.
  intros vs m H1 Hm. destruct (enum_exact_int vs m H1 Hm) as (cls & Hc & Hl & _).
  exists cls. split; [exact Hc|]. intros z Hin. destruct (Hl z Hin) as (k & Hd & Hv). exists k. split; [exact Hd|].
  unfold enum_text. rewrite Hv. reflexivity.
Qed.

Print Assumptions enum_text_str.
Print Assumptions enum_text_int.
