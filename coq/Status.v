(* Status.v — which keys of an operation's `responses` map become a documented status of the generated function
   (parser/openapi.py Endpoint._add_responses: `HTTPStatus(int(code))`, ValueError -> diagnostic, response omitted).
   Modelled: Python's int(str) for base 10 (strip of Unicode white space, optional sign, ASCII digits with single underscores
   between digits) followed by membership in the regenerated http.HTTPStatus table (gen/GenStatus.v). Keys containing a
   non-ASCII character other than white space are OUT OF THE MODEL (int() also accepts every Unicode decimal digit):
   the model answers KOutOfModel for them and no theorem speaks about them. *)
From Coq Require Import NArith ZArith List Bool Lia.
Import ListNotations.
Require Import OPC.Uni OPC.gen.GenStatus.
Open Scope N_scope.

Inductive keyres := KStatus (n : Z) | KRejected | KOutOfModel.

Definition is_space (c : N) : bool :=
  memN c [9;10;11;12;13;28;29;30;31;32;133;160;5760;8192;8193;8194;8195;8196;8197;8198;8199;8200;8201;8202;8232;8233;8239;8287;12288].
Fixpoint lstrip (s : str) : str := match s with c :: r => if is_space c then lstrip r else s | [] => [] end.
Definition strip (s : str) : str := rev (lstrip (rev (lstrip s))).
Definition is_digit (c : N) : bool := (48 <=? c) && (c <=? 57).

(* digit (_? digit)*  - value in base 10; prev = the previous character was a digit *)
Fixpoint digits_val (acc : N) (prev : bool) (s : str) : option N :=
  match s with
  | [] => if prev then Some acc else None
  | c :: r =>
      if is_digit c then digits_val (acc * 10 + (c - 48)) true r
      else if (c =? 95) && prev then digits_val acc false r
      else None
  end.

Inductive intres := IOk (z : Z) | IErr | IOut.
Definition int_of_str (s : str) : intres :=
  let t := strip s in
  if existsb (fun c => 127 <? c) t then IOut
  else match t with
       | 43 :: r => match digits_val 0 false r with Some n => IOk (Z.of_N n) | None => IErr end
       | 45 :: r => match digits_val 0 false r with Some n => IOk (- Z.of_N n)%Z | None => IErr end
       | _ => match digits_val 0 false t with Some n => IOk (Z.of_N n) | None => IErr end
       end.

Definition memZ (z : Z) (l : list Z) : bool := existsb (Z.eqb z) l.
Definition status_of_key (s : str) : keyres :=
  match int_of_str s with
  | IOk z => if memZ z http_statuses then KStatus z else KRejected
  | IErr => KRejected
  | IOut => KOutOfModel
  end.

Definition keyres_eqb (a b : keyres) : bool :=
  match a, b with KStatus x, KStatus y => Z.eqb x y | KRejected, KRejected => true | KOutOfModel, KOutOfModel => true | _, _ => false end.

(* ---------------- theorems ---------------- *)
(* an accepted status is a registered one (the generated `response.status_code == n` can then be reached by HTTPStatus(n)) *)
Theorem accepted_is_registered : forall s n, status_of_key s = KStatus n -> In n http_statuses.
Proof.
  intros s n H. unfold status_of_key in H. destruct (int_of_str s) as [z| |]; try discriminate.
  destruct (memZ z http_statuses) eqn:E; [|discriminate]. injection H as <-.
  unfold memZ in E. apply existsb_exists in E. destruct E as [x [Hin Hx]]. apply Z.eqb_eq in Hx. subst x. exact Hin.
Qed.

(* every key is accounted for: a status of the function, or rejected (the parser's handler appends a diagnostic naming the key) *)
Theorem key_accounted : forall s, (exists n, status_of_key s = KStatus n) \/ status_of_key s = KRejected \/ status_of_key s = KOutOfModel.
Proof. intro s. destruct (status_of_key s) as [n| |]; [left; exists n; reflexivity | right; left; reflexivity | right; right; reflexivity]. Qed.

(* the plain three-digit spelling of every registered code is accepted as that code: finite, by computation over the table *)
Definition dec3 (z : Z) : str := let n := Z.to_N z in [48 + n / 100; 48 + (n / 10) mod 10; 48 + n mod 10].
Theorem registered_three_digits : forall z, In z http_statuses -> status_of_key (dec3 z) = KStatus z.
Proof.
  assert (H : forallb (fun z => keyres_eqb (status_of_key (dec3 z)) (KStatus z)) http_statuses = true) by (vm_compute; reflexivity).
  intros z Hin. rewrite forallb_forall in H. specialize (H z Hin).
  destruct (status_of_key (dec3 z)) as [n| |]; cbn in H; try discriminate. apply Z.eqb_eq in H. subst n. reflexivity.
Qed.

(* a key with a letter (default, 2XX, 4xx, ...) is never a status: digits_val fails on any character that is neither digit nor underscore *)
Definition plain_bad (c : N) : bool := negb (is_digit c) && negb (c =? 95).
Lemma digits_val_bad : forall s acc prev, existsb plain_bad s = true -> digits_val acc prev s = None.
Proof.
  induction s as [|c r IH]; intros acc prev H; [discriminate|].
  cbn [existsb] in H. cbn [digits_val]. unfold plain_bad in H.
  destruct (is_digit c) eqn:Ed.
  - cbn [negb andb orb] in H. apply IH. exact H.
  - destruct (c =? 95) eqn:Eu.
    + cbn [negb andb orb] in H. destruct prev; cbn [andb]; [apply IH; exact H | reflexivity].
    + cbn [andb]. reflexivity.
Qed.
Theorem lettered_key_rejected : forall s,
  existsb (fun c => 127 <? c) (strip s) = false ->
  existsb (fun c => plain_bad c && negb (c =? 43) && negb (c =? 45)) (strip s) = true ->
  status_of_key s = KRejected.
Proof.
  intros s Hasc Hbad. unfold status_of_key, int_of_str. rewrite Hasc.
  assert (Hb : existsb plain_bad (strip s) = true).
  { apply existsb_exists in Hbad. destruct Hbad as [c [Hin Hc]]. apply existsb_exists. exists c. split; [exact Hin|].
    apply andb_true_iff in Hc. destruct Hc as [Hc _]. apply andb_true_iff in Hc. destruct Hc as [Hc _]. exact Hc. }
  destruct (strip s) as [|c r] eqn:Et; [discriminate|].
  assert (Hr : c = 43 \/ c = 45 -> existsb plain_bad r = true).
  { intros Hc. apply existsb_exists in Hbad. destruct Hbad as [x [Hin Hx]]. destruct Hin as [<-|Hin].
    - exfalso. apply andb_true_iff in Hx. destruct Hx as [Hx H45]. apply andb_true_iff in Hx. destruct Hx as [_ H43].
      destruct Hc as [-> | ->]; [cbn in H43 | cbn in H45]; discriminate.
    - apply existsb_exists. exists x. split; [exact Hin|].
      apply andb_true_iff in Hx. destruct Hx as [Hx _]. apply andb_true_iff in Hx. destruct Hx as [Hx _]. exact Hx. }
  destruct (N.eqb_spec c 43) as [->|N43].
  - rewrite digits_val_bad by (apply Hr; left; reflexivity). reflexivity.
  - destruct (N.eqb_spec c 45) as [->|N45].
    + rewrite digits_val_bad by (apply Hr; right; reflexivity). reflexivity.
    + assert (E : match c :: r with
                  | 43 :: r0 => match digits_val 0 false r0 with Some n => IOk (Z.of_N n) | None => IErr end
                  | 45 :: r0 => match digits_val 0 false r0 with Some n => IOk (- Z.of_N n)%Z | None => IErr end
                  | _ => match digits_val 0 false (c :: r) with Some n => IOk (Z.of_N n) | None => IErr end
                  end = IErr).
      { rewrite (digits_val_bad (c :: r) 0 false Hb).
        destruct c as [|p]; [reflexivity|]. repeat (destruct p as [p|p|]; try reflexivity); exfalso; (apply N43; reflexivity) || (apply N45; reflexivity). }
      rewrite E. reflexivity.
Qed.

(* the usual wildcard spellings *)
Example wildcard_keys : status_of_key [100;101;102;97;117;108;116] = KRejected /\ status_of_key [50;88;88] = KRejected /\ status_of_key [52;120;120] = KRejected.
Proof. vm_compute. repeat split; reflexivity. Qed.

(* int() is more liberal than the OpenAPI key grammar: distinct keys can denote one status; both are then generated as
   `if response.status_code == 200` blocks and the second can never be reached (cf. EndpointThm.status_alias) *)
Theorem status_key_alias_refuted : exists a b, a <> b /\ status_of_key a = KStatus 200%Z /\ status_of_key b = KStatus 200%Z.
Proof. exists [50;48;48], [32;43;48;50;95;48;48;10]. split; [discriminate|]. vm_compute. split; reflexivity. Qed.
(* a registered code is needed: 299 / 600 / 99 are rejected although they are integers *)
Example unregistered_rejected : status_of_key [50;57;57] = KRejected /\ status_of_key [54;48;48] = KRejected /\ status_of_key [57;57] = KRejected /\ status_of_key [45;50;48;48] = KRejected.
Proof. vm_compute. repeat split; reflexivity. Qed.
Example conv_shape_known : status_conv_known = true.
Proof. reflexivity. Qed.
