(* CliThm.v -- proofs about Cli.v (C06): exit rule, rejected documents write nothing, no diagnostic is dropped on the
   way to the CLI, the retry loops and the request-body reference chain terminate within their bounds. *)
From Coq Require Import NArith List Bool Lia Arith.
Import ListNotations.
Require Import OPC.Uni OPC.Names OPC.NamesThm OPC.Fs OPC.FsThm OPC.Retry OPC.gen.GenCli OPC.Cli.

(* ------------------------------------------------------------------ regenerated facts *)
(* the code still has the shape the model was written against (levels, exit rule, early returns, aggregation,
   loop skeletons, cycle guard, isinstance guards on values read out of classes_by_name, None-tolerant uses of error.detail, the header-or-guess media type dispatch of _get_document); decided on the table regenerated from the working tree on every run *)
Theorem code_shape : code_shape_ok = true.
Proof. vm_compute. reflexivity. Qed.

(* ------------------------------------------------------------------ 1. exit rule *)
Lemma level_eqb_eq a b : level_eqb a b = true <-> a = b.
Proof. destruct a, b; simpl; split; intro H; try reflexivity; discriminate. Qed.

Lemma scan_level_error errs : scan_level errs = LError <-> exists e, In e errs /\ d_level e = LError.
Proof.
  induction errs as [|e t IH]; simpl.
  - split; [discriminate | intros (e & [] & _)].
  - unfold is_error. destruct (level_eqb (d_level e) LError) eqn:El.
    + apply level_eqb_eq in El. split; [intros _; exists e; auto | reflexivity].
    + split.
      * intro H. apply IH in H. destruct H as (x & Hx & Hl). exists x. auto.
      * intros (x & [Hx | Hx] & Hl).
        -- subst x. rewrite Hl in El. discriminate.
        -- apply IH. exists x. auto.
Qed.

Theorem exit_status : forall (errs : list diag) (fow : bool),
  exit_code errs fow <> 0%N <-> (exists e, In e errs /\ d_level e = LError) \/ (fow = true /\ errs <> []).
Proof.
  intros errs fow. unfold exit_code, handle_errors.
  destruct errs as [|e t].
  - simpl. split.
    + intro H. exfalso. apply H. reflexivity.
    + intros [(x & [] & _) | (_ & H)]; exfalso; apply H; reflexivity.
  - cbn [co_exit]. rewrite <- scan_level_error.
    destruct (level_eqb (scan_level (e :: t)) LError) eqn:El.
    + apply level_eqb_eq in El. cbn [orb]. split; [intros _; left; exact El | intros _; discriminate].
    + cbn [orb]. destruct fow.
      * split; [intros _; right; split; [reflexivity | discriminate] | intros _; discriminate].
      * split.
        -- intro H. exfalso. apply H. reflexivity.
        -- intros [H | (H & _)]; [|discriminate]. rewrite H in El. discriminate.
Qed.

Theorem exit_code_binary errs fow : exit_code errs fow = 0%N \/ exit_code errs fow = 1%N.
Proof.
  unfold exit_code, handle_errors. destruct errs; simpl; auto.
  destruct (level_eqb _ _ || fow); auto.
Qed.

(* everything handed to handle_errors is printed, in order; the banner is the scan level *)
Theorem all_printed errs fow : co_printed (handle_errors errs fow) = map d_id errs.
Proof. destruct errs; reflexivity. Qed.

(* ------------------------------------------------------------------ 2. generate *)
Theorem reject_writes_nothing : forall sg mp sc t,
  rejected sc = true -> snd (generate_with sg mp sc t) = t.
Proof.
  intros sg mp sc t H. unfold generate_with, rejected in *.
  destruct (sc_load sc); [reflexivity|].
  destruct (sc_validation sc); [|discriminate].
  destruct (sg || sc_in_ok sc); reflexivity.
Qed.

(* ... and is reported as exactly one ERROR-level diagnostic, exit status 1 (inside the guard) *)
Theorem reject_is_error : forall sg mp sc fow t,
  rejected sc = true -> g_scalar_document sg sc = true ->
  exists id, cli_with sg mp sc fow t = (Ret (mkOut 1 (Some LError) [id]), t)
             /\ (sc_load sc = Some id \/ (sc_load sc = None /\ sc_validation sc = Some id)).
Proof.
  intros sg mp sc fow t H G. unfold cli_with, generate_with, rejected, g_scalar_document in *.
  destruct (sc_load sc) as [id|].
  - exists id. split; [reflexivity | left; reflexivity].
  - destruct (sc_validation sc) as [id|]; [|discriminate].
    rewrite G. exists id. split; [reflexivity | right; split; reflexivity].
Qed.

(* a crash of the model never writes either *)
Theorem crash_writes_nothing : forall sg mp sc t, fst (generate_with sg mp sc t) = Crash -> snd (generate_with sg mp sc t) = t.
Proof.
  intros sg mp sc t. unfold generate_with.
  destruct (sc_load sc); [discriminate|].
  destruct (sc_validation sc).
  - destruct (sg || sc_in_ok sc); [discriminate | reflexivity].
  - destruct (negb (sc_parent_exists sc) && negb (sc_dir_exists sc) && negb mp); [reflexivity|].
    destruct (snd (build _ _ _ _ _ _ _)); discriminate.
Qed.

(* the model is total; inside the two guards it never takes the Crash branch *)
Theorem no_crash_in_guard : forall sg mp sc t,
  g_scalar_document sg sc = true -> g_parent_dir mp sc = true -> fst (generate_with sg mp sc t) <> Crash.
Proof.
  intros sg mp sc t G1 G2. unfold generate_with, g_scalar_document, g_parent_dir in *.
  destruct (sc_load sc); [discriminate|].
  destruct (sc_validation sc).
  - rewrite G1. discriminate.
  - destruct (sc_parent_exists sc), (sc_dir_exists sc), mp; simpl in *; try discriminate;
      destruct (snd (build _ _ _ _ _ _ _)); discriminate.
Qed.
Corollary repaired_never_crashes : forall sc t, fst (generate_with true true sc t) <> Crash.
Proof.
  intros sc t. apply no_crash_in_guard.
  - unfold g_scalar_document. destruct (sc_load sc), (sc_validation sc); reflexivity.
  - unfold g_parent_dir. destruct (sc_load sc), (sc_validation sc); try reflexivity. now rewrite !orb_true_r.
Qed.

Definition sc_witness (in_ok : bool) (val : option N) (parent : bool) : scenario :=
  mkScenario None in_ok val (mkData [] [] [] (Build_doc [] [])) [] 0%N FNone [] false false parent 1%N.
(* the two defects of the pinned code: outside the guards the model does crash (these are properties of generate_with at
   the unrepaired switches, so they stay true after the repairs flip gen_scalar_guard / gen_mkdir_parents) *)
Theorem scalar_document_crash_refuted : exists sc t, g_scalar_document false sc = false /\ fst (generate_with false false sc t) = Crash.
Proof. exists (sc_witness false (Some 7%N) true), []. split; reflexivity. Qed.
Theorem missing_parent_dir_refuted : exists sc t, g_parent_dir false sc = false /\ fst (generate_with true false sc t) = Crash.
Proof. exists (sc_witness true None false), []. split; reflexivity. Qed.
Example guards_satisfiable : g_scalar_document false (sc_witness true (Some 7%N) true) = true
  /\ g_parent_dir false (sc_witness true None true) = true
  /\ fst (generate_with false false (sc_witness true None true) []) = Ret [].
Proof. repeat split. Qed.

(* no stage drops a diagnostic: when the writer ran, the list handed to handle_errors contains every error of every stage,
   nothing else, and all of them are printed *)
Theorem errors_are_values : forall sg mp sc t errs t',
  generate_with sg mp sc t = (Ret errs, t') ->
  rejected sc = false -> (sc_dir_exists sc && negb (sc_overwrite sc)) = false ->
  forall e, (In e (g_schema_errs (sc_data sc)) \/ In e (g_param_errs (sc_data sc))
             \/ (exists c, In c (g_collections (sc_data sc)) /\ In e c) \/ In e (sc_hooks sc))
            <-> In e errs.
Proof.
  intros sg mp sc t errs t' H R D e. unfold generate_with, rejected in *.
  destruct (sc_load sc); [discriminate|]. destruct (sc_validation sc); [discriminate|].
  destruct (negb (sc_parent_exists sc) && negb (sc_dir_exists sc) && negb mp); [discriminate|].
  unfold build in H. rewrite D in H. cbn [snd fst] in H. inversion H; subst errs t'. clear H.
  unfold get_errors, openapi_errors. rewrite !in_app_iff, in_concat.
  split.
  - intros [H | [H | [(c & Hc & He) | H]]]; auto.
    left. exists c. auto.
  - intros [(c & Hc & He) | [[H | H] | H]]; auto.
    right. right. left. exists c. auto.
Qed.
Corollary errors_reach_cli : forall sg mp sc t errs t' fow e,
  generate_with sg mp sc t = (Ret errs, t') ->
  rejected sc = false -> (sc_dir_exists sc && negb (sc_overwrite sc)) = false ->
  (In e (g_schema_errs (sc_data sc)) \/ In e (g_param_errs (sc_data sc))
   \/ (exists c, In c (g_collections (sc_data sc)) /\ In e c) \/ In e (sc_hooks sc)) ->
  In (d_id e) (co_printed (handle_errors errs fow)) /\ (d_level e = LError -> exit_code errs fow = 1%N).
Proof.
  intros sg mp sc t errs t' fow e H R D Hin.
  apply (errors_are_values sg mp sc t errs t' H R D) in Hin. split.
  - rewrite all_printed. now apply in_map.
  - intro Hl. destruct (exit_code_binary errs fow) as [Z | O]; [|exact O].
    exfalso. assert (Hn : exit_code errs fow <> 0%N) by (apply exit_status; left; exists e; auto). auto.
Qed.

(* ------------------------------------------------------------------ 3. retry loops *)
Section WorklistThm.
  Variables (I S E : Type) (step : S -> I -> S * @verdict E).

  Lemma round_accounting : forall todo s,
    let r := round step s todo in
    length (rr_stay r) = length (rr_next r)
    /\ (length (rr_next r) + length (rr_drop r) <= length todo)%nat
    /\ (rr_progress r = true -> (length (rr_next r) + length (rr_drop r) < length todo)%nat)
    /\ (rr_progress r = false -> (length (rr_next r) + length (rr_drop r) = length todo)%nat).
  Proof.
    induction todo as [|i t IH]; intro s; cbn [round].
    - cbn. repeat split; try lia; try discriminate.
    - specialize (IH (fst (step s i))). cbv zeta in IH. destruct IH as (A & B & C & D).
      destruct (snd (step s i)); cbn [rr_stay rr_next rr_drop rr_progress length].
      + repeat split; try lia; try discriminate.
      + repeat split; try lia; intro H; [apply C in H | apply D in H]; lia.
      + repeat split; try lia; intro H; [apply C in H | apply D in H]; lia.
  Qed.

  Lemma round_shrinks s todo : rr_progress (round step s todo) = true -> (length (rr_next (round step s todo)) < length todo)%nat.
  Proof. intro H. pose proof (round_accounting todo s) as R. cbv zeta in R. destruct R as (_ & _ & C & _). apply C in H. lia. Qed.

  Lemma loop_spec : forall fuel s todo drops n tr, (length todo < fuel)%nat ->
    let r := loop step fuel s todo drops n tr in
    lr_exhausted r = false /\ (n < lr_rounds r <= n + length todo + 1)%nat /\ Runs step s todo drops n tr r.
  Proof.
    induction fuel as [|f IH]; intros s todo drops n tr Hf; [lia|].
    cbn [loop]. destruct (rr_progress (round step s todo)) eqn:P.
    - pose proof (round_shrinks s todo P) as L.
      specialize (IH (rr_state (round step s todo)) (rr_next (round step s todo)) (drops ++ rr_drop (round step s todo)) (Datatypes.S n) (tr ++ todo)).
      cbv zeta in IH. destruct IH as (A & B & C); [lia|].
      split; [exact A|]. split; [lia|]. apply RunsMore; assumption.
    - cbn. split; [reflexivity|]. split; [lia|]. apply RunsStop. exact P.
  Qed.

  Lemma Runs_deterministic s todo drops n tr r1 : Runs step s todo drops n tr r1 -> forall r2, Runs step s todo drops n tr r2 -> r1 = r2.
  Proof.
    induction 1 as [s todo drops n tr P | s todo drops n tr res P R IH]; intros r2 H2.
    - inversion H2; subst; [reflexivity | congruence].
    - inversion H2; subst; [congruence | apply IH; assumption].
  Qed.

  (* for EVERY step function (success oracle): the loop ends by its own exit condition, after at most |worklist| + 1
     rounds, and the fuelled function computes the fuel-free semantics *)
  Theorem loops_terminate : forall s todo,
    lr_exhausted (run_loop step s todo) = false
    /\ (1 <= lr_rounds (run_loop step s todo) <= length todo + 1)%nat
    /\ Runs step s todo [] O [] (run_loop step s todo).
  Proof.
    intros s todo. unfold run_loop.
    pose proof (loop_spec (Datatypes.S (length todo)) s todo [] O [] (Nat.lt_succ_diag_r _)) as H. cbv zeta in H.
    destruct H as (A & B & C). repeat split; try assumption; lia.
  Qed.
  Theorem runs_total : forall s todo drops n tr, exists r, Runs step s todo drops n tr r /\ (lr_rounds r <= n + length todo + 1)%nat.
  Proof.
    intros. exists (loop step (Datatypes.S (length todo)) s todo drops n tr).
    pose proof (loop_spec (Datatypes.S (length todo)) s todo drops n tr (Nat.lt_succ_diag_r _)) as H. cbv zeta in H.
    destruct H as (_ & B & C). split; [assumption | lia].
  Qed.
  Theorem fuel_irrelevant : forall fuel s todo, (length todo < fuel)%nat ->
    loop step fuel s todo [] O [] = run_loop step s todo.
  Proof.
    intros fuel s todo H.
    pose proof (loop_spec fuel s todo [] O [] H) as A. cbv zeta in A. destruct A as (_ & _ & A).
    destruct (loops_terminate s todo) as (_ & _ & B).
    exact (Runs_deterministic _ _ _ _ _ _ A _ B).
  Qed.

  (* the rounds the loop goes through *)
  Inductive Visits : S -> list I -> S -> list I -> Prop :=
  | VisitHere s todo : Visits s todo s todo
  | VisitNext s todo s' todo' :
      rr_progress (round step s todo) = true ->
      Visits (rr_state (round step s todo)) (rr_next (round step s todo)) s' todo' -> Visits s todo s' todo'.

  Lemma Runs_keeps_acc s todo drops n tr r : Runs step s todo drops n tr r -> forall e, In e drops -> In e (lr_errors r).
  Proof.
    induction 1 as [s todo drops n tr P | s todo drops n tr res P R IH]; intros e He.
    - cbn. apply in_or_app. left. exact He.
    - apply IH. apply in_or_app. left. exact He.
  Qed.

  Lemma Runs_errors s todo drops n tr r : Runs step s todo drops n tr r ->
    forall s' todo', Visits s todo s' todo' ->
    forall e, (In e (rr_drop (round step s' todo')) \/ (rr_progress (round step s' todo') = false /\ In e (rr_stay (round step s' todo')))) ->
    In e (lr_errors r).
  Proof.
    intros HR s' todo' HV. revert drops n tr r HR.
    induction HV as [s todo | s todo s' todo' P V IH]; intros drops n tr r HR e He.
    - inversion HR; subst.
      + cbn. rewrite !in_app_iff. destruct He as [He | (_ & He)]; auto.
      + destruct He as [He | (Hp & _)]; [|congruence].
        eapply Runs_keeps_acc; [eassumption|]. apply in_or_app. right. exact He.
    - inversion HR; subst; [congruence|]. eapply IH; eassumption.
  Qed.

  (* no error is lost: every permanent failure of every round and every re-queue failure of the last round is in the result *)
  Theorem loop_errors_complete : forall s todo s' todo' e,
    Visits s todo s' todo' ->
    (In e (rr_drop (round step s' todo')) \/ (rr_progress (round step s' todo') = false /\ In e (rr_stay (round step s' todo')))) ->
    In e (lr_errors (run_loop step s todo)).
  Proof.
    intros s todo s' todo' e V H. destruct (loops_terminate s todo) as (_ & _ & R).
    eapply Runs_errors; eassumption.
  Qed.
  (* ... and in the last round every item still on the list produced one (nothing stays pending silently) *)
  Theorem last_round_all_reported : forall s todo,
    rr_progress (round step s todo) = false ->
    (length (rr_stay (round step s todo)) + length (rr_drop (round step s todo)) = length todo)%nat.
  Proof. intros s todo H. pose proof (round_accounting todo s) as R. cbv zeta in R. destruct R as (A & _ & _ & D). apply D in H. lia. Qed.
End WorklistThm.
Arguments Visits {I S E} step _ _ _ _.

(* Retry.v's loop (dependency oracle, used by C12) is an instance, so its fuel is sufficient too *)
Lemma round_retry g : forall todo done,
  Retry.round g done todo = (rr_state (Cli.round (step_retry g) done todo), rr_next (Cli.round (step_retry g) done todo))
  /\ rr_drop (Cli.round (step_retry g) done todo) = [].
Proof.
  induction todo as [|n t IH]; intro done; cbn [Retry.round Cli.round].
  - split; reflexivity.
  - assert (Es : step_retry g done n = if ready g done n then (n :: done, VDone) else (done, VStay n)) by reflexivity.
    rewrite Es. destruct (ready g done n) eqn:R; cbn [fst snd].
    + destruct (IH (n :: done)) as (A & B). rewrite A. cbn. split; [reflexivity | exact B].
    + destruct (IH done) as (A & B). rewrite A. cbn. split; [reflexivity | exact B].
Qed.

Lemma retry_progress g todo done :
  rr_progress (Cli.round (step_retry g) done todo) = negb (Nat.eqb (length (rr_next (Cli.round (step_retry g) done todo))) (length todo)).
Proof.
  pose proof (round_accounting _ _ _ (step_retry g) todo done) as R. cbv zeta in R. destruct R as (_ & _ & C & D).
  destruct (round_retry g todo done) as (_ & Dr). rewrite Dr in C, D. cbn [length] in C, D.
  destruct (rr_progress (Cli.round (step_retry g) done todo)).
  - specialize (C eq_refl). symmetry. apply negb_true_iff. apply Nat.eqb_neq. lia.
  - specialize (D eq_refl). symmetry. apply negb_false_iff. apply Nat.eqb_eq. lia.
Qed.

Theorem retry_is_instance g : forall fuel done todo drops n tr,
  Retry.retry fuel g done todo = (lr_state (loop (step_retry g) fuel done todo drops n tr), lr_left (loop (step_retry g) fuel done todo drops n tr)).
Proof.
  induction fuel as [|f IH]; intros done todo drops n tr; cbn [Retry.retry loop].
  - reflexivity.
  - rewrite retry_progress. destruct (round_retry g todo done) as (A & _). rewrite A. cbn [snd fst].
    destruct (Nat.eqb _ _); cbn [negb].
    + reflexivity.
    + apply IH.
Qed.
Corollary retry_process_terminates g todo :
  Retry.process g todo = (lr_state (run_loop (step_retry g) [] todo), lr_left (run_loop (step_retry g) [] todo))
  /\ lr_exhausted (run_loop (step_retry g) [] todo) = false.
Proof.
  split; [apply retry_is_instance|]. apply loops_terminate.
Qed.

(* ------------------------------------------------------------------ 4. request-body reference chains *)
Lemma mem_str_In r l : mem_str r l = true <-> In r l.
Proof.
  unfold mem_str. rewrite existsb_exists. split.
  - intros (x & Hx & He). apply str_eqb_eq in He. now subst.
  - intro H. exists r. split; [exact H | now apply str_eqb_eq].
Qed.

Definition refs_of (tb : rb_table) : list str :=
  flat_map (fun kv => match snd kv with RRef r => [r] | RBody _ => [] end) tb.
Lemma refs_of_len tb : (length (refs_of tb) <= length tb)%nat.
Proof.
  induction tb as [|[k v] tb IH]; [cbn; lia|].
  unfold refs_of in *. cbn [flat_map snd]. rewrite app_length. destruct v; cbn [length]; lia.
Qed.
Lemma rb_get_ref tb k r : rb_get tb k = Some (RRef r) -> In r (refs_of tb).
Proof.
  induction tb as [|[k' v] tb IH]; cbn; [discriminate|].
  destruct (str_eqb k' k).
  - intro H. inversion H; subst. cbn. now left.
  - intro H. apply in_or_app. right. now apply IH.
Qed.

Lemma iter_succ_r {A} (f : A -> A) n x : Nat.iter (Datatypes.S n) f x = Nat.iter n f (f x).
Proof.
  induction n as [|n IH]; [reflexivity|].
  change (f (Nat.iter (Datatypes.S n) f x) = f (Nat.iter n f (f x))). now rewrite IH.
Qed.
Lemma iter_plus {A} (f : A -> A) a b x : Nat.iter (a + b) f x = Nat.iter a f (Nat.iter b f x).
Proof.
  induction a as [|a IH]; [reflexivity|].
  change (f (Nat.iter (a + b) f x) = f (Nat.iter a f (Nat.iter b f x))). now rewrite IH.
Qed.

Section Chain.
  Variable tb : rb_table.
  Notation chain := (chain tb).

  (* loop invariant: the visited list has no repetition; all but the first visited reference come out of the table; the
     list is exactly the references met on the chain so far *)
  Definition Inv (b0 b : option rbody) (seen : list str) (steps : nat) : Prop :=
    NoDup seen
    /\ (seen = [] \/ exists first rest, seen = rest ++ [first] /\ incl rest (refs_of tb))
    /\ (seen <> [] -> forall r, b = Some (RRef r) -> In r (refs_of tb))
    /\ steps = length seen
    /\ b = chain b0 steps
    /\ (forall x, In x seen -> exists i, (i < steps)%nat /\ chain b0 i = Some (RRef x)).

  Lemma inv_len b0 b seen steps : Inv b0 b seen steps -> (length seen <= Datatypes.S (length tb))%nat.
  Proof.
    intros (ND & Sh & _). destruct Sh as [-> | (first & rest & -> & Hincl)]; [cbn; lia|].
    apply NoDup_remove_1 in ND. rewrite app_nil_r in ND.
    pose proof (NoDup_incl_length ND Hincl) as L. pose proof (refs_of_len tb). rewrite app_length. cbn. lia.
  Qed.

  Lemma resolve_loop_spec b0 : forall fuel b seen steps,
    Inv b0 b seen steps -> (Datatypes.S (length tb) < fuel + length seen)%nat ->
    let st := resolve_loop fuel tb b seen steps in
    rl_exhausted st = false /\ Inv b0 (rl_body st) (rl_seen st) (rl_steps st)
    /\ (forall r, rl_body st = Some (RRef r) -> In r (rl_seen st)).
  Proof.
    induction fuel as [|f IH]; intros b seen steps HI Hf.
    - pose proof (inv_len _ _ _ _ HI). cbn in Hf. lia.
    - cbn [resolve_loop]. destruct b as [[r | id]|].
      + destruct (mem_str r seen) eqn:M.
        * cbn. split; [reflexivity|]. split; [exact HI|]. intros r' H. inversion H; subst. now apply mem_str_In.
        * assert (Hn : ~ In r seen) by (intro H; apply mem_str_In in H; congruence).
          destruct HI as (ND & Sh & Tb & St & Ch & Sn).
          apply IH; [|cbn [length]; lia].
          repeat split.
          -- constructor; assumption.
          -- right. destruct Sh as [-> | (first & rest & -> & Hincl)].
             ++ exists r, []. split; [reflexivity | intros x []].
             ++ exists first, (r :: rest). split; [reflexivity|].
                intros x [<- | Hx]; [|now apply Hincl].
                apply (Tb ltac:(destruct rest; discriminate) r eq_refl).
          -- intros _ r' H. eapply rb_get_ref. exact H.
          -- cbn [length]. now rewrite St.
          -- change (chain b0 (Datatypes.S steps)) with (follow tb (chain b0 steps)). rewrite <- Ch. reflexivity.
          -- intros x [<- | Hx].
             ++ exists steps. split; [lia | now rewrite <- Ch].
             ++ destruct (Sn x Hx) as (i & Hi & Hc). exists i. split; [lia | exact Hc].
      + cbn. split; [reflexivity|]. split; [exact HI | discriminate].
      + cbn. split; [reflexivity|]. split; [exact HI | discriminate].
  Qed.

  Lemma inv_init b0 : Inv b0 b0 [] O.
  Proof.
    repeat split; try reflexivity.
    - constructor.
    - now left.
    - intro H. now contradiction H.
    - intros x [].
  Qed.

  Lemma run_spec b0 :
    let st := resolve_run tb b0 in
    rl_exhausted st = false /\ Inv b0 (rl_body st) (rl_seen st) (rl_steps st)
    /\ (forall r, rl_body st = Some (RRef r) -> In r (rl_seen st)).
  Proof. apply resolve_loop_spec; [apply inv_init | cbn; lia]. Qed.

  (* the loop stops by its own condition within |components| + 1 steps *)
  Theorem body_ref_terminates b0 :
    rl_exhausted (resolve_run tb b0) = false /\ (rl_steps (resolve_run tb b0) <= length tb + 1)%nat.
  Proof.
    destruct (run_spec b0) as (A & HI & _). split; [exact A|].
    pose proof (inv_len _ _ _ _ HI) as L. destruct HI as (_ & _ & _ & St & _). lia.
  Qed.

  Lemma follow_fix_body b0 id n : chain b0 n = Some (RBody id) -> forall m, (n <= m)%nat -> chain b0 m = Some (RBody id).
  Proof.
    intros H m Hm. replace m with ((m - n) + n)%nat by lia. unfold Cli.chain. rewrite iter_plus. fold (chain b0 n). rewrite H.
    induction (m - n)%nat as [|k IH]; [reflexivity|].
    change (follow tb (Nat.iter k (follow tb) (Some (RBody id))) = Some (RBody id)). now rewrite IH.
  Qed.
  Lemma follow_fix_none b0 n : chain b0 n = None -> forall m, (n <= m)%nat -> chain b0 m = None.
  Proof.
    intros H m Hm. replace m with ((m - n) + n)%nat by lia. unfold Cli.chain. rewrite iter_plus. fold (chain b0 n). rewrite H.
    induction (m - n)%nat as [|k IH]; [reflexivity|].
    change (follow tb (Nat.iter k (follow tb) None) = None). now rewrite IH.
  Qed.
  Lemma chain_shift b0 i j : chain b0 i = chain b0 j -> forall m, chain b0 (m + i) = chain b0 (m + j).
  Proof. intros H m. unfold Cli.chain. rewrite !iter_plus. fold (chain b0 i) (chain b0 j). now rewrite H. Qed.
  Lemma chain_periodic b0 i p : chain b0 i = chain b0 (p + i) -> forall q, chain b0 i = chain b0 (q * p + i).
  Proof.
    intros H q. induction q as [|q IH]; [reflexivity|].
    rewrite IH. replace (Datatypes.S q * p + i)%nat with (q * p + (p + i))%nat by lia.
    apply chain_shift. exact H.
  Qed.

  (* a chain that never leaves references (a cycle) yields the error value *)
  Theorem cycle_is_error b0 : (forall n, is_ref (chain b0 n) = true) -> exists r, resolve_reference tb b0 = ResCircular r.
  Proof.
    intro H. unfold resolve_reference.
    pose proof (H O) as H0. unfold Cli.chain in H0. cbn in H0.
    destruct (run_spec b0) as (_ & HI & _). destruct HI as (_ & _ & _ & _ & Ch & _).
    specialize (H (rl_steps (resolve_run tb b0))). rewrite <- Ch in H.
    destruct b0 as [x|]; [|discriminate].
    destruct (rl_body (resolve_run tb (Some x))) as [[r | id]|]; try discriminate. now exists r.
  Qed.
  (* the error value is only produced by a genuine cycle: the same reference occurs at two different positions *)
  Theorem circular_is_cycle b0 r : resolve_reference tb b0 = ResCircular r ->
    exists i j, (i < j)%nat /\ chain b0 i = Some (RRef r) /\ chain b0 j = Some (RRef r).
  Proof.
    unfold resolve_reference.
    destruct (run_spec b0) as (_ & HI & Hs). destruct HI as (_ & _ & _ & _ & Ch & Sn).
    destruct b0 as [x|]; [|discriminate].
    destruct (rl_body (resolve_run tb (Some x))) as [[r' | id]|] eqn:Er; try discriminate.
    - intro H. inversion H; subst r'. destruct (Sn r (Hs r eq_refl)) as (i & Hi & Hc).
      exists i, (rl_steps (resolve_run tb (Some x))). repeat split; [exact Hi | exact Hc | now rewrite <- Ch].
    - destruct (rl_seen _); discriminate.
  Qed.
  (* an acyclic chain resolves to its terminal body, and only such a chain does *)
  Theorem resolved_is_terminal b0 id : resolve_reference tb b0 = ResBody id -> exists n, chain b0 n = Some (RBody id).
  Proof.
    unfold resolve_reference.
    destruct (run_spec b0) as (_ & HI & _). destruct HI as (_ & _ & _ & _ & Ch & _).
    destruct b0 as [x|]; [|discriminate].
    destruct (rl_body (resolve_run tb (Some x))) as [[r' | id']|] eqn:Er; try discriminate.
    - intro H. inversion H; subst id'. now exists (rl_steps (resolve_run tb (Some x))).
    - destruct (rl_seen _); discriminate.
  Qed.
  Theorem chain_resolves b0 id n : chain b0 n = Some (RBody id) -> resolve_reference tb b0 = ResBody id.
  Proof.
    intro Hn. unfold resolve_reference.
    destruct (run_spec b0) as (_ & HI & Hs). destruct HI as (_ & _ & _ & _ & Ch & Sn).
    set (k := rl_steps (resolve_run tb b0)) in *.
    destruct b0 as [x|].
    2:{ assert (H : chain None n = None) by (apply (follow_fix_none None O); [reflexivity | lia]). congruence. }
    destruct (rl_body (resolve_run tb (Some x))) as [[r | id']|] eqn:Er.
    - exfalso. destruct (Sn r (Hs r eq_refl)) as (i & Hi & Hc).
      assert (P : chain (Some x) i = chain (Some x) ((k - i) + i)) by (replace (k - i + i)%nat with k by lia; congruence).
      pose proof (chain_periodic _ i (k - i) P n) as Q.
      assert (T : chain (Some x) (n * (k - i) + i) = Some (RBody id)).
      { apply (follow_fix_body _ id n Hn). assert (1 <= k - i)%nat by lia. nia. }
      congruence.
    - f_equal. assert (A : chain (Some x) (Nat.max n k) = Some (RBody id)) by (apply (follow_fix_body _ id n Hn); lia).
      assert (B : chain (Some x) (Nat.max n k) = Some (RBody id')) by (apply (follow_fix_body _ id' k); [now symmetry | lia]).
      congruence.
    - exfalso. assert (A : chain (Some x) (Nat.max n k) = Some (RBody id)) by (apply (follow_fix_body _ id n Hn); lia).
      assert (B : chain (Some x) (Nat.max n k) = None) by (apply (follow_fix_none _ k); [now symmetry | lia]).
      congruence.
  Qed.
End Chain.
