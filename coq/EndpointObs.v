(* EndpointObs.v — comparison helpers for the correspondence check of Endpoint.v. Definitions only. *)
From Coq Require Import NArith ZArith List Bool.
Import ListNotations.
Require Import OPC.gen.GenKinds OPC.Uni OPC.Names OPC.Codec OPC.CodecObs OPC.Types OPC.Endpoint.
Open Scope N_scope.

Fixpoint dict_eqb (a b : dict) : bool :=
  match a, b with
  | [], [] => true
  | (k1, x) :: a', (k2, y) :: b' => str_eqb k1 k2 && pv_eqb (norm_pv x) y && dict_eqb a' b'
  | _, _ => false
  end.
Definition opt_dict_eqb (a b : option dict) : bool :=
  match a, b with Some x, Some y => dict_eqb x y | None, None => true | _, _ => false end.
Definition opt_pv_eqb' (a b : option pv) : bool :=
  match a, b with Some x, Some y => pv_eqb (norm_pv x) y | None, None => true | _, _ => false end.
Definition kw_eqb (m o : kwargs) : bool :=
  str_eqb (kw_method m) (kw_method o) && str_eqb (kw_url m) (kw_url o) &&
  opt_dict_eqb (kw_params m) (kw_params o) && opt_dict_eqb (kw_cookies m) (kw_cookies o) && opt_dict_eqb (kw_headers m) (kw_headers o) &&
  opt_pv_eqb' (kw_json m) (kw_json o) && opt_pv_eqb' (kw_data m) (kw_data o) && Bool.eqb (kw_other_body m) (kw_other_body o).
(* obs = None: the generated _get_kwargs raised *)
Definition kw_case (T : ctable) (ep : endpoint) (a : args) (obs : option kwargs) : bool :=
  match get_kwargs T 40 ep a, obs with
  | Some m, Some o => kw_eqb m o
  | None, None => true
  | _, _ => false
  end.
Definition presult_eqb (m o : presult) : bool :=
  match m, o with
  | PRaiseUnexpected, PRaiseUnexpected | PRaiseOther, PRaiseOther => true
  | PVal a, PVal b => opt_pv_eqb' a b
  | _, _ => false
  end.
Definition parse_case (o : oracles) (T : ctable) (ep : endpoint) (flag : bool) (h : hresp) (obs : presult) : bool :=
  presult_eqb (parse o T 40 ep flag h) obs.
