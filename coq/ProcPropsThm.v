(* ProcPropsThm.v — proofs about ProcProps.v: the allOf property loop, where merging (C15) and python-name conflict
   resolution (C09) interact. *)
From Coq Require Import NArith ZArith PeanoNat List Bool Lia.
Import ListNotations.
Require Import OPC.gen.GenTables OPC.Uni OPC.Names OPC.NamesThm OPC.PyLit OPC.Values OPC.Merge OPC.MergeThm.
Require Import OPC.Scopes OPC.ScopesThm OPC.ProcProps.
Open Scope N_scope.

#[local] Opaque python_identifier.

(* ================= generic ================= *)
Lemma str_eqb_sym a b : str_eqb a b = str_eqb b a.
Proof.
  destruct (str_eqb a b) eqn:E1, (str_eqb b a) eqn:E2; try reflexivity.
  - apply str_eqb_eq in E1. subst. rewrite ScopesThm.str_eqb_refl in E2. discriminate.
  - apply str_eqb_eq in E2. subst. rewrite ScopesThm.str_eqb_refl in E1. discriminate.
Qed.

Lemma attr_eqb_eq a b : attr_eqb a b = true <-> a = b.
Proof.
  unfold attr_eqb. rewrite andb_true_iff, !str_eqb_eq. destruct a as [n1 p1], b as [n2 p2]; cbn [a_name a_py]. split.
  - intros [-> ->]. reflexivity.
  - intros H. injection H as -> ->. auto.
Qed.

Lemma attrs_eqb_eq : forall a b, list_eqb attr_eqb a b = true <-> a = b.
Proof.
  induction a as [|x a IH]; intros [|y b]; cbn [list_eqb]; try (split; [discriminate|discriminate]).
  - split; reflexivity.
  - rewrite andb_true_iff, attr_eqb_eq, IH. split.
    + intros [-> ->]. reflexivity.
    + intros H. injection H as -> ->. auto.
Qed.

(* ================= names of the state ================= *)
Lemma scan_names prefix : forall others cur c others',
  scan_conflicts prefix cur others = Ok (c, others') ->
  map a_name others' = map a_name others /\ a_name c = a_name cur.
Proof.
  induction others as [|x os IH]; intros cur c others' H; cbn [scan_conflicts] in H.
  - injection H as <- <-. split; reflexivity.
  - destruct (str_eqb (a_name x) (a_name cur) || negb (str_eqb (a_py x) (a_py cur))).
    + destruct (scan_conflicts prefix cur os) as [[c1 os1]|] eqn:Es; [|discriminate].
      injection H as <- <-. destruct (IH _ _ _ Es) as [Hm Hn]. split; [cbn [map]; now rewrite Hm|exact Hn].
    + destruct (str_eqb (a_py (attr_raw prefix cur)) (a_py (attr_raw prefix x))); [discriminate|].
      destruct (scan_conflicts prefix (attr_raw prefix cur) os) as [[c1 os1]|] eqn:Es; [|discriminate].
      injection H as <- <-. destruct (IH _ _ _ Es) as [Hm Hn]. split; [cbn [map attr_raw a_name]; now rewrite Hm|exact Hn].
Qed.

Lemma dedup_step_in acc n : In n acc -> dedup_step acc n = acc.
Proof. intro H. unfold dedup_step. apply mem_str_In in H. now rewrite H. Qed.
Lemma dedup_step_notin acc n : ~ In n acc -> dedup_step acc n = acc ++ [n].
Proof. intro H. unfold dedup_step. apply mem_str_false in H. now rewrite H. Qed.

Lemma put_attr_names c : forall l, map a_name (put_attr c l) = dedup_step (map a_name l) (a_name c).
Proof.
  induction l as [|x l IH]; cbn [put_attr map].
  - reflexivity.
  - destruct (str_eqb (a_name x) (a_name c)) eqn:E.
    + apply str_eqb_eq in E. cbn [map]. rewrite dedup_step_in; [now rewrite E|]. left. exact E.
    + cbn [map]. rewrite IH. apply ScopesThm.str_eqb_neq in E.
      destruct (in_dec (list_eq_dec N.eq_dec) (a_name c) (map a_name l)) as [Hi|Hn].
      * rewrite !dedup_step_in; [reflexivity|now right|exact Hi].
      * rewrite !dedup_step_notin; [reflexivity| |exact Hn]. intros [H|H]; [now apply E|now apply Hn].
Qed.

Lemma add_prop_names_step o acc n p acc' :
  add_prop o acc n p = Some acc' -> map fst acc' = dedup_step (map fst acc) n.
Proof.
  intro H. destruct (add_prop_names o _ _ _ _ H) as [[Hi ->]|[Hn ->]].
  - now rewrite dedup_step_in.
  - now rewrite dedup_step_notin.
Qed.

Lemma dedup_step_NoDup acc n : NoDup acc -> NoDup (dedup_step acc n).
Proof.
  intro H. destruct (in_dec (list_eq_dec N.eq_dec) n acc) as [Hi|Hn].
  - now rewrite dedup_step_in.
  - rewrite dedup_step_notin by exact Hn. now apply ScopesThm.NoDup_snoc.
Qed.

Lemma dedup_step_In acc n x : In x (dedup_step acc n) <-> In x acc \/ x = n.
Proof.
  destruct (in_dec (list_eq_dec N.eq_dec) n acc) as [Hi|Hn].
  - rewrite dedup_step_in by exact Hi. split; [auto|]. intros [H| ->]; assumption.
  - rewrite dedup_step_notin by exact Hn. rewrite in_app_iff. cbn [In]. split.
    + intros [H|[H|[]]]; auto.
    + intros [H| ->]; auto.
Qed.

Lemma fold_dedup_NoDup : forall l acc, NoDup acc -> NoDup (fold_left dedup_step l acc).
Proof. induction l as [|n l IH]; intros acc H; cbn [fold_left]; [exact H|]. apply IH. now apply dedup_step_NoDup. Qed.

Lemma fold_dedup_In : forall l acc x, In x (fold_left dedup_step l acc) <-> In x acc \/ In x l.
Proof.
  induction l as [|n l IH]; intros acc x; cbn [fold_left In]; [tauto|].
  rewrite IH, dedup_step_In. split.
  - intros [[H|H]|H]; auto.
  - intros [H|[H|H]]; auto.
Qed.

Lemma fold_dedup_prefix : forall l acc, exists suf, fold_left dedup_step l acc = acc ++ suf.
Proof.
  induction l as [|n l IH]; intros acc; cbn [fold_left].
  - exists []. now rewrite app_nil_r.
  - destruct (IH (dedup_step acc n)) as [suf Hs]. rewrite Hs. unfold dedup_step.
    destruct (mem_str n acc).
    + now exists suf.
    + exists ([n] ++ suf). now rewrite app_assoc.
Qed.

Theorem dedup_NoDup l : NoDup (dedup l).
Proof. apply fold_dedup_NoDup. constructor. Qed.
Theorem dedup_In l x : In x (dedup l) <-> In x l.
Proof. unfold dedup. rewrite fold_dedup_In. cbn [In]. tauto. Qed.

(* the two parallel lists of the state carry the same document names, each once *)
Definition wf (st : pstate) : Prop :=
  map a_name (st_attrs st) = map fst (st_props st) /\ NoDup (map fst (st_props st)).

Lemma wf_empty : wf st_empty.
Proof. split; [reflexivity|constructor]. Qed.

Lemma add_pp_names o prefix st i st' q :
  wf st -> add_pp_ev o prefix st i = POk (st', q) ->
  wf st' /\ map fst (st_props st') = dedup_step (map fst (st_props st)) (i_name i).
Proof.
  intros [Hw Hnd] H. unfold add_pp_ev in H.
  destruct (add_prop o (st_props st) (i_name i) (i_prop i)) as [props'|] eqn:Ea; [|discriminate].
  destruct (scan_conflicts prefix _ (st_attrs st)) as [[c attrs']|] eqn:Es; [|discriminate].
  injection H as <- <-. unfold wf. cbn [st_attrs st_props].
  destruct (scan_names _ _ _ _ _ Es) as [Hm Hn]. cbn [a_name] in Hn.
  pose proof (add_prop_names_step _ _ _ _ _ Ea) as Hp.
  split; [|exact Hp]. split.
  - rewrite put_attr_names, Hm, Hn, Hw, Hp. reflexivity.
  - rewrite Hp. now apply dedup_step_NoDup.
Qed.

Lemma process_ev_names o prefix : forall ins st q st' q',
  wf st -> process_ev o prefix st q ins = POk (st', q') ->
  wf st' /\ map fst (st_props st') = fold_left dedup_step (map i_name ins) (map fst (st_props st)).
Proof.
  induction ins as [|i ins IH]; intros st q st' q' Hw H; cbn [process_ev] in H.
  - injection H as <- <-. split; [exact Hw|reflexivity].
  - destruct (add_pp_ev o prefix st i) as [[st1 q1]| | |] eqn:Ea; try discriminate.
    destruct (add_pp_names _ _ _ _ _ _ Hw Ea) as [Hw1 Hn1].
    destruct (IH _ _ _ _ Hw1 H) as [Hw' Hn']. split; [exact Hw'|].
    cbn [map fold_left]. now rewrite Hn', Hn1.
Qed.

Lemma out_of_gen (f : attr -> str) : forall (l1 : list attr) (l2 : list (str * mprop)),
  map a_name l1 = map fst l2 ->
  map (fun ap : attr * (str * mprop) => f (fst ap)) (combine l1 l2) = map f l1 /\
  map (fun ap : attr * (str * mprop) => (a_name (fst ap), snd (snd ap))) (combine l1 l2) = l2.
Proof.
  induction l1 as [|a l1 IH]; intros [|[n p] l2] H; cbn [map combine] in *; try discriminate.
  - split; reflexivity.
  - injection H as Hn Hr. destruct (IH _ Hr) as [H1 H2]. cbn [fst snd]. rewrite H1, H2, Hn. split; reflexivity.
Qed.

Lemma out_of_names st : wf st -> map i_name (out_of st) = map fst (st_props st).
Proof.
  intros [Hw _]. unfold out_of. rewrite map_map. cbn [i_name].
  rewrite (proj1 (out_of_gen a_name _ _ Hw)). exact Hw.
Qed.
Lemma out_of_pys st : wf st -> map i_py (out_of st) = map a_py (st_attrs st).
Proof.
  intros [Hw _]. unfold out_of. rewrite map_map. cbn [i_py]. exact (proj1 (out_of_gen a_py _ _ Hw)).
Qed.
Lemma out_of_payloads st : wf st -> payloads (out_of st) = st_props st.
Proof.
  intros [Hw _]. unfold payloads, out_of. rewrite map_map. cbn [i_name i_prop]. exact (proj2 (out_of_gen a_name _ _ Hw)).
Qed.

Lemma process_inv o prefix ins out :
  process o prefix ins = POk out ->
  exists st q, process_ev o prefix st_empty true ins = POk (st, q) /\ out = out_of st.
Proof.
  unfold process. destruct (process_ev o prefix st_empty true ins) as [[st q]| | |]; cbn [pres_map]; try discriminate.
  intro H. injection H as <-. now exists st, q.
Qed.

(* process_names_exact: the composed model has exactly the incoming document names, each once, in order of first appearance *)
Theorem process_names_exact o prefix ins out :
  process o prefix ins = POk out ->
  map i_name out = in_names ins /\ NoDup (map i_name out) /\
  forall n, In n (map i_name out) <-> In n (map i_name ins).
Proof.
  intro H. destruct (process_inv _ _ _ _ H) as (st & q & He & ->).
  destruct (process_ev_names _ _ _ _ _ _ _ wf_empty He) as [Hw Hn]. cbn [st_empty st_props map] in Hn.
  assert (E: map i_name (out_of st) = in_names ins) by (rewrite out_of_names by exact Hw; exact Hn).
  rewrite E. split; [reflexivity|]. split; [apply dedup_NoDup|]. intro n. apply dedup_In.
Qed.

(* ================= the payloads are those of Merge.collect (C15) ================= *)
Lemma process_ev_collect o prefix : forall ins st q st' q',
  process_ev o prefix st q ins = POk (st', q') ->
  fold_left (cstep o) (payloads ins) (Some (st_props st)) = Some (st_props st').
Proof.
  induction ins as [|i ins IH]; intros st q st' q' H; cbn [process_ev] in H.
  - injection H as <- <-. reflexivity.
  - destruct (add_pp_ev o prefix st i) as [[st1 q1]| | |] eqn:Ea; try discriminate.
    cbn [payloads map fold_left cstep fst snd]. unfold add_pp_ev in Ea.
    destruct (add_prop o (st_props st) (i_name i) (i_prop i)) as [props'|] eqn:Ep; [|discriminate].
    destruct (scan_conflicts prefix _ (st_attrs st)) as [[c attrs']|]; [|discriminate].
    injection Ea as <- <-. exact (IH _ _ _ _ H).
Qed.

Theorem process_collect o prefix ins out :
  process o prefix ins = POk out -> collect o (payloads ins) = Some (payloads out).
Proof.
  intro H. destruct (process_inv _ _ _ _ H) as (st & q & He & ->).
  destruct (process_ev_names _ _ _ _ _ _ _ wf_empty He) as [Hw _].
  rewrite out_of_payloads by exact Hw. rewrite collect_eq. exact (process_ev_collect _ _ _ _ _ _ _ He).
Qed.

Lemma existsb_map_comp {A B} (f : B -> bool) (g : A -> B) : forall l, existsb f (map g l) = existsb (fun x => f (g x)) l.
Proof. induction l as [|x l IH]; cbn [map existsb]; [reflexivity|now rewrite IH]. Qed.

(* a property of the composed model is required iff some incoming declaration of that name is *)
Theorem process_required o prefix ins out x :
  process o prefix ins = POk out -> In x out ->
  mp_required (i_prop x) = existsb (fun i => str_eqb (i_name x) (i_name i) && mp_required (i_prop i)) ins.
Proof.
  intros H Hin. pose proof (process_collect _ _ _ _ H) as Hc.
  assert (Hi: In (i_name x, i_prop x) (payloads out)).
  { unfold payloads. apply in_map_iff. now exists x. }
  rewrite (collect_required _ _ _ _ _ Hc Hi). unfold payloads. rewrite existsb_map_comp. reflexivity.
Qed.

(* ================= what one step guarantees (no guard) ================= *)
(* After adding / merging `i`: the stored entry c has i's document name; its python name is the merged property's one or the
   raw-name fallback; every other entry is unchanged or renamed to its raw name; every other entry that collided with the merged
   python name now differs from c; and if c kept the merged python name it differs from EVERY other entry (the scan skips the
   entry of the same document name and goes on).  Nothing is said about a third party whose python name equals a raw-name
   fallback made in this step (attr_rename_unchecked, process_step_distinct_refuted). *)
Theorem add_pp_guarantee o prefix st i st' q :
  add_pp_ev o prefix st i = POk (st', q) ->
  exists c attrs',
    st_attrs st' = put_attr c attrs' /\ a_name c = i_name i /\
    (a_py c = merged_py st i \/ a_py c = py_raw prefix (i_name i)) /\
    length attrs' = length (st_attrs st) /\
    forall k x x', nth_error (st_attrs st) k = Some x -> nth_error attrs' k = Some x' ->
      (x' = x \/ x' = attr_raw prefix x) /\
      (a_name x <> i_name i -> a_py x = merged_py st i -> a_py x' <> a_py c) /\
      (a_name x <> i_name i -> a_py c = merged_py st i -> a_py x' <> a_py c).
Proof.
  intro H. unfold add_pp_ev in H.
  destruct (add_prop o (st_props st) (i_name i) (i_prop i)) as [props'|]; [|discriminate].
  destruct (scan_conflicts prefix _ (st_attrs st)) as [[c attrs']|] eqn:Es; [|discriminate].
  injection H as <- <-. cbn [st_attrs].
  destruct (scan_spec _ _ _ _ _ Es) as [Hn [Hp [Hl Hi]]]. cbn [a_name a_py] in Hn, Hp, Hi.
  exists c, attrs'. repeat split; try assumption; apply (Hi k x x' H H0).
Qed.

(* ================= runs without any raw-name fallback: distinct python names ================= *)
Lemma put_attr_NoDup c : forall l,
  NoDup (map a_name l) -> NoDup (map a_py l) ->
  (forall x, In x l -> a_name x <> a_name c -> a_py x <> a_py c) ->
  NoDup (map a_py (put_attr c l)).
Proof.
  induction l as [|x l IH]; intros Hn Hp Hc; cbn [put_attr map].
  - constructor; [intros []|constructor].
  - cbn [map] in Hn, Hp. inversion Hn as [|? ? Hxn Hln]; subst. inversion Hp as [|? ? Hxp Hlp]; subst.
    destruct (str_eqb (a_name x) (a_name c)) eqn:E.
    + apply str_eqb_eq in E. cbn [map]. constructor; [|exact Hlp].
      intro Hin. apply in_map_iff in Hin as [y [Hy Hyl]].
      apply (Hc y); [now right| |exact Hy].
      intro En. apply Hxn. rewrite E, <- En. now apply in_map.
    + apply ScopesThm.str_eqb_neq in E. cbn [map]. constructor.
      * intro Hin. apply in_map_iff in Hin as [y [Hy Hyl]].
        (* y is an entry of put_attr c l: either c itself or an entry of l *)
        assert (Hy': y = c \/ In y l).
        { clear - Hyl. induction l as [|z l IHl]; cbn [put_attr] in Hyl.
          - destruct Hyl as [<-|[]]. now left.
          - destruct (str_eqb (a_name z) (a_name c)).
            + destruct Hyl as [<-|Hyl]; [now left|right; now right].
            + destruct Hyl as [<-|Hyl]; [right; now left|]. destruct (IHl Hyl) as [->|Hl]; [now left|right; now right]. }
        destruct Hy' as [->|Hyl'].
        -- apply (Hc x); [now left|exact E|now symmetry].
        -- apply Hxp. rewrite <- Hy. now apply in_map.
      * apply IH; [exact Hln|exact Hlp|]. intros y Hyl. apply Hc. now right.
Qed.

Lemma add_pp_quiet o prefix st i st' :
  wf st -> NoDup (map a_py (st_attrs st)) ->
  add_pp_ev o prefix st i = POk (st', true) -> NoDup (map a_py (st_attrs st')).
Proof.
  intros [Hw Hnd] Hp H. unfold add_pp_ev in H.
  destruct (add_prop o (st_props st) (i_name i) (i_prop i)) as [props'|]; [|discriminate].
  destruct (scan_conflicts prefix _ (st_attrs st)) as [[c attrs']|] eqn:Es; [|discriminate].
  injection H as <- Hq. cbn [st_attrs]. apply andb_true_iff in Hq as [Hc Ha].
  apply attr_eqb_eq in Hc. apply attrs_eqb_eq in Ha. subst c attrs'.
  destruct (scan_spec _ _ _ _ _ Es) as [_ [_ [_ Hi]]].
  apply put_attr_NoDup; [now rewrite Hw|exact Hp|].
  intros x Hx Hne. destruct (In_nth_error _ _ Hx) as [k Hk].
  destruct (Hi k x x Hk Hk) as [_ [_ H3]]. apply H3; [exact Hne|reflexivity].
Qed.

Lemma process_ev_quiet o prefix : forall ins st q st',
  wf st -> NoDup (map a_py (st_attrs st)) ->
  process_ev o prefix st q ins = POk (st', true) ->
  q = true /\ wf st' /\ NoDup (map a_py (st_attrs st')).
Proof.
  induction ins as [|i ins IH]; intros st q st' Hw Hp H; cbn [process_ev] in H.
  - injection H as <- ->. auto.
  - destruct (add_pp_ev o prefix st i) as [[st1 q1]| | |] eqn:Ea; try discriminate.
    destruct (add_pp_names _ _ _ _ _ _ Hw Ea) as [Hw1 _].
    destruct q1.
    + pose proof (add_pp_quiet _ _ _ _ _ Hw Hp Ea) as Hp1.
      destruct (IH _ _ _ Hw1 Hp1 H) as [Hq [Hw' Hp']]. rewrite andb_true_r in Hq. auto.
    + (* a step that renamed something makes the final flag false *)
      exfalso. rewrite andb_false_r in H. clear - H.
      revert st1 H. induction ins as [|j ins IHi]; intros st1 H; cbn [process_ev] in H.
      * discriminate.
      * destruct (add_pp_ev o prefix st1 j) as [[st2 q2]| | |]; try discriminate. cbn [andb] in H. eapply IHi; exact H.
Qed.

(* process_quiet_distinct: for ALL incoming lists (whatever python names the incoming properties carry): a successful run in which
   no raw-name fallback took place ends with pairwise distinct python names — in particular a merged property whose python name
   reverted to that of the new declaration is compared with every other property *)
Theorem process_quiet_distinct o prefix ins out :
  process o prefix ins = POk out -> g_quiet o prefix ins = true -> NoDup (map i_py out).
Proof.
  intros H G. destruct (process_inv _ _ _ _ H) as (st & q & He & ->). unfold g_quiet in G. rewrite He in G. subst q.
  destruct (process_ev_quiet _ _ _ _ _ _ wf_empty (NoDup_nil _) He) as [_ [Hw Hp]].
  now rewrite out_of_pys.
Qed.

(* ================= the static guard: no two document names collide after snake-casing ================= *)
Lemma find_attr_name n : forall l a, find_attr n l = Some a -> a_name a = n /\ In a l.
Proof.
  induction l as [|x l IH]; intros a H; cbn [find_attr] in H; [discriminate|].
  destruct (str_eqb (a_name x) n) eqn:E.
  - injection H as <-. apply str_eqb_eq in E. split; [exact E|now left].
  - destruct (IH _ H) as [H1 H2]. split; [exact H1|now right].
Qed.

Lemma scan_skip_no_conflict prefix cur : forall others,
  (forall x, In x others -> a_name x <> a_name cur -> a_py x <> a_py cur) ->
  scan_conflicts prefix cur others = Ok (cur, others).
Proof.
  induction others as [|x os IH]; intro H; cbn [scan_conflicts]; [reflexivity|].
  assert (E: str_eqb (a_name x) (a_name cur) || negb (str_eqb (a_py x) (a_py cur)) = true).
  { destruct (str_eqb (a_name x) (a_name cur)) eqn:En; [reflexivity|]. cbn [orb].
    apply ScopesThm.str_eqb_neq in En. apply negb_true_iff, ScopesThm.str_eqb_neq. apply H; [now left|exact En]. }
  rewrite E, IH; [reflexivity|]. intros y Hy. apply H. now right.
Qed.

Lemma put_attr_init prefix n : forall names,
  put_attr (attr_init prefix n) (map (attr_init prefix) names) = map (attr_init prefix) (dedup_step names n).
Proof.
  induction names as [|x names IH]; cbn [map put_attr].
  - reflexivity.
  - cbn [attr_init a_name]. destruct (str_eqb x n) eqn:E.
    + apply str_eqb_eq in E. subst x. rewrite dedup_step_in by now left. reflexivity.
    + apply ScopesThm.str_eqb_neq in E. fold (attr_init prefix n). rewrite IH.
      destruct (in_dec (list_eq_dec N.eq_dec) n names) as [Hi|Hn].
      * rewrite !dedup_step_in; [reflexivity|now right|exact Hi].
      * rewrite !dedup_step_notin; [reflexivity| |exact Hn]. intros [Hx|Hx]; [now apply E|now apply Hn].
Qed.

Definition all_default (prefix : str) (st : pstate) : Prop :=
  st_attrs st = map (attr_init prefix) (map fst (st_props st)).

Lemma add_pp_default o prefix st i :
  wf st -> all_default prefix st ->
  i_py i = py_default prefix (i_name i) ->
  NoDup (map (py_default prefix) (dedup_step (map fst (st_props st)) (i_name i))) ->
  add_pp_ev o prefix st i = PErrMerge \/
  exists st', add_pp_ev o prefix st i = POk (st', true) /\ all_default prefix st'.
Proof.
  intros [Hw Hnd] Hd Hi Hg. unfold add_pp_ev.
  destruct (add_prop o (st_props st) (i_name i) (i_prop i)) as [props'|] eqn:Ea; [|now left]. right.
  pose proof (add_prop_names_step _ _ _ _ _ Ea) as Hp.
  assert (Hm: merged_py st i = py_default prefix (i_name i)).
  { unfold merged_py. destruct (find_attr (i_name i) (st_attrs st)) as [a|] eqn:Ef; [|exact Hi].
    destruct (find_prop (i_name i) (st_props st)) as [p1|]; [|exact Hi].
    destruct (base_is_new p1 (i_prop i)); [exact Hi|].
    destruct (find_attr_name _ _ _ Ef) as [Hn Hin]. rewrite Hd in Hin. apply in_map_iff in Hin as [x [<- _]].
    cbn [attr_init a_name a_py] in *. now rewrite Hn. }
  rewrite Hm. fold (attr_init prefix (i_name i)).
  rewrite scan_skip_no_conflict.
  - eexists. split.
    + f_equal. f_equal. apply andb_true_iff. split; [now apply attr_eqb_eq|now apply attrs_eqb_eq].
    + unfold all_default. cbn [st_attrs st_props]. rewrite Hd, put_attr_init, Hp. reflexivity.
  - intros x Hx Hne. rewrite Hd in Hx. apply in_map_iff in Hx as [y [<- Hy]]. cbn [attr_init a_name a_py] in *.
    intro E. apply Hne.
    apply (NoDup_map_inj_on (py_default prefix) _ y (i_name i) Hg); [| |exact E]; apply dedup_step_In; auto.
Qed.

Lemma NoDup_map_prefix {A B} (f : A -> B) (a suf : list A) : NoDup (map f (a ++ suf)) -> NoDup (map f a).
Proof.
  rewrite map_app. generalize (map f suf) as s. induction (map f a) as [|x l IH]; intros s H; [constructor|].
  cbn [app] in H. inversion H as [|? ? Hx Hl]; subst. constructor.
  - intro Hi. apply Hx. apply in_or_app. now left.
  - exact (IH _ Hl).
Qed.

Lemma process_ev_default o prefix : forall ins st q,
  wf st -> all_default prefix st -> ins_default prefix ins = true ->
  NoDup (map (py_default prefix) (fold_left dedup_step (map i_name ins) (map fst (st_props st)))) ->
  process_ev o prefix st q ins = PErrMerge \/
  exists st', process_ev o prefix st q ins = POk (st', q) /\ wf st' /\ all_default prefix st'.
Proof.
  induction ins as [|i ins IH]; intros st q Hw Hd Hi Hg; cbn [process_ev].
  - right. exists st. auto.
  - cbn [ins_default forallb] in Hi. apply andb_true_iff in Hi as [Hi1 Hi2]. apply str_eqb_eq in Hi1.
    cbn [map fold_left] in Hg.
    assert (Hg1: NoDup (map (py_default prefix) (dedup_step (map fst (st_props st)) (i_name i)))).
    { destruct (fold_dedup_prefix (map i_name ins) (dedup_step (map fst (st_props st)) (i_name i))) as [suf Hs].
      rewrite Hs in Hg. exact (NoDup_map_prefix _ _ _ Hg). }
    destruct (add_pp_default o _ _ _ Hw Hd Hi1 Hg1) as [E|[st1 [E Hd1]]]; rewrite E; [now left|].
    destruct (add_pp_names _ _ _ _ _ _ Hw E) as [Hw1 Hn1].
    rewrite andb_true_r. apply IH; [exact Hw1|exact Hd1|exact Hi2|]. now rewrite Hn1.
Qed.

(* process_python_names_distinct: when the incoming properties carry their default python names and no two document names
   collide after snake-casing (g_no_raw_fallback), the run never ends in the naming diagnostic, nothing is renamed, and a
   successful run gives every document name its default python name: pairwise distinct *)
Theorem process_python_names_distinct o prefix ins :
  ins_default prefix ins = true -> g_no_raw_fallback prefix (in_names ins) = true ->
  process o prefix ins <> PErrName /\ process o prefix ins <> PErrRef /\ g_quiet o prefix ins = true /\
  forall out, process o prefix ins = POk out ->
    map i_name out = in_names ins /\
    map i_py out = map (py_default prefix) (in_names ins) /\ NoDup (map i_py out).
Proof.
  intros Hi G. apply nodupb_NoDup in G.
  destruct (process_ev_default o prefix ins st_empty true wf_empty eq_refl Hi G) as [E|[st [E [Hw Hd]]]];
    unfold process, g_quiet; rewrite E; cbn [pres_map].
  - split; [discriminate|]. split; [discriminate|]. split; [reflexivity|]. intros out0 H. discriminate H.
  - split; [discriminate|]. split; [discriminate|]. split; [reflexivity|]. intros out0 H. injection H as <-.
    destruct (process_ev_names _ _ _ _ _ _ _ wf_empty E) as [_ Hn]. cbn [st_empty st_props map] in Hn.
    assert (Hpy: map i_py (out_of st) = map (py_default prefix) (in_names ins)).
    { rewrite out_of_pys by exact Hw. rewrite Hd, map_map. cbn [attr_init a_py]. now rewrite Hn. }
    split; [rewrite out_of_names by exact Hw; exact Hn|]. split; [exact Hpy|]. rewrite Hpy. exact G.
Qed.

(* ================= document level: the composed schema's run is the run on the flat incoming list ================= *)
Lemma process_ev_app o prefix : forall l1 l2 st q,
  process_ev o prefix st q (l1 ++ l2) =
  match process_ev o prefix st q l1 with
  | POk sq => process_ev o prefix (fst sq) (snd sq) l2
  | PErrMerge => PErrMerge | PErrName => PErrName | PErrRef => PErrRef
  end.
Proof.
  induction l1 as [|i l1 IH]; intros l2 st q; cbn [app process_ev fst snd]; [reflexivity|].
  destruct (add_pp_ev o prefix st i) as [[st1 q1]| | |]; try reflexivity. apply IH.
Qed.

Lemma run_refs_flat o prefix ps : forall ms sq sq',
  run_refs o prefix ps ms sq = POk sq' ->
  exists r, ref_inputs o prefix ps ms = Some r /\ process_ev o prefix (fst sq) (snd sq) r = POk sq'.
Proof.
  induction ms as [|[k|s] ms IH]; intros sq sq' H; cbn [run_refs ref_inputs] in *.
  - injection H as <-. exists []. split; [reflexivity|]. cbn [process_ev]. now destruct sq.
  - destruct (nth_error ps k) as [s|]; [|discriminate].
    destruct (parent_out o prefix s) as [l| | |]; try discriminate.
    destruct (process_ev o prefix (fst sq) (snd sq) l) as [sq1| | |] eqn:E1; try discriminate.
    destruct (IH _ _ H) as [r [Hr Hp]]. rewrite Hr. exists (l ++ r). split; [reflexivity|].
    rewrite process_ev_app, E1. exact Hp.
  - exact (IH _ _ H).
Qed.

Theorem process_doc_flat o prefix d out :
  process_doc o prefix d = POk out ->
  exists ins, doc_inputs o prefix d = Some ins /\ process o prefix ins = POk out /\
              g_quiet o prefix ins = g_quiet_doc o prefix d.
Proof.
  unfold process_doc, g_quiet_doc, process_doc_ev. intro H.
  destruct (run_refs o prefix (c_parents d) (c_members d) (st_empty, true)) as [sq| | |] eqn:Er; try discriminate.
  destruct (run_refs_flat _ _ _ _ _ _ Er) as [r [Hr Hp]]. cbn [fst snd] in Hp.
  unfold doc_inputs. rewrite Hr. eexists. split; [reflexivity|].
  unfold process, g_quiet. rewrite process_ev_app, Hp.
  destruct (process_ev o prefix (fst sq) (snd sq) (unprocessed prefix d)) as [[st q]| | |]; try discriminate.
  split; [exact H|reflexivity].
Qed.

(* the three list-level results, for the composed schema of a document *)
Theorem process_doc_names_exact o prefix d out :
  process_doc o prefix d = POk out ->
  exists ins, doc_inputs o prefix d = Some ins /\
    map i_name out = in_names ins /\ NoDup (map i_name out) /\ (forall n, In n (map i_name out) <-> In n (map i_name ins)) /\
    collect o (payloads ins) = Some (payloads out).
Proof.
  intro H. destruct (process_doc_flat _ _ _ _ H) as (ins & Hi & Hp & _). exists ins. split; [exact Hi|].
  destruct (process_names_exact _ _ _ _ Hp) as [H1 [H2 H3]]. repeat split; try assumption; try apply H3.
  exact (process_collect _ _ _ _ Hp).
Qed.

Theorem process_doc_quiet_distinct o prefix d out :
  process_doc o prefix d = POk out -> g_quiet_doc o prefix d = true -> NoDup (map i_py out).
Proof.
  intros H G. destruct (process_doc_flat _ _ _ _ H) as (ins & _ & Hp & Hq).
  apply (process_quiet_distinct _ _ _ _ Hp). now rewrite Hq.
Qed.

(* the static guard at document level *)
Lemma own_inputs_default prefix req ds : ins_default prefix (own_inputs prefix req ds) = true.
Proof.
  unfold ins_default, own_inputs. apply forallb_forall. intros x Hx. apply in_map_iff in Hx as [d [<- _]].
  cbn [i_py i_name]. apply ScopesThm.str_eqb_refl.
Qed.

Lemma own_inputs_names prefix req ds : map i_name (own_inputs prefix req ds) = map fst ds.
Proof. unfold own_inputs. rewrite map_map. reflexivity. Qed.

Lemma default_of_maps prefix : forall l names,
  map i_name l = names -> map i_py l = map (py_default prefix) names -> ins_default prefix l = true.
Proof.
  induction l as [|x l IH]; intros names Hn Hp; [reflexivity|].
  cbn [map] in Hn, Hp. subst names. cbn [map] in Hp. injection Hp as Hx Hl.
  cbn [ins_default forallb]. rewrite Hx, ScopesThm.str_eqb_refl. exact (IH _ eq_refl Hl).
Qed.

Lemma ins_default_filter prefix f l : ins_default prefix l = true -> ins_default prefix (filter f l) = true.
Proof.
  unfold ins_default. rewrite !forallb_forall. intros H x Hx. apply filter_In in Hx as [Hx _]. now apply H.
Qed.

Lemma ins_default_app prefix a b : ins_default prefix (a ++ b) = ins_default prefix a && ins_default prefix b.
Proof. apply forallb_app. Qed.

Lemma parent_out_default o prefix s l :
  g_no_raw_fallback prefix (dedup (map fst (fst s))) = true ->
  parent_out o prefix s = POk l -> ins_default prefix l = true.
Proof.
  intros G H. unfold parent_out in H.
  match type of H with pres_map _ ?p = _ => destruct p as [l0| | |] eqn:Ep end; cbn [pres_map] in H; try discriminate.
  injection H as <-.
  assert (Gi: g_no_raw_fallback prefix (in_names (own_inputs prefix (snd s) (fst s))) = true).
  { unfold in_names. now rewrite own_inputs_names. }
  destruct (process_python_names_distinct o prefix _ (own_inputs_default _ _ _) Gi) as [_ [_ [_ Ho]]].
  destruct (Ho _ Ep) as [Hn [Hp _]].
  unfold req_first. rewrite ins_default_app. apply andb_true_iff.
  split; apply ins_default_filter; exact (default_of_maps _ _ _ Hn Hp).
Qed.

Lemma ref_inputs_default o prefix ps : forall ms r,
  forallb (fun s : schema => g_no_raw_fallback prefix (dedup (map fst (fst s)))) ps = true ->
  ref_inputs o prefix ps ms = Some r -> ins_default prefix r = true.
Proof.
  induction ms as [|[k|s] ms IH]; intros r G H; cbn [ref_inputs] in H.
  - injection H as <-. reflexivity.
  - destruct (nth_error ps k) as [s|] eqn:En; [|discriminate].
    destruct (parent_out o prefix s) as [l| | |] eqn:Ep; try discriminate.
    destruct (ref_inputs o prefix ps ms) as [r0|]; [|discriminate]. injection H as <-.
    rewrite ins_default_app. apply andb_true_iff. split; [|now apply IH].
    apply (parent_out_default o _ s); [|exact Ep].
    rewrite forallb_forall in G. apply G. eapply nth_error_In. exact En.
  - now apply IH.
Qed.

(* process_doc_python_names_distinct: no two property names collide after snake-casing, neither inside a referenced member nor
   among all the names the composed schema receives: the composed model gets the default python names, pairwise distinct,
   whatever is merged with whatever *)
Theorem process_doc_python_names_distinct o prefix d ins out :
  g_parents prefix d = true -> doc_inputs o prefix d = Some ins ->
  g_no_raw_fallback prefix (in_names ins) = true ->
  process_doc o prefix d = POk out ->
  map i_name out = in_names ins /\ map i_py out = map (py_default prefix) (in_names ins) /\ NoDup (map i_py out).
Proof.
  intros Gp Hi G H. destruct (process_doc_flat _ _ _ _ H) as (ins' & Hi' & Hp & _).
  rewrite Hi in Hi'. injection Hi' as <-.
  assert (Hd: ins_default prefix ins = true).
  { unfold doc_inputs in Hi. destruct (ref_inputs o prefix (c_parents d) (c_members d)) as [r|] eqn:Er; [|discriminate].
    injection Hi as <-. rewrite ins_default_app. apply andb_true_iff. split.
    - exact (ref_inputs_default _ _ _ _ _ Gp Er).
    - apply own_inputs_default. }
  destruct (process_python_names_distinct o prefix ins Hd G) as [_ [_ [_ Ho]]]. exact (Ho _ Hp).
Qed.

(* ================= witnesses ================= *)
Transparent python_identifier.
Definition w_o : oracles :=
  {| parse_float := fun _ => None; float_of_int := fun _ => None; isoparse_ok := fun _ => false; uuid_ok := fun _ => false |}.
Definition w_fp : str := [102;105;101;108;100;95].
Definition w_P (k : mkind) : mprop := MP k false None None None PL_none.
Definition w_in (n : str) (k : mkind) : inp := mk_inp n (py_default w_fp n) (w_P k).
Definition s_startDate : str := [115;116;97;114;116;68;97;116;101].
Definition s_start_date : str := [115;116;97;114;116;95;100;97;116;101].
Definition s_endTime : str := [101;110;100;84;105;109;101].
Definition s_fooBar : str := [102;111;111;66;97;114].
Definition s_FooBar : str := [70;111;111;66;97;114].
Definition s_Foo_bar : str := [70;111;111;95;98;97;114].
Definition s_dfoo_Bar : str := [36;102;111;111;95;66;97;114].
Definition s_foo_Bar : str := [102;111;111;95;66;97;114].

(* non-vacuity, a merge together with a raw-name fallback: startDate (string), start_date (string) are told apart by their raw
   names; a later member re-declares startDate as a date, the merged property is based on the NEW declaration and carries the
   python name start_date again; the scan skips the stored startDate, meets start_date and falls back to the raw names once more *)
Example process_merge_fallback :
  process w_o w_fp [w_in s_startDate MStr; w_in s_start_date MStr; w_in s_startDate MDate]
  = POk [mk_inp s_startDate s_startDate (w_P MDate); mk_inp s_start_date s_start_date (w_P MStr)] /\
  merged_py (mk_st [mk_attr s_startDate s_startDate; mk_attr s_start_date s_start_date]
                   [(s_startDate, w_P MStr); (s_start_date, w_P MStr)]) (w_in s_startDate MDate) = s_start_date /\
  g_quiet w_o w_fp [w_in s_startDate MStr; w_in s_start_date MStr; w_in s_startDate MDate] = false.
Proof. vm_compute. repeat split. Qed.

(* the static guard is satisfiable by a list with a merge that changes the base (string then date) *)
Example process_guard_nonvacuous :
  let ins := [w_in s_startDate MStr; w_in s_endTime MInt; w_in s_startDate MDate] in
  ins_default w_fp ins = true /\ g_no_raw_fallback w_fp (in_names ins) = true /\
  exists out, process w_o w_fp ins = POk out /\ length out = 2%nat /\ base_is_new (w_P MStr) (w_P MDate) = true.
Proof. vm_compute. repeat split. eexists. repeat split. Qed.

(* without the guards: a step can leave two properties with one python name although the state before it was distinct.
   Referenced member {fooBar, FooBar} (already told apart by raw names), then Foo_bar, $foo_Bar, foo_Bar (the first two collide and
   fall back: Foo_bar, foo_Bar; the third keeps foo_bar), then fooBar re-declared as a date: the merged property carries foo_bar
   again, collides with the entry of foo_Bar, both fall back to raw names - and foo_Bar is now also the python name of $foo_Bar,
   which the scan had already passed (attr_rename_unchecked, reached through a merge) *)
Definition w_refuted_ins : list inp :=
  [mk_inp s_fooBar s_fooBar (w_P MStr); mk_inp s_FooBar s_FooBar (w_P MStr);
   w_in s_Foo_bar MStr; w_in s_dfoo_Bar MStr; w_in s_foo_Bar MStr; w_in s_fooBar MDate].

Theorem process_step_distinct_refuted :
  exists ins i out_before out,
    process w_o w_fp ins = POk out_before /\ NoDup (map i_py out_before) /\
    In (i_name i) (map i_name ins) /\
    process w_o w_fp (ins ++ [i]) = POk out /\ ~ NoDup (map i_py out) /\
    g_quiet w_o w_fp (ins ++ [i]) = false.
Proof.
  exists (firstn 5 w_refuted_ins), (w_in s_fooBar MDate). eexists. eexists.
  split; [vm_compute; reflexivity|]. split; [apply nodupb_NoDup; vm_compute; reflexivity|].
  split; [left; reflexivity|]. split; [vm_compute; reflexivity|]. split; [|vm_compute; reflexivity].
  intro H. apply nodupb_NoDup in H. vm_compute in H. discriminate.
Qed.
Opaque python_identifier.

Print Assumptions process_names_exact.
Print Assumptions process_collect.
Print Assumptions process_required.
Print Assumptions add_pp_guarantee.
Print Assumptions process_quiet_distinct.
Print Assumptions process_python_names_distinct.
Print Assumptions process_doc_flat.
Print Assumptions process_doc_python_names_distinct.
Print Assumptions process_step_distinct_refuted.
