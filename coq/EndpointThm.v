(* EndpointThm.v — proofs about Endpoint.v (C03, C04, C10, C11). *)
From Coq Require Import NArith ZArith List Bool Lia.
Import ListNotations.
Require Import OPC.gen.GenKinds OPC.Uni OPC.Names OPC.NamesThm OPC.Codec OPC.MapsThm OPC.CodecThm OPC.Types OPC.TypesThm OPC.Endpoint.
Open Scope N_scope.

Definition wire_names (ps : list param) : list str := map pa_name ps.
Definition distinct (l : list str) : Prop := NoDup l.
Definition no_dict_params (ps : list param) : bool := forallb (fun p => negb (kf_json_is_dict (kfacts_of (pa_kind p)))) ps.

(* ================================================================== helpers: maps *)
Lemma m_get_filter {A} (P : str * A -> bool) (k : str) (m : smap A) : m_sorted m = true ->
  m_get k (filter P m) = match m_get k m with Some v => if P (k, v) then Some v else None | None => None end.
Proof.
  induction m as [|[k0 v0] m IH]; [reflexivity|]. intro Hs.
  apply m_sorted_cons in Hs as [Hh Hs]. specialize (IH Hs).
  cbn [filter]. destruct (P (k0, v0)) eqn:EP; cbn [m_get]; destruct (str_cmp k k0) eqn:E.
  - apply str_cmp_eq in E. subst k0. now rewrite EP.
  - reflexivity.
  - exact IH.
  - apply str_cmp_eq in E. subst k0. rewrite EP. rewrite IH.
    rewrite (hd_lt_get_none k k m); auto. rewrite str_cmp_refl. discriminate.
  - rewrite IH. rewrite (hd_lt_get_none k0 k m); auto. congruence.
  - exact IH.
Qed.

(* the common shape of the three wiring loops: every parameter fails, is skipped, or is put under its wire name *)
Section Gen.
  Variable step : param -> option (option pv).
  Fixpoint gen_of (ps : list param) (d : dict) : option dict :=
    match ps with
    | [] => Some d
    | p :: r => match step p with
                | None => None
                | Some None => gen_of r d
                | Some (Some v) => gen_of r (m_put (pa_name p) v d)
                end
    end.

  Lemma gen_sorted ps : forall d0 d, m_sorted d0 = true -> gen_of ps d0 = Some d -> m_sorted d = true.
  Proof.
    induction ps as [|p r IH]; intros d0 d Hs H; cbn [gen_of] in H.
    - injection H as <-. exact Hs.
    - destruct (step p) as [[v|]|]; [|eauto|discriminate]. eapply IH; [|exact H]. now apply m_sorted_put.
  Qed.

  Lemma gen_notin ps : forall d0 d key, ~ In key (wire_names ps) -> gen_of ps d0 = Some d -> m_get key d = m_get key d0.
  Proof.
    induction ps as [|p r IH]; intros d0 d key Hn H; cbn [gen_of] in H.
    - now injection H as <-.
    - cbn in Hn. destruct (step p) as [[v|]|]; [| |discriminate].
      + rewrite (IH _ _ key) with (2 := H) by tauto. apply m_get_put_other. intro; subst; tauto.
      + apply IH; tauto.
  Qed.

  Lemma gen_inv ps : forall d0 d key x, gen_of ps d0 = Some d -> m_get key d = Some x ->
    In key (wire_names ps) \/ m_get key d0 = Some x.
  Proof.
    induction ps as [|p r IH]; intros d0 d key x H Hg; cbn [gen_of] in H.
    - injection H as <-. now right.
    - cbn [wire_names map In]. destruct (step p) as [[v|]|]; [| |discriminate].
      + destruct (IH _ _ _ _ H Hg) as [Hi|Hi]; [tauto|]. apply m_get_put_inv in Hi as [Hi|Hi]; auto.
      + destruct (IH _ _ _ _ H Hg) as [Hi|Hi]; tauto.
  Qed.

  Lemma gen_place ps : forall d0 d p o, In p ps -> NoDup (wire_names ps) -> step p = Some o -> gen_of ps d0 = Some d ->
    m_get (pa_name p) d = match o with Some v => Some v | None => m_get (pa_name p) d0 end.
  Proof.
    induction ps as [|q r IH]; intros d0 d p o Hin Hnd Hst H; [destruct Hin|].
    cbn [gen_of] in H. cbn in Hnd. apply NoDup_cons_iff in Hnd as [Hq Hnd].
    destruct Hin as [->|Hin].
    - rewrite Hst in H. destruct o as [v|].
      + rewrite (gen_notin _ _ _ _ Hq H). apply m_get_put_same.
      + apply (gen_notin _ _ _ _ Hq H).
    - assert (Hne: pa_name q <> pa_name p).
      { intro E. apply Hq. rewrite E. now apply in_map. }
      destruct (step q) as [[v|]|]; [| |discriminate].
      + rewrite (IH _ _ _ _ Hin Hnd Hst H). destruct o; auto. now apply m_get_put_other.
      + apply (IH _ _ _ _ Hin Hnd Hst H).
  Qed.
End Gen.

Definition hstep (a : args) (p : param) : option (option pv) :=
  match arg a (pa_py p) with
  | None => None
  | Some v => if negb (pa_req p) && is_unset v then Some None
              else match header_value (pa_kind p) v with Some hv => Some (Some hv) | None => None end
  end.
Lemma headers_gen a ps : forall d, headers_of ps a d = gen_of (hstep a) ps d.
Proof.
  induction ps as [|p r IH]; intro d; [reflexivity|]. cbn [headers_of gen_of]. unfold hstep.
  destruct (arg a (pa_py p)) as [v|]; [|reflexivity].
  destruct (negb (pa_req p) && is_unset v); [apply IH|].
  destruct (header_value (pa_kind p) v); [apply IH|reflexivity].
Qed.

Definition cstep (a : args) (p : param) : option (option pv) :=
  match arg a (pa_py p) with
  | None => None
  | Some v => if negb (pa_req p) && is_unset v then Some None else Some (Some v)
  end.
Lemma cookies_gen a ps : forall d, cookies_of ps a d = gen_of (cstep a) ps d.
Proof.
  induction ps as [|p r IH]; intro d; [reflexivity|]. cbn [cookies_of gen_of]. unfold cstep.
  destruct (arg a (pa_py p)) as [v|]; [|reflexivity].
  destruct (negb (pa_req p) && is_unset v); apply IH.
Qed.

Definition qdest (T : ctable) (f : nat) (p : param) (v : pv) : option pv :=
  if has_transform (pa_kind p) then
    match enc_field (enc T f) (pa_kind p) (pa_req p) v with
    | Some (Some j) => Some (PJ j) | Some None => Some PUnset | None => None end
  else Some v.
Definition qstep (T : ctable) (f : nat) (a : args) (p : param) : option (option pv) :=
  match arg a (pa_py p) with
  | None => None
  | Some v => option_map Some (qdest T f p v)
  end.
Lemma query_gen T f a ps : no_dict_params ps = true -> forall d, query_of T f ps a d = gen_of (qstep T f a) ps d.
Proof.
  induction ps as [|p r IH]; intros Hnd d; [reflexivity|].
  cbn [no_dict_params forallb] in Hnd. apply andb_true_iff in Hnd as [Hp Hnd]. apply negb_true_iff in Hp.
  cbn [query_of gen_of]. unfold qstep, qdest.
  destruct (arg a (pa_py p)) as [v|]; [|reflexivity]. rewrite Hp.
  destruct (has_transform (pa_kind p)).
  - destruct (enc_field (enc T f) (pa_kind p) (pa_req p) v) as [[j|]|]; cbn [option_map]; auto.
  - cbn [option_map]. auto.
Qed.

Lemma drop_get key d : m_sorted d = true ->
  m_get key (drop_unset_none d) = match m_get key d with
                                  | Some v => match v with PUnset | PJ JNull => None | _ => Some v end
                                  | None => None end.
Proof.
  intro Hs. unfold drop_unset_none. rewrite m_get_filter by exact Hs.
  destruct (m_get key d) as [v|]; [|reflexivity]. cbn [snd].
  destruct v as [|j| | | | | |]; try reflexivity. destruct j; reflexivity.
Qed.

(* ---------- C03 / C10: query, header and cookie arguments ---------- *)
Lemma enc_field_unset_opt e k : enc_field e k false PUnset = Some None.
Proof. unfold enc_field. destruct (has_transform k); [|reflexivity]. destruct k; reflexivity. Qed.

Theorem query_unset_absent : forall T f ps a d p,
  In p ps -> NoDup (wire_names ps) -> no_dict_params ps = true ->
  pa_req p = false -> arg a (pa_py p) = Some PUnset ->
  query_of T f ps a [] = Some d -> m_get (pa_name p) (drop_unset_none d) = None.
Proof.
  intros T f ps a d p Hin Hnd Hdict Hreq Harg H.
  rewrite query_gen in H by exact Hdict.
  assert (Hs: m_sorted d = true) by (eapply gen_sorted; [|exact H]; reflexivity).
  rewrite drop_get by exact Hs.
  assert (Hst: qstep T f a p = Some (Some PUnset)).
  { unfold qstep, qdest. rewrite Harg, Hreq, enc_field_unset_opt. now destruct (has_transform (pa_kind p)). }
  rewrite (gen_place _ _ _ _ _ _ Hin Hnd Hst H). reflexivity.
Qed.

Theorem query_placement : forall T f ps a d p v x,
  In p ps -> NoDup (wire_names ps) -> no_dict_params ps = true ->
  arg a (pa_py p) = Some v ->
  (if has_transform (pa_kind p)
   then exists j, enc_field (enc T f) (pa_kind p) (pa_req p) v = Some (Some j) /\ x = PJ j
   else x = v) ->
  x <> PUnset -> x <> PJ JNull ->
  query_of T f ps a [] = Some d -> m_get (pa_name p) (drop_unset_none d) = Some x.
Proof.
  intros T f ps a d p v x Hin Hnd Hdict Harg Hx Hx1 Hx2 H.
  rewrite query_gen in H by exact Hdict.
  assert (Hs: m_sorted d = true) by (eapply gen_sorted; [|exact H]; reflexivity).
  rewrite drop_get by exact Hs.
  assert (Hst: qstep T f a p = Some (Some x)).
  { unfold qstep, qdest. rewrite Harg. destruct (has_transform (pa_kind p)).
    - destruct Hx as [j [-> ->]]. reflexivity.
    - now subst. }
  rewrite (gen_place _ _ _ _ _ _ Hin Hnd Hst H).
  destruct x as [|j| | | | | |]; try reflexivity; [congruence|]. destruct j; try reflexivity. congruence.
Qed.

Theorem query_nothing_else : forall T f ps a d key x,
  no_dict_params ps = true -> query_of T f ps a [] = Some d -> m_get key (drop_unset_none d) = Some x -> In key (wire_names ps).
Proof.
  intros T f ps a d key x Hdict H Hg.
  rewrite query_gen in H by exact Hdict.
  assert (Hs: m_sorted d = true) by (eapply gen_sorted; [|exact H]; reflexivity).
  rewrite drop_get in Hg by exact Hs.
  destruct (m_get key d) as [v|] eqn:E; [|discriminate].
  destruct (gen_inv _ _ _ _ _ _ H E) as [Hi|Hi]; [exact Hi|discriminate].
Qed.

Theorem header_unset_absent : forall ps a d p,
  In p ps -> NoDup (wire_names ps) -> pa_req p = false -> arg a (pa_py p) = Some PUnset ->
  headers_of ps a [] = Some d -> m_get (pa_name p) d = None.
Proof.
  intros ps a d p Hin Hnd Hreq Harg H. rewrite headers_gen in H.
  assert (Hst: hstep a p = Some None) by (unfold hstep; now rewrite Harg, Hreq).
  now rewrite (gen_place _ _ _ _ _ _ Hin Hnd Hst H).
Qed.

Theorem header_placement : forall ps a d p v hv,
  In p ps -> NoDup (wire_names ps) -> arg a (pa_py p) = Some v -> (pa_req p = true \/ v <> PUnset) ->
  header_value (pa_kind p) v = Some hv ->
  headers_of ps a [] = Some d -> m_get (pa_name p) d = Some hv.
Proof.
  intros ps a d p v hv Hin Hnd Harg Hc Hhv H. rewrite headers_gen in H.
  assert (Hst: hstep a p = Some (Some hv)).
  { unfold hstep. rewrite Harg, Hhv.
    destruct Hc as [Hc|Hc]; [now rewrite Hc|]. destruct v; try congruence; now rewrite andb_false_r. }
  now rewrite (gen_place _ _ _ _ _ _ Hin Hnd Hst H).
Qed.

Theorem header_nothing_else : forall ps a d key x,
  headers_of ps a [] = Some d -> m_get key d = Some x -> In key (wire_names ps).
Proof.
  intros ps a d key x H Hg. rewrite headers_gen in H.
  destruct (gen_inv _ _ _ _ _ _ H Hg) as [Hi|Hi]; [exact Hi|discriminate].
Qed.

Theorem cookie_unset_absent : forall ps a d p,
  In p ps -> NoDup (wire_names ps) -> pa_req p = false -> arg a (pa_py p) = Some PUnset ->
  cookies_of ps a [] = Some d -> m_get (pa_name p) d = None.
Proof.
  intros ps a d p Hin Hnd Hreq Harg H. rewrite cookies_gen in H.
  assert (Hst: cstep a p = Some None) by (unfold cstep; now rewrite Harg, Hreq).
  now rewrite (gen_place _ _ _ _ _ _ Hin Hnd Hst H).
Qed.

Theorem cookie_placement : forall ps a d p v,
  In p ps -> NoDup (wire_names ps) -> arg a (pa_py p) = Some v -> (pa_req p = true \/ v <> PUnset) ->
  cookies_of ps a [] = Some d -> m_get (pa_name p) d = Some v.
Proof.
  intros ps a d p v Hin Hnd Harg Hc H. rewrite cookies_gen in H.
  assert (Hst: cstep a p = Some (Some v)).
  { unfold cstep. rewrite Harg.
    destruct Hc as [Hc|Hc]; [now rewrite Hc|]. destruct v; try congruence; now rewrite andb_false_r. }
  now rewrite (gen_place _ _ _ _ _ _ Hin Hnd Hst H).
Qed.

Theorem cookie_nothing_else : forall ps a d key x,
  cookies_of ps a [] = Some d -> m_get key d = Some x -> In key (wire_names ps).
Proof.
  intros ps a d key x H Hg. rewrite cookies_gen in H.
  destruct (gen_inv _ _ _ _ _ _ H Hg) as [Hi|Hi]; [exact Hi|discriminate].
Qed.

(* ================================================================== get_kwargs *)
(* the multi-body chain of get_kwargs, named *)
Definition multi_go (T : ctable) (f : nat) (bv : pv) : list body -> kwargs -> option kwargs :=
  fix go (bs : list body) (k : kwargs) : option kwargs :=
  match bs with
  | [] => Some k
  | b :: r =>
      if body_matches (b_kind b) bv then
        let hs' := Some (m_put s_content_type (PJ (JStr (b_ctype b))) (match kw_headers k with Some h => h | None => [] end)) in
        match b_type b with
        | BJson => match body_value T f b bv with
                   | Some x => go r {| kw_method := kw_method k; kw_url := kw_url k; kw_params := kw_params k; kw_cookies := kw_cookies k;
                                       kw_headers := hs'; kw_json := Some x; kw_data := kw_data k; kw_other_body := kw_other_body k |}
                   | None => None end
        | BData => match body_value T f b bv with
                   | Some x => go r {| kw_method := kw_method k; kw_url := kw_url k; kw_params := kw_params k; kw_cookies := kw_cookies k;
                                       kw_headers := hs'; kw_json := kw_json k; kw_data := Some x; kw_other_body := kw_other_body k |}
                   | None => None end
        | _ => go r {| kw_method := kw_method k; kw_url := kw_url k; kw_params := kw_params k; kw_cookies := kw_cookies k;
                       kw_headers := hs'; kw_json := kw_json k; kw_data := kw_data k; kw_other_body := true |}
        end
      else go r k
  end.

Lemma multi_go_method T f bv bs : forall k0 k, multi_go T f bv bs k0 = Some k -> kw_method k = kw_method k0.
Proof.
  induction bs as [|b r IH]; intros k0 k H; cbn [multi_go] in H; fold (multi_go T f bv) in H.
  - now injection H as <-.
  - destruct (body_matches (b_kind b) bv); [|now apply IH].
    destruct (b_type b).
    + destruct (body_value T f b bv); [|discriminate]. apply IH in H. exact H.
    + destruct (body_value T f b bv); [|discriminate]. apply IH in H. exact H.
    + apply IH in H. exact H.
    + apply IH in H. exact H.
Qed.

Definition get_kwargs' (T : ctable) (fuel : nat) (ep : endpoint) (a : args) : option kwargs :=
    let need_headers := negb (match ep_header ep with [] => true | _ => false end) || negb (match ep_bodies ep with [] => true | _ => false end) in
    match headers_of (ep_header ep) a [], cookies_of (ep_cookie ep) a [], query_of T fuel (ep_query ep) a [],
          format_path (ep_path ep) a with
    | Some hs, Some cs, Some qs, Some url =>
        let url := match ep_pathp ep with [] => ep_path ep | _ => url end in
        let base := {| kw_method := ep_method ep; kw_url := url;
                       kw_params := match ep_query ep with [] => None | _ => Some (drop_unset_none qs) end;
                       kw_cookies := match ep_cookie ep with [] => None | _ => Some cs end;
                       kw_headers := if need_headers then Some hs else None;
                       kw_json := None; kw_data := None; kw_other_body := false |} in
        match ep_bodies ep with
        | [] => Some base
        | [b] =>
            match arg a [98;111;100;121] with
            | None => None
            | Some bv =>
                let hs' := match b_type b with BFiles => hs | _ => m_put s_content_type (PJ (JStr (b_ctype b))) hs end in
                match b_type b with
                | BJson => match body_value T fuel b bv with
                           | Some x => Some {| kw_method := kw_method base; kw_url := kw_url base; kw_params := kw_params base; kw_cookies := kw_cookies base;
                                               kw_headers := Some hs'; kw_json := Some x; kw_data := None; kw_other_body := false |}
                           | None => None end
                | BData => match body_value T fuel b bv with
                           | Some x => Some {| kw_method := kw_method base; kw_url := kw_url base; kw_params := kw_params base; kw_cookies := kw_cookies base;
                                               kw_headers := Some hs'; kw_json := None; kw_data := Some x; kw_other_body := false |}
                           | None => None end
                | _ => Some {| kw_method := kw_method base; kw_url := kw_url base; kw_params := kw_params base; kw_cookies := kw_cookies base;
                               kw_headers := Some hs'; kw_json := None; kw_data := None; kw_other_body := true |}
                end
            end
        | bs =>
            match arg a [98;111;100;121] with
            | None => None
            | Some bv => multi_go T fuel bv bs base
            end
        end
    | _, _, _, _ => None
    end.
Lemma get_kwargs_eq T f ep a : get_kwargs T f ep a = get_kwargs' T f ep a.
Proof. reflexivity. Qed.

Theorem method_literal : forall T f ep a k, get_kwargs T f ep a = Some k -> kw_method k = ep_method ep.
Proof.
  intros T f ep a k H. rewrite get_kwargs_eq in H. unfold get_kwargs' in H.
  destruct (headers_of (ep_header ep) a []) as [hs|]; [|discriminate].
  destruct (cookies_of (ep_cookie ep) a []) as [cs|]; [|discriminate].
  destruct (query_of T f (ep_query ep) a []) as [qs|]; [|discriminate].
  destruct (format_path (ep_path ep) a) as [url|]; [|discriminate].
  destruct (ep_bodies ep) as [|b [|b2 bs]].
  - now injection H as <-.
  - destruct (arg a [98; 111; 100; 121]) as [bv|]; [|discriminate].
    destruct (b_type b); try destruct (body_value T f b bv); try discriminate; now injection H as <-.
  - destruct (arg a [98; 111; 100; 121]) as [bv|]; [|discriminate].
    apply multi_go_method in H. exact H.
Qed.

Theorem content_type_matches : forall T f ep a k b,
  ep_bodies ep = [b] -> (b_type b = BJson \/ b_type b = BData) -> get_kwargs T f ep a = Some k ->
  exists hs, kw_headers k = Some hs /\ m_get s_content_type hs = Some (PJ (JStr (b_ctype b))).
Proof.
  intros T f ep a k b Hb Ht H. unfold get_kwargs in H. rewrite Hb in H.
  destruct (headers_of (ep_header ep) a []) as [hs|]; [|discriminate].
  destruct (cookies_of (ep_cookie ep) a []) as [cs|]; [|discriminate].
  destruct (query_of T f (ep_query ep) a []) as [qs|]; [|discriminate].
  destruct (format_path (ep_path ep) a) as [url|]; [|discriminate].
  destruct (arg a [98; 111; 100; 121]) as [bv|]; [|discriminate].
  destruct Ht as [Ht|Ht]; rewrite Ht in H; (destruct (body_value T f b bv); [|discriminate]); injection H as <-;
    cbn [kw_headers]; eexists; (split; [reflexivity|]); apply m_get_put_same.
Qed.

Theorem security_demands_auth : forall ep, client_param ep = CAuthenticated <-> ep_security ep = true.
Proof. intro ep. unfold client_param. destruct (ep_security ep); split; congruence. Qed.

Theorem multi_body_same_type_refuted : exists T f ep a k,
  get_kwargs T f ep a = Some k /\ kw_json k <> None /\ kw_data k <> None.
Proof.
  exists [ {| c_props := []; c_addl := None |} ], 2%nat,
    {| ep_method := [112]; ep_path := []; ep_pathp := []; ep_query := []; ep_header := []; ep_cookie := [];
       ep_bodies := [ {| b_ctype := [97]; b_type := BJson; b_kind := KModel 0 |}; {| b_ctype := [98]; b_type := BData; b_kind := KModel 0 |} ];
       ep_security := false; ep_responses := [] |},
    [([98;111;100;121], PObj 0 [] [])].
  eexists. split; [vm_compute; reflexivity|]. split; discriminate.
Qed.

(* ================================================================== C03: path placeholders *)
Inductive seg := Lit (s : str) | Slot (wire : str).
Definition render_seg (x : seg) : str := match x with Lit s => s | Slot n => braces n end.
Definition render_tpl (segs : list seg) : str := flat_map render_seg segs.
Definition no_brace (s : str) : bool := forallb (fun c => negb ((c =? 123) || (c =? 125))) s.
Definition plain_name (s : str) : bool :=
  match s with c :: _ => ident_start c | [] => false end &&
  forallb (fun c => negb ((c =? 123) || (c =? 125) || (c =? 33) || (c =? 58) || (c =? 46) || (c =? 91))) s.
Definition slots (segs : list seg) : list str := flat_map (fun x => match x with Slot n => [n] | Lit _ => [] end) segs.
Definition lits_ok (segs : list seg) : bool := forallb (fun x => match x with Lit s => no_brace s | Slot n => no_brace n && negb (match n with [] => true | _ => false end) end) segs.
(* the guard: python names are plain identifiers, pairwise distinct, and no python name equals ANOTHER parameter's wire name *)
Definition no_capture (ps : list param) : Prop :=
  forall p q, In p ps -> In q ps -> pa_py p = pa_name q -> p = q.
Fixpoint subst_segs (segs : list seg) (ps : list param) (a : args) : option str :=
  match segs with
  | [] => Some []
  | Lit s :: r => option_map (app s) (subst_segs r ps a)
  | Slot n :: r =>
      match find (fun p => str_eqb (pa_name p) n) ps with
      | Some p => match arg a (pa_py p) with
                  | Some v => match str_of v, subst_segs r ps a with Some t, Some out => Some (t ++ out) | _, _ => None end
                  | None => None end
      | None => None
      end
  end.

(* ---- brace-free strings ---- *)
Lemma no_brace_cons c s : no_brace (c :: s) = true <-> c <> 123 /\ c <> 125 /\ no_brace s = true.
Proof.
  unfold no_brace. cbn [forallb]. rewrite andb_true_iff, negb_true_iff, orb_false_iff, !N.eqb_neq. tauto.
Qed.

Lemma plain_no_brace s : plain_name s = true -> no_brace s = true.
Proof.
  unfold plain_name, no_brace. intro H. apply andb_true_iff in H as [_ H].
  rewrite forallb_forall in *. intros c Hc. specialize (H c Hc).
  rewrite negb_true_iff in *. rewrite !orb_false_iff in H. rewrite orb_false_iff. tauto.
Qed.

(* ---- replace: one pass renames exactly the slots called w ---- *)
(* (w ++ closing brace) against (n ++ closing brace ++ R), both names without closing braces *)
Lemma prefix_name w : forall n R, no_brace w = true -> no_brace n = true ->
  prefix_of (w ++ [125]) (n ++ 125 :: R) = if str_eqb w n then Some R else None.
Proof.
  induction w as [|x w IH]; intros n R Hw Hn.
  - destruct n as [|y n]; cbn [app prefix_of str_eqb]; [now rewrite N.eqb_refl|].
    apply no_brace_cons in Hn as [_ [Hy _]]. destruct (N.eqb_spec 125 y); [congruence|reflexivity].
  - apply no_brace_cons in Hw as [_ [Hx Hw]]. destruct n as [|y n].
    + cbn [app prefix_of str_eqb]. destruct (N.eqb_spec x 125); [congruence|reflexivity].
    + apply no_brace_cons in Hn as [_ [_ Hn]]. cbn [app prefix_of str_eqb].
      destruct (N.eqb_spec x y); cbn [andb]; [|reflexivity]. now apply IH.
Qed.

(* old starts with an opening brace: a stretch without opening braces is copied *)
Lemma replace_skip o new u : (forall c, In c u -> c <> 123) ->
  forall R fuel, (length (u ++ R) < fuel)%nat ->
  replace_fuel fuel (123 :: o) new (u ++ R) = u ++ replace_fuel (fuel - length u) (123 :: o) new R.
Proof.
  induction u as [|c u IH]; intros Hu R fuel Hf.
  - cbn [app length]. now rewrite Nat.sub_0_r.
  - destruct fuel as [|fuel]; [cbn in Hf; lia|].
    cbn [app replace_fuel prefix_of length Nat.sub].
    assert (Hc: c <> 123) by (apply Hu; now left).
    destruct (N.eqb_spec 123 c); [congruence|].
    f_equal. apply IH; [intros; apply Hu; now right|]. cbn in Hf. lia.
Qed.

Definition map_seg (g : str -> str) (segs : list seg) : list seg :=
  map (fun x => match x with Lit s => Lit s | Slot n => Slot (g n) end) segs.
Definition ren (w n' x : str) : str := if str_eqb x w then n' else x.
Definition segs_nb (segs : list seg) : bool := forallb (fun x => match x with Lit s => no_brace s | Slot n => no_brace n end) segs.

Lemma no_brace_no_open s : no_brace s = true -> forall c, In c s -> c <> 123.
Proof.
  unfold no_brace. rewrite forallb_forall. intros H c Hc. specialize (H c Hc).
  rewrite negb_true_iff, orb_false_iff, N.eqb_neq in H. tauto.
Qed.

Lemma str_eqb_sym a b : str_eqb a b = str_eqb b a.
Proof.
  destruct (str_eqb b a) eqn:E.
  - apply str_eqb_eq in E. subst. apply str_eqb_refl.
  - destruct (str_eqb a b) eqn:E2; [|reflexivity]. apply str_eqb_eq in E2. subst. now rewrite str_eqb_refl in E.
Qed.

Lemma replace_slot w new n R fuel : no_brace w = true -> no_brace n = true -> (length (braces n ++ R) < S fuel)%nat ->
  replace_fuel (S fuel) (braces w) new (braces n ++ R) =
  if str_eqb w n then new ++ replace_fuel fuel (braces w) new R
  else braces n ++ replace_fuel (fuel - length (n ++ [125])) (braces w) new R.
Proof.
  intros Hw Hn Hf. unfold braces in *. cbn [app replace_fuel prefix_of]. rewrite N.eqb_refl.
  rewrite <- app_assoc. cbn [app]. rewrite prefix_name by assumption.
  destruct (str_eqb w n); [reflexivity|]. f_equal.
  change (n ++ 125 :: R) with (n ++ [125] ++ R). rewrite app_assoc. rewrite replace_skip.
  - rewrite <- app_assoc. reflexivity.
  - intros c Hc. apply in_app_or in Hc as [Hc|[<-|[]]]; [now apply (no_brace_no_open n)|discriminate].
  - cbn [app length] in Hf. rewrite <- app_assoc in Hf. cbn [app] in Hf.
    rewrite <- app_assoc. cbn [app]. lia.
Qed.

Lemma replace_render w n' : no_brace w = true ->
  forall segs, segs_nb segs = true ->
  forall fuel, (length (render_tpl segs) < fuel)%nat ->
  replace_fuel fuel (braces w) (braces n') (render_tpl segs) = render_tpl (map_seg (ren w n') segs).
Proof.
  intros Hw. induction segs as [|x segs IH]; intros Hnb fuel Hf.
  - destruct fuel; reflexivity.
  - cbn [segs_nb forallb] in Hnb. apply andb_true_iff in Hnb as [Hx Hnb].
    change (render_tpl (x :: segs)) with (render_seg x ++ render_tpl segs) in *.
    change (render_tpl (map_seg (ren w n') (x :: segs)))
      with (render_seg (match x with Lit s => Lit s | Slot n => Slot (ren w n' n) end) ++ render_tpl (map_seg (ren w n') segs)).
    destruct x as [s|n]; cbn [render_seg] in *.
    + rewrite app_length in Hf.
      unfold braces at 1. rewrite replace_skip; [|now apply no_brace_no_open|rewrite app_length; lia].
      f_equal. apply IH; [exact Hnb|lia].
    + destruct fuel as [|fuel]; [lia|].
      rewrite replace_slot by assumption. unfold ren. rewrite (str_eqb_sym n w).
      rewrite app_length in Hf. unfold braces in Hf. cbn [length] in Hf.
      destruct (str_eqb w n); f_equal; (apply IH; [exact Hnb|lia]).
Qed.

Lemma replace_all_render w n' segs : no_brace w = true -> segs_nb segs = true ->
  replace_all (braces w) (braces n') (render_tpl segs) = render_tpl (map_seg (ren w n') segs).
Proof. intros Hw Hs. unfold replace_all. unfold braces at 1. fold (braces w). apply replace_render; auto. Qed.

Lemma map_seg_nb g segs : (forall n, no_brace n = true -> no_brace (g n) = true) -> segs_nb segs = true -> segs_nb (map_seg g segs) = true.
Proof.
  intros Hg. unfold segs_nb, map_seg. rewrite !forallb_forall. intros H x Hx.
  apply in_map_iff in Hx as [y [<- Hy]]. specialize (H y Hy). destruct y; auto.
Qed.

Lemma map_seg_comp g1 g2 segs : map_seg g2 (map_seg g1 segs) = map_seg (fun n => g2 (g1 n)) segs.
Proof. unfold map_seg. rewrite map_map. apply map_ext. now intros [s|n]. Qed.

(* the sequential rewrite acts on every slot name by the composed renaming *)
Definition ren_all (ps : list param) (x : str) : str := fold_left (fun x p => ren (pa_name p) (pa_py p) x) ps x.

Lemma rewrite_render ps : forall segs, segs_nb segs = true ->
  (forall p, In p ps -> no_brace (pa_name p) = true /\ no_brace (pa_py p) = true) ->
  rewrite_path (render_tpl segs) ps = render_tpl (map_seg (ren_all ps) segs).
Proof.
  unfold rewrite_path. induction ps as [|p ps IH]; intros segs Hnb Hps.
  - cbn [fold_left]. unfold map_seg, ren_all. cbn [fold_left]. f_equal. rewrite <- (map_id segs) at 1. apply map_ext. now intros [s|n].
  - cbn [fold_left]. destruct (Hps p (or_introl eq_refl)) as [Hw Hn].
    rewrite replace_all_render by assumption. rewrite IH.
    + rewrite map_seg_comp. reflexivity.
    + apply map_seg_nb; [|exact Hnb]. intros n Hn0. unfold ren. now destruct (str_eqb n (pa_name p)).
    + intros q Hq. apply Hps. now right.
Qed.

Lemma ren_all_fixed ps : forall x, (forall q, In q ps -> x <> pa_name q) -> ren_all ps x = x.
Proof.
  unfold ren_all. induction ps as [|q ps IH]; intros x H; [reflexivity|]. cbn [fold_left].
  unfold ren at 2. rewrite str_eqb_neq by (apply H; now left). apply IH. intros; apply H; now right.
Qed.

Lemma ren_all_wire ps : forall p, In p ps -> NoDup (wire_names ps) -> no_capture ps -> ren_all ps (pa_name p) = pa_py p.
Proof.
  induction ps as [|q ps IH]; intros p Hin Hnd Hcap; [destruct Hin|].
  cbn in Hnd. apply NoDup_cons_iff in Hnd as [Hq Hnd].
  change (ren_all (q :: ps) (pa_name p)) with (ren_all ps (ren (pa_name q) (pa_py q) (pa_name p))).
  destruct Hin as [->|Hin].
  - unfold ren. rewrite str_eqb_refl. apply ren_all_fixed. intros q' Hq' E.
    assert (p = q') by (apply Hcap; [now left|now right|exact E]). subst q'.
    apply Hq. now apply in_map.
  - unfold ren. rewrite str_eqb_neq.
    + apply IH; auto. intros a b Ha Hb. apply Hcap; now right.
    + intro E. apply Hq. rewrite <- E. now apply in_map.
Qed.

(* ---- format: literal characters and {name} fields ---- *)
Lemma format_char f c r a : c <> 123 -> c <> 125 ->
  format_fuel (S f) (c :: r) a = option_map (cons c) (format_fuel f r a).
Proof.
  intros H1 H2. destruct c as [|p]; [reflexivity|].
  do 7 (try (destruct p as [p|p|]; try reflexivity)); try (exfalso; apply H1; reflexivity); exfalso; apply H2; reflexivity.
Qed.

Lemma format_open f c r a : c <> 123 ->
  format_fuel (S f) (123 :: c :: r) a =
    match take_field (c :: r) [] with
    | Some (name, rest) =>
        match name with
        | c :: _ => if ident_start c then
                      match arg a name with
                      | Some v => match str_of v, format_fuel f rest a with
                                  | Some t, Some out => Some (t ++ out)
                                  | _, _ => None end
                      | None => None
                      end
                    else None
        | [] => None
        end
    | None => None
    end.
Proof.
  intros H1. destruct c as [|p]; [reflexivity|].
  do 7 (try (destruct p as [p|p|]; try reflexivity)); exfalso; apply H1; reflexivity.
Qed.

Definition field_char (c : N) : bool := negb ((c =? 123) || (c =? 125) || (c =? 33) || (c =? 58) || (c =? 46) || (c =? 91)).
Lemma take_field_name u : forall acc R, forallb field_char u = true -> take_field (u ++ 125 :: R) acc = Some (rev acc ++ u, R).
Proof.
  induction u as [|c u IH]; intros acc R H.
  - cbn. now rewrite app_nil_r.
  - cbn [forallb] in H. apply andb_true_iff in H as [Hc H]. cbn [app take_field].
    unfold field_char in Hc. apply negb_true_iff in Hc. rewrite !orb_false_iff in Hc.
    destruct Hc as [[[[[H123 H125] H33] H58] H46] H91]. rewrite H125, H123, H33, H58, H46, H91. cbn [orb].
    rewrite IH by exact H. cbn [rev]. now rewrite <- app_assoc.
Qed.

Lemma ident_start_not_open c : ident_start c = true -> c <> 123.
Proof. intros H ->. discriminate H. Qed.

Lemma format_lit s : no_brace s = true -> forall R a fuel, (length (s ++ R) < fuel)%nat ->
  format_fuel fuel (s ++ R) a = option_map (app s) (format_fuel (fuel - length s) R a).
Proof.
  induction s as [|c s IH]; intros Hs R a fuel Hf.
  - cbn [app length]. rewrite Nat.sub_0_r. now destruct (format_fuel fuel R a).
  - apply no_brace_cons in Hs as [H1 [H2 Hs]]. destruct fuel as [|fuel]; [cbn in Hf; lia|].
    cbn [app length Nat.sub]. rewrite format_char by assumption. rewrite IH; [|exact Hs|cbn in Hf; lia].
    now destruct (format_fuel (fuel - length s) R a).
Qed.

Lemma find_wire ps n : In n (wire_names ps) -> exists p, find (fun p => str_eqb (pa_name p) n) ps = Some p /\ In p ps /\ pa_name p = n.
Proof.
  intro H. destruct (find (fun p => str_eqb (pa_name p) n) ps) as [p|] eqn:E.
  - exists p. apply find_some in E as [Hi He]. apply str_eqb_eq in He. auto.
  - apply in_map_iff in H as [p [Hp Hi]]. apply (find_none _ _ E) in Hi. cbn in Hi. rewrite Hp, str_eqb_refl in Hi. discriminate.
Qed.

Lemma format_render ps a : NoDup (wire_names ps) -> no_capture ps ->
  forallb (fun p => plain_name (pa_py p)) ps = true ->
  forall segs, lits_ok segs = true -> (forall n, In n (slots segs) -> In n (wire_names ps)) ->
  forall fuel, (length (render_tpl (map_seg (ren_all ps) segs)) < fuel)%nat ->
  format_fuel fuel (render_tpl (map_seg (ren_all ps) segs)) a = subst_segs segs ps a.
Proof.
  intros Hnd Hcap Hplain. induction segs as [|x segs IH]; intros Hok Hsl fuel Hf.
  - destruct fuel; [cbn in Hf; lia|reflexivity].
  - cbn [lits_ok forallb] in Hok. apply andb_true_iff in Hok as [Hx Hok].
    change (render_tpl (map_seg (ren_all ps) (x :: segs)))
      with (render_seg (match x with Lit s => Lit s | Slot n => Slot (ren_all ps n) end) ++ render_tpl (map_seg (ren_all ps) segs)) in *.
    rewrite app_length in Hf.
    destruct x as [s|n]; cbn [render_seg subst_segs] in *.
    + rewrite format_lit; [|exact Hx|rewrite app_length; lia].
      rewrite IH; [reflexivity|exact Hok| |lia]. intros n Hn. apply Hsl. exact Hn.
    + assert (Hn: In n (wire_names ps)) by (apply Hsl; cbn; now left).
      destruct (find_wire ps n Hn) as [p [Hfind [Hp Hpn]]]. rewrite Hfind. subst n.
      rewrite ren_all_wire in * by assumption.
      rewrite forallb_forall in Hplain. pose proof (Hplain p Hp) as Hpl. unfold plain_name in Hpl.
      apply andb_true_iff in Hpl as [Hst Hch].
      destruct (pa_py p) as [|c py] eqn:Epy; [discriminate Hst|].
      destruct fuel as [|fuel]; [lia|].
      unfold braces in *. cbn [app length] in *. rewrite app_length in Hf. cbn [length] in Hf.
      rewrite format_open by (now apply ident_start_not_open).
      rewrite <- app_assoc. cbn [app].
      change (c :: py ++ 125 :: render_tpl (map_seg (ren_all ps) segs)) with ((c :: py) ++ 125 :: render_tpl (map_seg (ren_all ps) segs)).
      rewrite take_field_name by exact Hch. cbn [rev app]. rewrite Hst.
      destruct (arg a (c :: py)) as [v|]; [|reflexivity].
      rewrite IH; [reflexivity|exact Hok| |lia]. intros n Hn0. apply Hsl. cbn. now right.
Qed.

Theorem path_slots : forall segs ps a,
  lits_ok segs = true -> slots segs = wire_names ps -> NoDup (wire_names ps) -> NoDup (map pa_py ps) ->
  forallb (fun p => plain_name (pa_py p)) ps = true -> no_capture ps ->
  (forall p, In p ps -> exists v t, arg a (pa_py p) = Some v /\ str_of v = Some t) ->
  format_path (rewrite_path (render_tpl segs) ps) a = subst_segs segs ps a.
Proof.
  intros segs ps a Hok Hsl Hnd _ Hplain Hcap _.
  assert (Hnb: segs_nb segs = true).
  { unfold lits_ok in Hok. unfold segs_nb. rewrite forallb_forall in *. intros x Hx. specialize (Hok x Hx).
    destruct x; auto. now apply andb_true_iff in Hok as [Hok _]. }
  assert (Hslot: forall n, In n (slots segs) -> no_brace n = true).
  { clear - Hok. induction segs as [|x segs IH]; intros n Hn; [destruct Hn|].
    cbn [lits_ok forallb] in Hok. apply andb_true_iff in Hok as [Hx Hok].
    destruct x as [s|m]; cbn in Hn; auto. destruct Hn as [<-|Hn]; auto. now apply andb_true_iff in Hx as [Hx _]. }
  rewrite rewrite_render.
  - unfold format_path. apply format_render; auto.
    intros n Hn. now rewrite <- Hsl.
  - exact Hnb.
  - intros p Hp. split.
    + apply Hslot. rewrite Hsl. now apply in_map.
    + apply plain_no_brace. rewrite forallb_forall in Hplain. now apply Hplain.
Qed.

(* ================================================================== C04: responses *)
Lemma dec_field_req d k j : dec_field d k true (Some j) = d k j.
Proof. destruct k; try reflexivity. cbn [dec_field negb]. now rewrite andb_false_r. Qed.

Theorem documented_status_decoded : forall orc T f rs flag h r,
  documented rs (h_status h) = Some r ->
  parse_response orc T f rs true flag h =
    match source_value (rs_source r) h with
    | None => PRaiseOther
    | Some j => match rs_kind r with
                | KFile => PVal (Some (PJ j))
                | _ => if has_construct (rs_kind r)
                       then match dec orc T f (rs_kind r) j with Some v => PVal (Some v) | None => PRaiseOther end
                       else PVal (Some (PJ j))
                end
    end.
Proof.
  intros orc T f rs flag h r. unfold documented.
  induction rs as [|r0 rest IH]; intro H; cbn [find] in H; [discriminate|]. cbn [parse_response].
  destruct (Z.eqb (h_status h) (rs_status r0)).
  - injection H as ->. destruct (source_value (rs_source r) h) as [j|]; [|reflexivity].
    rewrite dec_field_req. reflexivity.
  - auto.
Qed.

Theorem no_schema_no_value : forall orc T f rs flag h r,
  documented rs (h_status h) = Some r -> parse_response orc T f rs false flag h = PVal None.
Proof.
  intros orc T f rs flag h r. unfold documented.
  induction rs as [|r0 rest IH]; intro H; cbn [find] in H; [discriminate|]. cbn [parse_response].
  destruct (Z.eqb (h_status h) (rs_status r0)); auto.
Qed.

Theorem undocumented_status : forall orc T f rs parsed flag h,
  documented rs (h_status h) = None ->
  parse_response orc T f rs parsed flag h = if flag then PRaiseUnexpected else PVal None.
Proof.
  intros orc T f rs parsed flag h. unfold documented.
  induction rs as [|r0 rest IH]; intro H; cbn [find] in H; [reflexivity|]. cbn [parse_response].
  destruct (Z.eqb (h_status h) (rs_status r0)); [discriminate|auto].
Qed.

Theorem parsed_value_typed : forall orc T f rs flag h r j v,
  table_ok T = true -> k_ok (rs_kind r) = true -> wf_json j = true ->
  documented rs (h_status h) = Some r -> source_value (rs_source r) h = Some j ->
  valid orc T f (rs_kind r) j = true ->
  parse_response orc T f rs true flag h = PVal (Some v) -> inhabits v (type_of (rs_kind r) true) = true.
Proof.
  intros orc T f rs flag h r j v HT Hk Hw Hdoc Hsrc Hval H.
  rewrite (documented_status_decoded _ _ _ _ _ _ _ Hdoc), Hsrc in H.
  assert (Hd: dec orc T f (rs_kind r) j = Some v).
  { destruct (has_construct (rs_kind r)) eqn:Ec.
    - destruct (rs_kind r); try discriminate Hk;
        (destruct (dec orc T f _ j); [|discriminate H]); now injection H as ->.
    - assert (Hv: v = PJ j) by (destruct (rs_kind r); try discriminate Hk; now injection H as <-).
      subst v. destruct f as [|f]; [discriminate Hval|]. cbn [dec]. unfold dec_step. now rewrite Ec. }
  eapply decode_inhabits_annotation; eauto.
Qed.

(* NOTE: the statement as given (exists orc T f rs flag h r2, ...) does not typecheck: documented does not depend on
   orc / T / f / flag, so their types cannot be inferred. Type annotations are added; nothing else is changed. *)
Theorem status_alias_refuted : exists (orc : oracles) (T : ctable) (f : nat) rs (flag : bool) h r2,
  In r2 rs /\ rs_status r2 = h_status h /\ documented rs (h_status h) <> Some r2.
Proof.
  exists {| parse_date := fun _ => None; parse_datetime := fun _ => None; parse_uuid := fun _ => None |}, ([] : ctable), 0%nat,
    [ {| rs_status := 200%Z; rs_kind := KStr; rs_source := SJson |}; {| rs_status := 200%Z; rs_kind := KInt; rs_source := SJson |} ],
    false, {| h_status := 200%Z; h_json := None; h_text := []; h_bytes := [] |},
    {| rs_status := 200%Z; rs_kind := KInt; rs_source := SJson |}.
  split; [right; left; reflexivity|]. split; [reflexivity|]. cbn. discriminate.
Qed.
Theorem status_alias_refuted_corrected : exists rs h r2,
  In r2 rs /\ rs_status r2 = h_status h /\ documented rs (h_status h) <> Some r2.
Proof.
  exists [ {| rs_status := 200%Z; rs_kind := KStr; rs_source := SJson |}; {| rs_status := 200%Z; rs_kind := KInt; rs_source := SJson |} ],
    {| h_status := 200%Z; h_json := None; h_text := []; h_bytes := [] |},
    {| rs_status := 200%Z; rs_kind := KInt; rs_source := SJson |}.
  split; [right; left; reflexivity|]. split; [reflexivity|]. cbn. discriminate.
Qed.

Print Assumptions query_unset_absent.
Print Assumptions query_placement.
Print Assumptions query_nothing_else.
Print Assumptions header_unset_absent.
Print Assumptions header_placement.
Print Assumptions header_nothing_else.
Print Assumptions cookie_unset_absent.
Print Assumptions cookie_placement.
Print Assumptions cookie_nothing_else.
Print Assumptions method_literal.
Print Assumptions content_type_matches.
Print Assumptions security_demands_auth.
Print Assumptions multi_body_same_type_refuted.
Print Assumptions path_slots.
Print Assumptions documented_status_decoded.
Print Assumptions no_schema_no_value.
Print Assumptions undocumented_status.
Print Assumptions parsed_value_typed.
Print Assumptions status_alias_refuted.
Print Assumptions status_alias_refuted_corrected.
