(* Enums.v — run-time behaviour of the generated enum artefacts and of const checks (C14). Model file.
   - EnumProperty.build / LiteralEnumProperty.build: null extraction, single-type check (enum_property.py:72-118,
     literal_enum_property.py:71-117)
   - templates str_enum.py.jinja (members sorted by dictsort(true), value emitted between double quotes), int_enum.py.jinja,
     literal_enum.py.jinja (repr of every value, check_ function = set membership)
   - decode Enum(value) / check_x(value), encode .value (property_templates/enum_property.py.jinja,
     literal_enum_property.py.jinja); the union wrapper generated for a nullable enum (union_property.py.jinja)
   - const check on decode (const_property.py.jinja). *)
From Coq Require Import NArith ZArith List Bool Lia.
Import ListNotations.
Require Import OPC.gen.GenTables OPC.Uni OPC.Names OPC.PyLit OPC.Values OPC.PyEval.
Open Scope N_scope.

Definition s_nan : str := [110;97;110].

(* ---- Python == between values decoded from JSON (bool is an int, an integral float equals the int, nan equals nothing) ---- *)
Definition as_int (j : jval) : option Z :=
  match j with
  | JBool b => Some (if b then 1 else 0)%Z
  | JInt z => Some z
  | JFloat f => if f_finite f then f_int f else None
  | _ => None
  end.

Definition py_eq (a b : jval) : bool :=
  match a, b with
  | JNull, JNull => true
  | JStr x, JStr y => str_eqb x y
  | JOther x, JOther y => str_eqb x y
  | _, _ =>
      match as_int a, as_int b with
      | Some x, Some y => Z.eqb x y
      | None, None =>
          match a, b with
          | JFloat f, JFloat g => str_eqb (f_tok f) (f_tok g) && negb (str_eqb (f_tok f) s_nan)
          | _, _ => false
          end
      | _, _ => false
      end
  end.

(* the JSON value an enum value travels as *)
Definition wire (e : evalue) : jval := match e with EInt z => JInt z | EStr s => JStr s end.

(* ---- build: null extraction and single-type check ---- *)
Inductive jtag := TNull | TBool | TInt | TFloat | TStr | TList | TDict.
Definition tag_of (j : jval) : jtag :=
  match j with
  | JNull => TNull | JBool _ => TBool | JInt _ => TInt | JFloat _ => TFloat | JStr _ => TStr
  | JOther s => match s with c :: _ => if c =? 123 then TDict else TList | [] => TList end
  end.
Definition tag_eqb (a b : jtag) : bool :=
  match a, b with
  | TNull, TNull | TBool, TBool | TInt, TInt | TFloat, TFloat | TStr, TStr | TList, TList | TDict, TDict => true
  | _, _ => false
  end.
Definition is_null (j : jval) : bool := match j with JNull => true | _ => false end.

Fixpoint all_ints (l : list jval) : option (list evalue) :=
  match l with
  | [] => Some []
  | JInt z :: r => match all_ints r with Some t => Some (EInt z :: t) | None => None end
  | _ :: _ => None
  end.
Fixpoint all_strs (l : list jval) : option (list evalue) :=
  match l with
  | [] => Some []
  | JStr s :: r => match all_strs r with Some t => Some (EStr s :: t) | None => None end
  | _ :: _ => None
  end.

Inductive ebuild :=
| BNoneProp                                   (* only nulls: a NoneProperty *)
| BMixed                                      (* PropertyError: Enum values must all be the same type *)
| BUnsupported                                (* PropertyError: Unsupported enum type *)
| BNullable (vt : vtype) (vs : list evalue)   (* a null was listed: union [null, enum of the rest] *)
| BPlain (vt : vtype) (vs : list evalue).

Definition enum_build (enum : list jval) : ebuild :=
  let nn := filter (fun j => negb (is_null j)) enum in
  match nn with
  | [] => BNoneProp
  | j0 :: _ =>
      if negb (forallb (fun j => tag_eqb (tag_of j) (tag_of j0)) nn) then BMixed
      else
        let fin vt vs := if (length nn <? length enum)%nat then BNullable vt vs else BPlain vt vs in
        match all_ints nn, all_strs nn with
        | Some vs, _ => fin VInt vs
        | None, Some vs => fin VStr vs
        | None, None => BUnsupported
        end
  end.

(* ---- generated classes ---- *)
Definition enum_class := list (str * jval).       (* members in definition order: (name, value) *)

Fixpoint str_ltb (a b : str) : bool :=
  match a, b with
  | _, [] => false
  | [], _ :: _ => true
  | x :: a', y :: b' => if x <? y then true else if y <? x then false else str_ltb a' b'
  end.
Fixpoint insert_kv {A : Type} (kv : str * A) (l : list (str * A)) : list (str * A) :=
  match l with
  | [] => [kv]
  | h :: t => if str_ltb (fst kv) (fst h) then kv :: l else h :: insert_kv kv t
  end.
(* jinja dictsort(case_sensitive=true): by key, code point order *)
Definition dictsort {A : Type} (l : list (str * A)) : list (str * A) := fold_right insert_kv [] l.

Fixpoint map_opt {A B : Type} (f : A -> option B) (l : list A) : option (list B) :=
  match l with
  | [] => Some []
  | a :: r => match f a, map_opt f r with Some b, Some t => Some (b :: t) | _, _ => None end
  end.

(* str_enum.py.jinja: KEY = DQ stored DQ; the member's value is what Python lexes from that literal.
   None = the member name is not an identifier, or the line is not (exactly) one string literal: the module is broken. *)
Definition str_member (kv : str * evalue) : option (str * jval) :=
  match snd kv with
  | EStr stored => if negb (is_identifier (fst kv)) then None else
                   match lex_body DQ (stored ++ [DQ]) with
                   | Some (v, []) => Some (fst kv, JStr v)
                   | _ => None
                   end
  | EInt _ => None
  end.
Definition str_enum_class (m : list (str * evalue)) : option enum_class := map_opt str_member (dictsort m).

(* int_enum.py.jinja: KEY = str(value), insertion order *)
Definition int_member (kv : str * evalue) : option (str * jval) :=
  match snd kv with
  | EInt z => match parse_int (dec_Z z) with Some z' => Some (fst kv, JInt z') | None => None end
  | EStr _ => None
  end.
Definition int_enum_class (m : list (str * evalue)) : option enum_class := map_opt int_member m.

(* Enum(value): the first member whose value equals the argument; None = ValueError *)
Fixpoint enum_lookup (cls : enum_class) (j : jval) : option str :=
  match cls with
  | [] => None
  | (k, v) :: r => if py_eq j v then Some k else enum_lookup r j
  end.
(* member.value *)
Fixpoint enum_value (cls : enum_class) (k : str) : option jval :=
  match cls with
  | [] => None
  | (k', v) :: r => if str_eqb k k' then Some v else enum_value r k
  end.

(* literal_enum.py.jinja: every value is emitted with repr; the check_ function tests membership in that set *)
Definition lit_member (e : evalue) : option jval :=
  match e with
  | EInt z => match parse_int (dec_Z z) with Some z' => Some (JInt z') | None => None end
  | EStr s => match lex_string (py_repr s) with Some (v, []) => Some (JStr v) | _ => None end
  end.
Definition literal_values (vals : list evalue) : option (list jval) := map_opt lit_member vals.
Definition literal_check (lv : list jval) (j : jval) : bool := existsb (py_eq j) lv.

(* ---- decoding inside from_dict ---- *)
Inductive dec :=
| DNone                 (* None *)
| DMember (k : str)     (* the enum member named k *)
| DValue (j : jval)     (* literal enum: the checked value itself *)
| DRaw (j : jval)       (* the undecoded input passed through (union fall-through cast) *)
| DFail.                (* an exception *)

Definition isinstance_vt (vt : vtype) (j : jval) : bool :=
  match vt, j with
  | VStr, JStr _ => true
  | VInt, JInt _ => true
  | VInt, JBool _ => true
  | _, _ => false
  end.

Definition enum_decode (cls : enum_class) (j : jval) : dec :=
  match enum_lookup cls j with Some k => DMember k | None => DFail end.
Definition literal_decode (lv : list jval) (j : jval) : dec :=
  if literal_check lv j then DValue j else DFail.

(* nullable enum = union [None, enum]: the none member has no construct macro, so the enum member is tried inside
   try/except and everything else falls through to the final cast *)
Definition nullable_enum_decode (vt : vtype) (cls : enum_class) (j : jval) : dec :=
  match j with
  | JNull => DNone
  | _ => if isinstance_vt vt j
         then match enum_lookup cls j with Some k => DMember k | None => DRaw j end
         else DRaw j
  end.
Definition nullable_literal_decode (vt : vtype) (lv : list jval) (j : jval) : dec :=
  match j with
  | JNull => DNone
  | _ => if isinstance_vt vt j && literal_check lv j then DValue j else DRaw j
  end.

(* ---- const ---- *)
(* const_property.py.jinja interpolates python_code into the f-string message of the raise statement, which is delimited by
   double quotes: a double quote or a brace in the code breaks the module (or turns text into a replacement field) *)
Definition fstring_safe (c : str) : bool := forallb (fun ch => negb ((ch =? 34) || (ch =? 123) || (ch =? 125))) c.

(* the value denoted by the python_code the const check compares with; None = the module does not compile / the code does
   not evaluate *)
Definition const_value (cv : jval) : option jval :=
  match conv_any cv with
  | Ok (Some x) =>
      if negb (fstring_safe (code x)) then None else
      match eval_code (code x) with
      | Some (PVStr s) => Some (JStr s)
      | Some (PVInt z) => Some (JInt z)
      | Some (PVBool b) => Some (JBool b)
      | Some (PVFloat _) => match cv with JFloat f => Some (JFloat f) | _ => None end
      | _ => None
      end
  | _ => None
  end.
(* required const property: accepted iff not (value != const) *)
Definition const_accepts (cv j : jval) : option bool :=
  match const_value cv with Some c => Some (py_eq j c) | None => None end.

(* ---- guards ---- *)
Definition ev_no_bs_nl (e : evalue) : bool := match e with EStr s => no_bs_nl s | EInt _ => true end.
Definition g_no_bs_nl (vs : list evalue) : bool := forallb ev_no_bs_nl vs.
Definition ev_is_str (e : evalue) : bool := match e with EStr _ => true | EInt _ => false end.
Definition ev_is_int (e : evalue) : bool := match e with EInt _ => true | EStr _ => false end.

(* ---- what is SENT for a member in positions that stringify it (header: str(x); path: DQ...DQ.format(x=x); f-strings) ----
   str_enum.py.jinja / int_enum.py.jinja define __str__ as str(self.value); Enum.__format__ delegates to __str__ (CPython 3.12), so
   str(member) = format(member) = the text of the declared value *)
Definition value_text (v : jval) : option str :=
  match v with JStr s => Some s | JInt z => Some (dec_Z z) | _ => None end.
Definition enum_text (cls : enum_class) (k : str) : option str :=
  match enum_value cls k with Some v => value_text v | None => None end.
