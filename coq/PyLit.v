(* PyLit.v — lexical model of the string-literal forms the generator emits document text into:
   DQ…DQ / SQ-literal single-line Python literals, TQ…TQ / rTQ…TQ docstrings (templates/helpers.jinja safe_docstring),
   TOML basic strings; and CPython's repr(str).  Strings are lists of code points. Model file. *)
From Coq Require Import NArith List Bool Lia.
Import ListNotations.
Require Import OPC.gen.GenTables OPC.Uni OPC.Names.
Open Scope N_scope.

Definition BS : N := 92.   (* backslash *)
Definition DQ : N := 34.   (* double quote *)
Definition SQ : N := 39.   (* single quote *)
Definition NL : N := 10.
Definition CR : N := 13.

(* simple (single-character) escapes of Python string literals: \\ \' \DQ \n \t \r \a \b \f \v *)
Definition simple_escape (c : N) : option N :=
  if c =? 92 then Some 92 else if c =? 39 then Some 39 else if c =? 34 then Some 34
  else if c =? 110 then Some 10 else if c =? 116 then Some 9 else if c =? 114 then Some 13
  else if c =? 97 then Some 7 else if c =? 98 then Some 8 else if c =? 102 then Some 12
  else if c =? 118 then Some 11 else None.

(* escapes whose decoding is NOT modelled (octal, \x, \u, \U, \N, line continuation): the lexer gives up (None);
   the theorems never reach them and the correspondence excludes such inputs *)
Definition unmodelled_escape (c : N) : bool :=
  ((48 <=? c) && (c <=? 55)) || (c =? 120) || (c =? 117) || (c =? 85) || (c =? 78) || (c =? 10) || (c =? 13).

(* Body of a single-line literal opened with quote q (the opening quote already consumed).
   Returns (value, rest-after-closing-quote); None = unterminated / newline inside / unmodelled escape / NUL. *)
Fixpoint lex_body (q : N) (s : str) : option (str * str) :=
  match s with
  | [] => None
  | c :: s' =>
    if c =? q then Some ([], s')
    else if (c =? NL) || (c =? CR) || (c =? 0) then None
    else if c =? BS then
      match s' with
      | [] => None
      | e :: s'' =>
        if unmodelled_escape e then None
        else match simple_escape e with
             | Some v => match lex_body q s'' with Some (val, r) => Some (v :: val, r) | None => None end
             | None => (* unknown escape: backslash kept *)
                 match lex_body q s'' with Some (val, r) => Some (BS :: e :: val, r) | None => None end
             end
      end
    else match lex_body q s' with Some (val, r) => Some (c :: val, r) | None => None end
  end.

(* a whole literal: opening quote then body *)
Definition lex_string (s : str) : option (str * str) :=
  match s with
  | c :: s' => if (c =? DQ) || (c =? SQ) then lex_body c s' else None
  | [] => None
  end.

(* TOML basic string body: same termination structure (backslash escapes the next character, newline illegal) *)
Definition lex_toml_basic := lex_body DQ.

(* ---- triple-quoted docstrings ----
   scan_triple: position of the terminating triple quote. In both cooked and raw literals a backslash protects the next
   character from terminating the literal. Returns (raw text between the delimiters, rest). *)
Fixpoint scan_triple (s : str) : option (str * str) :=
  match s with
  | [] => None
  | c :: s' =>
    if c =? BS then
      match s' with
      | [] => None
      | e :: s'' => match scan_triple s'' with Some (t, r) => Some (c :: e :: t, r) | None => None end
      end
    else if c =? DQ then
      match s' with
      | d1 :: d2 :: s'' => if (d1 =? DQ) && (d2 =? DQ) then Some ([], s'')
                           else match scan_triple s' with Some (t, r) => Some (c :: t, r) | None => None end
      | _ => match scan_triple s' with Some (t, r) => Some (c :: t, r) | None => None end
      end
    else match scan_triple s' with Some (t, r) => Some (c :: t, r) | None => None end
  end.

Definition has_bs (s : str) : bool := existsb (N.eqb BS) s.
Fixpoint has_triple (s : str) : bool :=
  match s with
  | a :: ((b :: c :: _) as t) => ((a =? DQ) && (b =? DQ) && (c =? DQ)) || has_triple t
  | _ => false
  end.

Definition TQ : str := [DQ; DQ; DQ].
(* templates/helpers.jinja safe_docstring: rTQ c TQ if a backslash occurs in c, else TQ c TQ *)
Definition safe_docstring (c : str) : str :=
  (if has_bs c then [114] else []) ++ TQ ++ [32] ++ c ++ [32] ++ TQ.

(* lexing a docstring token: optional r prefix, opening triple quote, scan; value is the raw text (for the raw form it IS the
   value; for the cooked form without backslashes it is too) *)
Definition lex_docstring (s : str) : option (str * str) :=
  match s with
  | 114 :: 34 :: 34 :: 34 :: s' => scan_triple s'
  | 34 :: 34 :: 34 :: s' => scan_triple s'
  | _ => None
  end.

(* ---- repr(str) ---- *)
Definition hexdigit (n : N) : N := if n <? 10 then 48 + n else 87 + n.
Fixpoint hex_fixed (digits : nat) (n : N) : str :=
  match digits with
  | O => []
  | S d => hex_fixed d (n / 16) ++ [hexdigit (n mod 16)]
  end.

Definition repr_char (q c : N) : str :=
  if (c =? q) || (c =? BS) then [BS; c]
  else if c =? 9 then [BS; 116] else if c =? 10 then [BS; 110] else if c =? 13 then [BS; 114]
  else if (c <? 32) || (c =? 127) then BS :: 120 :: hex_fixed 2 c
  else if c <? 127 then [c]
  else if printable c then [c]
  else if c <? 256 then BS :: 120 :: hex_fixed 2 c
  else if c <? 65536 then BS :: 117 :: hex_fixed 4 c
  else BS :: 85 :: hex_fixed 8 c.

Definition repr_quote (s : str) : N :=
  if existsb (N.eqb SQ) s && negb (existsb (N.eqb DQ) s) then DQ else SQ.

Definition py_repr (s : str) : str :=
  let q := repr_quote s in q :: flat_map (repr_char q) s ++ [q].

(* ---- guards ---- *)
(* no backslash, newline, carriage return or NUL: the domain on which escape_dq + DQ…DQ is a faithful embedding *)
Definition no_bs_nl (s : str) : bool :=
  forallb (fun c => negb ((c =? BS) || (c =? NL) || (c =? CR) || (c =? 0))) s.
(* plain: additionally no double quote — the domain on which a raw DQ{{ x }}DQ interpolation is faithful *)
Definition plain_dq (s : str) : bool := no_bs_nl s && negb (existsb (N.eqb DQ) s).
(* characters that repr leaves as themselves *)
Definition repr_plain (s : str) : bool :=
  forallb (fun c => negb ((c =? BS) || (c =? SQ) || (c =? DQ)) && (32 <=? c) && ((c <? 127) || printable c)) s.
