(* RefsThm.v - proofs about Refs.v (property C20): reference strings, request-body chains, component parameters, responses. *)
From Coq Require Import NArith List Bool Lia.
Import ListNotations.
Require Import OPC.gen.GenParams OPC.Uni OPC.NamesThm OPC.Refs.
Open Scope N_scope.

(* ================================================================== regenerated facts (reflection on GenParams.v) *)
Lemma gen_params_facts :
  gen_params_known = true /\
  subsetN gen_param_reads gen_param_copied = true /\
  subsetN gen_param_reads model_reads = true /\
  subsetN model_reads gen_param_reads = true /\
  subsetN model_reads gen_param_copied = true.
Proof. vm_compute. repeat split; reflexivity. Qed.

Lemma gen_ref_evolved_ok : forallb (fun f => mem_str f ref_may_change) gen_ref_evolved = true.
Proof. vm_compute. reflexivity. Qed.

(* shape of the two prefix constants and of the urlsplit tables, as far as the theorems need them *)
Definition plain_char (c : N) : bool := negb (memN c gen_url_remove).
Lemma gen_prefix_facts :
  (exists q, gen_param_ref_prefix = 35 :: q /\ forallb plain_char q = true) /\
  (exists q, gen_response_prefix = q ++ [47]) /\
  forallb plain_char gen_response_prefix = true /\
  memN 35 gen_url_strip = false /\ memN 35 gen_url_remove = false /\
  gen_uses_params_empty = true.
Proof.
  split; [|split; [|repeat split; vm_compute; reflexivity]].
  - eexists. split; [vm_compute; reflexivity | vm_compute; reflexivity].
  - exists (removelast gen_response_prefix). vm_compute. reflexivity.
Qed.

(* ================================================================== generic lemmas *)
Lemma str_eqb_refl s : str_eqb s s = true.
Proof. now apply str_eqb_eq. Qed.

Lemma mem_str_false s l : mem_str s l = false -> ~ In s l.
Proof. intros H Hin. apply mem_str_In in Hin. congruence. Qed.

Lemma memN_app c a b : memN c (a ++ b) = memN c a || memN c b.
Proof. unfold memN. apply existsb_app. Qed.

Lemma assoc_In {V} k (l : list (str * V)) v : assoc k l = Some v -> In (k, v) l.
Proof.
  induction l as [|[k' v'] l IH]; cbn [assoc]; [discriminate|].
  destruct (str_eqb k k') eqn:E.
  - intros [= <-]. apply str_eqb_eq in E. subst. now left.
  - intro H. right. auto.
Qed.

Lemma filter_id {A} (f : A -> bool) l : forallb f l = true -> filter f l = l.
Proof.
  induction l as [|x l IH]; cbn [forallb filter]; [reflexivity|].
  intro H. apply andb_true_iff in H as [H1 H2]. rewrite H1. now rewrite IH.
Qed.

(* ================================================================== (a) reference strings *)
Lemma after_last_none c s : memN c s = false -> after_last c s = s.
Proof.
  destruct s as [|x r]; [reflexivity|]. cbn [after_last]. intro H.
  unfold memN in H. cbn [existsb] in H. apply orb_false_iff in H as [H1 H2].
  fold (memN c r) in H2. rewrite H2. rewrite N.eqb_sym in H1. now rewrite H1.
Qed.

Lemma after_last_app c p n : memN c n = false -> after_last c (p ++ c :: n) = n.
Proof.
  intro Hn. induction p as [|x p IH]; cbn [app after_last].
  - rewrite Hn. now rewrite N.eqb_refl.
  - rewrite memN_app. unfold memN at 2. cbn [existsb]. rewrite N.eqb_refl. rewrite orb_true_r. cbn [orb]. exact IH.
Qed.

Lemma after_last_no_sep c s : memN c (after_last c s) = false.
Proof.
  induction s as [|x r IH]; [reflexivity|]. cbn [after_last].
  destruct (memN c r) eqn:E; [exact IH|].
  destruct (x =? c) eqn:Ex; [exact E|].
  unfold memN. cbn [existsb]. rewrite N.eqb_sym, Ex. exact E.
Qed.

(* T simple_name: the simple name of a reference path is its last segment *)
Theorem simple_name_last_segment : forall p n, memN 47 n = false -> get_reference_simple_name (p ++ 47 :: n) = n.
Proof. intros. now apply after_last_app. Qed.

Theorem simple_name_no_slash : forall s, memN 47 (get_reference_simple_name s) = false.
Proof. intro. apply after_last_no_sep. Qed.

Lemma lstrip_set_head set c r : memN c set = false -> lstrip_set set (c :: r) = c :: r.
Proof. intro H. cbn [lstrip_set]. now rewrite H. Qed.

Lemma split_at_head c r : split_at c (c :: r) = ([], Some r).
Proof. cbn [split_at]. now rewrite N.eqb_refl. Qed.

Lemma split_scheme_hash r : split_scheme (35 :: r) = (false, 35 :: r).
Proof.
  unfold split_scheme. destruct (split_at 58 (35 :: r)) as [pre o] eqn:E.
  cbn [split_at] in E. change (35 =? 58) with false in E. cbv iota in E.
  destruct (split_at 58 r) as [a b]. injection E as <- <-.
  destruct b; reflexivity.
Qed.

(* parse_reference_path on a cleaned text that starts with '#': always the remainder *)
Lemma parse_hash_clean r : url_clean (35 :: r) = 35 :: filter plain_char r.
Proof.
  destruct gen_prefix_facts as (_ & _ & _ & Hs & Hr & _).
  unfold url_clean. rewrite lstrip_set_head by exact Hs. cbn [filter]. rewrite Hr. reflexivity.
Qed.

Lemma parse_of_clean_hash raw r : url_clean raw = 35 :: r -> parse_reference_path raw = PROk r.
Proof.
  intro H. unfold parse_reference_path. rewrite H. rewrite split_scheme_hash.
  cbn [span_netloc memN existsb xorb orb]. rewrite split_at_head.
  cbn [split_at]. destruct gen_prefix_facts as (_ & _ & _ & _ & _ & Hu). rewrite Hu.
  reflexivity.
Qed.

Lemma parse_of_clean_nil raw : url_clean raw = [] -> parse_reference_path raw = PROk [].
Proof.
  intro H. unfold parse_reference_path. rewrite H. reflexivity.
Qed.

(* T parse_ref_local: '#' + fragment is accepted and yields the fragment (tab / CR / LF removed, as urlsplit does) *)
Theorem parse_ref_local : forall frag, parse_reference_path (35 :: frag) = PROk (filter plain_char frag).
Proof. intro. apply parse_of_clean_hash. apply parse_hash_clean. Qed.

Corollary parse_ref_local_plain : forall frag, forallb plain_char frag = true -> parse_reference_path (35 :: frag) = PROk frag.
Proof. intros frag H. rewrite parse_ref_local. now rewrite filter_id. Qed.

(* an accepted reference without authority / query / params is '#' + fragment (or the empty string) *)
Lemma parse_ok_shape raw frag :
  g_no_authority raw = true -> parse_reference_path raw = PROk frag ->
  url_clean raw = 35 :: frag \/ (url_clean raw = [] /\ frag = []).
Proof.
  unfold g_no_authority. destruct (url_clean raw) as [|c r] eqn:E; intros Hg Hp.
  - right. split; [reflexivity|]. rewrite (parse_of_clean_nil raw E) in Hp. now injection Hp as <-.
  - apply N.eqb_eq in Hg. subst c. left. rewrite (parse_of_clean_hash raw r E) in Hp. now injection Hp as <-.
Qed.

(* R ref_netloc_ignored: a network-path reference (remote host) / a query is accepted, the authority part is dropped *)
Definition w_netloc_ref : str := [47;47;104;111;115;116;35;47;99;111;109;112;111;110;101;110;116;115;47;112;97;114;97;109;101;116;101;114;115;47;81].
Theorem ref_netloc_ignored_refuted :
  exists raw frag, g_no_authority raw = false /\ parse_reference_path raw = PROk frag /\ parse_reference_path (35 :: frag) = PROk frag.
Proof. exists w_netloc_ref. eexists. split; [vm_compute; reflexivity|]. split; vm_compute; reflexivity. Qed.

(* R ref_urlparse_crash: urlsplit raises ValueError on a one-sided bracket in the authority part; nothing catches it *)
Theorem ref_urlparse_crash_refuted : exists raw, parse_reference_path raw = PRCrash.
Proof. exists [47;47;91]. vm_compute. reflexivity. Qed.

Example parse_ref_remote_examples :
  parse_reference_path [111;46;121;97;109;108;35;47;65] = PRRemote /\     (* o.yaml#/A *)
  parse_reference_path [104;116;116;112;58;47;47;120;47;121;35;47;97] = PRRemote /\   (* http://x/y#/a *)
  parse_reference_path [65] = PRRemote /\ parse_reference_path [] = PROk [] /\ parse_reference_path [35] = PROk [].
Proof. vm_compute. repeat split; reflexivity. Qed.

(* ================================================================== (b) request-body chains *)
Section Body.
  Context {B : Type}.
  Implicit Types comps : list (str * body_entry B).

  (* r -> rs[0] -> rs[1] -> ... -> final : every element names (by its LAST segment) a component that holds the next one *)
  Fixpoint links comps (r : str) (rs : list str) (final : option (body_entry B)) : Prop :=
    match rs with
    | [] => assoc (get_reference_simple_name r) comps = final
    | r' :: rest => assoc (get_reference_simple_name r) comps = Some (BRef r') /\ links comps r' rest final
    end.

  Lemma body_loop_chain comps : forall rs r seen fuel final,
    NoDup (r :: rs) -> (forall x, In x (r :: rs) -> ~ In x seen) -> links comps r rs final ->
    body_loop fuel comps seen (Some (BRef r)) = BRFuel \/
    exists f', body_loop fuel comps seen (Some (BRef r)) = body_loop f' comps (rev (r :: rs) ++ seen) final.
  Proof.
    induction rs as [|r' rest IH]; intros r seen fuel final Hnd Hdis Hl.
    - cbn [links] in Hl.
      assert (Em : mem_str r seen = false).
      { destruct (mem_str r seen) eqn:Em; [|reflexivity]. exfalso. apply mem_str_In in Em. apply (Hdis r); [now left | exact Em]. }
      destruct fuel as [|f]; cbn [body_loop]; rewrite Em; [left; reflexivity|]. right. exists f. rewrite Hl. reflexivity.
    - cbn [links] in Hl. destruct Hl as [Hl1 Hl2].
      assert (Em : mem_str r seen = false).
      { destruct (mem_str r seen) eqn:Em; [|reflexivity]. exfalso. apply mem_str_In in Em. apply (Hdis r); [now left | exact Em]. }
      destruct fuel as [|f]; cbn [body_loop]; rewrite Em; [left; reflexivity|]. rewrite Hl1.
      assert (Hnd' : NoDup (r' :: rest)) by now inversion Hnd.
      assert (Hdis' : forall x, In x (r' :: rest) -> ~ In x (r :: seen)).
      { intros x Hx [Hxr | Hxs].
        - subst x. inversion Hnd as [|? ? Hni _]. now apply Hni.
        - apply (Hdis x); [now right | exact Hxs]. }
      destruct (IH r' (r :: seen) f final Hnd' Hdis' Hl2) as [Hf | [f' Hf']].
      + now left.
      + right. exists f'. rewrite Hf'. f_equal.
        change (rev (r :: r' :: rest)) with (rev (r' :: rest) ++ [r]). rewrite <- app_assoc. reflexivity.
  Qed.

  (* every reference string held by a component *)
  Fixpoint refs_of comps : list str :=
    match comps with [] => [] | (_, BRef r) :: l => r :: refs_of l | (_, BBody _) :: l => refs_of l end.
  Lemma refs_of_length comps : (length (refs_of comps) <= length comps)%nat.
  Proof. induction comps as [|[k [r|b]] l IH]; cbn [refs_of length]; lia. Qed.
  Lemma refs_of_In comps k r : In (k, BRef r) comps -> In r (refs_of comps).
  Proof.
    induction comps as [|[k' [r'|b]] l IH]; cbn [refs_of]; intro H; [contradiction| |].
    - destruct H as [H|H]; [injection H as _ <-; now left | right; auto].
    - destruct H as [H|H]; [discriminate | auto].
  Qed.

  Lemma body_loop_fuel comps U : (forall k r, In (k, BRef r) comps -> In r U) ->
    forall fuel seen cur,
    NoDup seen -> incl seen U -> (forall r, cur = Some (BRef r) -> In r U) ->
    (length U <= fuel + length seen)%nat ->
    body_loop fuel comps seen cur <> BRFuel.
  Proof.
    intros HU. induction fuel as [|f IH]; intros seen cur Hnd Hinc Hcur Hlen.
    - destruct cur as [[r|b]|]; cbn [body_loop]; try discriminate.
      + destruct (mem_str r seen) eqn:Em; [discriminate|]. exfalso.
        apply mem_str_false in Em.
        assert (Hl : (length (r :: seen) <= length U)%nat).
        { apply NoDup_incl_length; [now constructor|]. intros x [<-|Hx]; [now apply Hcur | now apply Hinc]. }
        cbn [length] in Hl. lia.
      + destruct seen; discriminate.
    - destruct cur as [[r|b]|]; cbn [body_loop]; try discriminate.
      + destruct (mem_str r seen) eqn:Em; [discriminate|]. apply mem_str_false in Em.
        apply IH.
        * now constructor.
        * intros x [<-|Hx]; [now apply Hcur | now apply Hinc].
        * intros r' Hr'. apply assoc_In in Hr'. now apply HU in Hr'.
        * assert (Hl : (length (r :: seen) <= length U)%nat).
          { apply NoDup_incl_length; [now constructor|]. intros x [<-|Hx]; [now apply Hcur | now apply Hinc]. }
          cbn [length] in *. lia.
      + destruct seen; discriminate.
  Qed.

  (* T body_ref_terminates: the loop stops within |components|+1 steps, whatever the table and the start *)
  Theorem body_ref_terminates : forall comps start, resolve_body comps start <> BRFuel.
  Proof.
    intros comps start. unfold resolve_body.
    set (U := match start with Some (BRef r) => r :: refs_of comps | _ => refs_of comps end).
    apply (body_loop_fuel comps U).
    - intros k r H. apply refs_of_In in H. unfold U. destruct start as [[?|?]|]; [now right | exact H | exact H].
    - constructor.
    - intros x [].
    - intros r ->. unfold U. now left.
    - pose proof (refs_of_length comps). unfold U. destruct start as [[?|?]|]; cbn [length]; lia.
  Qed.

  Lemma chain_run comps r rs final :
    NoDup (r :: rs) -> links comps r rs final ->
    exists f', resolve_body comps (Some (BRef r)) = body_loop f' comps (rev (r :: rs)) final.
  Proof.
    intros Hnd Hl.
    destruct (body_loop_chain comps rs r [] (S (length comps)) final Hnd (fun _ _ H => H) Hl) as [Hf | [f' Hf']].
    - exfalso. exact (body_ref_terminates comps (Some (BRef r)) Hf).
    - exists f'. unfold resolve_body. rewrite Hf'. now rewrite app_nil_r.
  Qed.

  (* T body_ref_chain: an acyclic chain of references of ANY length resolves to its terminal body *)
  Theorem body_ref_chain : forall comps r rs b,
    NoDup (r :: rs) -> links comps r rs (Some (BBody b)) -> resolve_body comps (Some (BRef r)) = BROk b.
  Proof. intros comps r rs b Hnd Hl. destruct (chain_run comps r rs _ Hnd Hl) as [f' ->]. destruct f'; reflexivity. Qed.

  (* ... hence a reference behaves exactly as the body written inline *)
  Corollary body_ref_inline : forall comps r rs b,
    NoDup (r :: rs) -> links comps r rs (Some (BBody b)) ->
    resolve_body comps (Some (BRef r)) = resolve_body comps (Some (BBody b)).
  Proof. intros. erewrite body_ref_chain by eassumption. reflexivity. Qed.

  (* T body_ref_missing: a chain that ends in a name without component is the error value, naming the last reference *)
  Theorem body_ref_missing : forall comps r rs,
    NoDup (r :: rs) -> links comps r rs None -> resolve_body comps (Some (BRef r)) = BRMissing (last (r :: rs) r).
  Proof.
    intros comps r rs Hnd Hl. destruct (chain_run comps r rs _ Hnd Hl) as [f' ->].
    assert (Hrev : exists tl, rev (r :: rs) = last (r :: rs) r :: tl).
    { destruct (@exists_last _ (r :: rs)) as (l' & a & E); [discriminate|].
      rewrite E. rewrite last_last. rewrite rev_app_distr. cbn [rev app]. eauto. }
    destruct Hrev as [tl ->]. destruct f'; reflexivity.
  Qed.

  (* T body_ref_cycle: a chain that comes back to one of its own references is the error value *)
  Theorem body_ref_cycle : forall comps r rs r',
    NoDup (r :: rs) -> In r' (r :: rs) -> links comps r rs (Some (BRef r')) ->
    resolve_body comps (Some (BRef r)) = BRCircular r'.
  Proof.
    intros comps r rs r' Hnd Hin Hl. destruct (chain_run comps r rs _ Hnd Hl) as [f' ->].
    assert (Hm : mem_str r' (rev (r :: rs)) = true) by (apply mem_str_In; now apply in_rev in Hin).
    destruct f'; cbn [body_loop]; now rewrite Hm.
  Qed.

  (* T body_ref_total: the result is a body, "no body", or one of the two error values - nothing else *)
  Theorem body_ref_total : forall comps start,
    match resolve_body comps start with BRFuel => False | _ => True end.
  Proof. intros comps start. pose proof (body_ref_terminates comps start). destruct (resolve_body comps start); auto. Qed.

  (* T body_ref_local_lookup: for the well-formed local form the component looked up is the one the reference names *)
  Theorem body_ref_local_lookup : forall r, g_body_ref_local r = true ->
    r = body_ref_prefix ++ get_reference_simple_name r.
  Proof.
    intros r H. unfold g_body_ref_local in H. apply andb_true_iff in H as [Hp Hs]. apply negb_true_iff in Hs.
    assert (E : r = body_ref_prefix ++ skipn (length body_ref_prefix) r).
    { clear Hs. revert r Hp. generalize body_ref_prefix as p. induction p as [|c p IH]; intros r Hp; [reflexivity|].
      destruct r as [|x r]; [discriminate|]. cbn [is_prefix] in Hp. apply andb_true_iff in Hp as [Hc Hp].
      apply N.eqb_eq in Hc. subst x. cbn [length skipn app]. f_equal. now apply IH. }
    set (n := skipn (length body_ref_prefix) r) in *.
    assert (Ha : get_reference_simple_name r = n).
    { rewrite E. unfold get_reference_simple_name.
      assert (Hp' : body_ref_prefix = removelast body_ref_prefix ++ [47]) by reflexivity.
      rewrite Hp', <- app_assoc. cbn [app]. now apply after_last_app. }
    rewrite Ha. exact E.
  Qed.
End Body.

(* R body_ref_prefix_ignored: only the last segment is used, so a remote-looking / wrong-section reference whose last
   segment names a local request body resolves silently *)
Definition w_remote_body_ref : str := [104;116;116;112;58;47;47;101;118;105;108;47;120;35;47;66].   (* http://evil/x#/B *)
Definition w_schema_body_ref : str := [35;47;99;111;109;112;111;110;101;110;116;115;47;115;99;104;101;109;97;115;47;66]. (* #/components/schemas/B *)
Theorem body_ref_prefix_ignored_refuted :
  exists (comps : list (str * body_entry N)) r1 r2 b,
    parse_reference_path r1 = PRRemote /\ g_body_ref_local r1 = false /\ resolve_body comps (Some (BRef r1)) = BROk b /\
    g_body_ref_local r2 = false /\ resolve_body comps (Some (BRef r2)) = BROk b.
Proof.
  exists [([66], BBody 7)], w_remote_body_ref, w_schema_body_ref, 7.
  vm_compute. repeat split; reflexivity.
Qed.

Example body_guard_satisfiable :
  g_body_ref_local (body_ref_prefix ++ [66]) = true /\
  resolve_body [([66], BRef (body_ref_prefix ++ [67])); ([67], BBody 9)] (Some (BRef (body_ref_prefix ++ [66]))) = BROk 9.
Proof. vm_compute. split; reflexivity. Qed.

(* ================================================================== (c) parameters *)
Lemma assocN_map_self (g : N -> pval) f l : memN f l = true -> assocN f (map (fun x => (x, g x)) l) = Some (g f).
Proof.
  induction l as [|x l IH]; [discriminate|]. unfold memN. cbn [existsb map assocN].
  destruct (N.eqb_spec f x) as [->|Hne]; [reflexivity|]. cbn [orb]. exact IH.
Qed.

(* T copy_reads: the copy registered for references agrees with the component on every copied field *)
Theorem copy_reads : forall p f, memN f gen_param_copied = true -> pget (copy_param p) f = pget p f.
Proof. intros p f H. unfold pget at 1, copy_param. now rewrite assocN_map_self. Qed.

Lemma copy_view p :
  p_schema (copy_param p) = p_schema p /\ p_name (copy_param p) = p_name p /\
  p_loc (copy_param p) = p_loc p /\ p_required (copy_param p) = p_required p.
Proof.
  destruct gen_params_facts as (_ & _ & _ & _ & Hs). unfold subsetN, model_reads in Hs.
  cbn [forallb] in Hs. repeat (apply andb_true_iff in Hs as [? Hs]).
  unfold p_schema, p_name, p_loc, p_required. now rewrite !copy_reads.
Qed.

Lemma tbl_add_assoc k v t k' :
  assoc k' (tbl_add k v t) = match assoc k' t with Some x => Some x | None => if str_eqb k' k then Some v else None end.
Proof.
  unfold tbl_add. destruct (assoc k t) eqn:E.
  - destruct (assoc k' t) eqn:E'; [reflexivity|]. destruct (str_eqb k' k) eqn:Ek; [|reflexivity].
    apply str_eqb_eq in Ek. subst. congruence.
  - cbn [assoc]. destruct (str_eqb k' k) eqn:Ek.
    + apply str_eqb_eq in Ek. subst. now rewrite E.
    + destruct (assoc k' t); reflexivity.
Qed.

Lemma build_loop_table comps : forall t re pe frag,
  assoc frag (fst (build_parameters_loop comps t re pe)) =
  match assoc frag t with Some x => Some x | None => option_map copy_param (raw_lookup comps frag) end.
Proof.
  induction comps as [|[name d] rest IH]; intros t re pe frag; cbn [build_parameters_loop raw_lookup].
  - cbn [fst]. destruct (assoc frag t); reflexivity.
  - destruct d as [r|p].
    + apply IH.
    + destruct (ref_path_of_name name) as [rp| | |]; try apply IH.
      cbn [parameter_from_data]. destruct (pget p gf_param_schema) eqn:Es; try apply IH;
      rewrite IH, tbl_add_assoc; destruct (assoc frag t); try reflexivity;
      destruct (str_eqb frag rp); reflexivity.
Qed.

(* T table_is_copy: what a reference path finds in the table is the field-by-field copy of the component it denotes *)
Theorem table_is_copy : forall comps frag,
  assoc frag (fst (build_parameters comps)) = option_map copy_param (raw_lookup comps frag).
Proof. intros. unfold build_parameters. now rewrite build_loop_table. Qed.

Section AddThm.
  Variables St P : Type.
  Variable build : St -> str -> bool -> N -> option (P * St).
  Variable validate : P -> loc -> bool.
  Variable finish : eparams P -> eparams P + perr.
  Variable middle : St -> option St.

  Lemma add_loop_copy t p rest uniq e st :
    add_loop St P build validate t (PIParam (copy_param p) :: rest) uniq e st =
    add_loop St P build validate t (PIParam p :: rest) uniq e st.
  Proof.
    destruct (copy_view p) as (H1 & H2 & H3 & H4).
    cbn [add_loop parameter_from_reference]. now rewrite H1, H2, H3, H4.
  Qed.

  (* T param_ref_inline: for ALL component tables and ALL parameter lists in which any subset of the items is given by
     reference, processing the list equals processing the list with every reference replaced by the component as written:
     same (name, location, required, schema) sequence, same error, same resulting state *)
  Theorem param_ref_inline : forall comps its its',
    inline_items comps its = Some its' ->
    forall uniq e st,
    add_loop St P build validate (fst (build_parameters comps)) its uniq e st =
    add_loop St P build validate (fst (build_parameters comps)) its' uniq e st.
  Proof.
    intros comps. set (t := fst (build_parameters comps)).
    induction its as [|it rest IH]; intros its' Hi uniq e st.
    - injection Hi as <-. reflexivity.
    - cbn [inline_items] in Hi.
      destruct (inline_item comps it) as [a|] eqn:Ea; [|discriminate].
      destruct (inline_items comps rest) as [b|] eqn:Eb; [|discriminate]. injection Hi as <-.
      specialize (IH b eq_refl).
      (* the head item *)
      assert (Hhead : forall rest0, add_loop St P build validate t (it :: rest0) uniq e st = add_loop St P build validate t (a :: rest0) uniq e st).
      { intro rest0. destruct it as [r|p]; cbn [inline_item] in Ea.
        - destruct (parse_reference_path r) as [frag| | |] eqn:Ep; try discriminate.
          destruct (raw_lookup comps frag) as [p|] eqn:Er; [|discriminate]. injection Ea as <-.
          rewrite <- add_loop_copy.
          cbn [add_loop parameter_from_reference]. rewrite Ep. unfold t. rewrite table_is_copy, Er. reflexivity.
        - injection Ea as <-. reflexivity. }
      rewrite Hhead.
      (* the tail: same continuation on both sides *)
      cbn [add_loop]. destruct (parameter_from_reference t a) as [p|err]; [|reflexivity].
      destruct (p_schema p) as [sch|]; [|apply IH].
      destruct (key_in (p_name p) (p_loc p) uniq); [reflexivity|].
      destruct (present P (p_name p) (p_loc p) e); [apply IH|].
      destruct (build st (p_name p) (p_required p) sch) as [[prop st']|]; [|reflexivity].
      destruct (validate prop (p_loc p)); [apply IH | reflexivity].
  Qed.

  Corollary add_parameters_ref_inline : forall comps its its' e st,
    inline_items comps its = Some its' ->
    add_parameters St P build validate finish (fst (build_parameters comps)) (Some its) e st =
    add_parameters St P build validate finish (fst (build_parameters comps)) (Some its') e st.
  Proof. intros. unfold add_parameters. now rewrite (param_ref_inline comps its its'). Qed.

  (* T param_ref_inline_endpoint: operation-level list first, then the path-item list, references resolved before the
     (name, location) de-duplication in both: the whole endpoint sees references and inline copies alike *)
  Theorem param_ref_inline_endpoint : forall comps ops ops' pis pis' st,
    inline_items comps ops = Some ops' -> inline_items comps pis = Some pis' ->
    endpoint_parameters St P build validate finish middle (fst (build_parameters comps)) (Some ops) (Some pis) st =
    endpoint_parameters St P build validate finish middle (fst (build_parameters comps)) (Some ops') (Some pis') st.
  Proof.
    intros comps ops ops' pis pis' st H1 H2. unfold endpoint_parameters.
    rewrite (add_parameters_ref_inline comps ops ops' [] st H1).
    destruct (add_parameters St P build validate finish (fst (build_parameters comps)) (Some ops') [] st) as [[e|err] st1]; [|reflexivity].
    destruct (middle st1) as [st2|]; [|reflexivity].
    now apply add_parameters_ref_inline.
  Qed.

  (* T path_item_never_overrides: a path-item parameter whose (name, location) the operation already declared is ignored,
     by reference or inline alike (the `present` test runs on the resolved parameter) *)
  Theorem path_item_never_overrides : forall t it p sch rest uniq e st,
    parameter_from_reference t it = inl p -> p_schema p = Some sch ->
    key_in (p_name p) (p_loc p) uniq = false -> present P (p_name p) (p_loc p) e = true ->
    add_loop St P build validate t (it :: rest) uniq e st =
    add_loop St P build validate t rest ((p_name p, p_loc p) :: uniq) e st.
  Proof. intros t it p sch rest uniq e st H1 H2 H3 H4. cbn [add_loop]. now rewrite H1, H2, H3, H4. Qed.

  (* T bad_param_ref_contained: a reference that does not resolve is an error for this endpoint; the state handed on
     (Schemas) is the one reached before the item - nothing else is affected *)
  Theorem bad_param_ref_contained : forall t r rest uniq e st,
    (forall frag, parse_reference_path r = PROk frag -> assoc frag t = None) ->
    exists err, add_loop St P build validate t (PIRef r :: rest) uniq e st = (inr err, st).
  Proof.
    intros t r rest uniq e st H. cbn [add_loop parameter_from_reference].
    destruct (parse_reference_path r) as [frag| | |]; [rewrite (H frag eq_refl)| | |]; eauto.
  Qed.
End AddThm.

(* canonical references: '#/components/parameters/' + the component's own key *)
Lemma ref_path_of_plain name : name_plain name = true ->
  exists q, gen_param_ref_prefix = 35 :: q /\ ref_path_of_name name = PROk (q ++ name).
Proof.
  intro Hn. destruct gen_prefix_facts as ((q & Eq & Hq) & _). exists q. split; [exact Eq|].
  unfold ref_path_of_name. rewrite Eq. cbn [app]. apply parse_ref_local_plain.
  rewrite forallb_app, Hq. cbn [andb]. unfold name_plain in Hn. apply negb_true_iff in Hn.
  apply forallb_forall. intros c Hc. unfold plain_char. apply negb_true_iff.
  destruct (memN c gen_url_remove) eqn:E; [|reflexivity].
  exfalso. assert (existsb (fun c => memN c gen_url_remove) name = true) by (apply existsb_exists; eauto). congruence.
Qed.

Lemma str_eqb_app_l q a b : str_eqb (q ++ a) (q ++ b) = str_eqb a b.
Proof. induction q as [|c q IH]; [reflexivity|]. cbn [app str_eqb]. now rewrite N.eqb_refl. Qed.

(* T param_ref_canonical: under g_param_keys_plain the canonical reference to a component with a schema denotes exactly
   that component, so param_ref_inline applies to it *)
Theorem param_ref_canonical : forall comps n p,
  forallb name_plain (map fst comps) = true -> name_plain n = true ->
  assoc n comps = Some (CParam p) -> pget p gf_param_schema <> PVnone ->
  inline_item comps (PIRef (gen_param_ref_prefix ++ n)) = Some (PIParam p).
Proof.
  intros comps n p Hk Hn Ha Hs.
  destruct (ref_path_of_plain n Hn) as (q & Eq & Hq). unfold ref_path_of_name in Hq.
  cbn [inline_item]. rewrite Hq.
  assert (Hr : raw_lookup comps (q ++ n) = Some p).
  { clear Hq. induction comps as [|[k d] rest IH]; [discriminate|].
    cbn [map fst forallb] in Hk. apply andb_true_iff in Hk as [Hk1 Hk2].
    cbn [assoc] in Ha. cbn [raw_lookup].
    destruct (ref_path_of_plain k Hk1) as (q' & Eq' & Hq'). rewrite Eq in Eq'. injection Eq' as <-.
    destruct (str_eqb n k) eqn:Enk.
    - injection Ha as ->. apply str_eqb_eq in Enk. subst k. rewrite Hq'.
      destruct (pget p gf_param_schema) eqn:Es; try congruence; now rewrite str_eqb_refl.
    - destruct d as [r|p']; [now apply IH|]. rewrite Hq'. rewrite str_eqb_app_l, Enk.
      destruct (pget p' gf_param_schema); now apply IH. }
  now rewrite Hr.
Qed.

(* R param_ref_no_schema: a component parameter described by `content` (no schema) is skipped silently when written inline
   but makes the referencing endpoint fail ("Reference not found") *)
Definition w_noschema : param := [(gf_name, PVstr [113]); (gf_param_in, PVloc LQuery)].
Definition w_ref_Q : str := gen_param_ref_prefix ++ [81].
Definition u_build (st : unit) (n : str) (r : bool) (s : N) : option (N * unit) := Some (s, tt).
Theorem param_ref_no_schema_refuted :
  exists comps r p, assoc [81] comps = Some (CParam p) /\ r = gen_param_ref_prefix ++ [81] /\
    add_loop unit N u_build (fun _ _ => true) (fst (build_parameters comps)) [PIParam p] [] [] tt = (inl [], tt) /\
    add_loop unit N u_build (fun _ _ => true) (fst (build_parameters comps)) [PIRef r] [] [] tt = (inr ENotFound, tt).
Proof. exists [([81], CParam w_noschema)], w_ref_Q, w_noschema. vm_compute. repeat split; reflexivity. Qed.

(* R param_key_ctrl_collision: component keys that differ only by tab / CR / LF map to one reference path; the first wins *)
Theorem param_key_collision_refuted :
  exists comps p1 p2, assoc [97;98] comps = Some (CParam p2) /\ p1 <> p2 /\
    g_param_keys_plain comps = false /\
    inline_item comps (PIRef (gen_param_ref_prefix ++ [97;98])) = Some (PIParam p1).
Proof.
  exists [([97;9;98], CParam [(gf_name, PVstr [120]); (gf_param_schema, PVschema 1)]);
          ([97;98], CParam [(gf_name, PVstr [121]); (gf_param_schema, PVschema 1)])].
  eexists. eexists. split; [vm_compute; reflexivity|]. split; [|split; vm_compute; reflexivity]. discriminate.
Qed.

Example param_guard_satisfiable :
  let comps := [([81], CParam [(gf_name, PVstr [113]); (gf_param_in, PVloc LQuery); (gf_param_schema, PVschema 1); (6, PVother 5)]);
                ([82], CRef [35])] in
  g_param_keys_plain comps = true /\
  inline_items comps [PIRef (gen_param_ref_prefix ++ [81]); PIParam [(gf_name, PVstr [120]); (gf_param_in, PVloc LPath); (gf_required, PVbool true); (gf_param_schema, PVschema 2)]] <> None /\
  fst (add_loop unit N u_build (fun _ _ => true) (fst (build_parameters comps)) [PIRef (gen_param_ref_prefix ++ [81])] [] [] tt)
    = inl [{| pp_name := [113]; pp_loc := LQuery; pp_required := false; pp_schema := 1; pp_prop := 1 |}].
Proof. vm_compute. repeat split; try reflexivity. discriminate. Qed.

(* ================================================================== (d) responses *)
Section Resp.
  Context {R : Type}.
  Implicit Types comps : list (str * resp_entry R).

  (* T response_ref: '#/components/responses/' + name behaves as the response written inline *)
  Theorem response_ref : forall comps n x,
    name_plain n = true -> memN 47 n = false -> assoc n comps = Some (RResp x) ->
    resolve_response comps (RRefE (35 :: gen_response_prefix ++ n)) = resolve_response comps (RResp x).
  Proof.
    intros comps n x Hn Hs Ha.
    destruct gen_prefix_facts as (_ & (q & Eq) & Hp & _).
    cbn [resolve_response]. rewrite parse_ref_local_plain.
    - rewrite is_prefix_app. rewrite Eq, <- app_assoc. cbn [app].
      unfold get_reference_simple_name. rewrite after_last_app by exact Hs. now rewrite Ha.
    - rewrite forallb_app, Hp. cbn [andb]. unfold name_plain in Hn. apply negb_true_iff in Hn.
      apply forallb_forall. intros c Hc. unfold plain_char. apply negb_true_iff.
      destruct (memN c gen_url_remove) eqn:E; [|reflexivity].
      exfalso. assert (existsb (fun c => memN c gen_url_remove) n = true) by (apply existsb_exists; eauto). congruence.
  Qed.

  Lemma is_prefix_split p : forall s, is_prefix p s = true -> s = p ++ skipn (length p) s.
  Proof.
    induction p as [|c p IH]; intros s H; [reflexivity|]. destruct s as [|x s]; [discriminate|].
    cbn [is_prefix] in H. apply andb_true_iff in H as [Hc H]. apply N.eqb_eq in Hc. subst x.
    cbn [length skipn app]. f_equal. now apply IH.
  Qed.

  (* T response_other_error: under g_no_authority and g_single_segment, a reference that resolves IS of the canonical form
     and names an inline response component; every other reference form is an error value *)
  Theorem response_other_error : forall comps r x,
    g_no_authority r = true -> g_single_segment r = true ->
    resolve_response comps (RRefE r) = RROk x ->
    exists n, url_clean r = 35 :: gen_response_prefix ++ n /\ memN 47 n = false /\ assoc n comps = Some (RResp x).
  Proof.
    intros comps r x Hg Hs Hr. cbn [resolve_response] in Hr. unfold g_single_segment in Hs.
    destruct (parse_reference_path r) as [frag| | |] eqn:Ep; try discriminate.
    destruct (is_prefix gen_response_prefix frag) eqn:Epre; [|discriminate].
    cbn [implb] in Hs. apply negb_true_iff in Hs.
    pose proof (is_prefix_split _ _ Epre) as Efrag.
    set (n := skipn (length gen_response_prefix) frag) in *.
    exists n. split; [|split; [exact Hs|]].
    - destruct (parse_ok_shape r frag Hg Ep) as [H | [_ H]].
      + now rewrite H, Efrag at 1.
      + exfalso. rewrite H in Epre. destruct gen_prefix_facts as (_ & (q & Eq) & _). rewrite Eq in Epre. destruct q; discriminate.
    - destruct gen_prefix_facts as (_ & (q & Eq) & _).
      assert (En : get_reference_simple_name frag = n).
      { rewrite Efrag, Eq, <- app_assoc. cbn [app]. unfold get_reference_simple_name. now apply after_last_app. }
      rewrite En in Hr. destruct (assoc n comps) as [[r'|x']|]; try discriminate. now injection Hr as ->.
  Qed.

  (* every non-resolving outcome is an error value, never a response: stated as the classification of results *)
  Theorem response_ref_remote_error : forall comps r, parse_reference_path r = PRRemote -> resolve_response comps (RRefE r) = RRRemote.
  Proof. intros comps r H. cbn [resolve_response]. now rewrite H. Qed.
End Resp.

(* R response_ref_segments_ignored: extra segments between the prefix and the last segment are ignored *)
Definition w_resp_ref : str := [35] ++ gen_response_prefix ++ [120;47;82].     (* #/components/responses/x/R *)
Theorem response_ref_segments_refuted :
  exists (comps : list (str * resp_entry N)) r x, g_no_authority r = true /\ g_single_segment r = false /\ resolve_response comps (RRefE r) = RROk x.
Proof. exists [([82], RResp 5)], w_resp_ref, 5. vm_compute. repeat split; reflexivity. Qed.

(* the same authority defect seen from responses *)
Theorem response_ref_netloc_refuted :
  exists (comps : list (str * resp_entry N)) r x, g_no_authority r = false /\ resolve_response comps (RRefE r) = RROk x.
Proof. exists [([82], RResp 5)], ([47;47;104] ++ [35] ++ gen_response_prefix ++ [82]), 5. vm_compute. split; reflexivity. Qed.

Example response_guard_satisfiable :
  g_no_authority ([35] ++ gen_response_prefix ++ [82]) = true /\ g_single_segment ([35] ++ gen_response_prefix ++ [82]) = true /\
  resolve_response [([82], RResp 5)] (RRefE ([35] ++ gen_response_prefix ++ [82])) = RROk 5 /\
  resolve_response [([82], RResp 5)] (RRefE ([35;47;99;47;82] : str)) = RRNotAllowed /\
  resolve_response [([82], RRefE [35])] (RRefE ([35] ++ gen_response_prefix ++ [82])) = (RRTopRef : resp_result N).
Proof. vm_compute. repeat split; reflexivity. Qed.

(* ================================================================== (e) schema references *)
(* T ref_same_wire: a property reached through a reference differs from the referenced one at most in
   name / python_name / required / default; every other attribute (hence the codec, C02) is the referenced one's *)
Theorem ref_same_wire : forall (V : Type) (existing : prop_attrs V) upd k,
  mem_str k ref_may_change = false -> assoc k (evolve_ref existing upd) = assoc k existing.
Proof.
  intros V existing upd k Hk. unfold evolve_ref.
  induction existing as [|[k' v] rest IH]; [reflexivity|]. cbn [map fst assoc].
  destruct (mem_str k' gen_ref_evolved) eqn:Em; cbn [assoc fst].
  - destruct (str_eqb k k') eqn:Ek; [|exact IH].
    exfalso. apply str_eqb_eq in Ek. subst k'.
    pose proof gen_ref_evolved_ok as H. rewrite forallb_forall in H.
    apply mem_str_In in Em. apply H in Em. congruence.
  - destruct (str_eqb k k'); [reflexivity | exact IH].
Qed.

Theorem ref_shares_class : forall (V : Type) (existing : prop_attrs V) upd1 upd2 k,
  mem_str k ref_may_change = false -> assoc k (evolve_ref existing upd1) = assoc k (evolve_ref existing upd2).
Proof. intros. now rewrite !ref_same_wire. Qed.
