(* TypesThm.v — proofs about Types.v (C10, C11, C01). *)
From Coq Require Import NArith ZArith List Bool Lia Permutation.
Import ListNotations.
Require Import OPC.gen.GenKinds OPC.Uni OPC.Names OPC.NamesThm OPC.Codec OPC.MapsThm OPC.CodecThm OPC.Types.
Open Scope N_scope.

(* ================================================================== induction on kinds through the member list of a union *)
Lemma pk_ind' (P : pk -> Prop) :
  (forall k, match k with KList _ | KUnion _ => True | _ => P k end) ->
  (forall i, P i -> P (KList i)) ->
  (forall ms, Forall P ms -> P (KUnion ms)) ->
  forall k, P k.
Proof.
  intros Hb Hl Hu. fix IH 1. intro k. destruct k.
  1-13: match goal with |- _ ?x => exact (Hb x) end.
  - apply Hl, IH.
  - apply Hu. induction ms as [|m ms IHms]; constructor; [apply IH | exact IHms].
  - exact (Hb (KModel cls)).
Qed.

Lemma existsb_flat_map' {A B} (p : B -> bool) (g : A -> list B) l :
  existsb p (flat_map g l) = existsb (fun x => existsb p (g x)) l.
Proof. induction l as [|x l IHl]; simpl; [reflexivity|]. now rewrite existsb_app, IHl. Qed.

(* ================================================================== alternatives *)
Definition no_union (t : ty) : bool := match t with TyUnion _ => false | _ => true end.

Lemma alts_no_union k : forallb no_union (alts k) = true.
Proof.
  revert k. apply pk_ind'; [intro k|intros i IHi|intros ms IHms].
  - destruct k; try exact I; reflexivity.
  - reflexivity.
  - simpl. induction IHms as [|m ms Hm _ IHl]; simpl; [reflexivity|]. now rewrite forallb_app, Hm, IHl.
Qed.

Lemma alts_none k : existsb is_none_ty (alts k) = nullable k.
Proof.
  revert k. apply pk_ind'; [intro k|intros i IHi|intros ms IHms].
  - destruct k; try exact I; try reflexivity; cbn [alts existsb is_none_ty nullable]; now rewrite !orb_false_r.
  - reflexivity.
  - cbn [alts nullable]. rewrite existsb_flat_map'.
    induction IHms as [|m ms Hm _ IHl]; simpl; [reflexivity|]. now rewrite Hm, IHl.
Qed.

Lemma top_alts_collapse L : forallb no_union L = true -> top_alts (match L with [] => TyUnion [] | [t] => t | t :: t0 :: l0 => TyUnion (t :: t0 :: l0) end) = L.
Proof.
  destruct L as [|t [|t' L]]; try reflexivity. cbn [forallb]. rewrite andb_true_r.
  destruct t; try reflexivity; discriminate.
Qed.

Lemma top_alts_type_of k req : top_alts (type_of k req) = if req then alts k else TyUnset :: alts k.
Proof.
  unfold type_of. apply top_alts_collapse. destruct req; cbn [forallb no_union andb]; apply alts_no_union.
Qed.

(* C10: the declared type admits None exactly when the schema is nullable, for required and optional declarations alike *)
Theorem type_admits_none_iff_nullable : forall k req, admits_none (type_of k req) = nullable k.
Proof.
  intros k req. unfold admits_none. rewrite top_alts_type_of.
  destruct req; cbn [existsb is_none_ty orb]; apply alts_none.
Qed.

(* C10: an optional declaration always admits the UNSET sentinel *)
Theorem optional_admits_unset : forall k, admits_unset (type_of k false) = true.
Proof. intro k. unfold admits_unset. rewrite top_alts_type_of. reflexivity. Qed.

(* C10: a declaration has no default (the argument is mandatory) exactly for required properties without a declared default *)
Theorem mandatory_iff_required_nodefault : forall req d, decl_has_default req d = false <-> (req = true /\ d = false).
Proof. intros [] []; cbv; split; try tauto; try discriminate; intros [? ?]; discriminate. Qed.

(* ================================================================== the two rendering loops *)
Lemma app_split_notin {A} (x : A) : forall (a b l1 r : list A), a ++ b = l1 ++ x :: r -> ~ In x a ->
  exists l1', b = l1' ++ x :: r.
Proof.
  induction a as [|a0 a IHa]; intros b l1 r H Hn.
  - exists l1. exact H.
  - destruct l1 as [|y l1]; simpl in H; injection H as H0 H.
    + exfalso. apply Hn. left. exact H0.
    + eapply IHa; eauto. intro Hin. apply Hn. now right.
Qed.

(* C01 / C10: the two rendering loops of the class body put every mandatory field before every defaulted one, and lose none *)
Theorem attrs_order_ok : forall (A : Type) (mand : A -> bool) (props l1 l2 l3 : list A) (x y : A),
  attrs_field_order mand props = l1 ++ x :: l2 ++ y :: l3 -> mand x = false -> mand y = false.
Proof.
  intros A mand props l1 l2 l3 x y H Hx. unfold attrs_field_order in H.
  apply app_split_notin in H as [l1' H].
  - assert (Hy: In y (filter (fun p => negb (mand p)) props)).
    { rewrite H. apply in_or_app. right. right. apply in_or_app. right. now left. }
    apply filter_In in Hy as [_ Hy]. now apply negb_true_iff in Hy.
  - intro Hin. apply filter_In in Hin as [_ Hin]. congruence.
Qed.

Theorem attrs_order_perm : forall (A : Type) (mand : A -> bool) (props : list A), Permutation (attrs_field_order mand props) props.
Proof.
  intros A mand props. unfold attrs_field_order. induction props as [|a l IHl]; simpl; [constructor|].
  destruct (mand a); simpl.
  - now constructor.
  - apply Permutation_sym, Permutation_cons_app, Permutation_sym, IHl.
Qed.

(* ================================================================== meaning of the collapsed union *)
Lemma inh_collapse v L : inhabits v (match L with [] => TyUnion [] | [t] => t | t :: t0 :: l0 => TyUnion (t :: t0 :: l0) end) = existsb (inhabits v) L.
Proof.
  destruct L as [|t [|t' L]]; try reflexivity. cbn [existsb]. now rewrite orb_false_r.
Qed.

Lemma inh_type_of v k req : inhabits v (type_of k req) = existsb (inhabits v) (if req then alts k else TyUnset :: alts k).
Proof. unfold type_of. apply inh_collapse. Qed.

Lemma inh_req_mono v k req : inhabits v (type_of k true) = true -> inhabits v (type_of k req) = true.
Proof.
  rewrite !inh_type_of. destruct req; auto. cbn [existsb]. intros ->. apply orb_true_r.
Qed.

Lemma type_of_list inner : type_of (KList inner) true = TyList (type_of inner true).
Proof. reflexivity. Qed.

(* ================================================================== one level of the induction on fuel *)
Section LevelI.
  Variables (orc : oracles) (T : ctable) (f : nat).
  Hypothesis HT : table_ok T = true.
  Hypothesis IH : forall k j v, k_ok k = true -> wf_json j = true -> valid orc T f k j = true ->
    dec orc T f k j = Some v -> inhabits v (type_of k true) = true.

  Lemma list_inh inner : k_ok inner = true -> forall l vs, forallb wf_json l = true -> forallb (valid orc T f inner) l = true ->
    map_opt (dec orc T f inner) l = Some vs -> forallb (fun x => inhabits x (type_of inner true)) vs = true.
  Proof.
    intro Hk. induction l as [|x l IHl]; intros vs Hw Hv Hd; simpl in Hd.
    - injection Hd as <-. reflexivity.
    - cbn [forallb] in Hw, Hv. apply andb_true_iff in Hw as [Hw1 Hw2]. apply andb_true_iff in Hv as [Hv1 Hv2].
      destruct (dec orc T f inner x) as [y|] eqn:Ey; [|discriminate Hd].
      destruct (map_opt (dec orc T f inner) l) as [r|] eqn:Er; [|discriminate Hd]. injection Hd as <-.
      cbn [forallb]. rewrite (IH inner x y Hk Hw1 Hv1 Ey), (IHl r Hw2 Hv2 eq_refl). reflexivity.
  Qed.

  Lemma list_pj_inh inner : has_construct inner = false -> k_ok inner = true -> forall l, forallb wf_json l = true ->
    forallb (valid orc T f inner) l = true -> forallb (fun x => inhabits (PJ x) (type_of inner true)) l = true.
  Proof.
    intros Hc Hk. induction l as [|x l IHl]; intros Hw Hv; [reflexivity|].
    cbn [forallb] in Hw, Hv |- *. apply andb_true_iff in Hw as [Hw1 Hw2]. apply andb_true_iff in Hv as [Hv1 Hv2].
    rewrite (IHl Hw2 Hv2), andb_true_r. apply (IH inner x (PJ x) Hk Hw1 Hv1).
    destruct f as [|f']; [discriminate Hv1|]. cbn [dec]. now apply dec_step_pass.
  Qed.

  Lemma union_inh ms j v : k_ok (KUnion ms) = true -> wf_json j = true ->
    existsb (fun m => valid orc T f m j) ms = true -> dec_union (dec orc T f) ms j = Some v ->
    existsb (fun m => existsb (inhabits v) (alts m)) ms = true.
  Proof.
    intros Hk Hw Hv Hd. unfold dec_union in Hd.
    destruct (existsb is_knone ms && json_eqb j JNull) eqn:Esc.
    - injection Hd as <-. apply andb_true_iff in Esc as [Hn _].
      apply existsb_exists in Hn as (m & Hin & Hm). apply existsb_exists. exists m. split; auto.
      destruct m; try discriminate Hm. reflexivity.
    - clear Esc. apply existsb_exists in Hv as (mi & Hin & Hv).
      assert (Hin0 := Hin).
      destruct (k_ok_union ms Hk) as (_ & Hpd & Hmem).
      destruct (Hmem mi Hin) as [Hnu Hkmi].
      assert (Hgoal: inhabits v (type_of mi true) = true -> existsb (fun m => existsb (inhabits v) (alts m)) ms = true).
      { intro Hi. apply existsb_exists. exists mi. split; auto. now rewrite inh_type_of in Hi. }
      apply in_split in Hin as (pre & post & ->).
      rewrite map_app in Hpd. cbn [map] in Hpd. apply pd_split in Hpd as [Hpre Hpost].
      destruct f as [|f'] eqn:Ef; [discriminate Hv|].
      pose proof (valid_tag orc T f' mi j Hkmi Hv) as Htag.
      assert (Hoffpre: forall m, In m pre -> off j m).
      { intros m Hm. unfold off. eapply tags_disjoint_r; [apply Hpre, in_map, Hm | exact Htag]. }
      assert (Hoffpost: forall m, In m post -> off j m).
      { intros m Hm. unfold off. eapply tags_disjoint_l; [apply Hpost, in_map, Hm | exact Htag]. }
      rewrite dec_skip in Hd by (try discriminate; auto).
      apply Hgoal. apply (IH mi j v Hkmi Hw Hv).
      destruct (has_construct mi) eqn:Ecm.
      + destruct (rt_strong orc T HT (S f') (S f') mi j (le_n _) Hkmi Hw Hv) as (v' & Hd' & _).
        rewrite (dec_hit (dec orc T (S f')) mi post _ j v' Ecm) in Hd; auto.
        * now injection Hd as <-.
        * intro Hc. eapply valid_check; eauto.
      + rewrite dec_union_loop_cons, Ecm in Hd. cbn [negb] in Hd. rewrite dec_skip_end in Hd by exact Hoffpost.
        injection Hd as <-. cbn [dec]. now apply dec_step_pass.
  Qed.
End LevelI.

(* C11: every value produced by decoding schema-valid data is an instance of the annotated type *)
Theorem decode_inhabits_annotation : forall orc T f k j v,
  table_ok T = true -> k_ok k = true -> wf_json j = true ->
  valid orc T f k j = true -> dec orc T f k j = Some v -> inhabits v (type_of k true) = true.
Proof.
  intros orc T f k j v HT. revert k j v. induction f as [|f IHf]; intros k j v Hk Hw Hv Hd; [discriminate Hv|].
  cbn [dec] in Hd. destruct k; cbn [valid valid_step] in Hv.
  - reflexivity.
  - rewrite dec_step_pass in Hd by reflexivity. injection Hd as <-. destruct j; try discriminate Hv. reflexivity.
  - rewrite dec_step_pass in Hd by reflexivity. injection Hd as <-. destruct j; try discriminate Hv. reflexivity.
  - rewrite dec_step_pass in Hd by reflexivity. injection Hd as <-. destruct j; try discriminate Hv. reflexivity.
  - rewrite dec_step_pass in Hd by reflexivity. injection Hd as <-. destruct j; try discriminate Hv; reflexivity.
  - rewrite dec_step_pass in Hd by reflexivity. injection Hd as <-. destruct j; try discriminate Hv. reflexivity.
  - rewrite dec_step_date in Hd. destruct j; try discriminate Hd. destruct (parse_date orc s); [|discriminate Hd].
    injection Hd as <-. reflexivity.
  - rewrite dec_step_datetime in Hd. destruct j; try discriminate Hd. destruct (parse_datetime orc s); [|discriminate Hd].
    injection Hd as <-. reflexivity.
  - rewrite dec_step_uuid in Hd. destruct j; try discriminate Hd. destruct (parse_uuid orc s); [|discriminate Hd].
    injection Hd as <-. reflexivity.
  - discriminate Hk.
  - rewrite dec_step_const in Hd. destruct (py_scalar_eqb j c) eqn:E; [|discriminate Hd]. injection Hd as <-.
    change (existsb (py_scalar_eqb j) [c] = true). cbn [existsb]. now rewrite E.
  - rewrite dec_step_enum in Hd. destruct (find (py_scalar_eqb j) vals); [|discriminate Hd]. injection Hd as <-.
    change (cls =? cls = true). apply N.eqb_refl.
  - rewrite dec_step_litenum in Hd. destruct (existsb (py_scalar_eqb j) vals) eqn:E; [|discriminate Hd]. injection Hd as <-.
    exact E.
  - rewrite dec_step_list in Hd. rewrite type_of_list. destruct j; try discriminate Hv. rewrite wf_arr in Hw.
    cbn [k_ok] in Hk. destruct (has_construct k) eqn:Ec.
    + destruct (map_opt (dec orc T f k) l) as [vs|] eqn:Em; [|discriminate Hd]. injection Hd as <-.
      change (forallb (fun x => inhabits x (type_of k true)) vs = true).
      eapply (list_inh orc T f IHf); eauto.
    + injection Hd as <-. change (forallb (fun x => inhabits (PJ x) (type_of k true)) l = true).
      apply (list_pj_inh orc T f IHf); auto.
  - rewrite dec_step_union in Hd. rewrite inh_type_of. cbn [alts]. rewrite existsb_flat_map'.
    eapply (union_inh orc T f HT IHf); eauto.
  - rewrite dec_step_model in Hd. apply dec_model_shape in Hd as (fs & ad & ->).
    change (cls =? cls = true). apply N.eqb_refl.
Qed.

(* ================================================================== attributes of a decoded object *)
Lemma dec_props_names d ps : forall m fs rest, dec_props d ps m = Some (fs, rest) -> map fst fs = map fst ps.
Proof.
  induction ps as [|[n [req k]] ps IHps]; intros m fs rest H; cbn [dec_props] in H.
  - injection H as <- _. reflexivity.
  - destruct (dec_field d k req (m_get n m)); [|discriminate H].
    destruct (dec_props d ps (m_del n m)) as [[fs' rest']|] eqn:E; [|discriminate H].
    injection H as <- _. simpl. f_equal. eauto.
Qed.

Lemma field_inh orc T f k req s v : table_ok T = true -> k_ok k = true ->
  match s with Some j => wf_json j = true /\ valid orc T f k j = true | None => True end ->
  dec_field (dec orc T f) k req s = Some v -> inhabits v (type_of k req) = true.
Proof.
  intros HT Hk Hs Hd. destruct s as [j|].
  - destruct Hs as [Hw Hv].
    assert (Hgen: dec orc T f k j = Some v -> inhabits v (type_of k req) = true).
    { intro H. apply inh_req_mono. eapply decode_inhabits_annotation; eauto. }
    unfold dec_field in Hd. destruct k; auto.
    destruct (has_construct (KList k) && has_construct k && negb req && falsy j) eqn:Ec; auto.
    injection Hd as <-. apply andb_true_iff in Ec as [Ec _]. apply andb_true_iff in Ec as [_ Hreq].
    destruct req; [discriminate Hreq|]. reflexivity.
  - unfold dec_field in Hd. destruct req; [discriminate Hd|]. injection Hd as <-.
    rewrite inh_type_of. reflexivity.
Qed.

Lemma props_inh orc T f : table_ok T = true -> forall ps m rest fs rest',
  forallb (fun kv => wf_json (snd kv)) m = true ->
  forallb (fun p => k_ok (snd (snd p))) ps = true -> names_distinct ps = true ->
  valid_props (valid orc T f) ps m = Some rest -> dec_props (dec orc T f) ps m = Some (fs, rest') ->
  forall name req k v, In (name, (req, k)) ps -> In (name, v) fs -> inhabits v (type_of k req) = true.
Proof.
  intro HT. induction ps as [|[n [req0 k0]] ps IHps]; intros m rest fs rest' Hw Hk Hn Hv Hd name req k v Hp Hf; [destruct Hp|].
  rewrite names_distinct_cons in Hn. apply andb_true_iff in Hn as [Hn1 Hn2].
  apply negb_true_iff in Hn1. apply existsb_str_notIn in Hn1.
  cbn [forallb snd] in Hk. apply andb_true_iff in Hk as [Hk1 Hk2].
  cbn [valid_props] in Hv. cbn [dec_props] in Hd.
  destruct (dec_field (dec orc T f) k0 req0 (m_get n m)) as [v0|] eqn:Edf; [|discriminate Hd].
  destruct (dec_props (dec orc T f) ps (m_del n m)) as [[fs' r']|] eqn:Edp; [|discriminate Hd].
  injection Hd as <- <-.
  pose proof (dec_props_names _ _ _ _ _ Edp) as Hnames.
  destruct Hp as [Hp|Hp]; destruct Hf as [Hf|Hf].
  - injection Hp as -> -> ->. injection Hf as ->.
    apply (field_inh orc T f k req (m_get name m)); auto.
    destruct (m_get name m) as [j|] eqn:Eg; [|exact I].
    split.
    + rewrite forallb_forall in Hw. apply (Hw (name, j)). now apply m_get_In.
    + destruct (valid orc T f k j); [reflexivity|discriminate Hv].
  - exfalso. injection Hp as -> _ _. apply Hn1. rewrite <- Hnames. apply (in_map fst) in Hf. exact Hf.
  - exfalso. injection Hf as -> _. apply Hn1. apply (in_map fst) in Hp. exact Hp.
  - destruct (m_get n m) as [j|] eqn:Eg.
    + destruct (valid orc T f k0 j); [|discriminate Hv].
      eapply (IHps (m_del n m)); eauto.
      rewrite forallb_forall in Hw |- *. intros x Hx. apply Hw. eapply m_del_In; eauto.
    + destruct req0; [discriminate Hv|]. rewrite (m_del_absent n m Eg) in Edp. eapply (IHps m); eauto.
Qed.

(* C11: ... including every attribute of a decoded model object, against the attribute's own declaration *)
Theorem decoded_fields_inhabit : forall orc T f c cd j fs ad name req k v,
  table_ok T = true -> wf_json j = true -> get_class T c = Some cd -> valid orc T f (KModel c) j = true ->
  dec orc T f (KModel c) j = Some (PObj c fs ad) ->
  In (name, (req, k)) (c_props cd) -> In (name, v) fs -> inhabits v (type_of k req) = true.
Proof.
  intros orc T f c cd j fs ad name req k v HT Hw Hc Hv Hd Hp Hf.
  destruct f as [|f]; [discriminate Hv|]. cbn [valid valid_step] in Hv. cbn [dec] in Hd.
  rewrite dec_step_model, dec_model_eq in Hd. rewrite Hc in Hv, Hd.
  destruct (trivial_class cd).
  - injection Hd as <- _. destruct Hf.
  - destruct j; try discriminate Hv. unfold dec_model_gen in Hd.
    destruct (valid_props (valid orc T f) (c_props cd) m) as [rest|] eqn:Evp; [|discriminate Hv].
    destruct (dec_props (dec orc T f) (c_props cd) m) as [[fs0 rest0]|] eqn:Edp; [|discriminate Hd].
    assert (Hfs: fs0 = fs).
    { destruct (c_addl cd) as [ak|]; [destruct (has_construct ak); [destruct (map_opt_snd (dec orc T f ak) rest0); [|discriminate Hd]|]|];
        injection Hd as <- _; reflexivity. }
    subst fs0.
    pose proof (table_cdef T c cd HT Hc) as Hcd. unfold cdef_ok in Hcd.
    apply andb_true_iff in Hcd as [Hcd _]. apply andb_true_iff in Hcd as [Hkp Hnd].
    rewrite wf_obj in Hw. apply andb_true_iff in Hw as [_ Hwv].
    eapply (props_inh orc T f HT (c_props cd) m); eauto.
Qed.

(* non-vacuity *)
Example nullable_example : nullable (KUnion [KDate; KNone]) = true /\ nullable (KList KNone) = false /\
  admits_none (type_of (KUnion [KDate; KNone]) false) = true /\ admits_none (type_of KDate false) = false.
Proof. repeat split; vm_compute; reflexivity. Qed.

Print Assumptions type_admits_none_iff_nullable.
Print Assumptions optional_admits_unset.
Print Assumptions mandatory_iff_required_nodefault.
Print Assumptions attrs_order_ok.
Print Assumptions attrs_order_perm.
Print Assumptions decode_inhabits_annotation.
Print Assumptions decoded_fields_inhabit.
Print Assumptions nullable_example.
