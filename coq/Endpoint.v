(* Endpoint.v — model of the generated endpoint modules (templates/endpoint_module.py.jinja + endpoint_macros.py.jinja):
   _get_kwargs (method / url formatting / query, header, cookie wiring / body dispatch / Content-Type) and _parse_response
   (status dispatch, source selection, construct-or-cast, unexpected status), and of Endpoint.sort_parameters' placeholder
   rewrite (parser/openapi.py). Model file: definitions only. The model stops at the kwargs dict handed to httpx. *)
From Coq Require Import NArith ZArith List Bool.
Import ListNotations.
Require Import OPC.gen.GenKinds OPC.Uni OPC.Names OPC.Codec OPC.Types.
Open Scope N_scope.

(* ---- decimal printing (str(int)) ---- *)
Fixpoint dec_fuel (fuel : nat) (n : N) (acc : str) : str :=
  match fuel with
  | O => acc
  | S f => let acc' := (48 + n mod 10) :: acc in if n / 10 =? 0 then acc' else dec_fuel f (n / 10) acc'
  end.
Definition dec_of_N (n : N) : str := dec_fuel (S (N.to_nat (N.size n))) n [].
Definition dec_of_Z (z : Z) : str := match z with Z0 => [48] | Zpos p => dec_of_N (Npos p) | Zneg p => 45 :: dec_of_N (Npos p) end.

Definition s_True : str := [84;114;117;101].
Definition s_False : str := [70;97;108;115;101].
Definition s_None : str := [78;111;110;101].
Definition s_true : str := [116;114;117;101].
Definition s_false : str := [102;97;108;115;101].

(* str(x) / format(x, "") of the values that can be arguments *)
Definition str_of_json (j : json) : option str :=
  match j with
  | JStr s => Some s | JInt z => Some (dec_of_Z z) | JBool true => Some s_True | JBool false => Some s_False
  | JNull => Some s_None | JFlt t => Some t | _ => None
  end.
Definition str_of (v : pv) : option str :=
  match v with
  | PJ j => str_of_json j
  | PEnum _ j => str_of_json j          (* generated enums define __str__ = str(self.value) *)
  | PDate s | PUuid s => Some s
  | _ => None                           (* datetimes (str() differs from isoformat), lists, objects: not modelled *)
  end.
(* bool(x) *)
Definition truthy (v : pv) : bool :=
  match v with
  | PUnset => false
  | PJ j => negb (falsy j)
  | PList [] => false
  | _ => true
  end.

Record param := { pa_name : str; pa_py : str; pa_req : bool; pa_kind : pk }.
Inductive btype := BJson | BData | BFiles | BContent.
Record body := { b_ctype : str; b_type : btype; b_kind : pk }.
Inductive rsource := SJson | SBytes | SText | SNone.
Record response := { rs_status : Z; rs_kind : pk; rs_source : rsource }.
Record endpoint := {
  ep_method : str; ep_path : str;           (* the path AFTER sort_parameters: placeholders carry python names *)
  ep_pathp : list param; ep_query : list param; ep_header : list param; ep_cookie : list param;
  ep_bodies : list body; ep_security : bool; ep_responses : list response }.

Definition args := list (str * pv).          (* python argument name -> value ("body" for the body) *)
Fixpoint arg (a : args) (n : str) : option pv :=
  match a with [] => None | (k, v) :: r => if str_eqb k n then Some v else arg r n end.

(* ---------------------------------------------------------------- url: "path".format(name=value, ...) *)
Definition ident_start (c : N) : bool := (c =? 95) || ((65 <=? c) && (c <=? 90)) || ((97 <=? c) && (c <=? 122)) || (127 <? c).
Fixpoint take_field (s : str) (acc : str) : option (str * str) :=        (* up to the closing brace *)
  match s with
  | [] => None
  | c :: r => if c =? 125 then Some (rev acc, r)
              else if (c =? 123) || (c =? 33) || (c =? 58) || (c =? 46) || (c =? 91) then None   (* nested / conversion / spec / attribute / index: not modelled *)
              else take_field r (c :: acc)
  end.
Fixpoint format_fuel (fuel : nat) (s : str) (a : args) : option str :=
  match fuel with
  | O => None
  | S f =>
    match s with
    | [] => Some []
    | 123 :: 123 :: r => option_map (cons 123) (format_fuel f r a)
    | 125 :: 125 :: r => option_map (cons 125) (format_fuel f r a)
    | 123 :: r =>
        match take_field r [] with
        | Some (name, rest) =>
            match name with
            | c :: _ => if ident_start c then
                          match arg a name with
                          | Some v => match str_of v, format_fuel f rest a with
                                      | Some t, Some out => Some (t ++ out)
                                      | _, _ => None end
                          | None => None       (* KeyError *)
                          end
                        else None
            | [] => None
            end
        | None => None
        end
    | 125 :: _ => None                        (* single closing brace: ValueError *)
    | c :: r => option_map (cons c) (format_fuel f r a)
    end
  end.
Definition format_path (s : str) (a : args) : option str := format_fuel (S (length s)) s a.

(* ---- Endpoint.sort_parameters: sequential str.replace of {wire name} by {python name} ---- *)
Fixpoint prefix_of (p s : str) : option str :=       (* if p is a prefix of s: the rest *)
  match p, s with
  | [], _ => Some s
  | x :: p', y :: s' => if x =? y then prefix_of p' s' else None
  | _ :: _, [] => None
  end.
Fixpoint replace_fuel (fuel : nat) (old new s : str) : str :=     (* str.replace(old, new), old non-empty *)
  match fuel with
  | O => s
  | S f => match s with
           | [] => []
           | c :: r => match prefix_of old s with
                       | Some rest => new ++ replace_fuel f old new rest
                       | None => c :: replace_fuel f old new r
                       end
           end
  end.
Definition replace_all (old new s : str) : str := match old with [] => s | _ => replace_fuel (S (length s)) old new s end.
Definition braces (n : str) : str := 123 :: n ++ [125].
Definition rewrite_path (path : str) (ps : list param) : str :=
  fold_left (fun p x => replace_all (braces (pa_name x)) (braces (pa_py x)) p) ps path.

(* ---------------------------------------------------------------- kwargs *)
Definition dict := list (str * pv).           (* a Python dict with str keys, as a key-sorted finite map *)
Record kwargs := { kw_method : str; kw_url : str; kw_params : option dict; kw_cookies : option dict; kw_headers : option dict;
                   kw_json : option pv; kw_data : option pv; kw_other_body : bool }.

Definition is_unset (v : pv) : bool := match v with PUnset => true | _ => false end.
Definition s_content_type : str := [67;111;110;116;101;110;116;45;84;121;112;101].

Section Kw.
  Variable T : ctable.
  Variable fuel : nat.

  (* header_params: transform_header (bool: "true"/"false"; others: str(x)) or the raw value; guarded by Unset for optional *)
  Definition header_value (k : pk) (v : pv) : option pv :=
    if kf_header (kfacts_of k) then
      match k with
      | KBool => Some (PJ (JStr (if truthy v then s_true else s_false)))
      | _ => option_map (fun s => PJ (JStr s)) (str_of v)
      end
    else Some v.
  Fixpoint headers_of (ps : list param) (a : args) (d : dict) : option dict :=
    match ps with
    | [] => Some d
    | p :: r =>
        match arg a (pa_py p) with
        | None => None
        | Some v =>
            if negb (pa_req p) && is_unset v then headers_of r a d
            else match header_value (pa_kind p) v with
                 | Some hv => headers_of r a (m_put (pa_name p) hv d)
                 | None => None
                 end
        end
    end.
  (* cookie_params: raw values; optional ones skipped when UNSET *)
  Fixpoint cookies_of (ps : list param) (a : args) (d : dict) : option dict :=
    match ps with
    | [] => Some d
    | p :: r =>
        match arg a (pa_py p) with
        | None => None
        | Some v => if negb (pa_req p) && is_unset v then cookies_of r a d else cookies_of r a (m_put (pa_name p) v d)
        end
    end.
  (* query_params: transform when the kind has one, model-typed values are merged key by key, then UNSET and None are dropped *)
  Definition jobj_items (j : json) : option (list (str * json)) := match j with JObj m => Some m | _ => None end.
  Fixpoint query_of (ps : list param) (a : args) (d : dict) : option dict :=
    match ps with
    | [] => Some d
    | p :: r =>
        match arg a (pa_py p) with
        | None => None
        | Some v =>
            let k := pa_kind p in
            let dest : option pv :=          (* None = exception; Some PUnset = UNSET *)
              if has_transform k then
                match enc_field (enc T fuel) k (pa_req p) v with
                | Some (Some j) => Some (PJ j) | Some None => Some PUnset | None => None end
              else Some v in
            match dest with
            | None => None
            | Some dv =>
                if kf_json_is_dict (kfacts_of k) then
                  if negb (pa_req p) && is_unset dv then query_of r a d
                  else match dv with
                       | PJ (JObj m) => query_of r a (fold_left (fun acc kv => m_put (fst kv) (PJ (snd kv)) acc) m d)
                       | _ => None
                       end
                else query_of r a (m_put (pa_name p) dv d)
            end
        end
    end.
  Definition drop_unset_none (d : dict) : dict :=
    filter (fun kv => match snd kv with PUnset | PJ JNull => false | _ => true end) d.

  (* isinstance(body, <declared body type>) for the multi-body chain: only model classes and lists are decided *)
  Definition body_matches (k : pk) (v : pv) : bool :=
    match k, v with
    | KModel c, PObj c' _ _ => c =? c'
    | KList _, (PList _ | PJ (JArr _)) => true
    | _, _ => false
    end.
  Definition body_value (b : body) (v : pv) : option pv :=
    match b_type b with
    | BJson => if has_transform (b_kind b) then
                 match enc_field (enc T fuel) (b_kind b) true v with Some (Some j) => Some (PJ j) | _ => None end
               else Some v
    | BData => match v with PObj c fs ad => option_map PJ (enc_obj T (enc T fuel) c fs ad) | _ => None end     (* body.to_dict() *)
    | _ => None
    end.

  Definition get_kwargs (ep : endpoint) (a : args) : option kwargs :=
    let need_headers := negb (match ep_header ep with [] => true | _ => false end) || negb (match ep_bodies ep with [] => true | _ => false end) in
    match headers_of (ep_header ep) a [], cookies_of (ep_cookie ep) a [], query_of (ep_query ep) a [],
          format_path (ep_path ep) a with
    | Some hs, Some cs, Some qs, Some url =>
        let url := match ep_pathp ep with [] => ep_path ep | _ => url end in
        let base := {| kw_method := ep_method ep; kw_url := url;
                       kw_params := match ep_query ep with [] => None | _ => Some (drop_unset_none qs) end;
                       kw_cookies := match ep_cookie ep with [] => None | _ => Some cs end;
                       kw_headers := if need_headers then Some hs else None;
                       kw_json := None; kw_data := None; kw_other_body := false |} in
        match ep_bodies ep with
        | [] => Some base
        | [b] =>
            match arg a [98;111;100;121] with
            | None => None
            | Some bv =>
                let hs' := match b_type b with BFiles => hs | _ => m_put s_content_type (PJ (JStr (b_ctype b))) hs end in
                match b_type b with
                | BJson => match body_value b bv with
                           | Some x => Some {| kw_method := kw_method base; kw_url := kw_url base; kw_params := kw_params base; kw_cookies := kw_cookies base;
                                               kw_headers := Some hs'; kw_json := Some x; kw_data := None; kw_other_body := false |}
                           | None => None end
                | BData => match body_value b bv with
                           | Some x => Some {| kw_method := kw_method base; kw_url := kw_url base; kw_params := kw_params base; kw_cookies := kw_cookies base;
                                               kw_headers := Some hs'; kw_json := None; kw_data := Some x; kw_other_body := false |}
                           | None => None end
                | _ => Some {| kw_method := kw_method base; kw_url := kw_url base; kw_params := kw_params base; kw_cookies := kw_cookies base;
                               kw_headers := Some hs'; kw_json := None; kw_data := None; kw_other_body := true |}
                end
            end
        | bs =>
            match arg a [98;111;100;121] with
            | None => None
            | Some bv =>
                (* every `if isinstance(body, T):` block whose test passes runs, in order: later ones overwrite Content-Type *)
                (fix go (bs : list body) (k : kwargs) : option kwargs :=
                   match bs with
                   | [] => Some k
                   | b :: r =>
                       if body_matches (b_kind b) bv then
                         let hs' := Some (m_put s_content_type (PJ (JStr (b_ctype b))) (match kw_headers k with Some h => h | None => [] end)) in
                         match b_type b with
                         | BJson => match body_value b bv with
                                    | Some x => go r {| kw_method := kw_method k; kw_url := kw_url k; kw_params := kw_params k; kw_cookies := kw_cookies k;
                                                        kw_headers := hs'; kw_json := Some x; kw_data := kw_data k; kw_other_body := kw_other_body k |}
                                    | None => None end
                         | BData => match body_value b bv with
                                    | Some x => go r {| kw_method := kw_method k; kw_url := kw_url k; kw_params := kw_params k; kw_cookies := kw_cookies k;
                                                        kw_headers := hs'; kw_json := kw_json k; kw_data := Some x; kw_other_body := kw_other_body k |}
                                    | None => None end
                         | _ => go r {| kw_method := kw_method k; kw_url := kw_url k; kw_params := kw_params k; kw_cookies := kw_cookies k;
                                        kw_headers := hs'; kw_json := kw_json k; kw_data := kw_data k; kw_other_body := true |}
                         end
                       else go r k
                   end) bs base
            end
        end
    | _, _, _, _ => None
    end.
End Kw.

(* ---------------------------------------------------------------- responses *)
(* what httpx hands over: status, the decoded JSON body if the content is JSON, the text, the raw bytes (as code points) *)
Record hresp := { h_status : Z; h_json : option json; h_text : str; h_bytes : str }.
Inductive presult := PRaiseUnexpected | PRaiseOther | PVal (v : option pv).     (* Optional[...] result: None = no parsed value *)

Definition ty_is_any (k : pk) : bool := match type_of k true with TyAny => true | _ => false end.
(* response_type() != "Any": some response's declared type is not Any *)
Definition parsed_responses (rs : list response) : bool := existsb (fun r => negb (ty_is_any (rs_kind r))) rs.

Section Parse.
  Variable orc : oracles.
  Variable T : ctable.
  Variable fuel : nat.
  Definition source_value (s : rsource) (h : hresp) : option json :=   (* None = response.json() raises *)
    match s with
    | SJson => h_json h
    | SText => Some (JStr (h_text h))
    | SBytes => Some (JStr (h_bytes h))       (* bytes are shown as a string of their code points; only passed through *)
    | SNone => Some JNull
    end.
  Fixpoint parse_response (rs : list response) (parsed : bool) (raise_flag : bool) (h : hresp) : presult :=
    match rs with
    | [] => if raise_flag then PRaiseUnexpected else PVal None
    | r :: rest =>
        if Z.eqb (h_status h) (rs_status r) then
          if parsed then
            match source_value (rs_source r) h with
            | None => PRaiseOther
            | Some j =>
                match rs_kind r with
                | KFile => PVal (Some (PJ j))      (* File(payload=BytesIO(response.content)): a File is identified with its bytes *)
                | _ =>
                  if has_construct (rs_kind r) then
                    match dec_field (dec orc T fuel) (rs_kind r) true (Some j) with
                    | Some v => PVal (Some v)
                    | None => PRaiseOther
                    end
                  else PVal (Some (PJ j))
                end
            end
          else PVal None
        else parse_response rest parsed raise_flag h
    end.
  Definition parse (ep : endpoint) (raise_flag : bool) (h : hresp) : presult :=
    parse_response (ep_responses ep) (parsed_responses (ep_responses ep)) raise_flag h.

  (* specification side: the documented response for a status is the first one declaring it *)
  Definition documented (rs : list response) (st : Z) : option response := find (fun r => Z.eqb st (rs_status r)) rs.
End Parse.

(* AuthenticatedClient: the credential header *)
Definition auth_header (prefix token : str) : str := match prefix with [] => token | _ => prefix ++ [32] ++ token end.
Inductive client_ty := CAuthenticated | CEither.
Definition client_param (ep : endpoint) : client_ty := if ep_security ep then CAuthenticated else CEither.
