(* CensusThm.v -- C07: nothing is dropped silently by the endpoint loop, the response loop, the body loop or the file writer. *)
From Coq Require Import NArith List Bool Lia.
Import ListNotations.
Require Import OPC.Uni OPC.Names OPC.NamesThm OPC.Census.
Open Scope N_scope.

Lemma str_eqb_refl s : str_eqb s s = true. Proof. now apply str_eqb_eq. Qed.
Lemma str_eqb_neq a b : a <> b -> str_eqb a b = false.
Proof. intro H. destruct (str_eqb a b) eqn:E; [|reflexivity]. apply str_eqb_eq in E. contradiction. Qed.

(* ---------------------------------------------------------------- responses and bodies of one operation *)
Theorem responses_accounted : forall rs code o, In (code, o) rs ->
  (exists st, In (code, st) (fst (add_responses rs))) \/ (exists w, In w (snd (add_responses rs)) /\ w_key w = code).
Proof.
  induction rs as [|[c0 o0] rs IH]; intros code o H; [contradiction|]. cbn [add_responses].
  destruct H as [H|H].
  - inversion H; subst. destruct o; cbn [fst snd].
    + right. eexists. split; [now left|reflexivity].
    + right. eexists. split; [now left|reflexivity].
    + left. exists status. now left.
  - destruct (IH _ _ H) as [[st Hs]|[w [Hw1 Hw2]]]; destruct o0; cbn [fst snd]; eauto.
    + left. exists st. now right.
    + right. exists w. split; [now right|exact Hw2].
    + right. exists w. split; [now right|exact Hw2].
Qed.

Theorem bodies_accounted : forall bs ct o, In (ct, o) bs ->
  In ct (fst (bodies_of bs)) \/ (exists w, In w (snd (bodies_of bs)) /\ w_key w = ct /\ w_what w = 4).
Proof.
  induction bs as [|[c0 o0] bs IH]; intros ct o H; [contradiction|]. cbn [bodies_of].
  destruct H as [H|H].
  - inversion H; subst. destruct o; cbn [fst snd]; try (right; eexists; split; [now left|split; reflexivity]). left. now left.
  - destruct (IH _ _ H) as [Hs|[w [Hw1 Hw2]]].
    + destruct o0; cbn [fst snd]; auto. left. now right.
    + right. exists w. destruct o0; cbn [fst snd]; (split; [auto; now right|exact Hw2]).
Qed.

(* every documented status and media type of a GENERATED operation is a Response / Body of the endpoint or a warning of it *)
Theorem endpoint_parts_accounted o ep : parse_operation o = Some ep ->
  (forall code r, In (code, r) (o_responses o) ->
     (exists st, In (code, st) (ep_responses ep)) \/ exists w, In w (ep_warnings ep) /\ w_key w = code) /\
  (forall ct b, In (ct, b) (o_bodies o) -> In ct (ep_bodies ep) \/ exists w, In w (ep_warnings ep) /\ w_key w = ct).
Proof.
  unfold parse_operation. destruct (negb (o_params_ok o)); [discriminate|].
  intro H.
  assert (E : ep = mkEp (o_key o) (o_name o) (fst (add_responses (o_responses o))) (fst (bodies_of (o_bodies o)))
                        (snd (add_responses (o_responses o)) ++ snd (bodies_of (o_bodies o)))).
  { destruct (fst (bodies_of (o_bodies o))) eqn:E1; destruct (snd (bodies_of (o_bodies o))) eqn:E2; inversion H; reflexivity. }
  subst ep. cbn [ep_responses ep_bodies ep_warnings]. split.
  - intros code r Hin. destruct (responses_accounted _ _ _ Hin) as [Hs|[w [Hw1 Hw2]]]; [now left|].
    right. exists w. split; [apply in_or_app; now left|exact Hw2].
  - intros ct b Hin. destruct (bodies_accounted _ _ _ Hin) as [Hs|[w [Hw1 [Hw2 _]]]]; [now left|].
    right. exists w. split; [apply in_or_app; now right|exact Hw2].
Qed.

(* ---------------------------------------------------------------- the endpoint loop *)
Definition col_le (c c' : collection) : Prop :=
  c_tag c' = c_tag c /\ incl (c_endpoints c) (c_endpoints c') /\ incl (c_errors c) (c_errors c').
Lemma col_le_refl c : col_le c c. Proof. repeat split; apply incl_refl. Qed.
Lemma col_le_trans a b c : col_le a b -> col_le b c -> col_le a c.
Proof. intros (A1 & A2 & A3) (B1 & B2 & B3). repeat split; [congruence|eapply incl_tran; eauto|eapply incl_tran; eauto]. Qed.

Definition grows (f : collection -> collection) : Prop := forall c, col_le c (f c).

Lemma upd_same cs t f : grows f ->
  exists c0, find_col (upd cs t f) t = Some (f c0) /\ c_tag c0 = t /\ (forall c, find_col cs t = Some c -> c0 = c).
Proof.
  intro Hf. induction cs as [|c cs IH]; cbn [upd find_col].
  - exists (mkCol t [] []). destruct (Hf (mkCol t [] [])) as (E & _). cbn in E. rewrite E, str_eqb_refl.
    repeat split; auto. intros c Hc. discriminate.
  - destruct (str_eqb (c_tag c) t) eqn:E.
    + cbn [find_col]. destruct (Hf c) as (E' & _). rewrite E', E. exists c. apply str_eqb_eq in E. repeat split; auto. intros c1 Hc. now inversion Hc.
    + cbn [find_col]. rewrite E. exact IH.
Qed.

Lemma upd_other cs t f t' : grows f -> t' <> t -> find_col (upd cs t f) t' = find_col cs t'.
Proof.
  intros Hf Hne. induction cs as [|c cs IH]; cbn [upd find_col].
  - destruct (Hf (mkCol t [] [])) as (E & _). cbn in E. rewrite E. rewrite str_eqb_neq; auto.
  - destruct (str_eqb (c_tag c) t) eqn:E.
    + cbn [find_col]. destruct (Hf c) as (E' & _). rewrite E'. apply str_eqb_eq in E. rewrite E. rewrite !str_eqb_neq; auto.
    + cbn [find_col]. now rewrite IH.
Qed.

Lemma upd_mono cs t f t' c : grows f -> find_col cs t' = Some c -> exists c', find_col (upd cs t f) t' = Some c' /\ col_le c c'.
Proof.
  intros Hf Hc. destruct (list_eq_dec N.eq_dec t' t) as [->|Hne].
  - destruct (upd_same cs t f Hf) as [c0 (E1 & E2 & E3)]. rewrite (E3 _ Hc) in E1. eexists. split; [exact E1|apply Hf].
  - rewrite upd_other; auto. exists c. split; [exact Hc|apply col_le_refl].
Qed.

Lemma fold_upd_mono (f : collection -> collection) : grows f -> forall ts cs t' c, find_col cs t' = Some c ->
  exists c', find_col (fold_left (fun cs t => upd cs t f) ts cs) t' = Some c' /\ col_le c c'.
Proof.
  intro Hf. induction ts as [|t ts IH]; intros cs t' c Hc; cbn [fold_left].
  - exists c. split; [exact Hc|apply col_le_refl].
  - destruct (upd_mono cs t f t' c Hf Hc) as [c1 [H1 H2]]. destruct (IH _ _ _ H1) as [c2 [H3 H4]].
    exists c2. split; [exact H3|eapply col_le_trans; eauto].
Qed.

Lemma fold_upd_hit (f : collection -> collection) : grows f -> forall ts cs t, In t ts ->
  exists c0 c', find_col (fold_left (fun cs t => upd cs t f) ts cs) t = Some c' /\ col_le (f c0) c' /\ c_tag c0 = t.
Proof.
  intro Hf. induction ts as [|t0 ts IH]; intros cs t Hin; [contradiction|]. cbn [fold_left].
  destruct Hin as [->|Hin].
  - destruct (upd_same cs t f Hf) as [c0 (E1 & E2 & _)].
    destruct (fold_upd_mono f Hf ts _ _ _ E1) as [c' [H1 H2]]. exists c0, c'. auto.
  - apply IH, Hin.
Qed.

Definition f_err (o : operation) (c : collection) : collection :=
  mkCol (c_tag c) (c_endpoints c) (c_errors c ++ [(o_key o, mkW 1 (o_key o))]).
Definition f_ok (o : operation) (ep : endpoint) (c : collection) : collection :=
  mkCol (c_tag c) (c_endpoints c ++ [ep]) (c_errors c ++ map (fun w => (o_key o, w)) (ep_warnings ep)).
Lemma f_err_grows o : grows (f_err o).
Proof. intro c. repeat split; cbn; [apply incl_refl|apply incl_appl, incl_refl]. Qed.
Lemma f_ok_grows o ep : grows (f_ok o ep).
Proof. intro c. repeat split; cbn; apply incl_appl, incl_refl. Qed.

Lemma file_op_mono cs o t c : find_col cs t = Some c -> exists c', find_col (file_op cs o) t = Some c' /\ col_le c c'.
Proof.
  intro Hc. unfold file_op. destruct (parse_operation o) as [ep|].
  - apply (fold_upd_mono (f_ok o ep) (f_ok_grows o ep)); exact Hc.
  - apply (fold_upd_mono (f_err o) (f_err_grows o)); exact Hc.
Qed.

(* the per-operation statement: filed under each of its tags as an endpoint, or as a warning carrying METHOD and path;
   and every warning of a generated endpoint is handed on under the same key *)
Definition filed (cs : list collection) (o : operation) : Prop :=
  forall t, In t (o_tags o) -> exists c, find_col cs t = Some c /\
    match parse_operation o with
    | Some ep => In ep (c_endpoints c) /\ forall w, In w (ep_warnings ep) -> In (o_key o, w) (c_errors c)
    | None => In (o_key o, mkW 1 (o_key o)) (c_errors c)
    end.

Lemma filed_mono cs cs' o : (forall t c, find_col cs t = Some c -> exists c', find_col cs' t = Some c' /\ col_le c c') ->
  filed cs o -> filed cs' o.
Proof.
  intros Hm Hf t Ht. destruct (Hf t Ht) as [c [Hc Hx]]. destruct (Hm _ _ Hc) as [c' [Hc' (L1 & L2 & L3)]].
  exists c'. split; [exact Hc'|]. destruct (parse_operation o) as [ep|].
  - destruct Hx as [A B]. split; [now apply L2|intros w Hw; now apply L3, B].
  - now apply L3.
Qed.

Lemma file_op_files cs o : filed (file_op cs o) o.
Proof.
  intros t Ht. unfold file_op. destruct (parse_operation o) as [ep|] eqn:E.
  - destruct (fold_upd_hit (f_ok o ep) (f_ok_grows o ep) (o_tags o) cs t Ht) as [c0 [c' (H1 & (L1 & L2 & L3) & H3)]].
    exists c'. split; [exact H1|]. split.
    + apply L2. cbn. apply in_or_app. right. now left.
    + intros w Hw. apply L3. cbn. apply in_or_app. right. apply in_map_iff. eauto.
  - destruct (fold_upd_hit (f_err o) (f_err_grows o) (o_tags o) cs t Ht) as [c0 [c' (H1 & (L1 & L2 & L3) & H3)]].
    exists c'. split; [exact H1|]. apply L3. cbn. apply in_or_app. right. now left.
Qed.

(* T accounting, operation part (C07), for ALL operation lists: fold invariant over the list *)
Theorem ops_accounted : forall ops o, In o ops -> filed (collections ops) o.
Proof.
  unfold collections. intros ops.
  assert (G : forall ops cs o, (In o ops \/ filed cs o) -> filed (fold_left file_op ops cs) o).
  { induction ops0 as [|o0 ops0 IH]; intros cs o H; cbn [fold_left].
    - destruct H as [[]|H]. exact H.
    - apply IH. destruct H as [[->|H]|H]; [right; apply file_op_files|now left|].
      right. eapply filed_mono; [|exact H]. intros t c Hc. now apply file_op_mono. }
  intros o Ho. apply G. now left.
Qed.

(* the tag selection of the code never yields an empty list (operation.tags or ["default"], then all of them or the first):
   so every operation is filed in at least one collection - none can vanish because it declares no tags *)
Lemma sel_tags_nonempty all_tags raw : sel_tags all_tags raw <> [].
Proof. unfold sel_tags. destruct raw as [|t r]; destruct all_tags; cbn; discriminate. Qed.

Theorem ops_filed_somewhere : forall ops o all_tags raw, In o ops -> o_tags o = sel_tags all_tags raw ->
  exists t c, In t (o_tags o) /\ find_col (collections ops) t = Some c /\
    match parse_operation o with
    | Some ep => In ep (c_endpoints c)
    | None => In (o_key o, mkW 1 (o_key o)) (c_errors c)
    end.
Proof.
  intros ops o all_tags raw Ho Et. pose proof (sel_tags_nonempty all_tags raw) as Hne. rewrite <- Et in Hne.
  destruct (o_tags o) as [|t ts] eqn:E; [contradiction|].
  destruct (ops_accounted ops o Ho t) as [c [Hc Hx]]; [rewrite E; now left|].
  exists t, c. split; [now left|]. split; [exact Hc|]. destruct (parse_operation o); tauto.
Qed.

(* ---------------------------------------------------------------- files *)
Lemma write_all_keeps : forall ws files f k, In (f, k) files -> str_mem f (map fst ws) = false -> In (f, k) (write_all files ws).
Proof.
  induction ws as [|[f0 k0] ws IH]; intros files f k Hin Hm; cbn [write_all]; [exact Hin|].
  cbn [map fst str_mem] in Hm. apply orb_false_iff in Hm. destruct Hm as [H1 H2].
  apply IH; [|exact H2]. right. apply filter_In. split; [exact Hin|]. cbn [fst].
  destruct (str_eqb f f0) eqn:E; [discriminate|reflexivity].
Qed.

Lemma write_all_distinct : forall ws files f k, str_nodup (map fst ws) = true -> In (f, k) ws -> In (f, k) (write_all files ws).
Proof.
  induction ws as [|[f0 k0] ws IH]; intros files f k Hnd Hin; [contradiction|]. cbn [write_all].
  cbn [map fst str_nodup] in Hnd. apply andb_true_iff in Hnd. destruct Hnd as [H1 H2]. destruct Hin as [Hin|Hin].
  - inversion Hin; subst. apply write_all_keeps; [now left|]. now apply negb_true_iff in H1.
  - apply IH; assumption.
Qed.

(* T no_silent_collapse (modules): when the module names of a tag are pairwise distinct, every endpoint's own file exists and
   holds that endpoint *)
Theorem no_silent_collapse prefix c : g_module_names_distinct prefix c = true ->
  forall ep, In ep (c_endpoints c) -> In (module_name prefix (ep_name ep), ep_key ep) (api_files prefix c).
Proof.
  unfold g_module_names_distinct, api_files. intros H ep Hin. apply write_all_distinct.
  - rewrite map_map. cbn [fst]. exact H.
  - apply in_map_iff. exists ep. split; [reflexivity|exact Hin].
Qed.

(* R module_overwrite: operationIds get-x and get_x give one module name; the first operation's file is lost, no diagnostic *)
Definition s_get_dash_x : str := [103;101;116;45;120].
Definition s_get_us_x : str := [103;101;116;95;120].
Definition s_field : str := [102;105;101;108;100;95].
Theorem module_overwrite_refuted :
  exists prefix c e1 e2, In e1 (c_endpoints c) /\ In e2 (c_endpoints c) /\ ep_key e1 <> ep_key e2 /\
    g_module_names_distinct prefix c = false /\ length (api_files prefix c) = 1%nat /\
    ~ In (ep_key e1) (map snd (api_files prefix c)) /\ c_errors c = [].
Proof.
  exists s_field, (mkCol [100] [mkEp [49] s_get_dash_x [] [] []; mkEp [50] s_get_us_x [] [] []] []),
         (mkEp [49] s_get_dash_x [] [] []), (mkEp [50] s_get_us_x [] [] []).
  split; [now left|]. split; [right; now left|]. split; [cbn; discriminate|].
  split; [vm_compute; reflexivity|]. split; [vm_compute; reflexivity|]. split; [|reflexivity].
  vm_compute. intros [H|[]]. discriminate.
Qed.

(* R status_alias: "200" and "0200" are two documented responses with one status; the generated dispatch reaches the first only *)
Theorem status_alias_refuted :
  exists c1 c2, c1 <> c2 /\ parse_status c1 = ROk 200 /\ parse_status c2 = ROk 200 /\
    forall ep, ep_responses ep = [(c1, 200); (c2, 200)] -> g_status_distinct ep = false.
Proof.
  exists [50;48;48], [48;50;48;48]. split; [discriminate|]. split; [vm_compute; reflexivity|]. split; [vm_compute; reflexivity|].
  intros ep E. unfold g_status_distinct. rewrite E. reflexivity.
Qed.
Theorem status_distinct_no_alias ep : g_status_distinct ep = true -> NoDup (map snd (ep_responses ep)).
Proof.
  unfold g_status_distinct. generalize (map snd (ep_responses ep)) as l. induction l as [|x l IH]; cbn [n_nodup]; intro H; [constructor|].
  apply andb_true_iff in H. destruct H as [H1 H2]. constructor; [|now apply IH].
  intro Hin. apply negb_true_iff in H1. assert (existsb (N.eqb x) l = true); [|congruence].
  apply existsb_exists. exists x. split; [exact Hin|apply N.eqb_refl].
Qed.
