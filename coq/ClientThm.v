From Coq Require Import NArith List Bool Lia.
Import ListNotations.
Require Import OPC.Uni OPC.Client.
Open Scope N_scope.

(* ---------- strings ---------- *)
Lemma str_eqb_eq : forall a b, str_eqb a b = true <-> a = b.
Proof.
  induction a as [|x a IH]; intros [|y b]; cbn [str_eqb]; split; intro H; try reflexivity; try discriminate.
  - apply andb_true_iff in H. destruct H as [H1 H2]. apply N.eqb_eq in H1. apply IH in H2. subst. reflexivity.
  - inversion H; subst. apply andb_true_iff. split. apply N.eqb_refl. apply IH. reflexivity.
Qed.

Lemma str_eqb_refl : forall a, str_eqb a a = true.
Proof. intro a. apply str_eqb_eq. reflexivity. Qed.

Lemma str_eqb_sym : forall a b, str_eqb a b = str_eqb b a.
Proof.
  intros a b. destruct (str_eqb a b) eqn:E.
  - apply str_eqb_eq in E. subst. symmetry. apply str_eqb_refl.
  - destruct (str_eqb b a) eqn:E2; [|reflexivity]. apply str_eqb_eq in E2. subst. rewrite str_eqb_refl in E. discriminate.
Qed.

Lemma key_eqb_refl : forall a, key_eqb a a = true.
Proof. intro a. unfold key_eqb. apply str_eqb_refl. Qed.

Lemma key_eqb_sym : forall a b, key_eqb a b = key_eqb b a.
Proof. intros a b. unfold key_eqb. apply str_eqb_sym. Qed.

Lemma key_eqb_trans_l : forall a b, key_eqb a b = true -> forall c, key_eqb a c = key_eqb b c.
Proof. intros a b H c. unfold key_eqb in *. apply str_eqb_eq in H. rewrite H. reflexivity. Qed.

Lemma mem_str_In : forall a A, mem_str a A = true <-> In a A.
Proof.
  intros a A. unfold mem_str. rewrite existsb_exists. split.
  - intros [x [Hin Hx]]. apply str_eqb_eq in Hx. subst. exact Hin.
  - intro Hin. exists a. split; [exact Hin|apply str_eqb_refl].
Qed.

Lemma plain_not_match : forall A k a, plain_key A k = true -> In a A -> key_eqb k a = false.
Proof.
  intros A k a Hp Hin. unfold plain_key in Hp. apply negb_true_iff in Hp.
  destruct (key_eqb k a) eqn:E; [|reflexivity].
  assert (Hx : existsb (key_eqb k) A = true) by (apply existsb_exists; exists a; split; assumption).
  rewrite Hx in Hp. discriminate.
Qed.

Lemma consistent_spec : forall A, consistent A = true ->
  forall a b, In a A -> In b A -> key_eqb a b = true -> a = b.
Proof.
  induction A as [|h r IH]; intros HC a b Ha Hb Hk.
  - destruct Ha.
  - cbn [consistent] in HC. apply andb_true_iff in HC. destruct HC as [HF HC].
    rewrite forallb_forall in HF.
    destruct Ha as [Ha|Ha]; destruct Hb as [Hb|Hb].
    + subst. reflexivity.
    + subst a. specialize (HF b Hb). rewrite Hk in HF. cbn in HF. apply str_eqb_eq in HF. exact HF.
    + subst b. specialize (HF a Ha). rewrite key_eqb_sym in Hk. rewrite Hk in HF. cbn in HF. apply str_eqb_eq in HF. symmetry. exact HF.
    + apply IH; assumption.
Qed.

(* ---------- generic list facts ---------- *)
Lemma Forall_upd : forall {T} (P : T -> Prop) l n x, Forall P l -> P x -> Forall P (upd l n x).
Proof.
  intros T P l. induction l as [|y l IH]; intros n x HF Hx.
  - destruct n; cbn; constructor.
  - inversion HF; subst. destruct n; cbn [upd]; constructor; auto.
Qed.

Lemma Forall_nth_error : forall {T} (P : T -> Prop) l n x, Forall P l -> nth_error l n = Some x -> P x.
Proof. intros T P l n x HF Hn. rewrite Forall_forall in HF. apply HF. eapply nth_error_In. exact Hn. Qed.

Lemma Forall_nth : forall {T} (P : T -> Prop) l n d, Forall P l -> P d -> P (nth n l d).
Proof.
  intros T P l n d HF Hd. destruct (nth_in_or_default n l d) as [H|H].
  - rewrite Forall_forall in HF. apply HF. exact H.
  - rewrite H. exact Hd.
Qed.

Lemma Forall_snoc : forall {T} (P : T -> Prop) l x, Forall P l -> P x -> Forall P (l ++ [x]).
Proof. intros T P l x HF Hx. apply Forall_app. split; [exact HF|]. constructor; [exact Hx|constructor]. Qed.

(* ---------- dicts ---------- *)
Lemma dset_keys_in : forall d k v k', In k' (dkeys (dset d k v)) -> k' = k \/ In k' (dkeys d).
Proof.
  induction d as [|[k0 v0] r IH]; intros k v k' H.
  - cbn in H. destruct H as [H|[]]. left. symmetry. exact H.
  - cbn [dset] in H. destruct (str_eqb k k0) eqn:E.
    + apply str_eqb_eq in E. subst k0. right. exact H.
    + change (In k' (k0 :: dkeys (dset r k v))) in H. destruct H as [H|H].
      * right. left. exact H.
      * apply IH in H. destruct H as [H|H]; [left; exact H|right; right; exact H].
Qed.

Lemma dset_nodup : forall d k v, NoDup (dkeys d) -> NoDup (dkeys (dset d k v)).
Proof.
  induction d as [|[k0 v0] r IH]; intros k v ND.
  - cbn. constructor; [intros []|constructor].
  - cbn [dset]. destruct (str_eqb k k0) eqn:E.
    + apply str_eqb_eq in E. subst k0. exact ND.
    + change (NoDup (k0 :: dkeys r)) in ND. inversion ND as [|x l Hn ND']; subst.
      change (NoDup (k0 :: dkeys (dset r k v))). constructor.
      * intro Hin. apply dset_keys_in in Hin. destruct Hin as [Hin|Hin].
        -- subst k0. rewrite str_eqb_refl in E. discriminate.
        -- contradiction.
      * apply IH. exact ND'.
Qed.

Definition key_ok (A : list str) (k : str) : Prop := mem_str k A = true \/ plain_key A k = true.
Definition dict_ok (A : list str) (d : dict) : Prop :=
  NoDup (dkeys d) /\ forall k, In k (dkeys d) -> key_ok A k.

Lemma dict_ok_nil : forall A, dict_ok A [].
Proof. intro A. split; [constructor|intros k []]. Qed.

Lemma dset_ok : forall A d k v, dict_ok A d -> key_ok A k -> dict_ok A (dset d k v).
Proof.
  intros A d k v [ND HK] Hk. split.
  - apply dset_nodup. exact ND.
  - intros k' Hin. apply dset_keys_in in Hin. destruct Hin as [Hin|Hin]; [subst; exact Hk|apply HK; exact Hin].
Qed.

Lemma dmerge_ok : forall A b a, dict_ok A a -> (forall k, In k (dkeys b) -> key_ok A k) -> dict_ok A (dmerge a b).
Proof.
  intros A b. unfold dmerge. induction b as [|[k v] b IH]; intros a Ha Hb.
  - exact Ha.
  - cbn [fold_left fst snd]. apply IH.
    + apply dset_ok; [exact Ha|]. apply Hb. left. reflexivity.
    + intros k' Hin. apply Hb. right. exact Hin.
Qed.

Lemma plain_keys_ok : forall A h, forallb (plain_key A) (dkeys h) = true -> forall k, In k (dkeys h) -> key_ok A k.
Proof. intros A h H k Hin. rewrite forallb_forall in H. right. apply H. exact Hin. Qed.

Lemma dict_ok_match : forall A d a, consistent A = true -> dict_ok A d -> mem_str a A = true ->
  forall k, In k (dkeys d) -> key_eqb k a = true -> k = a.
Proof.
  intros A d a HC [_ HK] Ha k Hin Hk. apply mem_str_In in Ha.
  destruct (HK k Hin) as [H|H].
  - apply mem_str_In in H. eapply consistent_spec; eassumption.
  - rewrite (plain_not_match A k a H Ha) in Hk. discriminate.
Qed.

(* ---------- headers ---------- *)
Lemma hget_cons : forall k v r a, hget ((k, v) :: r) a = if key_eqb k a then v :: hget r a else hget r a.
Proof. intros k v r a. unfold hget. cbn [filter fst]. destruct (key_eqb k a); reflexivity. Qed.

Lemma hget_none : forall r a, (forall k, In k (dkeys r) -> key_eqb k a = false) -> hget r a = [].
Proof.
  induction r as [|[k v] r IH]; intros a H.
  - reflexivity.
  - rewrite hget_cons. rewrite (H k) by (left; reflexivity). apply IH. intros k' Hin. apply H. right. exact Hin.
Qed.

Lemma hget_dset : forall d a x, NoDup (dkeys d) -> (forall k, In k (dkeys d) -> key_eqb k a = true -> k = a) ->
  hget (of_dict (dset d a x)) a = [x].
Proof.
  unfold of_dict. induction d as [|[k v] r IH]; intros a x ND H.
  - cbn [dset]. rewrite hget_cons, key_eqb_refl. reflexivity.
  - cbn [dset]. change (NoDup (k :: dkeys r)) in ND. inversion ND as [|y l Hn ND']; subst.
    destruct (str_eqb a k) eqn:E.
    + apply str_eqb_eq in E. subst k. rewrite hget_cons, key_eqb_refl. f_equal. apply hget_none.
      intros k' Hin. destruct (key_eqb k' a) eqn:E2; [|reflexivity]. exfalso.
      assert (k' = a) by (apply H; [right; exact Hin|exact E2]). subst. contradiction.
    + rewrite hget_cons. destruct (key_eqb k a) eqn:E2.
      * exfalso. assert (k = a) by (apply H; [left; reflexivity|exact E2]). subst. rewrite str_eqb_refl in E. discriminate.
      * apply IH; [exact ND'|]. intros k' Hin Hk. apply H; [right; exact Hin|exact Hk].
Qed.

Lemma hget_hremove_other : forall h k a, key_eqb k a = false -> hget (hremove h k) a = hget h a.
Proof.
  induction h as [|[k0 v0] r IH]; intros k a Hk.
  - reflexivity.
  - unfold hremove. cbn [filter fst]. fold (hremove r k). destruct (key_eqb k0 k) eqn:E; cbn [negb].
    + rewrite hget_cons. rewrite (key_eqb_trans_l _ _ E a), Hk. apply IH. exact Hk.
    + rewrite !hget_cons. rewrite (IH k a Hk). reflexivity.
Qed.

Lemma hget_hset_other : forall h k v a, key_eqb k a = false -> hget (hset h k v) a = hget h a.
Proof.
  induction h as [|[k0 v0] r IH]; intros k v a Hk.
  - cbn [hset]. rewrite hget_cons, Hk. reflexivity.
  - cbn [hset]. destruct (key_eqb k0 k) eqn:E.
    + rewrite !hget_cons. rewrite (key_eqb_trans_l _ _ E a), Hk. apply hget_hremove_other. exact Hk.
    + rewrite !hget_cons. rewrite (IH k v a Hk). reflexivity.
Qed.

Lemma hget_hupdate_other : forall d h a, (forall k, In k (dkeys d) -> key_eqb k a = false) -> hget (hupdate h d) a = hget h a.
Proof.
  unfold hupdate. induction d as [|[k v] d IH]; intros h a H.
  - reflexivity.
  - cbn [fold_left fst snd]. rewrite IH.
    + apply hget_hset_other. apply H. left. reflexivity.
    + intros k' Hin. apply H. right. exact Hin.
Qed.

(* ---------- the world invariant ---------- *)
Definition cache_ok (a : str) (dty : bool) (cr : str) (o : option hdrs) : Prop :=
  match o with
  | None => True
  | Some h => exists x, hget h a = [x] /\ (dty = false -> x = cr)
  end.
Definition client_ok (A : list str) (c : client) : Prop :=
  mem_str (authname c) A = true /\
  cache_ok (authname c) (dirty c) (cred c) (csync c) /\
  cache_ok (authname c) (dirty c) (cred c) (casync c).
Definition Inv (A : list str) (w : world) : Prop :=
  Forall (dict_ok A) (heap w) /\ Forall (client_ok A) (clients w).

Lemma Inv_init : forall A, Inv A init.
Proof. intro A. split; constructor. Qed.

Lemma cache_ok_hupdate : forall A a dty cr o h,
  mem_str a A = true -> forallb (plain_key A) (dkeys h) = true ->
  cache_ok a dty cr o -> cache_ok a dty cr (option_map (fun x => hupdate x h) o).
Proof.
  intros A a dty cr o h Ha Hh Ho. destruct o as [x|]; cbn [option_map cache_ok] in *; [|exact I].
  destruct Ho as [y [Hy Hd]]. exists y. split; [|exact Hd].
  rewrite hget_hupdate_other; [exact Hy|].
  intros k Hin. rewrite forallb_forall in Hh. apply (plain_not_match A); [apply Hh; exact Hin|].
  apply mem_str_In. exact Ha.
Qed.

Lemma Inv_step : forall A w o, consistent A = true -> Inv A w -> op_ok A o = true -> Inv A (fst (step w o)).
Proof.
  intros A w o HC [HH HCl] Hok. destruct o as [tok pre auth h0|i tok|i pre auth|i|i h|i tok|i v]; cbn [step].
  - (* New *)
    cbn [op_ok] in Hok. apply andb_true_iff in Hok. destruct Hok as [Ha Hh].
    cbn [fst]. split; cbn [heap clients].
    + apply Forall_snoc; [exact HH|]. apply dmerge_ok; [apply dict_ok_nil|apply plain_keys_ok; exact Hh].
    + apply Forall_snoc; [exact HCl|]. split; [exact Ha|]. split; exact I.
  - (* EvolveToken *)
    destruct (nth_error (clients w) i) as [c|] eqn:E; cbn [fst]; [|split; assumption].
    destruct (Forall_nth_error _ _ _ _ HCl E) as [Ha _].
    split; cbn [heap clients]; [exact HH|]. apply Forall_snoc; [exact HCl|].
    split; [exact Ha|]. split; exact I.
  - (* EvolveAuth *)
    cbn [op_ok] in Hok.
    destruct (nth_error (clients w) i) as [c|] eqn:E; cbn [fst]; [|split; assumption].
    split; cbn [heap clients]; [exact HH|]. apply Forall_snoc; [exact HCl|].
    split; [exact Hok|]. split; exact I.
  - (* Derive *)
    destruct (nth_error (clients w) i) as [c|] eqn:E; cbn [fst]; [|split; assumption].
    destruct (Forall_nth_error _ _ _ _ HCl E) as [Ha _].
    split; cbn [heap clients]; [exact HH|]. apply Forall_snoc; [exact HCl|].
    split; [exact Ha|]. split; exact I.
  - (* WithHeaders *)
    cbn [op_ok] in Hok.
    destruct (nth_error (clients w) i) as [c|] eqn:E; cbn [fst]; [|split; assumption].
    destruct (Forall_nth_error _ _ _ _ HCl E) as [Ha [Hs Has]].
    split; cbn [heap clients].
    + apply Forall_snoc; [exact HH|]. apply dmerge_ok; [|apply plain_keys_ok; exact Hok].
      apply Forall_nth; [exact HH|apply dict_ok_nil].
    + apply Forall_snoc.
      * apply Forall_upd; [exact HCl|]. unfold client_ok, cred. cbn [authname dirty prefix token csync casync].
        split; [exact Ha|]. split; eapply cache_ok_hupdate; eassumption.
      * split; [exact Ha|]. split; exact I.
  - (* SetToken *)
    destruct (nth_error (clients w) i) as [c|] eqn:E; cbn [fst]; [|split; assumption].
    destruct (Forall_nth_error _ _ _ _ HCl E) as [Ha [Hs Has]].
    split; cbn [heap clients]; [exact HH|].
    apply Forall_upd; [exact HCl|]. unfold client_ok, cred. cbn [authname dirty prefix token csync casync].
    split; [exact Ha|]. unfold has_cache.
    split.
    + destruct (csync c) as [x|]; [|exact I]. cbn [cache_ok] in *. destruct Hs as [y [Hy _]]. exists y. split; [exact Hy|].
      intro Hd. rewrite orb_true_r in Hd. discriminate.
    + destruct (casync c) as [x|]; [|exact I]. cbn [cache_ok] in *. destruct Has as [y [Hy _]]. exists y. split; [exact Hy|].
      intro Hd. destruct (csync c); rewrite orb_true_r in Hd; discriminate.
  - (* Use *)
    destruct (nth_error (clients w) i) as [c|] eqn:E; cbn [fst]; [|split; assumption].
    destruct (cache c v) as [h|] eqn:Ec; cbn [fst]; [split; assumption|].
    destruct (Forall_nth_error _ _ _ _ HCl E) as [Ha [Hs Has]].
    assert (Hd : dict_ok A (nth (hid c) (heap w) [])) by (apply Forall_nth; [exact HH|apply dict_ok_nil]).
    assert (Hg : hget (of_dict (dset (nth (hid c) (heap w) []) (authname c) (cred c))) (authname c) = [cred c]).
    { apply hget_dset; [apply Hd|]. eapply dict_ok_match; eassumption. }
    split; cbn [heap clients].
    + apply Forall_upd; [exact HH|]. apply dset_ok; [exact Hd|]. left. exact Ha.
    + apply Forall_upd; [exact HCl|].
      destruct v; unfold client_ok, cred, set_cache; cbn [authname dirty prefix token csync casync];
        (split; [exact Ha|]); split; try assumption; cbn [cache_ok]; exists (cred c); (split; [exact Hg|reflexivity]).
Qed.

Lemma Inv_run : forall A ops w, consistent A = true -> Inv A w -> forallb (op_ok A) ops = true -> Inv A (fst (run w ops)).
Proof.
  intros A ops. induction ops as [|o r IH]; intros w HC HI Hok.
  - exact HI.
  - cbn [forallb] in Hok. apply andb_true_iff in Hok. destruct Hok as [Ho Hr].
    cbn [run]. pose proof (Inv_step A w o HC HI Ho) as HS.
    destruct (step w o) as [w1 out]. cbn [fst] in HS.
    specialize (IH w1 HC HS Hr). destruct (run w1 r) as [w2 outs]. exact IH.
Qed.

Lemma use_output : forall A w i v c vals, consistent A = true -> Inv A w ->
  nth_error (clients w) i = Some c -> snd (step w (Use i v)) = Some vals ->
  exists x, vals = [x] /\ (dirty c = false -> x = cred c).
Proof.
  intros A w i v c vals HC [HH HCl] E Hs. cbn [step] in Hs. rewrite E in Hs.
  destruct (Forall_nth_error _ _ _ _ HCl E) as [Ha [Hsy Has]].
  destruct (cache c v) as [h|] eqn:Ec; cbn [snd] in Hs; inversion Hs; subst vals; clear Hs.
  - destruct v; cbn [cache] in Ec; rewrite Ec in *; cbn [cache_ok] in *; assumption.
  - exists (cred c). split; [|reflexivity].
    assert (Hd : dict_ok A (nth (hid c) (heap w) [])) by (apply Forall_nth; [exact HH|apply dict_ok_nil]).
    apply hget_dset; [apply Hd|]. eapply dict_ok_match; eassumption.
Qed.

Theorem own_credential_from : forall A w ops, consistent A = true -> Inv A w -> forallb (op_ok A) ops = true -> own_credential_run w ops = true.
Proof.
  intros A w ops HC. revert w. induction ops as [|o r IH]; intros w HI Hok.
  - reflexivity.
  - cbn [forallb] in Hok. apply andb_true_iff in Hok. destruct Hok as [Ho Hr].
    cbn [own_credential_run].
    pose proof (Inv_step A w o HC HI Ho) as HS.
    destruct (step w o) as [w1 out] eqn:Es. cbn [fst] in HS.
    apply andb_true_iff. split; [|apply IH; assumption].
    destruct o; try reflexivity.
    destruct out as [vals|]; [|reflexivity].
    destruct (nth_error (clients w) i) as [c|] eqn:E; [|reflexivity].
    destruct (dirty c) eqn:Ed; [reflexivity|].
    assert (Hsn : snd (step w (Use i v)) = Some vals) by (rewrite Es; reflexivity).
    destruct (use_output A w i v c vals HC HI E Hsn) as [x [Hx Hcr]]. subst vals.
    rewrite (Hcr Ed). apply str_eqb_refl.
Qed.

Theorem own_credential : forall (A : list str) (ops : list op),
  consistent A = true -> forallb (op_ok A) ops = true -> own_credential_run init ops = true.
Proof. intros A ops HC Hok. apply (own_credential_from A); [exact HC|apply Inv_init|exact Hok]. Qed.

Theorem derived_sends_own_token : forall (A : list str) (ops : list op) (i : nat) (tok : str) (v : variant) w c,
  consistent A = true -> forallb (op_ok A) ops = true ->
  fst (run init ops) = w -> nth_error (clients w) i = Some c ->
  snd (step (fst (step w (EvolveToken i tok))) (Use (length (clients w)) v)) = Some [cred (with_token c tok)].
Proof.
  intros A ops i tok v w c HC Hok Hw E.
  assert (HI : Inv A w) by (rewrite <- Hw; apply Inv_run; [exact HC|apply Inv_init|exact Hok]).
  assert (HI2 : Inv A (fst (step w (EvolveToken i tok)))) by (apply Inv_step; [exact HC|exact HI|reflexivity]).
  cbn [step] in *. rewrite E in *. cbn [fst] in *.
  set (c' := with_token (fresh_from c (hid c)) tok) in *.
  assert (E' : nth_error (clients w ++ [c']) (length (clients w)) = Some c').
  { rewrite nth_error_app2 by apply le_n.
    replace (length (clients w) - length (clients w))%nat with 0%nat by lia. reflexivity. }
  cbn [clients]. rewrite E'.
  assert (Ec : cache c' v = None) by (destruct v; reflexivity).
  rewrite Ec. cbn [snd]. f_equal.
  destruct HI2 as [HH HCl]. cbn [heap clients] in HH, HCl.
  destruct (Forall_nth_error _ _ _ _ HCl E') as [Ha _].
  assert (Hd : dict_ok A (nth (hid c') (heap w) [])) by (apply Forall_nth; [exact HH|apply dict_ok_nil]).
  change (cred (with_token c tok)) with (cred c').
  apply hget_dset; [apply Hd|]. eapply dict_ok_match; eassumption.
Qed.

(* ---------- non-vacuity and refutations ---------- *)
Definition exA : list str := [[65; 117; 116; 104]; [88; 45; 75]].
Definition exops : list op :=
  [ New [116; 49] [66] [65; 117; 116; 104] [([85; 65], [120])];
    Use 0 Sync;
    Derive 0;
    EvolveToken 0 [116; 50];
    Use 2 Async;
    EvolveAuth 2 [] [88; 45; 75];
    Use 3 Sync;
    WithHeaders 3 [([90], [122])];
    Use 4 Async;
    SetToken 1 [116; 51];
    Use 1 Sync;
    Use 0 Async ].

Example guard_satisfiable :
  consistent exA = true /\ forallb (op_ok exA) exops = true /\ Nat.leb 8 (length exops) = true /\
  snd (run init exops) =
    [ None; Some [[66; 32; 116; 49]]; None; None; Some [[66; 32; 116; 50]]; None; Some [[116; 50]]; None; Some [[116; 50]];
      None; Some [[66; 32; 116; 51]]; Some [[66; 32; 116; 49]] ] /\
  own_credential_run init exops = true.
Proof. vm_compute. repeat split; reflexivity. Qed.

Theorem stale_after_set_token_refuted : exists ops i v c vals, forallb (op_ok [[65]]) ops = true /\ nth_error (clients (fst (run init ops))) i = Some c /\
  snd (step (fst (run init ops)) (Use i v)) = Some vals /\ vals <> [cred c].
Proof.
  exists [New [49] [] [65] []; Use 0 Sync; SetToken 0 [50]], 0%nat, Sync.
  eexists. exists [[49]]. vm_compute. repeat split; try reflexivity. intro H. discriminate H.
Qed.

Theorem inconsistent_names_refuted : exists A ops, consistent A = false /\ forallb (op_ok A) ops = true /\ own_credential_run init ops = false.
Proof.
  exists [[65]; [97]], [New [49] [] [65] []; EvolveAuth 0 [] [97]; Use 0 Sync; Use 1 Sync].
  vm_compute. repeat split; reflexivity.
Qed.

Theorem user_key_clash_refuted : exists ops, own_credential_run init ops = false.
Proof.
  exists [New [49] [] [65] [([97], [120])]; Use 0 Sync].
  vm_compute. reflexivity.
Qed.

Print Assumptions own_credential.
Print Assumptions Inv_init.
Print Assumptions Inv_step.
Print Assumptions own_credential_from.
Print Assumptions derived_sends_own_token.
Print Assumptions guard_satisfiable.
Print Assumptions stale_after_set_token_refuted.
Print Assumptions inconsistent_names_refuted.
Print Assumptions user_key_clash_refuted.
