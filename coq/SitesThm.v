(* SitesThm.v — proofs about Sites.v (C05): every acceptable site re-lexes to data under its slot guard. *)
From Coq Require Import String Ascii NArith List Bool Lia.
Import ListNotations.
Require Import OPC.gen.GenTables OPC.Uni OPC.Names OPC.NamesThm OPC.PyLit OPC.PyLitThm OPC.Sites OPC.gen.GenSites.
Open Scope N_scope.

#[local] Opaque printable.

(* ---------- lexer composition lemmas ---------- *)

Definition prepend (v : str) (o : option (str * str)) : option (str * str) :=
  match o with Some (v', r) => Some (v ++ v', r) | None => None end.

Lemma prepend_nil o : prepend [] o = o.
Proof. destruct o as [[? ?]|]; reflexivity. Qed.

Lemma prepend_cons c v o :
  match prepend v o with Some (val, r) => Some (c :: val, r) | None => None end = prepend (c :: v) o.
Proof. destruct o as [[? ?]|]; reflexivity. Qed.

Lemma prepend_cons2 a b v o :
  match prepend v o with Some (val, r) => Some (a :: b :: val, r) | None => None end = prepend (a :: b :: v) o.
Proof. destruct o as [[? ?]|]; reflexivity. Qed.

(* if the lexer consumes exactly a (followed by the closing quote), then a followed by anything else lexes to the same value
   followed by whatever the continuation lexes to *)
Lemma lex_body_compose_n q : forall n a v, (length a <= n)%nat ->
  lex_body q (a ++ [q]) = Some (v, []) ->
  forall k, lex_body q (a ++ k) = prepend v (lex_body q k).
Proof.
  induction n as [|n IH]; intros a v Hl H k.
  - destruct a as [|c a]; [|cbn [length] in Hl; lia].
    cbn [app] in *. rewrite lex_body_close in H. injection H as <-. now rewrite prepend_nil.
  - destruct a as [|c a].
    { cbn [app] in *. rewrite lex_body_close in H. injection H as <-. now rewrite prepend_nil. }
    cbn [length] in Hl. cbn [app] in *.
    rewrite lex_body_unfold in H. rewrite (lex_body_unfold q (c :: a ++ k)).
    destruct (c =? q) eqn:Eq.
    { injection H as _ H. destruct a; discriminate H. }
    destruct ((c =? NL) || (c =? CR) || (c =? 0)) eqn:Ebad; [discriminate|].
    destruct (c =? BS) eqn:Eb.
    + destruct a as [|e a].
      * cbn [app] in H. destruct (unmodelled_escape q); [discriminate|].
        destruct (simple_escape q); cbn in H; discriminate.
      * cbn [app] in *. cbn [length] in Hl.
        destruct (unmodelled_escape e); [discriminate|].
        destruct (simple_escape e) as [x|].
        -- destruct (lex_body q (a ++ [q])) as [[val r0]|] eqn:E; [|discriminate].
           injection H as <- ->. rewrite (IH a val ltac:(lia) E k). apply prepend_cons.
        -- destruct (lex_body q (a ++ [q])) as [[val r0]|] eqn:E; [|discriminate].
           injection H as <- ->. rewrite (IH a val ltac:(lia) E k). apply prepend_cons2.
    + destruct (lex_body q (a ++ [q])) as [[val r0]|] eqn:E; [|discriminate].
      injection H as <- ->. rewrite (IH a val ltac:(lia) E k). apply prepend_cons.
Qed.

Lemma lex_body_compose q a v k :
  lex_body q (a ++ [q]) = Some (v, []) -> lex_body q (a ++ k) = prepend v (lex_body q k).
Proof. intros H. exact (lex_body_compose_n q (length a) a v (le_n _) H k). Qed.

(* appending text after a completed literal does not change the literal *)
Lemma lex_body_extend_n q : forall n s v r, (length s <= n)%nat ->
  lex_body q s = Some (v, r) -> forall k, lex_body q (s ++ k) = Some (v, r ++ k).
Proof.
  induction n as [|n IH]; intros s v r Hl H k.
  - destruct s; [discriminate H | cbn [length] in Hl; lia].
  - destruct s as [|c s]; [discriminate H|].
    cbn [length] in Hl. cbn [app].
    rewrite lex_body_unfold in H. rewrite (lex_body_unfold q (c :: s ++ k)).
    destruct (c =? q).
    { injection H as <- <-. reflexivity. }
    destruct ((c =? NL) || (c =? CR) || (c =? 0)); [discriminate|].
    destruct (c =? BS).
    + destruct s as [|e s]; [discriminate|].
      cbn [app]. cbn [length] in Hl.
      destruct (unmodelled_escape e); [discriminate|].
      destruct (simple_escape e) as [x|].
      * destruct (lex_body q s) as [[val r0]|] eqn:E; [|discriminate].
        injection H as <- <-. rewrite (IH s val r0 ltac:(lia) E k). reflexivity.
      * destruct (lex_body q s) as [[val r0]|] eqn:E; [|discriminate].
        injection H as <- <-. rewrite (IH s val r0 ltac:(lia) E k). reflexivity.
    + destruct (lex_body q s) as [[val r0]|] eqn:E; [|discriminate].
      injection H as <- <-. rewrite (IH s val r0 ltac:(lia) E k). reflexivity.
Qed.

Lemma lex_body_extend q s v r k :
  lex_body q s = Some (v, r) -> lex_body q (s ++ k) = Some (v, r ++ k).
Proof. intros H. exact (lex_body_extend_n q (length s) s v r (le_n _) H k). Qed.

(* template text around an interpolation denotes itself *)
Lemma plainc_spec q c : plainc q c = true -> c <> q /\ c <> NL /\ c <> CR /\ c <> 0 /\ c <> BS.
Proof.
  unfold plainc. intros H. apply negb_true_iff in H.
  repeat (apply orb_false_iff in H; destruct H as [H ?]).
  repeat match goal with X : (_ =? _) = false |- _ => apply N.eqb_neq in X end.
  tauto.
Qed.

Lemma lex_body_plain_self q : forall a, plain q a = true -> lex_body q (a ++ [q]) = Some (a, []).
Proof.
  induction a as [|c a IH]; intros H.
  - apply lex_body_close.
  - cbn [plain forallb] in H. apply andb_prop in H as [Hc Ha].
    apply plainc_spec in Hc as (H1 & H2 & H3 & H4 & H5).
    cbn [app]. rewrite lex_body_plain by assumption. rewrite (IH Ha). reflexivity.
Qed.

Lemma lex_body_plain_app q a k : plain q a = true -> lex_body q (a ++ k) = prepend a (lex_body q k).
Proof. intros H. apply lex_body_compose, lex_body_plain_self, H. Qed.

Lemma lit_value_spec q img v : lit_value q img = Some v -> lex_body q (img ++ [q]) = Some (v, []).
Proof.
  unfold lit_value. destruct (lex_body q (img ++ [q])) as [[v' r]|]; [|discriminate].
  destruct r; [|discriminate]. now intros [= ->].
Qed.

(* the central lemma for quoted contexts: an inert image between plain template text inside one literal *)
Theorem lit_site q img v : lit_value q img = Some v ->
  forall pre post rest, plain q pre = true -> plain q post = true ->
    lex_body q (pre ++ img ++ post ++ q :: rest) = Some (pre ++ v ++ post, rest).
Proof.
  intros Hv pre post rest Hpre Hpost. apply lit_value_spec in Hv.
  rewrite (lex_body_plain_app q pre _ Hpre).
  rewrite (lex_body_compose q img v _ Hv).
  rewrite (lex_body_plain_app q post _ Hpost).
  rewrite lex_body_close. cbn [prepend]. now rewrite app_nil_r.
Qed.

Lemma str_eqb_refl a : str_eqb a a = true.
Proof. now apply str_eqb_eq. Qed.

Lemma lit_guard_value q img v : lit_guard q img v = true -> lit_value q img = Some v.
Proof.
  unfold lit_guard. destruct (lit_value q img) as [v'|]; [|discriminate].
  intros H. apply str_eqb_eq in H. now subst.
Qed.

Lemma lit_inert_value q img : lit_inert q img = true -> exists v, lit_value q img = Some v.
Proof. unfold lit_inert. destruct (lit_value q img) as [v'|]; [eauto|discriminate]. Qed.

(* a complete literal (repr output) followed by arbitrary text *)
Theorem whole_site img v : whole_guard img v = true -> forall rest, lex_string (img ++ rest) = Some (v, rest).
Proof.
  unfold whole_guard, lex_string. destruct img as [|c s]; [discriminate|].
  intros H rest. cbn [app]. destruct ((c =? DQ) || (c =? SQ)); [|discriminate].
  destruct (lex_body c s) as [[v' r]|] eqn:E; [|discriminate].
  destruct r; [|discriminate]. apply str_eqb_eq in H. subst v'.
  now rewrite (lex_body_extend c s v [] rest E).
Qed.

(* ---------- docstrings ---------- *)

Lemma has_triple_split x : x <> DQ -> forall a b, has_triple (a ++ x :: b) = has_triple a || has_triple b.
Proof.
  intros Hx. apply N.eqb_neq in Hx.
  assert (Base : forall b, has_triple (x :: b) = has_triple b).
  { intros b. destruct b as [|b1 [|b2 b']]; try reflexivity.
    rewrite has_triple_3, Hx. reflexivity. }
  induction a as [|a1 a' IH]; intros b.
  - cbn [app]. rewrite Base. reflexivity.
  - destruct a' as [|a2 [|a3 a'']].
    + cbn [app]. destruct b as [|b1 b'].
      * reflexivity.
      * rewrite has_triple_3, Hx, andb_false_r, andb_false_l. cbn [orb].
        rewrite Base. reflexivity.
    + cbn [app]. rewrite has_triple_3, Hx, andb_false_r. cbn [orb].
      specialize (IH b). cbn [app] in IH. rewrite IH. reflexivity.
    + specialize (IH b). cbn [app] in IH |- *.
      rewrite has_triple_3, IH. rewrite (has_triple_3 a1 a2 a3 a''). now rewrite orb_assoc.
Qed.

Lemma doc_content_ok pre x img y post : x <> DQ -> y <> DQ ->
  has_triple (pre ++ x :: img ++ y :: post) = has_triple pre || (has_triple img || has_triple post).
Proof. intros Hx Hy. rewrite (has_triple_split x Hx), (has_triple_split y Hy). reflexivity. Qed.

Theorem doc_site img : has_triple img = false ->
  forall pre x y post rest, x <> DQ -> y <> DQ -> has_triple pre = false -> has_triple post = false ->
    lex_docstring (safe_docstring (pre ++ x :: img ++ y :: post) ++ rest) = Some ([32] ++ (pre ++ x :: img ++ y :: post) ++ [32], rest).
Proof.
  intros Hi pre x y post rest Hx Hy Hpre Hpost. apply docstring_safe.
  rewrite doc_content_ok by assumption. now rewrite Hpre, Hi, Hpost.
Qed.

Lemma no_dq_no_triple : forall s, forallb (fun c => negb (c =? DQ)) s = true -> has_triple s = false.
Proof.
  induction s as [|a s IH]; intros H; [reflexivity|].
  cbn [forallb] in H. apply andb_prop in H as [Ha Hs]. apply negb_true_iff in Ha.
  destruct s as [|b [|c t]]; try reflexivity.
  rewrite has_triple_3, Ha. cbn [andb orb]. exact (IH Hs).
Qed.

(* ---------- identifier-class images ---------- *)

Lemma fact_lower_inert : map_preserves is_word inert_char map_lower = true.
Proof. vm_compute. reflexivity. Qed.
Lemma fact_title_inert : map_preserves is_word inert_char map_title = true.
Proof. vm_compute. reflexivity. Qed.
Lemma fact_upper_inert : map_preserves inert_char inert_char map_upper = true.
Proof. vm_compute. reflexivity. Qed.
Lemma fact_prefix_inert : forallb inert_char field_prefix = true /\ inert_char 95 = true /\ inert_char 45 = true.
Proof. vm_compute. repeat split; reflexivity. Qed.

Lemma word_inert c : is_word c = true -> inert_char c = true.
Proof. intros H. unfold inert_char. rewrite H. now rewrite orb_true_r. Qed.

Lemma lower_c_inert c : is_word c = true -> forallb inert_char (lower_c c) = true.
Proof. apply (map_preserves_sound is_word inert_char map_lower fact_lower_inert). exact word_inert. Qed.
Lemma title_c_inert c : is_word c = true -> forallb inert_char (title_c c) = true.
Proof. apply (map_preserves_sound is_word inert_char map_title fact_title_inert). exact word_inert. Qed.
Lemma upper_c_inert c : inert_char c = true -> forallb inert_char (upper_c c) = true.
Proof. apply (map_preserves_sound inert_char inert_char map_upper fact_upper_inert). auto. Qed.

Lemma forallb_flat_map {A} (Q : N -> bool) (f : A -> str) (l : list A) :
  (forall x, In x l -> forallb Q (f x) = true) -> forallb Q (flat_map f l) = true.
Proof.
  induction l as [|x l IH]; intros H; [reflexivity|].
  cbn [flat_map]. rewrite forallb_app. rewrite (H x (or_introl eq_refl)). cbn [andb].
  apply IH. intros y Hy. apply H. now right.
Qed.

Lemma word_of_split value w c : In w (split_words (sanitize value)) -> In c w -> is_word c = true.
Proof.
  intros Hw Hc. destruct (split_words_In _ _ _ Hw Hc) as [Hin Hnd].
  apply sanitize_In in Hin as [_ Hwd]. now rewrite Hnd, orb_false_r in Hwd.
Qed.

Lemma cased_words_inert value sep :
  forallb inert_char sep = true -> (forall c, In c sep -> lower_c c = [c]) ->
  forallb inert_char (lower (join sep (split_words (sanitize value)))) = true.
Proof.
  intros Hsep Hfix. unfold lower. apply forallb_forall. intros d Hd.
  apply in_flat_map in Hd as [c [Hc Hd]].
  apply join_In in Hc as [Hc|[w [Hw Hc]]].
  - rewrite (Hfix _ Hc) in Hd. destruct Hd as [<-|[]].
    rewrite forallb_forall in Hsep. now apply Hsep.
  - pose proof (lower_c_inert c (word_of_split _ _ _ Hw Hc)) as Hl.
    rewrite forallb_forall in Hl. now apply Hl.
Qed.

Lemma snake_inert value : forallb inert_char (snake_case value) = true.
Proof.
  unfold snake_case. apply cased_words_inert.
  - cbn [forallb]. destruct fact_prefix_inert as (_ & -> & _). reflexivity.
  - intros c [<-|[]]. apply fact_seps_fixed.
Qed.

Lemma kebab_inert value : forallb inert_char (kebab_case value) = true.
Proof.
  unfold kebab_case. apply cased_words_inert.
  - cbn [forallb]. destruct fact_prefix_inert as (_ & _ & ->). reflexivity.
  - intros c [<-|[]]. apply fact_seps_fixed.
Qed.

Lemma fix_reserved_inert s : forallb inert_char s = true -> forallb inert_char (fix_reserved s) = true.
Proof.
  intro H. unfold fix_reserved. destruct (_ || _); [|exact H].
  rewrite forallb_app, H. cbn [forallb]. destruct fact_prefix_inert as (_ & -> & _). reflexivity.
Qed.

Lemma lower_inert s : forallb is_word s = true -> forallb inert_char (lower s) = true.
Proof.
  intros H. unfold lower. apply forallb_flat_map. intros c Hc.
  apply lower_c_inert. rewrite forallb_forall in H. now apply H.
Qed.

Lemma pascal_inert value : forallb inert_char (pascal_case value) = true.
Proof.
  unfold pascal_case. apply forallb_flat_map. intros w Hw.
  assert (Hword : forallb is_word w = true).
  { apply forallb_forall. intros c Hc. exact (word_of_split _ _ _ Hw Hc). }
  destruct (s_isupper w).
  - apply forallb_forall. intros c Hc. apply word_inert. rewrite forallb_forall in Hword. now apply Hword.
  - unfold capitalize. destruct w as [|c r]; [reflexivity|].
    cbn [forallb] in Hword. apply andb_prop in Hword as [Hc Hr].
    rewrite forallb_app. rewrite (title_c_inert c Hc). cbn [andb]. now apply lower_inert.
Qed.

Lemma upper_inert s : forallb inert_char s = true -> forallb inert_char (upper s) = true.
Proof.
  intros H. unfold upper. apply forallb_flat_map. intros c Hc.
  apply upper_c_inert. rewrite forallb_forall in H. now apply H.
Qed.

Theorem ident_image_inert sa p : ident_san sa = true -> forallb inert_char (image sa p) = true.
Proof.
  destruct sa; try discriminate; intros _; cbn [image].
  - (* SSnake *) unfold python_identifier.
    assert (Hx : forallb inert_char (fix_reserved (snake_case (sanitize p))) = true) by apply fix_reserved_inert, snake_inert.
    destruct (_ || _); [|exact Hx]. rewrite forallb_app, Hx. destruct fact_prefix_inert as (-> & _). reflexivity.
  - (* SPascal *) unfold class_name.
    destruct (negb _); apply fix_reserved_inert, pascal_inert.
  - (* SKebab *) apply kebab_inert.
  - (* SUpperSnake *) apply upper_inert, snake_inert.
Qed.

Lemma inert_path c : inert_char c = true -> path_char c = true.
Proof.
  unfold inert_char. intros H. apply orb_true_iff in H as [H|H]; [apply orb_true_iff in H as [H|H]|].
  - apply N.leb_le in H. unfold path_char. apply negb_true_iff.
    cbn [memN existsb]. repeat (apply orb_false_iff; split); try reflexivity; apply N.eqb_neq; lia.
  - now apply word_path_char.
  - apply N.eqb_eq in H. subst c. reflexivity.
Qed.

Lemma path_char_spec c : path_char c = true -> c <> 0 /\ c <> 34 /\ c <> 39 /\ c <> 92 /\ c <> 10 /\ c <> 13.
Proof.
  unfold path_char. intros H. apply negb_true_iff in H. cbn [memN existsb] in H.
  repeat (apply orb_false_iff in H; destruct H as [? H]).
  repeat match goal with X : (_ =? _) = false |- _ => apply N.eqb_neq in X end.
  repeat split; assumption.
Qed.

Lemma inert_plain q s : (q = DQ \/ q = SQ) -> forallb inert_char s = true -> plain q s = true.
Proof.
  intros Hq H. unfold plain. apply forallb_forall. intros c Hc.
  rewrite forallb_forall in H. specialize (H c Hc). apply inert_path, path_char_spec in H.
  destruct H as (H0 & H34 & H39 & H92 & H10 & H13).
  unfold plainc, BS, NL, CR. apply negb_true_iff.
  repeat (apply orb_false_iff; split); apply N.eqb_neq; try assumption.
  destruct Hq; subst q; assumption.
Qed.

Lemma inert_no_dq s : forallb inert_char s = true -> forallb (fun c => negb (c =? DQ)) s = true.
Proof.
  intros H. apply forallb_forall. intros c Hc. rewrite forallb_forall in H.
  specialize (H c Hc). apply inert_path, path_char_spec in H. apply negb_true_iff, N.eqb_neq. tauto.
Qed.

Lemma plain_lit_value q s : plain q s = true -> lit_value q s = Some s.
Proof. intros H. unfold lit_value. now rewrite (lex_body_plain_self q s H). Qed.

(* ---------- what "re-lexes to data" means per context ---------- *)

Definition lit_expected (sa : san) (p : str) : str := if ident_san sa then image sa p else site_value sa p.

Definition lit_ok (q : N) (img v : str) : Prop :=
  forall pre post rest, plain q pre = true -> plain q post = true ->
    lex_body q (pre ++ img ++ post ++ q :: rest) = Some (pre ++ v ++ post, rest).

Definition doc_ok (img : str) : Prop :=
  forall pre x y post rest, x <> DQ -> y <> DQ -> has_triple pre = false -> has_triple post = false ->
    lex_docstring (safe_docstring (pre ++ x :: img ++ y :: post) ++ rest) = Some ([32] ++ (pre ++ x :: img ++ y :: post) ++ [32], rest).

(* a name token: identifier-class images are inert; PythonIdentifier images (snake-cased, or raw-name fallback inside its guard) are valid
   non-keyword identifiers; validated slots only carry letters, digits, underscore, dash *)
Definition name_ok (sa : san) (p : str) : Prop :=
  let img := image sa p in
  (ident_san sa = true -> forallb inert_char img = true) /\
  ((sa = SSnake \/ sa = SSanitize) -> is_identifier img = true /\ mem_str img keywords = false) /\
  (sa = SRejects -> forallb pathparam_char img = true).

Definition emitted_ok (s : site) (p : str) : Prop :=
  let sa := s_san s in
  let img := image sa p in
  match s_ctx s with
  | CIdent | CPath => name_ok sa p
  | CDQ => lit_ok DQ img (lit_expected sa p)
  | CTomlBasic => forall pre post rest, plain DQ pre = true -> plain DQ post = true ->
                    lex_toml_basic (pre ++ img ++ post ++ DQ :: rest) = Some (pre ++ lit_expected sa p ++ post, rest)
  | CFstrDQ => no_brace img = true /\ exists v, lit_ok DQ img v
  | CSQ => match sa with
           | SRepr | SReprEsc => forall rest, lex_string (img ++ rest) = Some (site_value sa p, rest)
           | _ => lit_ok SQ img (lit_expected sa p)
           end
  | CDoc | CDocCooked => doc_ok img
  | CNumber => sa = SNumber /\ forallb number_char img = true
  | CMarkdown => True
  | CComment | CCode | CUnknown => False
  end.

Lemma ident_lit_ok q sa p : (q = DQ \/ q = SQ) -> ident_san sa = true -> lit_ok q (image sa p) (image sa p).
Proof.
  intros Hq Hi pre post rest. apply lit_site, plain_lit_value, inert_plain; [exact Hq|].
  now apply ident_image_inert.
Qed.

Lemma ident_doc_ok sa p : ident_san sa = true -> doc_ok (image sa p).
Proof.
  intros Hi pre x y post rest. apply doc_site, no_dq_no_triple, inert_no_dq. now apply ident_image_inert.
Qed.

Lemma guard_lit_ok q img v : lit_guard q img v = true -> lit_ok q img v.
Proof. intros H pre post rest. apply lit_site, lit_guard_value, H. Qed.

Lemma guard_doc_ok img : negb (has_triple img) && no_nul img = true -> doc_ok img.
Proof. intros H pre x y post rest. apply andb_prop in H as [H _]. apply doc_site. now apply negb_true_iff. Qed.

Lemma ident_name_ok sa p : ident_san sa = true -> g_xid p = true -> name_ok sa p.
Proof.
  intros Hi Hg. split; [intros _; now apply ident_image_inert|]. split.
  - intros [->| ->]; [|discriminate Hi]. cbn [image]. apply python_identifier_valid; [exact fact_field_prefix_good | exact Hg].
  - intros ->. discriminate Hi.
Qed.

Lemma sanitize_name_ok p :
  is_identifier (image SSanitize p) && negb (mem_str (image SSanitize p) keywords) = true -> name_ok SSanitize p.
Proof.
  intros H. apply andb_prop in H as [H1 H2]. apply negb_true_iff in H2.
  split; [discriminate|]. split; [intros _; now split | discriminate].
Qed.

Lemma rejects_name_ok p : forallb pathparam_char p = true -> name_ok SRejects p.
Proof. intros H. split; [discriminate|]. split; [intros [E|E]; discriminate E | intros _; exact H]. Qed.

Lemma pathparam_spec c : pathparam_char c = true -> c <> 0 /\ c <> 34 /\ c <> 39 /\ c <> 92 /\ c <> 10 /\ c <> 13.
Proof.
  unfold pathparam_char. intros H.
  repeat (apply orb_true_iff in H; destruct H as [H|H]);
    try (apply andb_prop in H as [Ha Hb]; apply N.leb_le in Ha, Hb; repeat split; lia);
    apply N.eqb_eq in H; subst c; repeat split; discriminate.
Qed.

Lemma pathparam_plain q s : (q = DQ \/ q = SQ) -> forallb pathparam_char s = true -> plain q s = true.
Proof.
  intros Hq H. unfold plain. apply forallb_forall. intros c Hc.
  rewrite forallb_forall in H. specialize (H c Hc). apply pathparam_spec in H.
  destruct H as (H0 & H34 & H39 & H92 & H10 & H13).
  unfold plainc, BS, NL, CR. apply negb_true_iff.
  repeat (apply orb_false_iff; split); apply N.eqb_neq; try assumption.
  destruct Hq; subst q; assumption.
Qed.

Lemma rejects_lit_ok q p : (q = DQ \/ q = SQ) -> forallb pathparam_char p = true -> lit_ok q p p.
Proof. intros Hq H pre post rest. apply lit_site, plain_lit_value, pathparam_plain; assumption. Qed.

Lemma number_doc_ok p : forallb number_char p = true -> doc_ok p.
Proof.
  intros H pre x y post rest. apply doc_site, no_dq_no_triple.
  apply forallb_forall. intros c Hc. rewrite forallb_forall in H. specialize (H c Hc).
  apply negb_true_iff, N.eqb_neq. intros ->. discriminate H.
Qed.

Lemma rejects_doc_ok p : forallb pathparam_char p = true -> doc_ok p.
Proof.
  intros H pre x y post rest. apply doc_site, no_dq_no_triple.
  apply forallb_forall. intros c Hc. rewrite forallb_forall in H. specialize (H c Hc).
  apply pathparam_spec in H. apply negb_true_iff, N.eqb_neq. tauto.
Qed.

(* THE site theorem: an acceptable site, a payload inside its guard: the emitted text is data *)
Theorem site_sound : forall s p, site_safe s = true -> slot_guard s p = true -> emitted_ok s p.
Proof.
  intros [slot file c sa] p Hsafe Hg.
  unfold emitted_ok, slot_guard, site_safe in *. cbn [s_ctx s_san] in *.
  destruct c; try exact I;
    try (destruct sa; cbn [site_class ident_san] in Hsafe; discriminate Hsafe).
  - (* CIdent *)
    destruct sa; cbn [site_class ident_san] in Hsafe, Hg; try discriminate Hsafe;
      first [ now apply ident_name_ok | now apply sanitize_name_ok | now apply rejects_name_ok ].
  - (* CPath *)
    destruct sa; cbn [site_class ident_san] in Hsafe, Hg; try discriminate Hsafe;
      first [ now apply ident_name_ok | now apply sanitize_name_ok | now apply rejects_name_ok ].
  - (* CDQ *)
    destruct sa; cbn [site_class ident_san] in Hsafe, Hg; try discriminate Hsafe;
      unfold lit_expected; cbn [ident_san];
      first [ apply andb_prop in Hg as [Hg _]; now apply guard_lit_ok | now apply ident_lit_ok; [left|] | now apply rejects_lit_ok; [left|] ].
  - (* CSQ *)
    destruct sa; cbn [site_class ident_san] in Hsafe, Hg; try discriminate Hsafe;
      unfold lit_expected; cbn [ident_san];
      first [ now apply whole_site | apply andb_prop in Hg as [Hg _]; now apply guard_lit_ok | now apply ident_lit_ok; [right|] | now apply rejects_lit_ok; [right|] ].
  - (* CDoc *)
    destruct sa; cbn [site_class ident_san] in Hsafe, Hg; try discriminate Hsafe;
      first [ now apply guard_doc_ok | now apply ident_doc_ok | now apply rejects_doc_ok | now apply number_doc_ok ].
  - (* CDocCooked *)
    destruct sa; cbn [site_class ident_san] in Hsafe, Hg; try discriminate Hsafe; now apply ident_doc_ok.
  - (* CFstrDQ *)
    destruct sa; cbn [site_class ident_san] in Hsafe, Hg; try discriminate Hsafe;
      apply andb_prop in Hg as [Hg _]; apply andb_prop in Hg as [Hi Hb]; (split; [exact Hb|]);
      apply lit_inert_value in Hi as [v Hv]; exists v; intros pre post rest; now apply lit_site.
  - (* CTomlBasic *)
    unfold lex_toml_basic.
    destruct sa; cbn [site_class ident_san] in Hsafe, Hg; try discriminate Hsafe;
      unfold lit_expected; cbn [ident_san];
      first [ apply andb_prop in Hg as [Hg _]; apply andb_prop in Hg as [Hg _]; now apply guard_lit_ok | now apply ident_lit_ok; [left|] ].
  - (* CNumber *)
    destruct sa; cbn [site_class ident_san] in Hsafe, Hg; try discriminate Hsafe. now split.
Qed.

(* the regenerated table: every site of the generator under verification is acceptable *)
Theorem all_sites_safe : forallb site_safe gen_sites = true.
Proof. vm_compute. reflexivity. Qed.

Theorem every_site_sound : forall s p, In s gen_sites -> slot_guard s p = true -> emitted_ok s p.
Proof.
  intros s p Hin Hg. apply site_sound; [|exact Hg].
  pose proof all_sites_safe as H. rewrite forallb_forall in H. now apply H.
Qed.

(* ---------- which payloads the guards accept (syntactic sufficient conditions, from PyLitThm) ---------- *)

Definition mk (c : ctx) (sa : san) (slot file : string) : site := {| s_slot := slot; s_file := file; s_ctx := c; s_san := sa |}.

Lemma escape_dq_existsb (f : N -> bool) p : f 92 = false -> existsb f (escape_dq p) = existsb f p.
Proof.
  intros H92. induction p as [|c p IH]; [reflexivity|].
  rewrite escape_dq_cons, existsb_app, IH. destruct (N.eqb_spec c 34) as [->|NE]; cbn [existsb]; [rewrite H92, orb_false_r; reflexivity | now rewrite orb_false_r].
Qed.

Lemma escape_dq_no_linesep p : no_linesep (escape_dq p) = no_linesep p.
Proof. unfold no_linesep. f_equal. now apply escape_dq_existsb. Qed.

Theorem guard_dq_esc slot file p : no_bs_nl p = true -> no_linesep p = true -> slot_guard (mk CDQ SEsc slot file) p = true.
Proof.
  intros H Hl. cbn -[no_linesep]. rewrite escape_dq_no_linesep, Hl. unfold lit_guard, lit_value.
  rewrite (dq_literal_roundtrip p [] H). now rewrite str_eqb_refl.
Qed.

Theorem guard_dq_none slot file p : plain_dq p = true -> no_linesep p = true -> slot_guard (mk CDQ SNone slot file) p = true.
Proof.
  intros H Hl. cbn -[no_linesep]. rewrite Hl. unfold lit_guard, lit_value.
  rewrite (raw_in_dq p [] H). now rewrite str_eqb_refl.
Qed.

Theorem guard_sq_repr slot file p : repr_printable p = true -> slot_guard (mk CSQ SRepr slot file) p = true.
Proof.
  intros H. cbn. unfold whole_guard.
  rewrite (repr_roundtrip_printable p H). apply str_eqb_refl.
Qed.

Lemma escape_dq_no_nul p : no_nul (escape_dq p) = no_nul p.
Proof.
  unfold no_nul. f_equal. induction p as [|c p IH]; [reflexivity|].
  rewrite escape_dq_cons, existsb_app, IH. destruct (N.eqb_spec c 34) as [->|NE]; cbn [existsb]; [reflexivity | now rewrite orb_false_r].
Qed.

Theorem guard_doc_esc slot file p : no_nul p = true -> slot_guard (mk CDoc SEsc slot file) p = true.
Proof. intros H. cbn -[no_nul]. now rewrite escape_dq_no_triple, escape_dq_no_nul, H. Qed.

Theorem guard_doc_none slot file p : has_triple p = false -> no_nul p = true -> slot_guard (mk CDoc SNone slot file) p = true.
Proof. intros H H0. cbn -[no_nul]. now rewrite H, H0. Qed.

Theorem guard_ident slot file c sa p : ident_san sa = true -> g_xid p = true -> slot_guard (mk c sa slot file) p = true.
Proof. intros Hi Hg. unfold slot_guard. cbn [mk s_san s_ctx]. rewrite Hi. destruct c; try reflexivity; exact Hg. Qed.

(* non-vacuity: a non-trivial payload inside each guard *)
Example guard_examples :
  slot_guard (mk CDQ SEsc "n" "f") (s2l "say ""hi"" {x} # 'y'") = true /\
  slot_guard (mk CDoc SNone "d" "f") (s2l "He said ""hi"" and \ left") = true /\
  slot_guard (mk CSQ SReprEsc "d" "f") (s2l "it's ""quoted"" \ here") = true /\
  slot_guard (mk CTomlBasic SEsc "t" "f") (s2l "My ""API""") = true /\
  slot_guard (mk CFstrDQ SEsc "k" "f") (s2l "plain name") = true.
Proof. vm_compute. repeat split; reflexivity. Qed.

(* ---------- refutation witnesses: one per known finding ---------- *)

(* desc_code_exec: an unescaped description containing a triple quote ends the docstring; the rest of the text is lexed as code *)
Theorem desc_code_exec_refuted : exists p v r,
  slot_guard (mk CDoc SNone "Schema.description@model" "models/*.py") p = false /\
  lex_docstring (safe_docstring p) = Some (v, r) /\ r = s2l (String (ascii_of_N 10) "import os" ++ String (ascii_of_N 10) """"""" """"""")%string.
Proof.
  exists (s2l ("x """"""" ++ String (ascii_of_N 10) "import os" ++ String (ascii_of_N 10) """""""")%string).
  eexists. eexists. split; [vm_compute; reflexivity|]. split; vm_compute; reflexivity.
Qed.

(* meta_injection: info.version is interpolated raw into pyproject.toml / setup.py *)
Theorem meta_injection_refuted : exists p v r,
  slot_guard (mk CTomlBasic SNone "Info.version" "pyproject.toml") p = false /\
  slot_guard (mk CDQ SNone "Info.version" "setup.py") p = false /\
  lex_toml_basic (p ++ [DQ]) = Some (v, r) /\ r <> [].
Proof.
  exists (s2l ("1""" ++ String (ascii_of_N 10) "evil = ""x")%string).
  eexists. eexists. split; [vm_compute; reflexivity|]. split; [vm_compute; reflexivity|].
  split; [vm_compute; reflexivity|]. discriminate.
Qed.

(* path_injection / content_type_injection: the path and the media type are interpolated raw into a double-quoted literal *)
Theorem path_injection_refuted : exists p v r,
  slot_guard (mk CDQ SNone "OpenAPI.paths.key" "api/*/*.py") p = false /\
  slot_guard (mk CDQ SNone "RequestBody.content.key@param" "api/*/*.py") p = false /\
  lex_body DQ (p ++ [DQ]) = Some (v, r) /\ r <> [].
Proof.
  exists (s2l "/a"" + __import__('os').system('id') + """).
  eexists. eexists. split; [vm_compute; reflexivity|]. split; [vm_compute; reflexivity|].
  split; [vm_compute; reflexivity|]. discriminate.
Qed.

(* hand-quoted defaults (the OLD emission rule of the uuid kind, finding uuid_default_whitespace, since repaired; and the rule a change could
   reintroduce for any validated kind): the text UUID() / isoparse accept can carry a newline resp. a quote, which a hand-quoted literal does not
   survive, so NO hand-quoted default site is acceptable; the same texts are data when emitted through repr *)
Theorem handquoted_default_refuted :
  slot_guard (mk CSQ SNone "Schema.default@prop-uuid" "models/*.py") (10 :: s2l "0000000-aaaa-4bbb-8ccc-dddddddddddd") = false /\
  lex_body SQ ((10 :: s2l "0000000-aaaa-4bbb-8ccc-dddddddddddd") ++ [SQ]) = None /\
  slot_guard (mk CSQ SNone "Schema.default@prop-datetime" "models/*.py") (s2l "2020-01-01'10:00:00") = false /\
  site_safe (mk CSQ SNone "Schema.default@prop-uuid" "models/*.py") = false /\
  site_safe (mk CSQ SNone "Schema.default@query-uuid" "api/*/*.py") = false /\
  site_safe (mk CSQ SNone "Schema.default@prop-datetime" "models/*.py") = false /\
  site_safe (mk CSQ SNone "Schema.default@query-datetime" "api/*/*.py") = false /\
  site_safe (mk CSQ SNone "Schema.default@prop-date" "models/*.py") = false /\
  site_safe (mk CSQ SRepr "Schema.default@prop-uuid" "models/*.py") = true /\
  site_safe (mk CSQ SRepr "Schema.default@prop-datetime" "models/*.py") = true /\
  slot_guard (mk CSQ SRepr "Schema.default@prop-uuid" "models/*.py") (10 :: s2l "0000000-aaaa-4bbb-8ccc-dddddddddddd") = true /\
  slot_guard (mk CSQ SRepr "Schema.default@prop-datetime" "models/*.py") (s2l "2020-01-01'10:00:00") = true.
Proof. vm_compute. repeat split; reflexivity. Qed.

(* raw_fallback: the raw-name fallback keeps the delimiters space, dash, dot; every other symbol is removed *)
Theorem raw_fallback_site_refuted :
  slot_guard (mk CIdent SSanitize "Schema.properties.key@collide" "models/*.py") (s2l "user-id") = false /\
  site_finding (mk CIdent SSanitize "Schema.properties.key@collide" "models/*.py") (s2l "user-id") = "raw_fallback"%string /\
  slot_guard (mk CIdent SSanitize "Schema.properties.key@collide" "models/*.py") (s2l "userId;#()=""'") = true /\
  image SSanitize (s2l "userId;#()=""'") = s2l "userId".
Proof. vm_compute. repeat split; reflexivity. Qed.

(* nul_char: a NUL character in unescaped or quote-escaped text reaches the file *)
Theorem nul_char_refuted :
  slot_guard (mk CDoc SEsc "Operation.description" "api/*/*.py") [97; 0] = false /\
  slot_guard (mk CDQ SEsc "Schema.properties.key@model" "models/*.py") [97; 0] = false.
Proof. vm_compute. repeat split; reflexivity. Qed.

(* linesep_newline: the indent filter turns a line separator inside an escaped name into a real newline *)
Theorem linesep_newline_refuted :
  slot_guard (mk CDQ SEsc "Schema.properties.key@model" "models/*.py") [97; 8232; 98] = false /\
  no_bs_nl [97; 8232; 98] = true /\
  lex_body DQ ([97; 10; 98] ++ [DQ]) = None.
Proof. vm_compute. repeat split; reflexivity. Qed.

(* name_backslash: remove_string_escapes does not escape a backslash or a newline *)
Theorem name_backslash_refuted :
  slot_guard (mk CDQ SEsc "Schema.properties.key@model" "models/*.py") [97; 92] = false /\
  lex_body DQ (escape_dq [97; 92] ++ [DQ]) = None /\
  slot_guard (mk CDQ SEsc "Schema.properties.key@model" "models/*.py") [97; 10; 98] = false /\
  lex_body DQ (escape_dq [97; 10; 98] ++ [DQ]) = None.
Proof. vm_compute. repeat split; reflexivity. Qed.

(* const_fstring: the property name and the const value are interpolated into an f-string *)
Theorem const_fstring_refuted :
  slot_guard (mk CFstrDQ SEsc "Schema.properties.key@const" "models/*.py") (s2l "{__import__('os')}") = false /\
  no_bs_nl (s2l "{__import__('os')}") = true /\
  slot_guard (mk CFstrDQ SReprEsc "Schema.const@prop" "models/*.py") (s2l "x""y") = false /\
  (exists v r, lex_body DQ (image SReprEsc (s2l "x""y") ++ [DQ]) = Some (v, r) /\ r <> []).
Proof.
  split; [vm_compute; reflexivity|]. split; [vm_compute; reflexivity|]. split; [vm_compute; reflexivity|].
  eexists. eexists. split; [vm_compute; reflexivity|]. discriminate.
Qed.

(* default_not_verbatim: a string default / const containing a double quote is data, but not the declared text *)
Theorem default_not_verbatim_refuted : exists p,
  slot_guard (mk CSQ SReprEsc "Schema.default@prop-string" "models/*.py") p = true /\
  slot_verbatim (mk CSQ SReprEsc "Schema.default@prop-string" "models/*.py") p = false /\
  lex_string (image SReprEsc p) = Some (escape_dq p, []) /\ escape_dq p <> p.
Proof.
  exists (s2l "a""b"). split; [vm_compute; reflexivity|]. split; [vm_compute; reflexivity|].
  split; [vm_compute; reflexivity|]. discriminate.
Qed.

(* each narrow site of the table is tied to a finding id; an unlisted narrow site, a raw interpolation in code or a comment are rejected *)
Example unlisted_sites_rejected :
  site_safe (mk CDQ SNone "Operation.operationId" "api/*/*.py") = false /\
  site_safe (mk CDoc SNone "Operation.description" "api/*/*.py") = false /\
  site_safe (mk CComment SEsc "Operation.description" "api/*/*.py") = false /\
  site_safe (mk CCode SNone "Schema.default@prop-string" "models/*.py") = false /\
  site_safe (mk CDQ SNone "Schema.enum.item@component" "models/*.py") = false /\
  site_safe (mk CDQ SNone "Schema.enum.item@component-positional" "models/*.py") = false /\
  site_safe (mk CDocCooked SEsc "Operation.description" "api/*/*.py") = false /\
  site_safe (mk CIdent SSanitize "Operation.operationId" "api/*/*.py") = false /\
  site_safe (mk CIdent SEsc "Schema.properties.key@collide" "models/*.py") = false /\
  site_safe (mk CUnknown SUnknown "x" "y") = false.
Proof. vm_compute. repeat split; reflexivity. Qed.

Print Assumptions site_sound.
Print Assumptions all_sites_safe.
Print Assumptions every_site_sound.
Print Assumptions ident_image_inert.
