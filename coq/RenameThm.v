(* RenameThm.v — proofs for Rename.v (property C18). *)
From Coq Require Import NArith ZArith List Bool Lia.
Import ListNotations.
Require Import OPC.gen.GenTables OPC.gen.GenKinds OPC.gen.GenNames OPC.Uni OPC.Names OPC.NamesThm OPC.MapsThm OPC.Codec OPC.Types OPC.Endpoint OPC.EndpointThm OPC.Rename.
Open Scope N_scope.

Definition inj_on (rho : var -> var) (U : list var) : Prop :=
  forall x y, In x U -> In y U -> rho x = rho y -> x = y.

Lemma inj_on_incl rho U U' : incl U' U -> inj_on rho U -> inj_on rho U'.
Proof. intros Hi H x y Hx Hy. apply H; apply Hi; assumption. Qed.

(* ================================================================== custom induction principle (ECall nests lists) *)
Section ExprInd.
  Variable P : expr -> Prop.
  Hypothesis HVar : forall x, P (EVar x).
  Hypothesis HConst : forall c, P (EConst c).
  Hypothesis HAttr : forall e a, P e -> P (EAttr e a).
  Hypothesis HGet : forall e k, P e -> P (EGet e k).
  Hypothesis HPop : forall d k dflt, P (EPop d k dflt).
  Hypothesis HCall : forall f args, Forall P args -> P (ECall f args).
  Hypothesis HIs : forall e t, P e -> P (EIsInst e t).
  Fixpoint expr_ind' (e : expr) : P e :=
    match e with
    | EVar x => HVar x
    | EConst c => HConst c
    | EAttr e1 a => HAttr e1 a (expr_ind' e1)
    | EGet e1 k => HGet e1 k (expr_ind' e1)
    | EPop d k dflt => HPop d k dflt
    | ECall f args => HCall f args ((fix go (l : list expr) : Forall P l :=
                                       match l with [] => Forall_nil P | a :: r => Forall_cons a (expr_ind' a) (go r) end) args)
    | EIsInst e1 t => HIs e1 t (expr_ind' e1)
    end.
End ExprInd.

(* ================================================================== the alpha-renaming theorem on the IR *)
Section Alpha.
  Variable V : Type.
  Variable O : ops V.
  Variable rho : var -> var.

  Lemma lookup_ren (en : env V) U x : inj_on rho U -> incl (keys en) U -> In x U ->
    lookup (ren_env rho en) (rho x) = lookup en x.
  Proof.
    intros Hinj. induction en as [|[k v] en IH]; intros Hk Hx; [reflexivity|].
    cbn [ren_env map lookup fst snd]. cbn [keys map fst] in Hk.
    assert (Hku : In k U) by (apply Hk; now left).
    assert (Hr : incl (keys en) U) by (intros z Hz; apply Hk; now right).
    destruct (str_eqb k x) eqn:E.
    - apply str_eqb_eq in E. subst. now rewrite str_eqb_refl.
    - rewrite str_eqb_neq.
      + apply IH; assumption.
      + intro E2. apply Hinj in E2; auto. subst. rewrite str_eqb_refl in E. discriminate.
  Qed.

  Lemma keys_upd x (v : V) en : keys (upd x v en) = x :: keys en.
  Proof. reflexivity. Qed.

  Lemma incl_upd U x (v : V) en : In x U -> incl (keys en) U -> incl (keys (upd x v en)) U.
  Proof. intros Hx Hk z [<-|Hz]; auto. Qed.

  Definition eval_ok (e : expr) : Prop :=
    forall (en : env V) U, incl (evars e) U -> incl (keys en) U -> inj_on rho U ->
      eval O (ren_expr rho e) (ren_env rho en) = (ren_env rho (fst (eval O e en)), snd (eval O e en))
      /\ incl (keys (fst (eval O e en))) U.

  Lemma eval_list_ok args : Forall eval_ok args ->
    forall (en : env V) U, incl (flat_map evars args) U -> incl (keys en) U -> inj_on rho U ->
      eval_list (eval O) (map (ren_expr rho) args) (ren_env rho en)
        = (ren_env rho (fst (eval_list (eval O) args en)), snd (eval_list (eval O) args en))
      /\ incl (keys (fst (eval_list (eval O) args en))) U.
  Proof.
    induction 1 as [|a r Ha _ IH]; intros en U Hv Hk Hinj.
    - cbn. auto.
    - cbn [flat_map] in Hv. apply incl_app_inv in Hv as [Hva Hvr].
      destruct (Ha en U Hva Hk Hinj) as [Ea Ka].
      cbn [map eval_list]. rewrite Ea.
      destruct (eval O a en) as [en1 [va|]] eqn:E1; cbn [fst snd] in *.
      + destruct (IH en1 U Hvr Ka Hinj) as [Er Kr]. rewrite Er.
        destruct (eval_list (eval O) r en1) as [en2 rr]. cbn [fst snd] in *. auto.
      + auto.
  Qed.

  Lemma eval_ren : forall e, eval_ok e.
  Proof.
    induction e using expr_ind'; unfold eval_ok in *; intros en U Hv Hk Hinj.
    - (* EVar *) cbn [ren_expr eval fst snd]. split; [|exact Hk].
      rewrite (lookup_ren en U) by (auto; apply Hv; now left). reflexivity.
    - cbn. auto.
    - cbn [ren_expr eval evars] in *. destruct (IHe en U Hv Hk Hinj) as [E K]. rewrite E.
      destruct (eval O e en) as [en1 r]. cbn [fst snd] in *. auto.
    - cbn [ren_expr eval evars] in *. destruct (IHe en U Hv Hk Hinj) as [E K]. rewrite E.
      destruct (eval O e en) as [en1 r]. cbn [fst snd] in *. auto.
    - (* EPop *) cbn [ren_expr eval evars] in *.
      assert (Hd : In d U) by (apply Hv; now left).
      rewrite (lookup_ren en U) by auto.
      destruct (lookup en d) as [dv|]; [|cbn; auto].
      destruct (o_pop O dv k) as [[v dv']|]; cbn [fst snd]; split; auto.
      apply incl_upd; auto.
    - (* ECall *) cbn [ren_expr eval evars] in *.
      destruct (eval_list_ok args H en U Hv Hk Hinj) as [E K]. rewrite E.
      destruct (eval_list (eval O) args en) as [en1 r]. cbn [fst snd] in *. auto.
    - cbn [ren_expr eval evars] in *. destruct (IHe en U Hv Hk Hinj) as [E K]. rewrite E.
      destruct (eval O e en) as [en1 r]. cbn [fst snd] in *. auto.
  Qed.

  Definition res_keys (r : res V) (U : list var) : Prop :=
    match r with RNorm en | RExc en => incl (keys en) U | RRet _ => True end.

  Lemma loop_ren (body : stmt) x U :
    (forall en, incl (keys en) U -> exec O (ren_stmt rho body) (ren_env rho en) = map_res (ren_env rho) (exec O body en) /\ res_keys (exec O body en) U) ->
    In x U ->
    forall items en, incl (keys en) U ->
      loop (exec O (ren_stmt rho body)) (rho x) items (ren_env rho en) = map_res (ren_env rho) (loop (exec O body) x items en)
      /\ res_keys (loop (exec O body) x items en) U.
  Proof.
    intros Hb Hx. induction items as [|it r IH]; intros en Hk.
    - cbn. auto.
    - cbn [loop].
      change (upd (rho x) it (ren_env rho en)) with (ren_env rho (upd x it en)).
      destruct (Hb (upd x it en)) as [E K]; [apply incl_upd; auto|]. rewrite E.
      destruct (exec O body (upd x it en)) as [en'|v|en']; cbn [map_res res_keys] in *; auto.
  Qed.

  Lemma exec_ren : forall s (en : env V) U, incl (svars s) U -> incl (keys en) U -> inj_on rho U ->
    exec O (ren_stmt rho s) (ren_env rho en) = map_res (ren_env rho) (exec O s en) /\ res_keys (exec O s en) U.
  Proof.
    induction s; intros en U Hv Hk Hinj; cbn [ren_stmt exec svars] in *.
    - (* SSkip *) cbn. auto.
    - (* SSeq *) apply incl_app_inv in Hv as [Hva Hvb].
      destruct (IHs1 en U Hva Hk Hinj) as [E K]. rewrite E.
      destruct (exec O s1 en) as [en1|v|en1]; cbn [map_res res_keys] in *; auto.
    - (* SAssign *) assert (Hx : In x U) by (apply Hv; now left).
      assert (Hve : incl (evars e) U) by (intros z Hz; apply Hv; now right).
      destruct (eval_ren e en U Hve Hk Hinj) as [E K]. rewrite E.
      destruct (eval O e en) as [en1 [v|]]; cbn [fst snd map_res res_keys] in *; auto.
      split; [reflexivity|apply incl_upd; auto].
    - (* SAppend *) assert (Hx : In l U) by (apply Hv; now left).
      assert (Hve : incl (evars e) U) by (intros z Hz; apply Hv; now right).
      destruct (eval_ren e en U Hve Hk Hinj) as [E K]. rewrite E.
      destruct (eval O e en) as [en1 [v|]]; cbn [fst snd map_res res_keys] in *; auto.
      rewrite (lookup_ren en1 U) by auto.
      destruct (lookup en1 l) as [lv|]; cbn [map_res res_keys]; auto.
      destruct (o_append O lv v); cbn [map_res res_keys]; auto.
      split; [reflexivity|apply incl_upd; auto].
    - (* SSetKey *) assert (Hx : In d U) by (apply Hv; now left).
      assert (Hve : incl (evars e) U) by (intros z Hz; apply Hv; now right).
      destruct (eval_ren e en U Hve Hk Hinj) as [E K]. rewrite E.
      destruct (eval O e en) as [en1 [v|]]; cbn [fst snd map_res res_keys] in *; auto.
      rewrite (lookup_ren en1 U) by auto.
      destruct (lookup en1 d) as [lv|]; cbn [map_res res_keys]; auto.
      destruct (o_setkey O lv k v); cbn [map_res res_keys]; auto.
      split; [reflexivity|apply incl_upd; auto].
    - (* SSetItem *) assert (Hx : In d U) by (apply Hv; now left).
      assert (Hvr : incl (evars k ++ evars e) U) by (intros z Hz; apply Hv; now right).
      apply incl_app_inv in Hvr as [Hvk Hve].
      destruct (eval_ren e en U Hve Hk Hinj) as [E K]. rewrite E.
      destruct (eval O e en) as [en1 [v|]]; cbn [fst snd map_res res_keys] in *; auto.
      destruct (eval_ren k en1 U Hvk K Hinj) as [E2 K2]. rewrite E2.
      destruct (eval O k en1) as [en2 [kv|]]; cbn [fst snd map_res res_keys] in *; auto.
      rewrite (lookup_ren en2 U) by auto.
      destruct (lookup en2 d) as [lv|]; cbn [map_res res_keys]; auto.
      destruct (o_setitem O lv kv v); cbn [map_res res_keys]; auto.
      split; [reflexivity|apply incl_upd; auto].
    - (* SExpr *) destruct (eval_ren e en U Hv Hk Hinj) as [E K]. rewrite E.
      destruct (eval O e en) as [en1 [v|]]; cbn [fst snd map_res res_keys] in *; auto.
    - (* SIf *) apply incl_app_inv in Hv as [Hvc Hvr]. apply incl_app_inv in Hvr as [Hva Hvb].
      destruct (eval_ren c en U Hvc Hk Hinj) as [E K]. rewrite E.
      destruct (eval O c en) as [en1 [v|]]; cbn [fst snd map_res res_keys] in *; auto.
      destruct (o_truthy O v); auto.
    - (* SFor *) assert (Hx : In x U) by (apply Hv; now left).
      assert (Hvr : incl (evars e ++ svars s) U) by (intros z Hz; apply Hv; now right).
      apply incl_app_inv in Hvr as [Hve Hvs].
      destruct (eval_ren e en U Hve Hk Hinj) as [E K]. rewrite E.
      destruct (eval O e en) as [en1 [v|]]; cbn [fst snd map_res res_keys] in *; auto.
      destruct (o_iter O v) as [items|]; cbn [map_res res_keys]; auto.
      apply loop_ren; auto.
    - (* STry *) apply incl_app_inv in Hv as [Hva Hvb].
      destruct (IHs1 en U Hva Hk Hinj) as [E K]. rewrite E.
      destruct (exec O s1 en) as [en1|v|en1]; cbn [map_res res_keys] in *; auto.
    - (* SRaise *) cbn. auto.
    - (* SReturn *) destruct (eval_ren e en U Hv Hk Hinj) as [E K]. rewrite E.
      destruct (eval O e en) as [en1 [v|]]; cbn [fst snd map_res res_keys] in *; auto.
  Qed.

  (* general form: rho injective on everything the program and the environment mention *)
  Theorem rename_invariant_inj : forall p (en : env V),
    inj_on rho (svars p ++ keys en) ->
    run O (ren_stmt rho p) (ren_env rho en) = run O p en.
  Proof.
    intros p en Hinj. unfold run.
    destruct (exec_ren p en (svars p ++ keys en)) as [E _]; [apply incl_appl, incl_refl|apply incl_appr, incl_refl|exact Hinj|].
    rewrite E. now destruct (exec O p en).
  Qed.

  (* the form of DESIGN: rho renames the document-derived variables D injectively, leaves the template variables T alone,
     and no renamed variable lands in T *)
  Theorem rename_invariant : forall (D T : list var) p (en : env V),
    incl (svars p) (D ++ T) -> incl (keys en) (D ++ T) ->
    (forall x, In x D -> ~ In x T) ->
    inj_on rho D ->
    (forall x, In x T -> rho x = x) ->
    (forall x, In x D -> ~ In (rho x) T) ->
    run O (ren_stmt rho p) (ren_env rho en) = run O p en.
  Proof.
    intros D T p en Hp He Hdt HinjD Hid Hdisj. apply rename_invariant_inj.
    apply inj_on_incl with (U := D ++ T); [apply incl_app; assumption|].
    intros x y Hx Hy Hxy.
    apply in_app_or in Hx as [Hx|Hx]; apply in_app_or in Hy as [Hy|Hy].
    - now apply HinjD.
    - exfalso. apply (Hdisj x Hx). rewrite Hxy, (Hid y Hy). exact Hy.
    - exfalso. apply (Hdisj y Hy). rewrite <- Hxy, (Hid x Hx). exact Hx.
    - rewrite (Hid x Hx), (Hid y Hy) in Hxy. exact Hxy.
  Qed.
End Alpha.

(* ================================================================== corollaries: one document-derived variable *)
Lemma ren1_same x n : ren1 x n x = n.
Proof. unfold ren1. now rewrite str_eqb_refl. Qed.
Lemma ren1_other x n y : y <> x -> ren1 x n y = y.
Proof. intro H. unfold ren1. now rewrite str_eqb_neq. Qed.

(* a document-derived variable x renamed to ANY name outside the function's template variables T does not change the result *)
Theorem capture_free : forall V (O : ops V) (T : list var) p (en : env V) x n,
  ~ In x T -> ~ In n T ->
  incl (svars p) (x :: T) -> incl (keys en) (x :: T) ->
  run O (ren_stmt (ren1 x n) p) (ren_env (ren1 x n) en) = run O p en.
Proof.
  intros V O T p en x n Hx Hn Hp He.
  apply rename_invariant with (D := [x]) (T := T); auto.
  - intros y [<-|[]]. exact Hx.
  - intros a b [<-|[]] [<-|[]] _. reflexivity.
  - intros y Hy. apply ren1_other. intros ->. contradiction.
  - intros y [<-|[]]. now rewrite ren1_same.
Qed.

(* ... instantiated with the regenerated table: T = the identifiers the generated code of that scope itself uses *)
Theorem capture_free_names : forall V (O : ops V) (scope : str) p (en : env V) x n,
  ~ In x (scope_names template_names scope) -> ~ In n (scope_names template_names scope) ->
  incl (svars p) (x :: scope_names template_names scope) -> incl (keys en) (x :: scope_names template_names scope) ->
  run O (ren_stmt (ren1 x n) p) (ren_env (ren1 x n) en) = run O p en.
Proof. intros V O scope. apply capture_free. Qed.

(* the full statement (any new name) is false: renaming x to the template's own local d changes what from_dict returns *)
Theorem capture_refuted : exists (p : stmt) (en : env cval) (x n : var),
  ~ In x from_dict_template_vars /\ In n from_dict_template_vars /\
  incl (svars p) (x :: from_dict_template_vars) /\ incl (keys en) (x :: from_dict_template_vars) /\
  run cops (ren_stmt (ren1 x n) p) (ren_env (ren1 x n) en) <> run cops p en.
Proof.
  exists (from_dict_shape v_x), from_dict_env, v_x, v_d. repeat split.
  - intros [H|[H|[H|[]]]]; discriminate H.
  - now left.
  - intros z Hz. cbn in Hz. cbn. intuition.
  - intros z Hz. cbn in Hz. cbn. intuition.
  - vm_compute. discriminate.
Qed.

(* what the two runs return: (popped value, remaining keys) vs (popped value, popped value) *)
Example capture_refuted_values :
  run cops (from_dict_shape v_x) from_dict_env = ORet (CTup [CStr [118]; CDict [([101], CStr [119])]]) /\
  run cops (ren_stmt (ren1 v_x v_d) (from_dict_shape v_x)) (ren_env (ren1 v_x v_d) from_dict_env) = ORet (CTup [CStr [118]; CStr [118]]).
Proof. split; vm_compute; reflexivity. Qed.

(* non-vacuity of capture_free: the same program, x renamed to a name that is not a template variable *)
Example capture_free_nonvacuous :
  run cops (ren_stmt (ren1 v_x [113]) (from_dict_shape v_x)) (ren_env (ren1 v_x [113]) from_dict_env)
  = ORet (CTup [CStr [118]; CDict [([101], CStr [119])]]).
Proof. vm_compute. reflexivity. Qed.

(* ================================================================== (b) the endpoint MODEL depends on wire names only *)
Lemma arg_ren rho (a : args) U n : inj_on rho U -> incl (map fst a) U -> In n U ->
  arg (ren_args rho a) (rho n) = arg a n.
Proof.
  intros Hinj. induction a as [|[k v] a IH]; intros Hk Hn; [reflexivity|].
  cbn [ren_args map arg fst snd]. cbn [map fst] in Hk.
  assert (Hku : In k U) by (apply Hk; now left).
  assert (Hr : incl (map fst a) U) by (intros z Hz; apply Hk; now right).
  destruct (str_eqb k n) eqn:E.
  - apply str_eqb_eq in E. subst. now rewrite str_eqb_refl.
  - rewrite str_eqb_neq.
    + apply IH; assumption.
    + intro E2. apply Hinj in E2; auto. subst. rewrite str_eqb_refl in E. discriminate.
Qed.

Section KwRen.
  Variable T : ctable.
  Variable fuel : nat.
  Variable rho : str -> str.
  Variable a : args.
  Variable U : list str.
  Hypothesis Hinj : inj_on rho U.
  Hypothesis Ha : incl (map fst a) U.

  Lemma headers_ren ps : incl (map pa_py ps) U -> forall d,
    headers_of (map (ren_param rho) ps) (ren_args rho a) d = headers_of ps a d.
  Proof.
    induction ps as [|p ps IH]; intros Hp d; [reflexivity|].
    cbn [map headers_of ren_param pa_py pa_name pa_req pa_kind]. cbn [map] in Hp.
    rewrite (arg_ren rho a U) by (auto; apply Hp; now left).
    assert (Hr : incl (map pa_py ps) U) by (intros z Hz; apply Hp; now right).
    destruct (arg a (pa_py p)) as [v|]; [|reflexivity].
    destruct (negb (pa_req p) && is_unset v); [now apply IH|].
    destruct (header_value (pa_kind p) v); [now apply IH|reflexivity].
  Qed.

  Lemma cookies_ren ps : incl (map pa_py ps) U -> forall d,
    cookies_of (map (ren_param rho) ps) (ren_args rho a) d = cookies_of ps a d.
  Proof.
    induction ps as [|p ps IH]; intros Hp d; [reflexivity|].
    cbn [map cookies_of ren_param pa_py pa_name pa_req pa_kind]. cbn [map] in Hp.
    rewrite (arg_ren rho a U) by (auto; apply Hp; now left).
    assert (Hr : incl (map pa_py ps) U) by (intros z Hz; apply Hp; now right).
    destruct (arg a (pa_py p)) as [v|]; [|reflexivity].
    destruct (negb (pa_req p) && is_unset v); now apply IH.
  Qed.

  Lemma query_ren ps : incl (map pa_py ps) U -> forall d,
    query_of T fuel (map (ren_param rho) ps) (ren_args rho a) d = query_of T fuel ps a d.
  Proof.
    induction ps as [|p ps IH]; intros Hp d; [reflexivity|].
    cbn [map query_of ren_param pa_py pa_name pa_req pa_kind]. cbn [map] in Hp.
    rewrite (arg_ren rho a U) by (auto; apply Hp; now left).
    assert (Hr : incl (map pa_py ps) U) by (intros z Hz; apply Hp; now right).
    destruct (arg a (pa_py p)) as [v|]; [|reflexivity].
    destruct (if has_transform (pa_kind p) then _ else _) as [dv|]; [|reflexivity].
    destruct (kf_json_is_dict (kfacts_of (pa_kind p))).
    - destruct (negb (pa_req p) && is_unset dv); [now apply IH|].
      destruct dv as [|j| | | | | |]; try reflexivity. destruct j; try reflexivity. now apply IH.
    - now apply IH.
  Qed.
End KwRen.

(* "path".format(name=value, ...) of a template whose placeholders are plain identifiers: slot by slot *)
Fixpoint subst_py (segs : list seg) (a : args) : option str :=
  match segs with
  | [] => Some []
  | Lit s :: r => option_map (app s) (subst_py r a)
  | Slot n :: r =>
      match arg a n with
      | Some v => match str_of v, subst_py r a with Some t, Some out => Some (t ++ out) | _, _ => None end
      | None => None
      end
  end.

Lemma format_slots a : forall segs, lits_ok segs = true -> forallb plain_name (slots segs) = true ->
  forall fuel, (length (render_tpl segs) < fuel)%nat ->
  format_fuel fuel (render_tpl segs) a = subst_py segs a.
Proof.
  induction segs as [|x segs IH]; intros Hok Hpl fuel Hf.
  - destruct fuel; [cbn in Hf; lia|reflexivity].
  - cbn [lits_ok forallb] in Hok. apply andb_true_iff in Hok as [Hx Hok].
    change (render_tpl (x :: segs)) with (render_seg x ++ render_tpl segs) in *.
    rewrite app_length in Hf.
    destruct x as [s|n]; cbn [render_seg subst_py] in *.
    + rewrite format_lit; [|exact Hx|rewrite app_length; lia].
      cbn [slots flat_map app] in Hpl. change (flat_map _ segs) with (slots segs) in Hpl.
      rewrite IH; [reflexivity|exact Hok|exact Hpl|lia].
    + cbn [slots flat_map app forallb] in Hpl. change (flat_map _ segs) with (slots segs) in Hpl.
      apply andb_true_iff in Hpl as [Hn Hpl].
      unfold plain_name in Hn. apply andb_true_iff in Hn as [Hst Hch].
      destruct n as [|c py]; [discriminate Hst|].
      destruct fuel as [|fuel]; [lia|].
      unfold braces in *. cbn [app length] in *. rewrite app_length in Hf. cbn [length] in Hf.
      rewrite format_open by (now apply ident_start_not_open).
      rewrite <- app_assoc. cbn [app].
      change (c :: py ++ 125 :: render_tpl segs) with ((c :: py) ++ 125 :: render_tpl segs).
      rewrite take_field_name by exact Hch. cbn [rev app]. rewrite Hst.
      destruct (arg a (c :: py)) as [v|]; [|reflexivity].
      rewrite IH; [reflexivity|exact Hok|exact Hpl|lia].
Qed.

Lemma lits_ok_map g segs : (forall n, In n (slots segs) -> plain_name (g n) = true) -> lits_ok segs = true -> lits_ok (map_seg g segs) = true.
Proof.
  induction segs as [|x segs IH]; intros Hg Hok; [reflexivity|].
  cbn [lits_ok forallb map_seg map] in *. apply andb_true_iff in Hok as [Hx Hok]. apply andb_true_iff. split.
  - destruct x as [s|n]; [exact Hx|].
    assert (Hp : plain_name (g n) = true) by (apply Hg; cbn; now left).
    rewrite (plain_no_brace _ Hp). unfold plain_name in Hp. destruct (g n); [discriminate Hp|reflexivity].
  - apply IH; [|exact Hok]. intros n Hn. apply Hg. destruct x; cbn; auto.
Qed.

Lemma slots_map g segs : slots (map_seg g segs) = map g (slots segs).
Proof.
  induction segs as [|x segs IH]; [reflexivity|].
  destruct x; cbn [map_seg map slots flat_map app] in *; [exact IH|]. f_equal. exact IH.
Qed.

Lemma subst_py_ren rho a U : inj_on rho U -> incl (map fst a) U ->
  forall segs, incl (slots segs) U -> subst_py (map_seg rho segs) (ren_args rho a) = subst_py segs a.
Proof.
  intros Hinj Ha. induction segs as [|x segs IH]; intros Hs; [reflexivity|].
  destruct x as [s|n]; cbn [map_seg map subst_py] in *.
  - change (map _ segs) with (map_seg rho segs). rewrite IH; [reflexivity|]. exact Hs.
  - change (map _ segs) with (map_seg rho segs).
    cbn [slots flat_map app] in Hs. change (flat_map _ segs) with (slots segs) in Hs.
    rewrite (arg_ren rho a U) by (auto; apply Hs; now left).
    rewrite IH; [reflexivity|]. intros z Hz. apply Hs. now right.
Qed.

(* renaming the python names of ALL parameters (and the argument list and the {py} placeholders of the path accordingly)
   leaves the model's request unchanged: the model's behaviour depends on wire names only *)
Theorem kwargs_rename_invariant : forall T fuel (rho : str -> str) segs ep a,
  ep_path ep = render_tpl segs -> lits_ok segs = true -> slots segs = map pa_py (ep_pathp ep) ->
  forallb plain_name (slots segs) = true ->                          (* old placeholders are plain identifiers *)
  forallb (fun n => plain_name (rho n)) (slots segs) = true ->       (* and so are the new ones *)
  inj_on rho (s_body :: map fst a ++ py_names ep) -> rho s_body = s_body ->
  get_kwargs T fuel (ren_endpoint rho (render_tpl (map_seg rho segs)) ep) (ren_args rho a) = get_kwargs T fuel ep a.
Proof.
  intros T fuel rho segs ep a Hpath Hok Hsl Hpl Hpl' Hinj Hbody.
  set (U := s_body :: map fst a ++ py_names ep) in *.
  assert (Ha : incl (map fst a) U) by (intros z Hz; right; apply in_or_app; now left).
  assert (Hpy : forall ps, incl ps (ep_pathp ep ++ ep_query ep ++ ep_header ep ++ ep_cookie ep) -> incl (map pa_py ps) U).
  { intros ps Hps z Hz. right. apply in_or_app. right. unfold py_names. apply in_map_iff in Hz as [p [<- Hp]]. apply in_map. now apply Hps. }
  assert (Hbu : In s_body U) by now left.
  unfold get_kwargs. cbn [ren_endpoint ep_method ep_path ep_pathp ep_query ep_header ep_cookie ep_bodies ep_security ep_responses].
  rewrite (headers_ren rho a U Hinj Ha) by (apply Hpy; intros z Hz; apply in_or_app; right; apply in_or_app; right; apply in_or_app; now left).
  rewrite (cookies_ren rho a U Hinj Ha) by (apply Hpy; intros z Hz; apply in_or_app; right; apply in_or_app; right; apply in_or_app; now right).
  rewrite (query_ren T fuel rho a U Hinj Ha) by (apply Hpy; intros z Hz; apply in_or_app; right; apply in_or_app; now left).
  assert (Hsu : incl (slots segs) U) by (rewrite Hsl; apply Hpy; intros z Hz; apply in_or_app; now left).
  assert (Hfmt : format_path (render_tpl (map_seg rho segs)) (ren_args rho a) = format_path (ep_path ep) a).
  { unfold format_path. rewrite Hpath.
    rewrite format_slots; [|apply lits_ok_map; [|exact Hok]|rewrite slots_map, forallb_forall; intros z Hz; apply in_map_iff in Hz as [n [<- Hn]]|lia].
    - rewrite format_slots by (auto; lia). apply (subst_py_ren rho a U); auto.
    - intros n Hn. rewrite forallb_forall in Hpl'. now apply Hpl'.
    - rewrite forallb_forall in Hpl'. now apply Hpl'. }
  rewrite Hfmt.
  assert (Hab : arg (ren_args rho a) [98;111;100;121] = arg a [98;111;100;121]).
  { change [98;111;100;121] with s_body. rewrite <- Hbody at 1. now apply (arg_ren rho a U). }
  rewrite Hab.
  assert (Hurl : forall url, match map (ren_param rho) (ep_pathp ep) with [] => render_tpl (map_seg rho segs) | _ => url end
                            = match ep_pathp ep with [] => ep_path ep | _ => url end).
  { intro url. destruct (ep_pathp ep) as [|p ps] eqn:Epp; [|reflexivity].
    cbn [map]. rewrite Hpath. destruct segs as [|x segs']; [reflexivity|].
    assert (Hnil : map_seg rho (x :: segs') = x :: segs').
    { cbn [map] in Hsl. clear - Hsl. revert Hsl. generalize (x :: segs'). induction l as [|y l IH]; intro H; [reflexivity|].
      destruct y as [s|n]; [|discriminate H]. cbn [map_seg map]. f_equal. apply IH. exact H. }
    now rewrite Hnil. }
  destruct (headers_of (ep_header ep) a []) as [hs|]; [|reflexivity].
  destruct (cookies_of (ep_cookie ep) a []) as [cs|]; [|reflexivity].
  destruct (query_of T fuel (ep_query ep) a []) as [qs|]; [|reflexivity].
  destruct (format_path (ep_path ep) a) as [url|]; [|reflexivity].
  rewrite Hurl.
  assert (Hq : match map (ren_param rho) (ep_query ep) with [] => @None dict | _ => Some (drop_unset_none qs) end
               = match ep_query ep with [] => None | _ => Some (drop_unset_none qs) end) by (destruct (ep_query ep); reflexivity).
  assert (Hc : match map (ren_param rho) (ep_cookie ep) with [] => @None dict | _ => Some cs end
               = match ep_cookie ep with [] => None | _ => Some cs end) by (destruct (ep_cookie ep); reflexivity).
  assert (Hh : match map (ren_param rho) (ep_header ep) with [] => true | _ => false end
               = match ep_header ep with [] => true | _ => false end) by (destruct (ep_header ep); reflexivity).
  rewrite Hq, Hc, Hh. reflexivity.
Qed.

(* ================================================================== (c) facts on the regenerated table *)
Definition is_reserved (c : str) : bool := mem_str c reserved_words || mem_str c keywords.
Definition avoids (c : str) : bool := if is_reserved c then negb (str_eqb (python_identifier c [] false) c) else true.

Lemma gen_names_facts :
  gen_names_known = true /\ forallb (fun sn => avoids (snd sn)) template_names = true.
Proof. split; [vm_compute; reflexivity | vm_cast_no_check (eq_refl true)]. Qed.

(* every candidate that is a Python keyword or a word of utils.RESERVED_WORDS is never used verbatim as a python name *)
Theorem python_identifier_avoids : forall scope c,
  In (scope, c) template_names -> is_reserved c = true -> python_identifier c [] false <> c.
Proof.
  intros scope c Hin Hres Heq.
  destruct gen_names_facts as [_ H]. rewrite forallb_forall in H. specialize (H _ Hin). cbn [snd] in H.
  unfold avoids in H. rewrite Hres in H. apply negb_true_iff in H.
  rewrite Heq, str_eqb_refl in H. discriminate.
Qed.

(* the table is non-trivial and does contain reserved words *)
Example template_names_nontrivial :
  (100 <=? N.of_nat (length template_names)) = true /\ existsb (fun sn => is_reserved (snd sn)) template_names = true.
Proof. split; vm_compute; reflexivity. Qed.

(* non-vacuity of kwargs_rename_invariant: /a/{x}?q=<y> with the python names x, y renamed to the template's own locals
   `params` and `headers`: the MODEL sends the same request (the generated code does not: see the known findings named capture_... ) *)
Definition ex_ep : endpoint :=
  {| ep_method := [103;101;116]; ep_path := render_tpl [Lit [47;97;47]; Slot [120]];
     ep_pathp := [{| pa_name := [120]; pa_py := [120]; pa_req := true; pa_kind := KStr |}];
     ep_query := [{| pa_name := [113]; pa_py := [121]; pa_req := true; pa_kind := KStr |}];
     ep_header := []; ep_cookie := []; ep_bodies := []; ep_security := false; ep_responses := [] |}.
Definition ex_rho (n : str) : str :=
  if str_eqb n [120] then [112;97;114;97;109;115] else if str_eqb n [121] then [104;101;97;100;101;114;115] else n.
Definition ex_args : args := [([120], PJ (JStr [55])); ([121], PJ (JStr [56]))].
Example kwargs_rename_nonvacuous :
  get_kwargs [] 5 (ren_endpoint ex_rho (render_tpl (map_seg ex_rho [Lit [47;97;47]; Slot [120]])) ex_ep) (ren_args ex_rho ex_args)
    = get_kwargs [] 5 ex_ep ex_args
  /\ option_map kw_url (get_kwargs [] 5 ex_ep ex_args) = Some [47;97;47;55]
  /\ pa_py (hd {| pa_name := []; pa_py := []; pa_req := true; pa_kind := KStr |} (ep_query (ren_endpoint ex_rho [] ex_ep))) = [104;101;97;100;101;114;115].
Proof. repeat split; vm_compute; reflexivity. Qed.

(* ================================================================== (d) spellings that differ from a template identifier only by what
   python_identifier strips or folds: leading / trailing underscores, a leading space or dash, a trailing dash, letter case.
   s_field is the default field_prefix. *)
Definition s_field : str := [102;105;101;108;100;95].
Definition spelling_ok (sn : str * str) : bool :=
  let s := fst sn in let N := snd sn in
  let r := python_identifier s s_field false in
  if is_reserved r then false
  else if starts_us s && str_eqb r N then false
  else if mem_str r template_idents then starts_us N || str_eqb r (python_identifier N s_field false) else true.

Lemma spelling_facts : forallb spelling_ok spelling_names = true.
Proof. vm_cast_no_check (eq_refl true). Qed.

(* for every regenerated (spelling s, template identifier N): the python name of s is never a keyword / reserved word (the trailing
   underscore applies); a spelling that starts with an underscore never becomes N (the field_ prefix applies, because the test looks at
   the RAW value); and a spelling can only land on a template identifier by being one more spelling of N itself (same python name as N) *)
Theorem spelling_avoids : forall s N, In (s, N) spelling_names ->
  let r := python_identifier s s_field false in
  is_reserved r = false /\
  (starts_us s = true -> r <> N) /\
  (starts_us N = false -> In r template_idents -> r = python_identifier N s_field false).
Proof.
  intros s N Hin r. pose proof spelling_facts as H. rewrite forallb_forall in H. specialize (H _ Hin).
  unfold spelling_ok in H. cbn [fst snd] in H. fold r in H.
  destruct (is_reserved r) eqn:Er; [discriminate H|]. split; [reflexivity|].
  destruct (starts_us s && str_eqb r N) eqn:Eu; [discriminate H|]. split.
  - intros Hs Heq. rewrite Hs in Eu. cbn [andb] in Eu. rewrite Heq, str_eqb_refl in Eu. discriminate.
  - intros HN Hmem. apply mem_str_In in Hmem. rewrite Hmem, HN in H. cbn [orb] in H. now apply str_eqb_eq.
Qed.

Example spelling_names_nontrivial :
  (500 <=? N.of_nat (length spelling_names)) = true /\ existsb (fun sn => starts_us (fst sn)) spelling_names = true
  /\ python_identifier [95;98;111;100;121] s_field false = [102;105;101;108;100;95;98;111;100;121].    (* _body -> field_body *)
Proof. repeat split; vm_compute; reflexivity. Qed.
