(* PyLitThm.v — proofs about PyLit.v (C05, used by C13/C14/C01). *)
From Coq Require Import NArith List Bool Lia.
Import ListNotations.
Require Import OPC.gen.GenTables OPC.Uni OPC.Names OPC.NamesThm OPC.PyLit.
Open Scope N_scope.

(* never compute the printable table *)
#[local] Opaque printable.

(* ---------- one-step unfolding lemmas ---------- *)

Lemma lex_body_unfold q s :
  lex_body q s =
  match s with
  | [] => None
  | c :: s' =>
    if c =? q then Some ([], s')
    else if (c =? NL) || (c =? CR) || (c =? 0) then None
    else if c =? BS then
      match s' with
      | [] => None
      | e :: s'' =>
        if unmodelled_escape e then None
        else match simple_escape e with
             | Some v => match lex_body q s'' with Some (val, r) => Some (v :: val, r) | None => None end
             | None =>
                 match lex_body q s'' with Some (val, r) => Some (BS :: e :: val, r) | None => None end
             end
      end
    else match lex_body q s' with Some (val, r) => Some (c :: val, r) | None => None end
  end.
Proof. destruct s; reflexivity. Qed.

Lemma lex_body_close q s : lex_body q (q :: s) = Some ([], s).
Proof. rewrite lex_body_unfold. rewrite N.eqb_refl. reflexivity. Qed.

Lemma lex_body_plain q c s :
  c <> q -> c <> NL -> c <> CR -> c <> 0 -> c <> BS ->
  lex_body q (c :: s) =
  match lex_body q s with Some (val, r) => Some (c :: val, r) | None => None end.
Proof.
  intros Hq Hn Hc H0 Hb. rewrite (lex_body_unfold q (c :: s)).
  rewrite (proj2 (N.eqb_neq c q) Hq), (proj2 (N.eqb_neq c NL) Hn), (proj2 (N.eqb_neq c CR) Hc),
          (proj2 (N.eqb_neq c 0) H0), (proj2 (N.eqb_neq c BS) Hb).
  reflexivity.
Qed.

Lemma lex_body_esc q e v s :
  BS <> q -> unmodelled_escape e = false -> simple_escape e = Some v ->
  lex_body q (BS :: e :: s) =
  match lex_body q s with Some (val, r) => Some (v :: val, r) | None => None end.
Proof.
  intros Hq Hu Hs. rewrite (lex_body_unfold q (BS :: e :: s)).
  rewrite (proj2 (N.eqb_neq BS q) Hq).
  change ((BS =? NL) || (BS =? CR) || (BS =? 0)) with false.
  change (BS =? BS) with true. cbv iota.
  rewrite Hu, Hs. reflexivity.
Qed.

Lemma escape_dq_cons c s :
  escape_dq (c :: s) = (if c =? 34 then [92; 34] else [c]) ++ escape_dq s.
Proof. reflexivity. Qed.

Lemma no_bs_nl_cons c s :
  no_bs_nl (c :: s) = negb ((c =? BS) || (c =? NL) || (c =? CR) || (c =? 0)) && no_bs_nl s.
Proof. reflexivity. Qed.

Lemma char_ok c :
  negb ((c =? BS) || (c =? NL) || (c =? CR) || (c =? 0)) = true ->
  c <> BS /\ c <> NL /\ c <> CR /\ c <> 0.
Proof.
  intros H. apply negb_true_iff in H.
  apply orb_false_iff in H as [H H0]. apply orb_false_iff in H as [H Hc].
  apply orb_false_iff in H as [Hb Hn].
  apply N.eqb_neq in H0, Hc, Hb, Hn. tauto.
Qed.

(* ---------- DQ literals ---------- *)

Theorem dq_literal_roundtrip : forall s rest,
  no_bs_nl s = true -> lex_body DQ (escape_dq s ++ DQ :: rest) = Some (s, rest).
Proof.
  induction s as [|c s IH]; intros rest Hn.
  - cbn [escape_dq flat_map app]. apply lex_body_close.
  - rewrite no_bs_nl_cons in Hn. apply andb_prop in Hn as [Hc Hn].
    apply char_ok in Hc as (Hb & Hnl & Hcr & H0).
    rewrite escape_dq_cons.
    destruct (N.eqb_spec c 34) as [E|NE].
    + subst c. cbn [app].
      change 92 with BS.
      rewrite (lex_body_esc DQ 34 34); [ | discriminate | reflexivity | reflexivity ].
      rewrite (IH rest Hn). reflexivity.
    + cbn [app]. rewrite lex_body_plain; try assumption.
      rewrite (IH rest Hn). reflexivity.
Qed.

Theorem raw_in_dq : forall s rest,
  plain_dq s = true -> lex_body DQ (s ++ DQ :: rest) = Some (s, rest).
Proof.
  intros s rest H. unfold plain_dq in H. apply andb_prop in H as [Hn Hq].
  apply negb_true_iff in Hq.
  induction s as [|c s IH].
  - cbn [app]. apply lex_body_close.
  - rewrite no_bs_nl_cons in Hn. apply andb_prop in Hn as [Hc Hn].
    apply char_ok in Hc as (Hb & Hnl & Hcr & H0).
    cbn [existsb] in Hq. apply orb_false_iff in Hq as [Hd Hq].
    apply N.eqb_neq in Hd.
    cbn [app]. rewrite lex_body_plain; try assumption; [ | congruence ].
    rewrite (IH Hn Hq). reflexivity.
Qed.

Theorem raw_in_dq_quote_breaks : forall s rest,
  no_bs_nl s = true -> existsb (N.eqb DQ) s = true -> lex_body DQ (s ++ DQ :: rest) <> Some (s, rest).
Proof.
  induction s as [|c s IH]; intros rest Hn He.
  - discriminate He.
  - rewrite no_bs_nl_cons in Hn. apply andb_prop in Hn as [Hc Hn].
    apply char_ok in Hc as (Hb & Hnl & Hcr & H0).
    cbn [existsb] in He. cbn [app].
    destruct (N.eqb_spec DQ c) as [E|NE].
    + subst c. rewrite lex_body_close. discriminate.
    + cbn [orb] in He. rewrite lex_body_plain; try assumption; [ | congruence ].
      destruct (lex_body DQ (s ++ DQ :: rest)) as [[v r]|] eqn:E; [ | discriminate ].
      intros X. injection X as X1 X2. subst v r.
      exact (IH rest Hn He E).
Qed.

(* ---------- triple quotes ---------- *)

Lemma has_triple_3 a b c t :
  has_triple (a :: b :: c :: t) = ((a =? DQ) && (b =? DQ) && (c =? DQ)) || has_triple (b :: c :: t).
Proof. reflexivity. Qed.

Lemma has_triple_tail a t : has_triple (a :: t) = false -> has_triple t = false.
Proof.
  destruct t as [|b [|c t]]; try reflexivity.
  rewrite has_triple_3. intros H. apply orb_false_iff in H. tauto.
Qed.

(* no two adjacent double quotes *)
Fixpoint nodd (l : str) : bool :=
  match l with
  | a :: ((b :: _) as t) => negb ((a =? DQ) && (b =? DQ)) && nodd t
  | _ => true
  end.

Lemma nodd_2 a b t : nodd (a :: b :: t) = negb ((a =? DQ) && (b =? DQ)) && nodd (b :: t).
Proof. reflexivity. Qed.

Lemma nodd_no_triple : forall l, nodd l = true -> has_triple l = false.
Proof.
  induction l as [|a l IH]; intros H; [reflexivity|].
  destruct l as [|b [|c t]]; try reflexivity.
  rewrite nodd_2 in H. apply andb_prop in H as [H1 H2].
  rewrite has_triple_3. rewrite (IH H2).
  apply negb_true_iff in H1. rewrite H1. reflexivity.
Qed.

Definition hd_not_dq (l : str) : Prop := match l with x :: _ => x <> DQ | [] => True end.

Lemma escape_dq_hd : forall s, hd_not_dq (escape_dq s).
Proof.
  destruct s as [|c s]; [exact I|].
  rewrite escape_dq_cons. destruct (N.eqb_spec c 34) as [E|NE]; cbn [app hd_not_dq].
  - discriminate.
  - exact NE.
Qed.

Lemma nodd_cons_ne a l : a <> DQ -> nodd l = true -> nodd (a :: l) = true.
Proof.
  intros Ha Hl. destruct l as [|b t]; [reflexivity|].
  rewrite nodd_2, Hl. rewrite (proj2 (N.eqb_neq a DQ) Ha). reflexivity.
Qed.

Lemma nodd_dq_cons l : hd_not_dq l -> nodd l = true -> nodd (DQ :: l) = true.
Proof.
  intros Hh Hl. destruct l as [|b t]; [reflexivity|].
  rewrite nodd_2, Hl. cbn [hd_not_dq] in Hh. rewrite (proj2 (N.eqb_neq b DQ) Hh).
  rewrite andb_false_r. reflexivity.
Qed.

Lemma escape_dq_nodd : forall s, nodd (escape_dq s) = true.
Proof.
  induction s as [|c s IH]; [reflexivity|].
  rewrite escape_dq_cons. destruct (N.eqb_spec c 34) as [E|NE]; cbn [app].
  - apply nodd_cons_ne; [discriminate|].
    apply (nodd_dq_cons (escape_dq s)); [apply escape_dq_hd | exact IH].
  - apply nodd_cons_ne; assumption.
Qed.

Theorem escape_dq_no_triple : forall c, has_triple (escape_dq c) = false.
Proof. intros c. apply nodd_no_triple, escape_dq_nodd. Qed.

Lemma scan_unfold s :
  scan_triple s =
  match s with
  | [] => None
  | c :: s' =>
    if c =? BS then
      match s' with
      | [] => None
      | e :: s'' => match scan_triple s'' with Some (t, r) => Some (c :: e :: t, r) | None => None end
      end
    else if c =? DQ then
      match s' with
      | d1 :: d2 :: s'' => if (d1 =? DQ) && (d2 =? DQ) then Some ([], s'')
                           else match scan_triple s' with Some (t, r) => Some (c :: t, r) | None => None end
      | _ => match scan_triple s' with Some (t, r) => Some (c :: t, r) | None => None end
      end
    else match scan_triple s' with Some (t, r) => Some (c :: t, r) | None => None end
  end.
Proof. destruct s; reflexivity. Qed.

Lemma scan_plain c s : c <> BS -> c <> DQ ->
  scan_triple (c :: s) = match scan_triple s with Some (t, r) => Some (c :: t, r) | None => None end.
Proof.
  intros Hb Hd. rewrite (scan_unfold (c :: s)).
  rewrite (proj2 (N.eqb_neq c BS) Hb), (proj2 (N.eqb_neq c DQ) Hd). reflexivity.
Qed.

Lemma scan_bs e s :
  scan_triple (BS :: e :: s) = match scan_triple s with Some (t, r) => Some (BS :: e :: t, r) | None => None end.
Proof. rewrite (scan_unfold (BS :: e :: s)). reflexivity. Qed.

Lemma scan_close rest : scan_triple (DQ :: DQ :: DQ :: rest) = Some ([], rest).
Proof. reflexivity. Qed.

Lemma scan_dq_no d1 d2 s : (d1 =? DQ) && (d2 =? DQ) = false ->
  scan_triple (DQ :: d1 :: d2 :: s) =
  match scan_triple (d1 :: d2 :: s) with Some (t, r) => Some (DQ :: t, r) | None => None end.
Proof.
  intros H. rewrite (scan_unfold (DQ :: d1 :: d2 :: s)).
  change (DQ =? BS) with false. change (DQ =? DQ) with true. cbv iota.
  rewrite H. reflexivity.
Qed.

Lemma scan_gen : forall n t rest, (length t <= n)%nat -> has_triple t = false ->
  scan_triple (t ++ 32 :: DQ :: DQ :: DQ :: rest) = Some (t ++ [32], rest).
Proof.
  assert (Base : forall rest, scan_triple ([] ++ 32 :: DQ :: DQ :: DQ :: rest) = Some ([] ++ [32], rest)).
  { intros rest. cbn [app]. rewrite scan_plain by discriminate. rewrite scan_close. reflexivity. }
  induction n as [|n IHn]; intros t rest Hl Ht.
  - destruct t as [|c t']; [apply Base | cbn [length] in Hl; lia].
  - destruct t as [|c t']; [apply Base|].
    cbn [length] in Hl.
    destruct (N.eqb_spec c BS) as [Eb|Nb].
    + subst c. destruct t' as [|e t''].
      * cbn [app]. rewrite scan_bs, scan_close. reflexivity.
      * cbn [app]. rewrite scan_bs.
        cbn [length] in Hl.
        rewrite (IHn t'' rest); [reflexivity | lia | ].
        apply (has_triple_tail e), (has_triple_tail BS). exact Ht.
    + assert (IH : scan_triple (t' ++ 32 :: DQ :: DQ :: DQ :: rest) = Some (t' ++ [32], rest)).
      { apply IHn; [lia | apply (has_triple_tail c); exact Ht]. }
      destruct (N.eqb_spec c DQ) as [Ed|Nd].
      * subst c. destruct t' as [|d1 [|d2 t'']]; cbn [app] in IH |- *.
        -- rewrite scan_dq_no by reflexivity. rewrite IH. reflexivity.
        -- rewrite scan_dq_no by (rewrite andb_comm; reflexivity). rewrite IH. reflexivity.
        -- rewrite has_triple_3 in Ht. apply orb_false_iff in Ht as [Ht _].
           change (DQ =? DQ) with true in Ht. cbn [andb] in Ht.
           rewrite scan_dq_no by exact Ht. rewrite IH. reflexivity.
      * cbn [app]. rewrite scan_plain by assumption. rewrite IH. reflexivity.
Qed.

Lemma safe_docstring_shape c rest :
  safe_docstring c ++ rest =
  (if has_bs c then [114] else []) ++ 34 :: 34 :: 34 :: 32 :: (c ++ 32 :: DQ :: DQ :: DQ :: rest).
Proof.
  unfold safe_docstring, TQ. rewrite <- !app_assoc. cbn [app]. rewrite <- ?app_assoc. cbn [app]. reflexivity.
Qed.

Theorem docstring_safe : forall c rest,
  has_triple c = false ->
  lex_docstring (safe_docstring c ++ rest) = Some ([32] ++ c ++ [32], rest).
Proof.
  intros c rest Ht. rewrite safe_docstring_shape.
  assert (E : lex_docstring ((if has_bs c then [114] else []) ++
                34 :: 34 :: 34 :: 32 :: (c ++ 32 :: DQ :: DQ :: DQ :: rest))
              = scan_triple (32 :: (c ++ 32 :: DQ :: DQ :: DQ :: rest))).
  { destruct (has_bs c); reflexivity. }
  rewrite E. rewrite scan_plain by discriminate.
  rewrite (scan_gen (length c) c rest (le_n _) Ht). reflexivity.
Qed.

Theorem docstring_escaped_safe : forall c rest,
  lex_docstring (safe_docstring (escape_dq c) ++ rest) = Some ([32] ++ escape_dq c ++ [32], rest).
Proof. intros c rest. apply docstring_safe, escape_dq_no_triple. Qed.

Theorem docstring_refuted : exists c rest,
  has_triple c = true /\ lex_docstring (safe_docstring c ++ rest) <> Some ([32] ++ c ++ [32], rest).
Proof.
  exists [34; 34; 34], []. split; [reflexivity|].
  vm_compute. discriminate.
Qed.

Theorem dq_trailing_backslash_refuted : exists s, lex_body DQ (escape_dq s ++ [DQ]) = None.
Proof. exists [92]. reflexivity. Qed.

(* ---------- repr ---------- *)

Definition repr_printable (s : str) : bool :=
  forallb (fun c => (32 <=? c) && negb (c =? 127) && ((c <? 127) || printable c)) s.

Lemma repr_char_printable q c :
  (32 <=? c) && negb (c =? 127) && ((c <? 127) || printable c) = true ->
  repr_char q c = if (c =? q) || (c =? BS) then [BS; c] else [c].
Proof.
  intros H. apply andb_prop in H as [H H3]. apply andb_prop in H as [H1 H2].
  apply N.leb_le in H1. apply negb_true_iff in H2. apply N.eqb_neq in H2.
  unfold repr_char.
  destruct ((c =? q) || (c =? BS)); [reflexivity|].
  destruct (N.eqb_spec c 9); [lia|]. destruct (N.eqb_spec c 10); [lia|].
  destruct (N.eqb_spec c 13); [lia|].
  destruct (N.ltb_spec c 32); [lia|]. destruct (N.eqb_spec c 127); [lia|]. cbn [orb].
  destruct (c <? 127) eqn:E; [reflexivity|].
  cbn [orb] in H3. rewrite H3. reflexivity.
Qed.

Lemma repr_body q : (q = DQ \/ q = SQ) -> forall s rest, repr_printable s = true ->
  lex_body q (flat_map (repr_char q) s ++ q :: rest) = Some (s, rest).
Proof.
  intros Hq s rest. induction s as [|c s IH]; intros H.
  - cbn [flat_map app]. apply lex_body_close.
  - unfold repr_printable in H. cbn [forallb] in H. apply andb_prop in H as [Hc Hs].
    fold (repr_printable s) in Hs. specialize (IH Hs).
    cbn [flat_map]. rewrite (repr_char_printable q c Hc).
    apply andb_prop in Hc as [Hc _]. apply andb_prop in Hc as [Hc _]. apply N.leb_le in Hc.
    destruct (N.eqb_spec c q) as [E|NE].
    + cbn [orb app]. subst c.
      rewrite (lex_body_esc q q q);
        [ rewrite IH; reflexivity
        | destruct Hq; subst q; discriminate
        | destruct Hq; subst q; reflexivity
        | destruct Hq; subst q; reflexivity ].
    + cbn [orb]. destruct (N.eqb_spec c BS) as [Eb|Nb].
      * cbn [app]. subst c.
        rewrite (lex_body_esc q BS BS);
          [ rewrite IH; reflexivity
          | destruct Hq; subst q; discriminate
          | reflexivity
          | reflexivity ].
      * cbn [app]. rewrite lex_body_plain; [ rewrite IH; reflexivity | assumption | | | | assumption ];
          unfold NL, CR; lia.
Qed.

Theorem repr_roundtrip_printable : forall s,
  repr_printable s = true -> lex_string (py_repr s) = Some (s, []).
Proof.
  intros s H. unfold py_repr.
  assert (Hq : repr_quote s = DQ \/ repr_quote s = SQ).
  { unfold repr_quote. destruct (existsb (N.eqb SQ) s && negb (existsb (N.eqb DQ) s)); auto. }
  set (q := repr_quote s) in *. clearbody q.
  cbn [lex_string].
  assert (Eq : (q =? DQ) || (q =? SQ) = true).
  { destruct Hq; subst q; reflexivity. }
  rewrite Eq. apply repr_body; assumption.
Qed.

Print Assumptions dq_literal_roundtrip.
Print Assumptions raw_in_dq.
Print Assumptions raw_in_dq_quote_breaks.
Print Assumptions escape_dq_no_triple.
Print Assumptions docstring_safe.
Print Assumptions docstring_escaped_safe.
Print Assumptions docstring_refuted.
Print Assumptions dq_trailing_backslash_refuted.
Print Assumptions repr_roundtrip_printable.
