(* Uni.v — Unicode character classes and case maps over the regenerated tables (gen/GenTables.v),
   plus the reflection checkers used to establish table facts by computation. Model file: no axioms. *)
From Coq Require Import NArith List Bool Lia.
Import ListNotations.
Require Import OPC.gen.GenTables.
Open Scope N_scope.

Definition str := list N.

Fixpoint in_ranges (rs : list (N*N)) (c : N) : bool :=
  match rs with
  | [] => false
  | (a,b) :: rs' => ((a <=? c) && (c <=? b)) || in_ranges rs' c
  end.

Fixpoint lookup (m : list (N * list N)) (c : N) : option (list N) :=
  match m with
  | [] => None
  | (k,v) :: m' => if k =? c then Some v else lookup m' c
  end.

Definition is_word c := in_ranges tbl_word c.
Definition c_isupper c := in_ranges tbl_isupper c.
Definition c_islower c := in_ranges tbl_islower c.
Definition c_istitle c := in_ranges tbl_istitle c.
Definition xid_start c := in_ranges tbl_xid_start c.
Definition xid_continue c := in_ranges tbl_xid_continue c.
Definition printable c := in_ranges tbl_printable c.

Definition map_c (m : list (N * list N)) c := match lookup m c with Some v => v | None => [c] end.
Definition lower_c := map_c map_lower.
Definition upper_c := map_c map_upper.
Definition title_c := map_c map_title.
(* str.lower(): per-character full lower mapping. CPython additionally maps U+03A3 to U+03C2 in word-final
   position (final sigma); the model always yields U+03C3 and the correspondence folds 03C2 -> 03C3 on both sides. *)
Definition lower (s : str) : str := flat_map lower_c s.
Definition upper (s : str) : str := flat_map upper_c s.

Fixpoint str_eqb (a b : str) : bool :=
  match a, b with
  | [], [] => true
  | x :: a', y :: b' => (x =? y) && str_eqb a' b'
  | _, _ => false
  end.
Definition mem_str (s : str) (l : list str) := existsb (str_eqb s) l.
Definition memN (c : N) (l : list N) := existsb (N.eqb c) l.

Fixpoint is_prefix (p s : str) : bool :=
  match p, s with
  | [], _ => true
  | x :: p', y :: s' => (x =? y) && is_prefix p' s'
  | _ :: _, [] => false
  end.

Definition is_identifier (s : str) : bool :=
  match s with
  | [] => false
  | c :: s' => xid_start c && forallb xid_continue s'
  end.

(* str.isupper(): at least one cased char that is upper, and no lower/title cased char *)
Definition s_isupper (s : str) : bool :=
  negb (existsb (fun c => c_islower c || c_istitle c) s) && existsb c_isupper s.

(* ---- reflection checkers (soundness lemmas in UniThm part below) ---- *)
(* every output character of every entry of a case map whose key satisfies P satisfies Q *)
Definition map_preserves (P Q : N -> bool) (m : list (N * list N)) : bool :=
  forallb (fun kv => implb (P (fst kv)) (forallb Q (snd kv))) m.
