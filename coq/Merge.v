(* Merge.v — parser/properties/merge_properties.py (allOf: two declarations of one property name) and the property
   collection loop of model_property._process_properties (names / required only). Model file. *)
From Coq Require Import NArith ZArith List Bool Lia.
Import ListNotations.
Require Import OPC.gen.GenTables OPC.Uni OPC.Names OPC.PyLit OPC.Values.
Open Scope N_scope.

Inductive mkind := MAny | MNone | MBool | MInt | MFloat | MStr | MDate | MDateTime | MUuid | MFile
                 | MConst | MEnum | MLitEnum | MList | MUnion | MModel.

Definition mkind_eqb (a b : mkind) : bool :=
  match a, b with
  | MAny, MAny | MNone, MNone | MBool, MBool | MInt, MInt | MFloat, MFloat | MStr, MStr | MDate, MDate
  | MDateTime, MDateTime | MUuid, MUuid | MFile, MFile | MConst, MConst | MEnum, MEnum | MLitEnum, MLitEnum
  | MList, MList | MUnion, MUnion | MModel, MModel => true
  | _, _ => false
  end.

(* a property as far as merging looks at it. name / python_name are equal on both sides of a merge and omitted.
   payload: enum member table + class name; literal enum value set + class name; list item property;
   const value; union member kinds + identity tag; model class identity tag *)
Inductive mprop :=
  MP (k : mkind) (required : bool) (dflt : option value) (descr example : option N) (pl : mpayload)
with mpayload :=
| PL_none
| PL_enum (vt : vtype) (vals : list (str * evalue)) (cls : str)
| PL_litenum (vt : vtype) (vals : list evalue) (cls : str)
| PL_list (inner : mprop)
| PL_const (cv : jval)
| PL_union (ms : list ckind) (id : N)
| PL_model (id : N).

Definition mp_kind (p : mprop) := match p with MP k _ _ _ _ _ => k end.
Definition mp_required (p : mprop) := match p with MP _ r _ _ _ _ => r end.
Definition mp_dflt (p : mprop) := match p with MP _ _ d _ _ _ => d end.
Definition mp_descr (p : mprop) := match p with MP _ _ _ d _ _ => d end.
Definition mp_example (p : mprop) := match p with MP _ _ _ _ e _ => e end.
Definition mp_pl (p : mprop) := match p with MP _ _ _ _ _ pl => pl end.

Definition optN_eqb (a b : option N) : bool :=
  match a, b with Some x, Some y => x =? y | None, None => true | _, _ => false end.
Definition optval_eqb (a b : option value) : bool :=
  match a, b with Some x, Some y => value_eqb x y | None, None => true | _, _ => false end.
Definition vtype_eqb (a b : vtype) : bool := match a, b with VInt, VInt | VStr, VStr => true | _, _ => false end.

Fixpoint list_eqb {A} (eq : A -> A -> bool) (a b : list A) : bool :=
  match a, b with
  | [], [] => true
  | x :: a', y :: b' => eq x y && list_eqb eq a' b'
  | _, _ => false
  end.
Definition member_eqb (a b : str * evalue) : bool := str_eqb (fst a) (fst b) && evalue_eqb (snd a) (snd b).

(* identity of union member kinds is abstracted to the tag id; ckind lists are not compared *)
Fixpoint mprop_eqb (a b : mprop) {struct a} : bool :=
  match a, b with
  | MP k1 r1 d1 ds1 e1 pl1, MP k2 r2 d2 ds2 e2 pl2 =>
      mkind_eqb k1 k2 && Bool.eqb r1 r2 && optval_eqb d1 d2 && optN_eqb ds1 ds2 && optN_eqb e1 e2 &&
      match pl1, pl2 with
      | PL_none, PL_none => true
      | PL_enum vt1 v1 c1, PL_enum vt2 v2 c2 => vtype_eqb vt1 vt2 && list_eqb member_eqb v1 v2 && str_eqb c1 c2
      | PL_litenum vt1 v1 c1, PL_litenum vt2 v2 c2 => vtype_eqb vt1 vt2 && list_eqb evalue_eqb v1 v2 && str_eqb c1 c2
      | PL_list i1, PL_list i2 => mprop_eqb i1 i2
      | PL_const c1, PL_const c2 => jval_eqb c1 c2
      | PL_union _ i1, PL_union _ i2 => i1 =? i2
      | PL_model i1, PL_model i2 => i1 =? i2
      | _, _ => false
      end
  end.

(* the kind-with-payload that convert_value of a property dispatches on *)
Definition ckind_of (p : mprop) : ckind :=
  match mp_kind p, mp_pl p with
  | MAny, _ => CAny | MNone, _ => CNone | MBool, _ => CBool | MInt, _ => CInt | MFloat, _ => CFloat | MStr, _ => CStr
  | MDate, _ => CDate | MDateTime, _ => CDateTime | MUuid, _ => CUuid | MFile, _ => CFile
  | MList, _ => CList | MModel, _ => CModel
  | MConst, PL_const cv => CConst cv
  | MEnum, PL_enum vt vals cls => CEnum vt cls vals
  | MLitEnum, PL_litenum vt vals _ => CLitEnum vt vals
  | MUnion, PL_union ms _ => CUnion ms
  | _, _ => CAny   (* ill-formed combination: never built by the parser *)
  end.

Inductive mres := MOk (p : mprop) | MErr | MCrash.

Definition or_opt {A} (a b : option A) : option A := match a with Some _ => a | None => b end.

(* _merge_common_attributes(base, *extend_with) *)
Fixpoint common (o : oracles) (cur : mprop) (ext : list mprop) : mres :=
  match ext with
  | [] => MOk cur
  | ov :: ext' =>
      let conv := match mp_dflt ov with
                  | Some d => convert_value o (ckind_of cur) (raw d)
                  | None => Ok None
                  end in
      match conv with
      | Err => MErr
      | Crash => MCrash
      | Ok od =>
          match cur with
          | MP k r d ds e pl =>
              common o (MP k (r || mp_required ov) (or_opt od d) (or_opt (mp_descr ov) ds) (or_opt (mp_example ov) e) pl) ext'
          end
      end
  end.

Definition subset_members (a b : list (str * evalue)) : bool := forallb (fun x => existsb (member_eqb x) b) a.
Definition subset_evalues (a b : list evalue) : bool := forallb (fun x => existsb (evalue_eqb x) b) a.

Definition merge_with_enum (o : oracles) (p1 p2 : mprop) : mres :=
  match mp_kind p1, mp_pl p1, mp_kind p2, mp_pl p2 with
  | MEnum, PL_enum vt1 v1 c1, MEnum, PL_enum vt2 v2 c2 =>
      if subset_members v1 v2 then
        match p1 with MP k r d ds e _ => common o (MP k r d ds e (PL_enum vt1 v1 c1)) [p2] end
      else if subset_members v2 v1 then
        match p1 with MP k r d ds e _ => common o (MP k r d ds e (PL_enum vt1 v2 c2)) [p2] end
      else MErr
  | MEnum, PL_enum vt _ _, k2, _ =>
      if (mkind_eqb k2 MInt && vtype_eqb vt VInt) || (mkind_eqb k2 MStr && vtype_eqb vt VStr) then common o p1 [p1; p2] else MErr
  | k1, _, MEnum, PL_enum vt _ _ =>
      if (mkind_eqb k1 MInt && vtype_eqb vt VInt) || (mkind_eqb k1 MStr && vtype_eqb vt VStr) then common o p2 [p1; p2] else MErr
  | _, _, _, _ => MErr
  end.

Definition merge_with_litenum (o : oracles) (p1 p2 : mprop) : mres :=
  match mp_kind p1, mp_pl p1, mp_kind p2, mp_pl p2 with
  | MLitEnum, PL_litenum vt1 v1 c1, MLitEnum, PL_litenum vt2 v2 c2 =>
      if subset_evalues v1 v2 then
        match p1 with MP k r d ds e _ => common o (MP k r d ds e (PL_litenum vt1 v1 c1)) [p2] end
      else if subset_evalues v2 v1 then
        match p1 with MP k r d ds e _ => common o (MP k r d ds e (PL_litenum vt1 v2 c2)) [p2] end
      else MErr
  | MLitEnum, PL_litenum vt _ _, k2, _ =>
      if (mkind_eqb k2 MInt && vtype_eqb vt VInt) || (mkind_eqb k2 MStr && vtype_eqb vt VStr) then common o p1 [p1; p2] else MErr
  | k1, _, MLitEnum, PL_litenum vt _ _ =>
      if (mkind_eqb k1 MInt && vtype_eqb vt VInt) || (mkind_eqb k1 MStr && vtype_eqb vt VStr) then common o p2 [p1; p2] else MErr
  | _, _, _, _ => MErr
  end.

Definition is_fmt (k : mkind) : bool := match k with MDate | MDateTime | MFile => true | _ => false end.

(* merge_properties; structural on the first argument (lists recurse into the item property) *)
Fixpoint merge (o : oracles) (p1 p2 : mprop) {struct p1} : mres :=
  let k1 := mp_kind p1 in let k2 := mp_kind p2 in
  if mkind_eqb k2 MAny then common o p1 [p2]
  else if mkind_eqb k1 MAny then common o p2 [p1; p2]
  else if mkind_eqb k1 MEnum || mkind_eqb k2 MEnum then merge_with_enum o p1 p2
  else if mkind_eqb k1 MLitEnum || mkind_eqb k2 MLitEnum then merge_with_litenum o p1 p2
  else if mkind_eqb k1 k2 then
    (* _merge_same_type *)
    if mprop_eqb p1 p2 then MOk p1
    else match p1, mp_pl p2 with
         | MP k r d ds e (PL_list i1), PL_list i2 =>
             match merge o i1 i2 with
             | MOk i => common o (MP k r d ds e (PL_list i)) [p2]
             | MErr => MErr
             | MCrash => MCrash
             end
         | _, _ => common o p1 [p2]
         end
  else if mkind_eqb k1 MInt && mkind_eqb k2 MFloat then common o p1 [p2]
  else if mkind_eqb k2 MInt && mkind_eqb k1 MFloat then common o p2 [p1; p2]
  else if mkind_eqb k1 MStr && is_fmt k2 then common o p2 [p1; p2]
  else if mkind_eqb k2 MStr && is_fmt k1 then common o p1 [p2]
  else MErr.

(* ---- property collection of _process_properties (allOf members first, then inline), names / merge only ---- *)
Fixpoint add_prop (o : oracles) (props : list (str * mprop)) (n : str) (p : mprop) : option (list (str * mprop)) :=
  match props with
  | [] => Some [(n, p)]
  | (n', p') :: rest =>
      if str_eqb n n' then match merge o p' p with MOk m => Some ((n', m) :: rest) | _ => None end
      else match add_prop o rest n p with Some r => Some ((n', p') :: r) | None => None end
  end.
Definition collect (o : oracles) (ins : list (str * mprop)) : option (list (str * mprop)) :=
  fold_left (fun acc np => match acc with Some ps => add_prop o ps (fst np) (snd np) | None => None end) ins (Some []).

(* ---- the type-level reading of a property (what the theorem about order-independence compares) ---- *)
Definition same_set_members (a b : list (str * evalue)) : bool := subset_members a b && subset_members b a.
Definition same_set_evalues (a b : list evalue) : bool := subset_evalues a b && subset_evalues b a.
Fixpoint ty_eqb (a b : mprop) {struct a} : bool :=
  mkind_eqb (mp_kind a) (mp_kind b) &&
  match mp_pl a, mp_pl b with
  | PL_none, PL_none => true
  | PL_enum vt1 v1 c1, PL_enum vt2 v2 c2 => vtype_eqb vt1 vt2 && same_set_members v1 v2 && str_eqb c1 c2
  | PL_litenum vt1 v1 c1, PL_litenum vt2 v2 c2 => vtype_eqb vt1 vt2 && same_set_evalues v1 v2 && str_eqb c1 c2
  | PL_list i1, PL_list i2 => ty_eqb i1 i2
  | PL_const c1, PL_const c2 => jval_eqb c1 c2
  | PL_union _ i1, PL_union _ i2 => i1 =? i2
  | PL_model i1, PL_model i2 => i1 =? i2
  | _, _ => false
  end.

(* guard g_merge: the cases where the code silently keeps the FIRST declaration are excluded:
   same kind with different opaque payload (model / union / const), and two enums with equal value sets but different classes *)
Fixpoint g_merge (a b : mprop) {struct a} : bool :=
  match mp_pl a, mp_pl b with
  | PL_list i1, PL_list i2 => g_merge i1 i2
  | PL_const c1, PL_const c2 => jval_eqb c1 c2
  | PL_union _ i1, PL_union _ i2 => i1 =? i2
  | PL_model i1, PL_model i2 => i1 =? i2
  | PL_enum _ v1 c1, PL_enum _ v2 c2 => negb (same_set_members v1 v2) || str_eqb c1 c2
  | PL_litenum _ v1 c1, PL_litenum _ v2 c2 => negb (same_set_evalues v1 v2) || str_eqb c1 c2
  | _, _ => true
  end.

(* well-formed: payload shape matches kind (what the parser builds) *)
Definition ev_has_type (vt : vtype) (e : evalue) : bool :=
  match vt, e with VInt, EInt _ | VStr, EStr _ => true | _, _ => false end.
Fixpoint wf_mprop (p : mprop) : bool :=
  match mp_kind p, mp_pl p with
  | MEnum, PL_enum vt vals _ => negb (match vals with [] => true | _ => false end) && forallb (fun m => ev_has_type vt (snd m)) vals
  | MLitEnum, PL_litenum vt vals _ => negb (match vals with [] => true | _ => false end) && forallb (ev_has_type vt) vals
  | MConst, PL_const _ | MUnion, PL_union _ _ | MModel, PL_model _ => true
  | MList, PL_list i => wf_mprop i
  | (MAny | MNone | MBool | MInt | MFloat | MStr | MDate | MDateTime | MUuid | MFile), PL_none => true
  | _, _ => false
  end.

(* narrowest kind of two kinds, None = incompatible (spec side) *)
Definition narrow_kind (k1 k2 : mkind) (vt1 vt2 : option vtype) : option mkind :=
  if mkind_eqb k2 MAny then Some k1 else if mkind_eqb k1 MAny then Some k2
  else if mkind_eqb k1 k2 then Some k1
  else match k1, k2 with
       | MInt, MFloat | MFloat, MInt => Some MInt
       | MStr, (MDate | MDateTime | MFile) => Some k2
       | (MDate | MDateTime | MFile), MStr => Some k1
       | MEnum, MInt => match vt1 with Some VInt => Some MEnum | _ => None end
       | MInt, MEnum => match vt2 with Some VInt => Some MEnum | _ => None end
       | MEnum, MStr => match vt1 with Some VStr => Some MEnum | _ => None end
       | MStr, MEnum => match vt2 with Some VStr => Some MEnum | _ => None end
       | MLitEnum, MInt => match vt1 with Some VInt => Some MLitEnum | _ => None end
       | MInt, MLitEnum => match vt2 with Some VInt => Some MLitEnum | _ => None end
       | MLitEnum, MStr => match vt1 with Some VStr => Some MLitEnum | _ => None end
       | MStr, MLitEnum => match vt2 with Some VStr => Some MLitEnum | _ => None end
       | _, _ => None
       end.
Definition vt_of (p : mprop) : option vtype :=
  match mp_pl p with PL_enum vt _ _ => Some vt | PL_litenum vt _ _ => Some vt | _ => None end.
