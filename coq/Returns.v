(* Returns.v — the return annotation of the generated endpoint functions (parser/openapi.py Endpoint.response_type, rendered by
   endpoint_module.py.jinja as Optional[<response_type>] / Response[<response_type>]): the union of the declared types of ALL
   documented responses (Any when there is none). Theorem: whatever _parse_response returns for a documented status inhabits it,
   i.e. the annotation is truthful - dropping a member (e.g. `Any`) from the union would make it false. *)
From Coq Require Import NArith ZArith List Bool.
Import ListNotations.
Require Import OPC.Uni OPC.Codec OPC.Types OPC.Endpoint OPC.EndpointThm.
Open Scope N_scope.

Definition response_ty_kinds (ks : list pk) : ty :=
  match ks with [] => TyAny | _ => TyUnion (map (fun k => type_of k true) ks) end.
Definition response_ty (rs : list response) : ty := response_ty_kinds (map rs_kind rs).
(* Optional[...] of _parse_response / sync / asyncio *)
Definition return_ty (rs : list response) : ty := TyUnion [TyNone; response_ty rs].

Lemma documented_in : forall rs st r, documented rs st = Some r -> In r rs.
Proof. intros rs st r H. unfold documented in H. apply find_some in H. exact (proj1 H). Qed.

Theorem member_inhabits_response_ty : forall rs r v, In r rs -> inhabits v (type_of (rs_kind r) true) = true -> inhabits v (response_ty rs) = true.
Proof.
  intros rs r v Hin Hv. unfold response_ty, response_ty_kinds.
  destruct (map rs_kind rs) as [|k ks] eqn:E.
  - destruct rs; [contradiction | discriminate].
  - rewrite <- E. cbn [inhabits]. apply existsb_exists. exists (type_of (rs_kind r) true). split; [|exact Hv].
    rewrite map_map. apply in_map_iff. exists r. split; [reflexivity | exact Hin].
Qed.

(* the annotation is truthful: the value parsed for a documented status inhabits the declared return type *)
Theorem return_annotation_truthful : forall orc T f rs flag h r j v,
  table_ok T = true -> k_ok (rs_kind r) = true -> wf_json j = true ->
  documented rs (h_status h) = Some r -> source_value (rs_source r) h = Some j ->
  valid orc T f (rs_kind r) j = true ->
  parse_response orc T f rs true flag h = PVal (Some v) -> inhabits v (response_ty rs) = true.
Proof.
  intros orc T f rs flag h r j v HT Hk Hw Hdoc Hsrc Hval H.
  apply member_inhabits_response_ty with (r := r); [exact (documented_in _ _ _ Hdoc)|].
  exact (parsed_value_typed orc T f rs flag h r j v HT Hk Hw Hdoc Hsrc Hval H).
Qed.

(* "no parsed value" is None, which Optional[...] admits *)
Theorem none_inhabits_return_ty : forall rs, inhabits (PJ JNull) (return_ty rs) = true.
Proof. intro rs. reflexivity. Qed.
Theorem value_inhabits_return_ty : forall rs v, inhabits v (response_ty rs) = true -> inhabits v (return_ty rs) = true.
Proof. intros rs v H. unfold return_ty. cbn [inhabits existsb]. rewrite H. apply orb_true_r. Qed.

(* every member is needed: with the untyped member dropped from the union, a value parsed for that status no longer inhabits it *)
Theorem dropped_member_refuted : exists ks v, inhabits v (response_ty_kinds ks) = true /\
  inhabits v (response_ty_kinds (filter (fun k => match k with KAny => false | _ => true end) ks)) = false.
Proof. exists [KAny; KInt], (PJ (JStr [])). vm_compute. split; reflexivity. Qed.
