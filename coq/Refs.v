(* Refs.v - executable model of how the parser resolves references to reusable components (property C20):
     (a) parse_reference_path / get_reference_simple_name            (parser/properties/schemas.py:35-53)
     (b) the request-body reference chain with its cycle guard        (parser/bodies.py:131-147 _resolve_reference)
     (c) component parameters: parameter_from_data (field-by-field copy), build_parameters, parameter_from_reference,
         Endpoint.add_parameters (resolve, then de-duplicate, operation level before path-item level)
                                                                    (schemas.py:158-249, properties/__init__.py:420-459, openapi.py:207-330)
     (d) the reference case of response_from_data                     (parser/responses.py:96-108)
     (e) which attributes a schema reference may change (_property_from_ref's evolve call, properties/__init__.py:104-137)
   Data that is not algorithm (which fields of the parameter object are copied / read, the prefix constants, the character tables of the
   interpreter's urlsplit) comes from gen/GenParams.v, regenerated on every run.
   Model file: definitions only. Strings are lists of code points. *)
From Coq Require Import NArith List Bool.
Import ListNotations.
Require Import OPC.gen.GenParams OPC.Uni.
Open Scope N_scope.

(* ------------------------------------------------------------------ generic helpers *)
Fixpoint assoc {V : Type} (k : str) (l : list (str * V)) : option V :=
  match l with [] => None | (k', v) :: r => if str_eqb k k' then Some v else assoc k r end.

Fixpoint assocN {V : Type} (k : N) (l : list (N * V)) : option V :=
  match l with [] => None | (k', v) :: r => if k =? k' then Some v else assocN k r end.

Definition subsetN (a b : list N) : bool := forallb (fun x => memN x b) a.

(* s.split(c, 1): (before, Some after) at the first occurrence of c, (s, None) when c does not occur *)
Fixpoint split_at (c : N) (s : str) : str * option str :=
  match s with
  | [] => ([], None)
  | x :: r => if x =? c then ([], Some r) else let (a, b) := split_at c r in (x :: a, b)
  end.

(* s.split(c)[-1]: the suffix after the last occurrence of c (all of s when c does not occur) *)
Fixpoint after_last (c : N) (s : str) : str :=
  match s with
  | [] => []
  | x :: r => if memN c r then after_last c r else if x =? c then r else s
  end.

(* s[: s.rfind(c)] for a string that contains c: everything before the last occurrence *)
Fixpoint before_last (c : N) (s : str) : str :=
  match s with
  | [] => []
  | x :: r => if memN c r then x :: before_last c r else []
  end.

(* ------------------------------------------------------------------ (a) reference strings *)
Definition get_reference_simple_name (ref_path : str) : str := after_last 47 ref_path.

(* urlsplit, first lines: url.lstrip(_WHATWG_C0_CONTROL_OR_SPACE) then removal of tab / CR / LF everywhere *)
Fixpoint lstrip_set (set : list N) (s : str) : str :=
  match s with [] => [] | c :: r => if memN c set then lstrip_set set r else s end.
Definition url_clean (s : str) : str := filter (fun c => negb (memN c gen_url_remove)) (lstrip_set gen_url_strip s).

Definition ascii_alpha (c : N) : bool := ((97 <=? c) && (c <=? 122)) || ((65 <=? c) && (c <=? 90)).

(* scheme detection: i = url.find(':'); i > 0, url[0] an ASCII letter, all of url[:i] in scheme_chars *)
Definition split_scheme (u : str) : bool * str :=
  match split_at 58 u with
  | (c :: pre, Some rest) => if ascii_alpha c && forallb (fun x => memN x gen_scheme_chars) (c :: pre) then (true, rest) else (false, u)
  | _ => (false, u)
  end.

(* _splitnetloc(url, 2) on the text after the two slashes: up to the first of / ? # *)
Fixpoint span_netloc (s : str) : str * str :=
  match s with
  | [] => ([], [])
  | c :: r => if (c =? 47) || (c =? 63) || (c =? 35) then ([], s) else let (a, b) := span_netloc r in (c :: a, b)
  end.

(* _splitparams(url)[0], called when ';' occurs in url and the scheme allows parameters *)
Definition strip_params (p : str) : str :=
  if memN 59 p then
    if memN 47 p then
      let head := before_last 47 p in let tail := after_last 47 p in
      match split_at 59 tail with
      | (t, Some _) => head ++ [47] ++ t
      | (_, None) => p
      end
    else fst (split_at 59 p)
  else p.

Inductive pref_result := PROk (fragment : str) | PRRemote | PRCrash | PRUnmodelled.

(* parse_reference_path: urlparse(raw); error when scheme or path is non-empty; otherwise the fragment (netloc, query and
   params are ignored by the code). PRCrash: urlsplit raises ValueError (one-sided bracket in the authority part);
   PRUnmodelled: authority parts whose validation lives in ipaddress / unicodedata (both brackets, non-ASCII). *)
Definition parse_reference_path (raw : str) : pref_result :=
  let u := url_clean raw in
  let (has_scheme, u1) := split_scheme u in
  let (netloc, u2) := match u1 with 47 :: 47 :: r => span_netloc r | _ => ([], u1) end in
  let lb := memN 91 netloc in let rb := memN 93 netloc in
  if xorb lb rb then PRCrash
  else if lb || existsb (fun c => 128 <=? c) netloc then PRUnmodelled
  else
    let (pre, frag) := split_at 35 u2 in
    let fragment := match frag with Some f => f | None => [] end in
    let (p0, _) := split_at 63 pre in
    let path := if has_scheme then p0 else if gen_uses_params_empty then strip_params p0 else p0 in
    if has_scheme then PRRemote
    else match path with [] => PROk fragment | _ => PRRemote end.

(* the authority / query / params parts that the code silently ignores: true when all three are empty *)
Definition g_no_authority (raw : str) : bool :=
  let u := url_clean raw in
  match u with [] => true | c :: _ => c =? 35 end.

(* ------------------------------------------------------------------ (b) request-body reference chain *)
Inductive body_entry (B : Type) := BRef (r : str) | BBody (b : B).
Arguments BRef {B} r. Arguments BBody {B} b.
Inductive body_result (B : Type) := BRNone | BROk (b : B) | BRCircular (r : str) | BRMissing (r : str) | BRFuel.
Arguments BRNone {B}. Arguments BROk {B} b. Arguments BRCircular {B} r. Arguments BRMissing {B} r. Arguments BRFuel {B}.

(* while isinstance(body, Reference) and body.ref not in references_seen:
       references_seen.append(body.ref); body = request_bodies.get(get_reference_simple_name(body.ref))
   `seen` is kept in reverse order (most recent first). *)
Fixpoint body_loop {B : Type} (fuel : nat) (comps : list (str * body_entry B)) (seen : list str) (cur : option (body_entry B)) : body_result B :=
  match cur with
  | Some (BBody b) => BROk b
  | None => match seen with [] => BRNone | r :: _ => BRMissing r end
  | Some (BRef r) =>
      if mem_str r seen then BRCircular r
      else match fuel with
           | O => BRFuel
           | S f => body_loop f comps (r :: seen) (assoc (get_reference_simple_name r) comps)
           end
  end.

Definition resolve_body {B : Type} (comps : list (str * body_entry B)) (start : option (body_entry B)) : body_result B :=
  body_loop (S (length comps)) comps [] start.

(* the well-formed local form of a request-body reference: #/components/requestBodies/<name without slash> *)
Definition body_ref_prefix : str := [35;47;99;111;109;112;111;110;101;110;116;115;47;114;101;113;117;101;115;116;66;111;100;105;101;115;47].
Definition g_body_ref_local (r : str) : bool :=
  is_prefix body_ref_prefix r && negb (memN 47 (skipn (length body_ref_prefix) r)).

(* ------------------------------------------------------------------ (c) parameters *)
Inductive loc := LQuery | LPath | LHeader | LCookie.
Definition loc_eqb (a b : loc) : bool :=
  match a, b with LQuery, LQuery | LPath, LPath | LHeader, LHeader | LCookie, LCookie => true | _, _ => false end.

Inductive pval := PVnone | PVbool (b : bool) | PVstr (s : str) | PVloc (l : loc) | PVschema (n : N) | PVother (n : N).

(* an oai.Parameter: field id -> value; a field that is not listed holds its constructor default *)
Definition param := list (N * pval).
Definition default_of (f : N) : pval :=
  match assocN f gen_param_fields with
  | Some (_, DFalse) => PVbool false
  | Some (_, DTrue) => PVbool true
  | _ => PVnone
  end.
Definition pget (p : param) (f : N) : pval := match assocN f p with Some v => v | None => default_of f end.

Definition p_name (p : param) : str := match pget p gf_name with PVstr s => s | _ => [] end.
Definition p_loc (p : param) : loc := match pget p gf_param_in with PVloc l => l | _ => LQuery end.
Definition p_required (p : param) : bool := match pget p gf_required with PVbool b => b | _ => false end.
Definition p_schema (p : param) : option N := match pget p gf_param_schema with PVschema n => Some n | _ => None end.
(* the fields the model of add_parameters reads *)
Definition model_reads : list N := [gf_param_schema; gf_name; gf_param_in; gf_required].

(* parameter_from_data: Parameter(f = data.f for the copied fields), every other field at its default *)
Definition copy_param (p : param) : param := map (fun f => (f, pget p f)) gen_param_copied.

Inductive comp := CRef (r : str) | CParam (p : param).

Definition parameter_from_data (d : comp) : option param :=
  match d with
  | CRef _ => None
  | CParam p => match pget p gf_param_schema with PVnone => None | _ => Some (copy_param p) end
  end.

(* parse_reference_path(f"#/components/parameters/{name}") : the text always starts with '#', so it is the cleaned remainder *)
Definition ref_path_of_name (name : str) : pref_result := parse_reference_path (gen_param_ref_prefix ++ name).

Inductive perr := ERemote | ENotFound | EDup | EBuild | ELocation | EConflict | ECrash | EUnmodelled.

(* build_parameters. Whether a component parses never depends on the table, so the retry loop reaches its fixed point after
   one productive round; errors: top-level references first (appended while iterating), then the failing parameters.
   classes_by_reference = {ref_path: param, **old}: an existing key keeps its OLD value. *)
Definition ptable := list (str * param).
Definition tbl_add (k : str) (v : param) (t : ptable) : ptable :=
  match assoc k t with Some _ => t | None => (k, v) :: t end.

Fixpoint build_parameters_loop (comps : list (str * comp)) (t : ptable) (ref_errs par_errs : list str) : ptable * (list str * list str) :=
  match comps with
  | [] => (t, (rev ref_errs, rev par_errs))
  | (name, d) :: rest =>
      match d with
      | CRef _ => build_parameters_loop rest t (name :: ref_errs) par_errs
      | CParam _ =>
          match ref_path_of_name name with
          | PROk rp =>
              match parameter_from_data d with
              | Some p => build_parameters_loop rest (tbl_add rp p t) ref_errs par_errs
              | None => build_parameters_loop rest t ref_errs (name :: par_errs)
              end
          | _ => build_parameters_loop rest t (name :: ref_errs) par_errs
          end
      end
  end.
Definition build_parameters (comps : list (str * comp)) : ptable * (list str * list str) := build_parameters_loop comps [] [] [].

(* the component a reference path denotes, as written in the document (first valid component with that path) *)
Fixpoint raw_lookup (comps : list (str * comp)) (frag : str) : option param :=
  match comps with
  | [] => None
  | (name, CParam p) :: rest =>
      match ref_path_of_name name, pget p gf_param_schema with
      | PROk rp, PVnone => raw_lookup rest frag
      | PROk rp, _ => if str_eqb frag rp then Some p else raw_lookup rest frag
      | _, _ => raw_lookup rest frag
      end
  | _ :: rest => raw_lookup rest frag
  end.

Inductive pitem := PIRef (r : str) | PIParam (p : param).

(* parameter_from_reference *)
Definition parameter_from_reference (t : ptable) (it : pitem) : param + perr :=
  match it with
  | PIParam p => inl p
  | PIRef r =>
      match parse_reference_path r with
      | PROk frag => match assoc frag t with Some p => inl p | None => inr ENotFound end
      | PRRemote => inr ERemote
      | PRCrash => inr ECrash
      | PRUnmodelled => inr EUnmodelled
      end
  end.

Section AddParameters.
  Variables St P : Type.
  (* property_from_data(name, required, schema, schemas): None = PropertyError (the caller keeps the old Schemas) *)
  Variable build : St -> str -> bool -> N -> option (P * St).
  (* prop.validate_location(location) is None *)
  Variable validate : P -> loc -> bool.

  Record pparam := { pp_name : str; pp_loc : loc; pp_required : bool; pp_schema : N; pp_prop : P }.
  (* the four per-location lists of an Endpoint as one list in insertion order (each location list = filter by location) *)
  Definition eparams := list pparam.
  (* _check_parameters_for_conflicts: a function of the collected parameters only *)
  Variable finish : eparams -> eparams + perr.

  Definition key_in (n : str) (l : loc) (u : list (str * loc)) : bool :=
    existsb (fun k => str_eqb n (fst k) && loc_eqb l (snd k)) u.
  Definition present (n : str) (l : loc) (e : eparams) : bool :=
    existsb (fun q => loc_eqb (pp_loc q) l && str_eqb (pp_name q) n) e.

  Fixpoint add_loop (t : ptable) (items : list pitem) (uniq : list (str * loc)) (e : eparams) (st : St) : (eparams + perr) * St :=
    match items with
    | [] => (inl e, st)
    | it :: rest =>
        match parameter_from_reference t it with
        | inr err => (inr err, st)
        | inl p =>
            match p_schema p with
            | None => add_loop t rest uniq e st
            | Some sch =>
                let n := p_name p in let l := p_loc p in
                if key_in n l uniq then (inr EDup, st)
                else
                  let uniq' := (n, l) :: uniq in
                  if present n l e then add_loop t rest uniq' e st
                  else match build st n (p_required p) sch with
                       | None => (inr EBuild, st)
                       | Some (prop, st') =>
                           if validate prop l
                           then add_loop t rest uniq' (e ++ [{| pp_name := n; pp_loc := l; pp_required := p_required p; pp_schema := sch; pp_prop := prop |}]) st'
                           else (inr ELocation, st')
                       end
            end
        end
    end.

  (* Endpoint.add_parameters(data.parameters): None = the key is absent *)
  Definition add_parameters (t : ptable) (items : option (list pitem)) (e : eparams) (st : St) : (eparams + perr) * St :=
    match items with
    | None => (inl e, st)
    | Some its =>
        match add_loop t its [] e st with
        | (inl e', st') => (finish e', st')
        | r => r
        end
    end.

  (* responses and request bodies are processed between the two calls: None = the endpoint failed there *)
  Variable middle : St -> option St.

  (* Endpoint.from_data (operation-level parameters) followed by add_parameters(path item) in EndpointCollection.from_data *)
  Definition endpoint_parameters (t : ptable) (op_items pi_items : option (list pitem)) (st : St) : (eparams + perr) * St :=
    match add_parameters t op_items [] st with
    | (inl e, st1) =>
        match middle st1 with
        | Some st2 => add_parameters t pi_items e st2
        | None => (inr EBuild, st1)
        end
    | r => r
    end.
End AddParameters.
Arguments pp_name {P}. Arguments pp_loc {P}. Arguments pp_required {P}. Arguments pp_schema {P}. Arguments pp_prop {P}.

(* replace every reference item by the component it denotes, as written in the document; None when one does not resolve *)
Definition inline_item (comps : list (str * comp)) (it : pitem) : option pitem :=
  match it with
  | PIParam _ => Some it
  | PIRef r => match parse_reference_path r with
               | PROk frag => match raw_lookup comps frag with Some p => Some (PIParam p) | None => None end
               | _ => None
               end
  end.
Fixpoint inline_items (comps : list (str * comp)) (its : list pitem) : option (list pitem) :=
  match its with
  | [] => Some []
  | it :: r => match inline_item comps it, inline_items comps r with
               | Some a, Some b => Some (a :: b)
               | _, _ => None
               end
  end.

(* component names that the f-string + urlsplit route maps to themselves (no tab / CR / LF): distinct names, distinct paths *)
Definition name_plain (n : str) : bool := negb (existsb (fun c => memN c gen_url_remove) n).
Fixpoint names_nodup (l : list str) : bool :=
  match l with [] => true | n :: r => negb (mem_str n r) && names_nodup r end.
Definition g_param_keys_plain (comps : list (str * comp)) : bool :=
  forallb name_plain (map fst comps) && names_nodup (map fst comps).

(* ------------------------------------------------------------------ (d) responses *)
Inductive resp_entry (R : Type) := RRefE (r : str) | RResp (x : R).
Arguments RRefE {R} r. Arguments RResp {R} x.
Inductive resp_result (R : Type) := RROk (x : R) | RRRemote | RRNotAllowed | RRNotFound | RRTopRef | RRCrash | RRUnmodelled.
Arguments RROk {R} x. Arguments RRRemote {R}. Arguments RRNotAllowed {R}. Arguments RRNotFound {R}. Arguments RRTopRef {R}.
Arguments RRCrash {R}. Arguments RRUnmodelled {R}.

Definition resolve_response {R : Type} (comps : list (str * resp_entry R)) (d : resp_entry R) : resp_result R :=
  match d with
  | RResp x => RROk x
  | RRefE r =>
      match parse_reference_path r with
      | PROk frag =>
          if is_prefix gen_response_prefix frag then
            match assoc (get_reference_simple_name frag) comps with
            | None => RRNotFound
            | Some (RRefE _) => RRTopRef
            | Some (RResp x) => RROk x
            end
          else RRNotAllowed
      | PRRemote => RRRemote
      | PRCrash => RRCrash
      | PRUnmodelled => RRUnmodelled
      end
  end.

(* exactly one path segment after the prefix *)
Definition g_single_segment (raw : str) : bool :=
  match parse_reference_path raw with
  | PROk frag => implb (is_prefix gen_response_prefix frag) (negb (memN 47 (skipn (length gen_response_prefix) frag)))
  | _ => true
  end.

(* ------------------------------------------------------------------ (e) schema references: evolve(existing, ...) *)
(* a parsed property as attribute name -> value; a reference yields the existing property with the attributes named in
   gen_ref_evolved replaced (upd gives the new values) *)
Definition prop_attrs (V : Type) := list (str * V).
Definition evolve_ref {V : Type} (existing : prop_attrs V) (upd : str -> V) : prop_attrs V :=
  map (fun kv => if mem_str (fst kv) gen_ref_evolved then (fst kv, upd (fst kv)) else kv) existing.
Definition s_name : str := [110;97;109;101].
Definition s_python_name : str := [112;121;116;104;111;110;95;110;97;109;101].
Definition s_required : str := [114;101;113;117;105;114;101;100].
Definition s_default : str := [100;101;102;97;117;108;116].
Definition ref_may_change : list str := [s_name; s_python_name; s_required; s_default].
