(* RefDefaultThm.v — C13: defaults that travel through a reference (ref_default_revalidated) or through an allOf merge
   (merge_default_reconverted) are convert_value of the FINAL kind on the raw value, or an error; never reused, never dropped. *)
From Coq Require Import NArith ZArith List Bool Lia.
Import ListNotations.
Require Import OPC.gen.GenTables OPC.Uni OPC.Names OPC.NamesThm OPC.PyLit OPC.PyLitThm OPC.Values OPC.PyEval OPC.ValuesThm OPC.ValuesThm2
               OPC.Merge OPC.MergeThm OPC.RefDefault.
Open Scope N_scope.

#[local] Opaque printable upper lower snake_case c_isalpha.

(* ================= a non-null value is never converted to "no default" (in particular the falsy 0, 0.0, false and the empty string) ================= *)

Lemma conv_any_none v : conv_any v = Ok None -> v = JNull.
Proof. destruct v; cbn [conv_any conv_string]; intros H; try discriminate H; reflexivity. Qed.

Theorem conv_ok_none : forall o k v, convert_value o k v = Ok None ->
  v = JNull \/ k = CList \/ exists ms, k = CUnion ms.
Proof.
  intros o k v H. destruct k; cbn [convert_value] in H; try (right; left; reflexivity); try (right; right; eexists; reflexivity); left.
  - apply conv_any_none. exact H.
  - destruct v as [|b|z|f|s|s]; cbn [conv_none] in H; try discriminate H; [reflexivity|]. destruct (str_eqb s s_None); discriminate H.
  - destruct v as [|b|z|f|s|s]; cbn [conv_bool] in H; try discriminate H; [reflexivity|].
    destruct (str_eqb (lower s) s_true); [discriminate H|]. destruct (str_eqb (lower s) s_false); discriminate H.
  - destruct v as [|b|z|f|s|s]; cbn [conv_int] in H; try discriminate H; [reflexivity | |].
    + unfold int_of_float in H. destruct (negb (f_finite f)); [discriminate H|]. destruct (f_int f); discriminate H.
    + destruct (parse_float o s) as [f|]; [|discriminate H]. unfold int_of_float in H.
      destruct (negb (f_finite f)); [discriminate H|]. destruct (f_int f); discriminate H.
  - destruct v as [|b|z|f|s|s]; cbn [conv_float] in H; try discriminate H; [reflexivity | |].
    + destruct (float_of_int o z); discriminate H.
    + destruct (parse_float o s); discriminate H.
  - destruct v; cbn [conv_string] in H; try discriminate H. reflexivity.
  - destruct v as [|b|z|f|s|s]; cbn [conv_date] in H; try discriminate H; [reflexivity|]. destruct (isoparse_ok o s); discriminate H.
  - destruct v as [|b|z|f|s|s]; cbn [conv_datetime] in H; try discriminate H; [reflexivity|]. destruct (isoparse_ok o s); discriminate H.
  - destruct v as [|b|z|f|s|s]; cbn [conv_uuid] in H; try discriminate H; [reflexivity|]. destruct (uuid_ok o s); discriminate H.
  - destruct v; cbn [conv_file] in H; try discriminate H. reflexivity.
  - destruct v; try discriminate H. reflexivity.
  - unfold conv_const in H. destruct (conv_any v) as [[x|]| |] eqn:E; try discriminate H.
    + destruct (conv_any cv) as [[c|]| |]; try discriminate H. destruct (value_eqb x c); discriminate H.
    + apply conv_any_none. exact E.
  - unfold conv_enum in H. destruct v as [|b|z|f|s|s], vt; try discriminate H; try reflexivity;
      destruct (inverse_lookup _ members); discriminate H.
  - unfold conv_litenum in H. destruct v as [|b|z|f|s|s], vt; try discriminate H; try reflexivity;
      destruct (existsb _ vals); discriminate H.
Qed.

(* ================= T ref_default_revalidated ================= *)

(* the default that survives the reference is convert_value of the REFERENCED kind on the raw value declared next to the reference *)
Theorem ref_default_revalidated : forall o existing name required pd p,
  property_from_ref o existing name required pd = ROk p ->
  r_kind p = r_kind existing /\ r_required p = required /\ r_name p = name /\
  convert_value o (r_kind existing) pd = Ok (r_default p).
Proof.
  intros o ex name rq pd p H. unfold property_from_ref in H.
  destruct (convert_value o (r_kind ex) pd) as [d| |]; try discriminate H. injection H as <-. cbn. auto.
Qed.

(* a declared (non-null) default is never silently dropped on this route: it is present in the result or the reference is an error *)
Theorem ref_default_not_dropped : forall o existing name required pd p,
  pd <> JNull -> r_kind existing <> CList -> (forall ms, r_kind existing <> CUnion ms) ->
  property_from_ref o existing name required pd = ROk p -> r_default p <> None.
Proof.
  intros o ex name rq pd p Hpd Hl Hu H. apply ref_default_revalidated in H as (_ & _ & _ & Hc).
  intros E. rewrite E in Hc. apply conv_ok_none in Hc as [X|[X|(ms & X)]]; [exact (Hpd X) | exact (Hl X) | exact (Hu ms X)].
Qed.

(* inside the guard the surviving default's code evaluates to the declared typed value of the referenced kind ... *)
Theorem ref_default_sound : forall o existing name required pd p,
  default_class o (r_kind existing) pd = 0 -> pd <> JNull ->
  property_from_ref o existing name required pd = ROk p ->
  exists x pv, r_default p = Some x /\ typed_value o (r_kind existing) pd = Some pv /\ eval_code (code x) = Some pv.
Proof.
  intros o ex name rq pd p Hc Hpd H. apply ref_default_revalidated in H as (_ & _ & _ & Hcv).
  destruct (r_default p) as [x|] eqn:E.
  - destruct (default_sound o _ pd x Hc Hcv) as (pv & Ht & He). exists x, pv. auto.
  - exfalso. apply conv_ok_none in Hcv as [X|[X|(ms & X)]]; [exact (Hpd X) | rewrite X in Hc; discriminate Hc | rewrite X in Hc; discriminate Hc].
Qed.

(* ... and a value that denotes nothing of the referenced kind makes the reference an error (diagnostic), never a default *)
Theorem ref_default_complete : forall o existing name required pd,
  default_class o (r_kind existing) pd = 0 -> pd <> JNull -> typed_value o (r_kind existing) pd = None ->
  property_from_ref o existing name required pd = RErr.
Proof.
  intros o ex name rq pd Hc Hpd Ht. unfold property_from_ref. rewrite (default_complete o _ pd Hc Hpd Ht). reflexivity.
Qed.

(* ================= T merge_default_reconverted ================= *)

Lemma ckind_of_irrel k r d ds e r' d' ds' e' pl : ckind_of (MP k r d ds e pl) = ckind_of (MP k r' d' ds' e' pl).
Proof. reflexivity. Qed.

(* _merge_common_attributes(base, *extend_with): kind and payload of the result are the base's; EVERY override that declares a
   default has it re-converted by the base's (final, narrower) kind and the merge is an error if that fails; the surviving default is
   the base's own or such a re-conversion — an override's stored Value is never reused *)
Theorem merge_default_reconverted : forall o ext cur r, common o cur ext = MOk r ->
  ckind_of r = ckind_of cur /\
  (forall ov d, In ov ext -> mp_dflt ov = Some d -> exists od, convert_value o (ckind_of r) (raw d) = Ok od) /\
  (mp_dflt r = mp_dflt cur \/
   exists ov d x, In ov ext /\ mp_dflt ov = Some d /\ convert_value o (ckind_of r) (raw d) = Ok (Some x) /\ mp_dflt r = Some x).
Proof.
  intros o. induction ext as [|ov ext IH]; intros cur r H.
  - cbn [common] in H. injection H as <-. split; [reflexivity|]. split; [intros ov d []|]. left; reflexivity.
  - rewrite common_cons in H. unfold conv_of in H.
    destruct cur as [k rq d0 ds e pl].
    destruct (mp_dflt ov) as [dv|] eqn:Ed.
    + destruct (convert_value o (ckind_of (MP k rq d0 ds e pl)) (raw dv)) as [od| |] eqn:Ec; try discriminate H.
      apply IH in H as (Hk & Hall & Hd).
      rewrite (ckind_of_irrel k _ _ _ _ rq d0 ds e pl) in Hk.
      split; [exact Hk|]. split.
      * intros ov' d' [<-|Hin] Hd'.
        -- rewrite Ed in Hd'. injection Hd' as <-. exists od. rewrite Hk. exact Ec.
        -- apply (Hall ov' d' Hin Hd').
      * destruct Hd as [Hd|(ov' & d' & x & Hin & Hd' & Hc' & Hr)].
        -- cbn [mp_dflt] in Hd. destruct od as [x|]; cbn [or_opt] in Hd.
           ++ right. exists ov, dv, x. split; [left; reflexivity|]. split; [exact Ed|]. split; [rewrite Hk; exact Ec | exact Hd].
           ++ left. exact Hd.
        -- right. exists ov', d', x. split; [right; exact Hin|]. auto.
    + apply IH in H as (Hk & Hall & Hd).
      rewrite (ckind_of_irrel k _ _ _ _ rq d0 ds e pl) in Hk.
      split; [exact Hk|]. split.
      * intros ov' d' [<-|Hin] Hd'; [rewrite Ed in Hd'; discriminate Hd' | apply (Hall ov' d' Hin Hd')].
      * destruct Hd as [Hd|(ov' & d' & x & Hin & Hd' & Hc' & Hr)].
        -- left. exact Hd.
        -- right. exists ov', d', x. split; [right; exact Hin|]. auto.
Qed.

(* the LAST override wins: if it declares a default, the result's default is exactly its re-conversion by the final kind *)
Theorem merge_last_default_wins : forall o pre ov cur r d x,
  common o cur (pre ++ [ov]) = MOk r -> mp_dflt ov = Some d ->
  convert_value o (ckind_of r) (raw d) = Ok (Some x) -> mp_dflt r = Some x.
Proof.
  intros o. induction pre as [|p pre IH]; intros ov cur r d x H Hd Hc.
  - cbn [app] in H. rewrite common_cons in H. unfold conv_of in H. rewrite Hd in H.
    destruct cur as [k rq d0 ds e pl].
    destruct (convert_value o (ckind_of (MP k rq d0 ds e pl)) (raw d)) as [od| |] eqn:Ec; try discriminate H.
    cbn [common] in H. injection H as <-.
    rewrite (ckind_of_irrel k _ _ _ _ rq d0 ds e pl) in Hc. rewrite Ec in Hc. injection Hc as ->. reflexivity.
  - cbn [app] in H. rewrite common_cons in H. destruct (conv_of o cur p) as [od| |]; try discriminate H.
    destruct cur as [k rq d0 ds e pl]. apply (IH _ _ _ _ _ H Hd Hc).
Qed.

(* with the guard of default_sound: a surviving override default evaluates to the typed value of the FINAL kind *)
Theorem merge_last_default_sound : forall o pre ov cur r d,
  common o cur (pre ++ [ov]) = MOk r -> mp_dflt ov = Some d -> raw d <> JNull ->
  default_class o (ckind_of r) (raw d) = 0 ->
  exists x pv, mp_dflt r = Some x /\ typed_value o (ckind_of r) (raw d) = Some pv /\ eval_code (code x) = Some pv.
Proof.
  intros o pre ov cur r d H Hd Hn Hc.
  destruct (merge_default_reconverted o _ _ _ H) as (_ & Hall & _).
  destruct (Hall ov d) as (od & Hcv); [apply in_or_app; right; left; reflexivity | exact Hd |].
  destruct od as [x|].
  - destruct (default_sound o _ _ x Hc Hcv) as (pv & Ht & He). exists x, pv.
    split; [apply (merge_last_default_wins o pre ov cur r d x H Hd Hcv) | auto].
  - exfalso. apply conv_ok_none in Hcv as [X|[X|(ms & X)]]; [exact (Hn X) | rewrite X in Hc; discriminate Hc | rewrite X in Hc; discriminate Hc].
Qed.

(* a default outside the narrowed kind is an error of the merge: enum [fast] merged with an override default slow *)
Theorem merge_narrowed_default_rejected : exists o cur ov, common o cur [ov] = MErr /\ mp_dflt ov <> None.
Proof.
  exists wit_oracles,
    (MP MEnum false None None None (PL_enum VStr [([70], EStr [102])] [66])),
    (MP MEnum false (Some {| code := [69;46;83]; raw := JStr [115] |}) None None (PL_enum VStr [([70], EStr [102]); ([83], EStr [115])] [69])).
  split; [vm_compute; reflexivity | discriminate].
Qed.

(* ================= the default's journey through the null-member rewrite ================= *)

(* the rewritten union carries the outer default: for every declared default that is not the literal text None, the nullable enum's
   default is exactly what the null-free enum makes of it (a member / a listed value, or an error) - never dropped *)
Theorem nullable_default_carried : forall o inner pd,
  conv_none pd = Err -> nullable_enum_default o inner pd = convert_value o inner pd.
Proof.
  intros o inner pd Hn. unfold nullable_enum_default.
  assert (U : convert_value o (CUnion [CNone; inner]) pd = convert_value o inner pd).
  { rewrite convert_union_eq. destruct pd as [|b|z|f|s|s]; [discriminate Hn | ..];
      cbn [union_go]; cbv zeta; change (convert_value o CNone ?v) with (conv_none v); rewrite Hn; cbn [is_err];
      destruct (convert_value o inner _) as [d| |]; reflexivity. }
  rewrite U. destruct (convert_value o inner pd) as [d| |]; reflexivity.
Qed.

Theorem nullable_default_not_dropped : forall o vt cls ms vals pd d,
  pd <> JNull -> conv_none pd = Err ->
  (nullable_enum_default o (CEnum vt cls ms) pd = Ok d -> d <> None) /\
  (nullable_enum_default o (CLitEnum vt vals) pd = Ok d -> d <> None).
Proof.
  intros o vt cls ms vals pd d Hpd Hn. split; intros H E; subst d; rewrite (nullable_default_carried _ _ _ Hn) in H;
    apply conv_ok_none in H as [X|[X|(m & X)]]; try discriminate X; exact (Hpd X).
Qed.

Print Assumptions nullable_default_carried.
Print Assumptions nullable_default_not_dropped.

Print Assumptions conv_ok_none.
Print Assumptions ref_default_revalidated.
Print Assumptions ref_default_not_dropped.
Print Assumptions ref_default_sound.
Print Assumptions ref_default_complete.
Print Assumptions merge_default_reconverted.
Print Assumptions merge_last_default_wins.
Print Assumptions merge_last_default_sound.
