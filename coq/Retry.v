(* Retry.v -- abstract model of the retry-until-no-progress loops that resolve forward references
   (parser/properties/__init__.py _create_schemas and _process_models; the same shape in build_parameters).
   Model file: definitions only.

   A document's unordered map is a to-do list of nodes; node n can be handled in a round iff everything it depends on
   has been handled already (earlier rounds, or earlier in the SAME round: the code threads the updated `schemas` through
   the for loop).  Nodes that fail are queued for the next round; the loop stops after the first round without progress. *)
From Coq Require Import NArith List Bool.
Import ListNotations.
Open Scope N_scope.

Definition graph := list (N * list N).
Fixpoint deps (g : graph) (n : N) : list N :=
  match g with
  | [] => []
  | (k, ds) :: g' => if k =? n then ds else deps g' n
  end.
Definition memn (n : N) (l : list N) : bool := existsb (N.eqb n) l.
Definition ready (g : graph) (done : list N) (n : N) : bool := forallb (fun d => memn d done) (deps g n).

(* one pass of `for name, data in to_process:` -> (handled so far, next_round) *)
Fixpoint round (g : graph) (done todo : list N) : list N * list N :=
  match todo with
  | [] => (done, [])
  | n :: t => if ready g done n then round g (n :: done) t
              else let r := round g done t in (fst r, n :: snd r)
  end.

(* `while still_making_progress:` *)
Fixpoint retry (fuel : nat) (g : graph) (done todo : list N) : list N * list N :=
  match fuel with
  | O => (done, todo)
  | S f => let r := round g done todo in
           if Nat.eqb (length (snd r)) (length todo) then r else retry f g (fst r) (snd r)
  end.

Definition process (g : graph) (todo : list N) : list N * list N := retry (S (length todo)) g [] todo.

(* ------------------------------------------------------------------ the loop of _process_models, with its "Recursive allOf reference" test
   A model that cannot be processed yet reports the reference it is waiting for; when `self n r` says that reference is the model itself the
   model is finalised as an error at once and never retried.  The code as it is compares the WHOLE last path segment with the class name
   (self = N.eqb); a sloppier test (plain string suffix: Cat vs WildCat) is the parameter `self`. *)
Definition first_missing (g : graph) (done : list N) (n : N) : option N := find (fun d => negb (memn d done)) (deps g n).

Fixpoint round_rec (self : N -> N -> bool) (g : graph) (done todo : list N) : list N * list N :=
  match todo with
  | [] => (done, [])
  | n :: t => match first_missing g done n with
              | None => round_rec self g (n :: done) t
              | Some r => let res := round_rec self g done t in
                          if self n r then res else (fst res, n :: snd res)
              end
  end.

(* progress = some model was processed in the round (still_making_progress is only set on success) *)
Fixpoint retry_rec (self : N -> N -> bool) (fuel : nat) (g : graph) (done todo : list N) : list N * list N :=
  match fuel with
  | O => (done, todo)
  | S f => let r := round_rec self g done todo in
           if Nat.eqb (length (fst r)) (length done) then r else retry_rec self f g (fst r) (snd r)
  end.

Definition process_rec (self : N -> N -> bool) (g : graph) (todo : list N) : list N * list N :=
  retry_rec self (S (length todo)) g [] todo.
