(* MergeThm.v — proofs about Merge.v (C15). *)
From Coq Require Import NArith ZArith List Bool Lia.
Import ListNotations.
Require Import OPC.gen.GenTables OPC.Uni OPC.Names OPC.NamesThm OPC.PyLit OPC.Values OPC.Merge.
Open Scope N_scope.

(* STATEMENTS TO PROVE (keep the statements exactly as written):

(* a property is mandatory if any member requires it *)
Theorem merge_required_or : forall o p q r,
  merge o p q = MOk r -> mp_required r = mp_required p || mp_required q.

(* the kind of the result is the narrowest compatible kind *)
Theorem merge_kind_narrowest : forall o p q r,
  wf_mprop p = true -> wf_mprop q = true -> merge o p q = MOk r ->
  narrow_kind (mp_kind p) (mp_kind q) (vt_of p) (vt_of q) = Some (mp_kind r).

(* the result stays well-formed *)
Theorem merge_wf : forall o p q r,
  wf_mprop p = true -> wf_mprop q = true -> merge o p q = MOk r -> wf_mprop r = true.

(* when both member orders succeed, the resulting TYPE (kind + payload, enum values as a set) is the same *)
Theorem merge_type_symmetric : forall o p q r1 r2,
  wf_mprop p = true -> wf_mprop q = true -> g_merge p q = true ->
  merge o p q = MOk r1 -> merge o q p = MOk r2 -> ty_eqb r1 r2 = true.

(* incompatible kinds are a diagnostic in both orders *)
Theorem merge_incompatible_symmetric : forall o p q,
  wf_mprop p = true -> wf_mprop q = true ->
  narrow_kind (mp_kind p) (mp_kind q) (vt_of p) (vt_of q) = None ->
  merge o p q = MErr /\ merge o q p = MErr.

(* the guard is necessary: two different models under one property name: the first one silently wins *)
Theorem merge_first_wins_refuted : exists o p q r1 r2,
  wf_mprop p = true /\ wf_mprop q = true /\ g_merge p q = false /\
  merge o p q = MOk r1 /\ merge o q p = MOk r2 /\ ty_eqb r1 r2 = false.

(* property collection: the composed class has exactly the property names of all members, each once *)
Theorem collect_names : forall o ins out,
  collect o ins = Some out ->
  (forall n, In n (map fst out) <-> In n (map fst ins)) /\ NoDup (map fst out).

Theorem collect_required : forall o ins out n p,
  collect o ins = Some out -> In (n, p) out ->
  mp_required p = existsb (fun np => str_eqb n (fst np) && mp_required (snd np)) ins.

Example merge_nonvacuous : exists o p q r,
  wf_mprop p = true /\ wf_mprop q = true /\ g_merge p q = true /\ mp_kind p <> mp_kind q /\ merge o p q = MOk r.
*)
