(* MergeThm.v — proofs about Merge.v (C15). *)
From Coq Require Import NArith ZArith List Bool Lia.
Import ListNotations.
Require Import OPC.gen.GenTables OPC.Uni OPC.Names OPC.NamesThm OPC.PyLit OPC.Values OPC.ValuesThm OPC.Merge.
Open Scope N_scope.

(* ---------- basic equalities ---------- *)
Lemma mkind_eqb_eq a b : mkind_eqb a b = true <-> a = b.
Proof. destruct a, b; cbn; split; intros H; (reflexivity || discriminate H). Qed.
Lemma mkind_eqb_refl a : mkind_eqb a a = true.
Proof. now apply mkind_eqb_eq. Qed.
Lemma str_eqb_refl s : str_eqb s s = true.
Proof. now apply str_eqb_eq. Qed.
Lemma str_eqb_sym a b : str_eqb a b = str_eqb b a.
Proof.
  destruct (str_eqb a b) eqn:E1, (str_eqb b a) eqn:E2; try reflexivity.
  - apply str_eqb_eq in E1. subst. now rewrite str_eqb_refl in E2.
  - apply str_eqb_eq in E2. subst. now rewrite str_eqb_refl in E1.
Qed.
Lemma evalue_eqb_eq a b : evalue_eqb a b = true <-> a = b.
Proof.
  destruct a as [x|x], b as [y|y]; cbn [evalue_eqb]; split; intros H; try discriminate H.
  - apply Z.eqb_eq in H. now subst.
  - injection H as ->. apply Z.eqb_refl.
  - apply str_eqb_eq in H. now subst.
  - injection H as ->. apply str_eqb_refl.
Qed.
Lemma evalue_eqb_refl a : evalue_eqb a a = true.
Proof. now apply evalue_eqb_eq. Qed.
Lemma member_eqb_eq a b : member_eqb a b = true <-> a = b.
Proof.
  destruct a as [n1 e1], b as [n2 e2]. unfold member_eqb. cbn [fst snd]. rewrite andb_true_iff, str_eqb_eq, evalue_eqb_eq.
  split; [intros [-> ->]; reflexivity | intros H; injection H as -> ->; auto].
Qed.
Lemma member_eqb_refl a : member_eqb a a = true.
Proof. now apply member_eqb_eq. Qed.
Lemma jval_eqb_refl a : jval_eqb a a = true.
Proof.
  destruct a as [|b|z|f|s|s]; cbn [jval_eqb]; auto using str_eqb_refl, Z.eqb_refl.
  - now destruct b.
  - apply str_eqb_refl.
Qed.
Lemma jval_eqb_sym a b : jval_eqb a b = jval_eqb b a.
Proof.
  destruct a as [|x|x|x|x|x], b as [|y|y|y|y|y]; cbn [jval_eqb]; try reflexivity.
  - now destruct x, y.
  - apply Z.eqb_sym.
  - unfold fl_eqb. apply str_eqb_sym.
  - apply str_eqb_sym.
  - apply str_eqb_sym.
Qed.
Lemma vtype_eqb_refl a : vtype_eqb a a = true.
Proof. now destruct a. Qed.
Lemma vtype_eqb_sym a b : vtype_eqb a b = vtype_eqb b a.
Proof. now destruct a, b. Qed.
Lemma mkind_eqb_sym a b : mkind_eqb a b = mkind_eqb b a.
Proof. now destruct a, b. Qed.

Lemma list_eqb_eq {A} (eq : A -> A -> bool) (Heq : forall x y, eq x y = true <-> x = y) :
  forall a b, list_eqb eq a b = true <-> a = b.
Proof.
  induction a as [|x a IH]; intros [|y b]; cbn [list_eqb]; split; intros H; try discriminate H; try reflexivity.
  - apply andb_true_iff in H as [H1 H2]. apply Heq in H1. apply IH in H2. now subst.
  - injection H as -> ->. apply andb_true_iff. split; [now apply Heq | now apply IH].
Qed.

(* ---------- common ---------- *)
Definition conv_of (o : oracles) (cur ov : mprop) : result :=
  match mp_dflt ov with Some d => convert_value o (ckind_of cur) (raw d) | None => Ok None end.
Lemma common_cons o cur ov ext : common o cur (ov :: ext) =
  match conv_of o cur ov with
  | Err => MErr | Crash => MCrash
  | Ok od => match cur with
             | MP k r d ds e pl =>
               common o (MP k (r || mp_required ov) (or_opt od d) (or_opt (mp_descr ov) ds) (or_opt (mp_example ov) e) pl) ext
             end
  end.
Proof. reflexivity. Qed.

Lemma common_spec o : forall ext cur r, common o cur ext = MOk r ->
  mp_kind r = mp_kind cur /\ mp_pl r = mp_pl cur /\ mp_required r = mp_required cur || existsb mp_required ext.
Proof.
  induction ext as [|ov ext IH]; intros cur r H.
  - cbn [common] in H. injection H as <-. cbn [existsb]. now rewrite orb_false_r.
  - rewrite common_cons in H. destruct (conv_of o cur ov) as [od| |]; try discriminate H.
    destruct cur as [k rq d ds e pl]. apply IH in H. cbn [mp_kind mp_pl mp_required existsb] in *.
    destruct H as (Hk & Hp & Hr). repeat split; auto. rewrite Hr. now rewrite orb_assoc.
Qed.

Lemma merge_unfold o p1 p2 : merge o p1 p2 =
  let k1 := mp_kind p1 in let k2 := mp_kind p2 in
  if mkind_eqb k2 MAny then common o p1 [p2]
  else if mkind_eqb k1 MAny then common o p2 [p1; p2]
  else if mkind_eqb k1 MEnum || mkind_eqb k2 MEnum then merge_with_enum o p1 p2
  else if mkind_eqb k1 MLitEnum || mkind_eqb k2 MLitEnum then merge_with_litenum o p1 p2
  else if mkind_eqb k1 k2 then
    if mprop_eqb p1 p2 then MOk p1
    else match p1, mp_pl p2 with
         | MP k r d ds e (PL_list i1), PL_list i2 =>
             match merge o i1 i2 with
             | MOk i => common o (MP k r d ds e (PL_list i)) [p2]
             | MErr => MErr
             | MCrash => MCrash
             end
         | _, _ => common o p1 [p2]
         end
  else if mkind_eqb k1 MInt && mkind_eqb k2 MFloat then common o p1 [p2]
  else if mkind_eqb k2 MInt && mkind_eqb k1 MFloat then common o p2 [p1; p2]
  else if mkind_eqb k1 MStr && is_fmt k2 then common o p2 [p1; p2]
  else if mkind_eqb k2 MStr && is_fmt k1 then common o p1 [p2]
  else MErr.
Proof. destruct p1; reflexivity. Qed.

(* ---------- merge_required_or ---------- *)
Ltac req_fin H rq1 rq2 :=
  apply common_spec in H; cbn [mp_required existsb] in H; destruct H as (_ & _ & ->);
  destruct rq1, rq2; reflexivity.

Lemma mwe_required o p1 p2 r : merge_with_enum o p1 p2 = MOk r -> mp_required r = mp_required p1 || mp_required p2.
Proof.
  destruct p1 as [k1 rq1 d1 ds1 e1 pl1], p2 as [k2 rq2 d2 ds2 e2 pl2].
  unfold merge_with_enum. cbn [mp_kind mp_pl mp_required].
  destruct k1; destruct pl1; destruct k2; try (intros H; discriminate H); destruct pl2; try (intros H; discriminate H);
  repeat match goal with |- (if ?c then _ else _) = _ -> _ => destruct c end; intros H; try discriminate H;
  req_fin H rq1 rq2.
Qed.
Lemma mwl_required o p1 p2 r : merge_with_litenum o p1 p2 = MOk r -> mp_required r = mp_required p1 || mp_required p2.
Proof.
  destruct p1 as [k1 rq1 d1 ds1 e1 pl1], p2 as [k2 rq2 d2 ds2 e2 pl2].
  unfold merge_with_litenum. cbn [mp_kind mp_pl mp_required].
  destruct k1; destruct pl1; destruct k2; try (intros H; discriminate H); destruct pl2; try (intros H; discriminate H);
  repeat match goal with |- (if ?c then _ else _) = _ -> _ => destruct c end; intros H; try discriminate H;
  req_fin H rq1 rq2.
Qed.

Theorem merge_required_or : forall o p q r,
  merge o p q = MOk r -> mp_required r = mp_required p || mp_required q.
Proof.
  intros o p q r H. rewrite merge_unfold in H. cbv zeta in H.
  destruct (mkind_eqb (mp_kind q) MAny).
  { destruct p as [k1 rq1 d1 ds1 e1 pl1], q as [k2 rq2 d2 ds2 e2 pl2]. req_fin H rq1 rq2. }
  destruct (mkind_eqb (mp_kind p) MAny).
  { destruct p as [k1 rq1 d1 ds1 e1 pl1], q as [k2 rq2 d2 ds2 e2 pl2]. req_fin H rq1 rq2. }
  destruct (mkind_eqb (mp_kind p) MEnum || mkind_eqb (mp_kind q) MEnum).
  { exact (mwe_required o _ _ _ H). }
  destruct (mkind_eqb (mp_kind p) MLitEnum || mkind_eqb (mp_kind q) MLitEnum).
  { exact (mwl_required o _ _ _ H). }
  destruct (mkind_eqb (mp_kind p) (mp_kind q)).
  { destruct (mprop_eqb p q) eqn:Eq.
    - injection H as <-. destruct p as [k1 rq1 d1 ds1 e1 pl1], q as [k2 rq2 d2 ds2 e2 pl2].
      cbn [mprop_eqb] in Eq. cbn [mp_required].
      destruct (Bool.eqb rq1 rq2) eqn:Er.
      + apply Bool.eqb_prop in Er. subst. now destruct rq2.
      + rewrite andb_false_r in Eq. discriminate Eq.
    - destruct p as [k1 rq1 d1 ds1 e1 pl1], q as [k2 rq2 d2 ds2 e2 pl2]. cbn [mp_pl] in H.
      destruct pl1; try (req_fin H rq1 rq2).
      destruct pl2; try (req_fin H rq1 rq2).
      destruct (merge o inner inner0); try discriminate H. req_fin H rq1 rq2. }
  destruct p as [k1 rq1 d1 ds1 e1 pl1], q as [k2 rq2 d2 ds2 e2 pl2].
  repeat match type of H with (if ?c then _ else _) = _ => destruct c end; try discriminate H; req_fin H rq1 rq2.
Qed.

(* ---------- case split on both kinds, payload shapes fixed by well-formedness ---------- *)
Ltac split_kinds p q Hwp Hwq :=
  destruct p as [k1 rq1 d1 ds1 e1 pl1]; destruct q as [k2 rq2 d2 ds2 e2 pl2];
  destruct k1; destruct pl1 as [|vt1 v1 c1|vt1 v1 c1|i1|cv1|ms1 id1|id1]; try discriminate Hwp;
  destruct k2; destruct pl2 as [|vt2 v2 c2|vt2 v2 c2|i2|cv2|ms2 id2|id2]; try discriminate Hwq;
  try destruct vt1; try destruct vt2.

Ltac crunch H :=
  cbn -[common mprop_eqb subset_members subset_evalues] in H;
  repeat match type of H with (if ?c then _ else _) = _ => destruct c eqn:? end; try discriminate H.

Theorem merge_kind_narrowest : forall o p q r,
  wf_mprop p = true -> wf_mprop q = true -> merge o p q = MOk r ->
  narrow_kind (mp_kind p) (mp_kind q) (vt_of p) (vt_of q) = Some (mp_kind r).
Proof.
  intros o p q r Hwp Hwq H.
  split_kinds p q Hwp Hwq; crunch H; cbn;
  try (injection H as <-; reflexivity);
  try (apply common_spec in H; destruct H as (-> & _ & _); reflexivity).
  destruct (merge o i1 i2); try discriminate H.
  apply common_spec in H; destruct H as (-> & _ & _); reflexivity.
Qed.

Theorem merge_incompatible_symmetric : forall o p q,
  wf_mprop p = true -> wf_mprop q = true ->
  narrow_kind (mp_kind p) (mp_kind q) (vt_of p) (vt_of q) = None ->
  merge o p q = MErr /\ merge o q p = MErr.
Proof.
  intros o p q Hwp Hwq Hn.
  split_kinds p q Hwp Hwq; cbn in Hn; try discriminate Hn; split; reflexivity.
Qed.

(* ---------- induction through PL_list ---------- *)
Scheme mprop_mut := Induction for mprop Sort Prop
  with mpayload_mut := Induction for mpayload Sort Prop.
Lemma mprop_ind' (P : mprop -> Prop) :
  (forall p, (forall i, mp_pl p = PL_list i -> P i) -> P p) -> forall p, P p.
Proof.
  intros H. apply (mprop_mut P (fun pl => forall i, pl = PL_list i -> P i)).
  - intros k r d ds e pl IH. apply H. exact IH.
  - intros i Hi; discriminate Hi.
  - intros vt vals cls i Hi; discriminate Hi.
  - intros vt vals cls i Hi; discriminate Hi.
  - intros inner IH i Hi. injection Hi as <-. exact IH.
  - intros cv i Hi; discriminate Hi.
  - intros ms id i Hi; discriminate Hi.
  - intros id i Hi; discriminate Hi.
Qed.

(* ---------- subsets ---------- *)
Lemma subset_members_In a b : subset_members a b = true <-> (forall x, In x a -> In x b).
Proof.
  unfold subset_members. rewrite forallb_forall. split; intros H x Hx; specialize (H x Hx).
  - apply existsb_exists in H as (y & Hy & E). apply member_eqb_eq in E. now subst.
  - apply existsb_exists. exists x. split; [exact H | apply member_eqb_refl].
Qed.
Lemma subset_evalues_In a b : subset_evalues a b = true <-> (forall x, In x a -> In x b).
Proof.
  unfold subset_evalues. rewrite forallb_forall. split; intros H x Hx; specialize (H x Hx).
  - apply existsb_exists in H as (y & Hy & E). apply evalue_eqb_eq in E. now subst.
  - apply existsb_exists. exists x. split; [exact H | apply evalue_eqb_refl].
Qed.
Lemma subset_members_refl a : subset_members a a = true.
Proof. apply subset_members_In. auto. Qed.
Lemma subset_evalues_refl a : subset_evalues a a = true.
Proof. apply subset_evalues_In. auto. Qed.

Lemma wf_ext a b : mp_kind a = mp_kind b -> mp_pl a = mp_pl b -> wf_mprop a = wf_mprop b.
Proof. destruct a, b; cbn [mp_kind mp_pl]; intros -> ->. reflexivity. Qed.

Lemma nonempty_negb {A} (v : list A) : negb (match v with [] => true | _ => false end) = true <-> v <> [].
Proof. destruct v; cbn; split; intros H; congruence. Qed.

Lemma wf_enum_second rq d ds e vt1 v1 c1 vt2 v2 c2 r1 d1 ds1 e1 r2 d2 ds2 e2 :
  wf_mprop (MP MEnum r1 d1 ds1 e1 (PL_enum vt1 v1 c1)) = true ->
  wf_mprop (MP MEnum r2 d2 ds2 e2 (PL_enum vt2 v2 c2)) = true ->
  subset_members v2 v1 = true ->
  wf_mprop (MP MEnum rq d ds e (PL_enum vt1 v2 c2)) = true.
Proof.
  cbn [wf_mprop mp_kind mp_pl]. intros H1 H2 Hs.
  apply andb_true_iff in H1 as [_ H1]. apply andb_true_iff in H2 as [H2 _].
  apply andb_true_iff. split; [exact H2|].
  rewrite forallb_forall in *. intros x Hx. apply H1. rewrite subset_members_In in Hs. auto.
Qed.
Lemma wf_litenum_second rq d ds e vt1 v1 c1 vt2 v2 c2 r1 d1 ds1 e1 r2 d2 ds2 e2 :
  wf_mprop (MP MLitEnum r1 d1 ds1 e1 (PL_litenum vt1 v1 c1)) = true ->
  wf_mprop (MP MLitEnum r2 d2 ds2 e2 (PL_litenum vt2 v2 c2)) = true ->
  subset_evalues v2 v1 = true ->
  wf_mprop (MP MLitEnum rq d ds e (PL_litenum vt1 v2 c2)) = true.
Proof.
  cbn [wf_mprop mp_kind mp_pl]. intros H1 H2 Hs.
  apply andb_true_iff in H1 as [_ H1]. apply andb_true_iff in H2 as [H2 _].
  apply andb_true_iff. split; [exact H2|].
  rewrite forallb_forall in *. intros x Hx. apply H1. rewrite subset_evalues_In in Hs. auto.
Qed.

Theorem merge_wf : forall o p q r,
  wf_mprop p = true -> wf_mprop q = true -> merge o p q = MOk r -> wf_mprop r = true.
Proof.
  intros o p. induction p as [p IH] using mprop_ind'. intros q r Hwp Hwq H.
  split_kinds p q Hwp Hwq; crunch H;
  try (injection H as <-; exact Hwp);
  try (apply common_spec in H; destruct H as (Hk & Hp & _); rewrite (wf_ext _ _ Hk Hp);
       first [ exact Hwp | exact Hwq
             | eapply wf_enum_second; [exact Hwp | exact Hwq | assumption]
             | eapply wf_litenum_second; [exact Hwp | exact Hwq | assumption] ]).
  destruct (merge o i1 i2) as [i| |] eqn:Em; try discriminate H.
  apply common_spec in H; destruct H as (Hk & Hp & _); rewrite (wf_ext _ _ Hk Hp).
  exact (IH i1 eq_refl i2 i Hwp Hwq Em).
Qed.

(* ---------- ty_eqb / mprop_eqb facts ---------- *)
Lemma ty_eqb_unfold a b : ty_eqb a b =
  mkind_eqb (mp_kind a) (mp_kind b) &&
  match mp_pl a, mp_pl b with
  | PL_none, PL_none => true
  | PL_enum vt1 v1 c1, PL_enum vt2 v2 c2 => vtype_eqb vt1 vt2 && same_set_members v1 v2 && str_eqb c1 c2
  | PL_litenum vt1 v1 c1, PL_litenum vt2 v2 c2 => vtype_eqb vt1 vt2 && same_set_evalues v1 v2 && str_eqb c1 c2
  | PL_list i1, PL_list i2 => ty_eqb i1 i2
  | PL_const c1, PL_const c2 => jval_eqb c1 c2
  | PL_union _ i1, PL_union _ i2 => i1 =? i2
  | PL_model i1, PL_model i2 => i1 =? i2
  | _, _ => false
  end.
Proof. destruct a; reflexivity. Qed.

Lemma ty_eqb_ext a b a' b' :
  mp_kind a = mp_kind a' -> mp_pl a = mp_pl a' -> mp_kind b = mp_kind b' -> mp_pl b = mp_pl b' ->
  ty_eqb a b = ty_eqb a' b'.
Proof. intros H1 H2 H3 H4. rewrite (ty_eqb_unfold a b), (ty_eqb_unfold a' b'), H1, H2, H3, H4. reflexivity. Qed.

Lemma ty_eqb_refl : forall a, ty_eqb a a = true.
Proof.
  induction a as [a IH] using mprop_ind'. rewrite ty_eqb_unfold, mkind_eqb_refl. cbn [andb].
  destruct (mp_pl a) as [|vt v c|vt v c|i|cv|ms id|id] eqn:E.
  - reflexivity.
  - unfold same_set_members. now rewrite vtype_eqb_refl, subset_members_refl, str_eqb_refl.
  - unfold same_set_evalues. now rewrite vtype_eqb_refl, subset_evalues_refl, str_eqb_refl.
  - apply IH. reflexivity.
  - apply jval_eqb_refl.
  - apply N.eqb_refl.
  - apply N.eqb_refl.
Qed.
Lemma ty_eqb_same a b : mp_kind a = mp_kind b -> mp_pl a = mp_pl b -> ty_eqb a b = true.
Proof. intros Hk Hp. rewrite (ty_eqb_ext a b b b Hk Hp eq_refl eq_refl). apply ty_eqb_refl. Qed.

Lemma evalue_eqb_sym a b : evalue_eqb a b = evalue_eqb b a.
Proof. destruct a as [x|x], b as [y|y]; cbn [evalue_eqb]; try reflexivity; [apply Z.eqb_sym | apply str_eqb_sym]. Qed.
Lemma member_eqb_sym a b : member_eqb a b = member_eqb b a.
Proof. unfold member_eqb. now rewrite (str_eqb_sym (fst a)), (evalue_eqb_sym (snd a)). Qed.
Lemma value_eqb_sym a b : value_eqb a b = value_eqb b a.
Proof. unfold value_eqb. now rewrite (str_eqb_sym (code a)), (jval_eqb_sym (raw a)). Qed.
Lemma optval_eqb_sym a b : optval_eqb a b = optval_eqb b a.
Proof. destruct a, b; cbn [optval_eqb]; try reflexivity. apply value_eqb_sym. Qed.
Lemma optN_eqb_sym a b : optN_eqb a b = optN_eqb b a.
Proof. destruct a, b; cbn [optN_eqb]; try reflexivity. apply N.eqb_sym. Qed.
Lemma list_eqb_sym {A} (eq : A -> A -> bool) (Hs : forall x y, eq x y = eq y x) :
  forall a b, list_eqb eq a b = list_eqb eq b a.
Proof. induction a as [|x a IH]; intros [|y b]; cbn [list_eqb]; try reflexivity. now rewrite (Hs x y), (IH b). Qed.
Lemma booleqb_sym (a b : bool) : Bool.eqb a b = Bool.eqb b a.
Proof. now destruct a, b. Qed.

Lemma mprop_eqb_sym : forall a b, mprop_eqb a b = mprop_eqb b a.
Proof.
  induction a as [a IH] using mprop_ind'. intros b.
  destruct a as [k1 r1 d1 ds1 e1 pl1], b as [k2 r2 d2 ds2 e2 pl2]. cbn [mprop_eqb]. cbn [mp_pl] in IH.
  rewrite (mkind_eqb_sym k1 k2), (booleqb_sym r1 r2), (optval_eqb_sym d1 d2), (optN_eqb_sym ds1 ds2), (optN_eqb_sym e1 e2).
  f_equal.
  destruct pl1 as [|vt1 v1 c1|vt1 v1 c1|i1|cv1|ms1 id1|id1], pl2 as [|vt2 v2 c2|vt2 v2 c2|i2|cv2|ms2 id2|id2]; try reflexivity.
  - now rewrite (vtype_eqb_sym vt1 vt2), (list_eqb_sym member_eqb member_eqb_sym v1 v2), (str_eqb_sym c1 c2).
  - now rewrite (vtype_eqb_sym vt1 vt2), (list_eqb_sym evalue_eqb evalue_eqb_sym v1 v2), (str_eqb_sym c1 c2).
  - apply IH. reflexivity.
  - apply jval_eqb_sym.
  - apply N.eqb_sym.
  - apply N.eqb_sym.
Qed.

Lemma mprop_eqb_ty : forall a b, mprop_eqb a b = true -> ty_eqb a b = true.
Proof.
  induction a as [a IH] using mprop_ind'. intros b H.
  destruct a as [k1 r1 d1 ds1 e1 pl1], b as [k2 r2 d2 ds2 e2 pl2]. cbn [mprop_eqb] in H. cbn [mp_pl] in IH.
  apply andb_true_iff in H as [H Hpl]. apply andb_true_iff in H as [H _]. apply andb_true_iff in H as [H _].
  apply andb_true_iff in H as [H _]. apply andb_true_iff in H as [Hk _].
  rewrite ty_eqb_unfold. cbn [mp_kind mp_pl]. rewrite Hk. cbn [andb].
  destruct pl1 as [|vt1 v1 c1|vt1 v1 c1|i1|cv1|ms1 id1|id1], pl2 as [|vt2 v2 c2|vt2 v2 c2|i2|cv2|ms2 id2|id2];
    try discriminate Hpl; try exact Hpl.
  - apply andb_true_iff in Hpl as [Hpl Hc]. apply andb_true_iff in Hpl as [Hvt Hl].
    apply (list_eqb_eq member_eqb member_eqb_eq) in Hl. subst v2.
    unfold same_set_members. now rewrite Hvt, Hc, subset_members_refl.
  - apply andb_true_iff in Hpl as [Hpl Hc]. apply andb_true_iff in Hpl as [Hvt Hl].
    apply (list_eqb_eq evalue_eqb evalue_eqb_eq) in Hl. subst v2.
    unfold same_set_evalues. now rewrite Hvt, Hc, subset_evalues_refl.
  - apply IH; [reflexivity | exact Hpl].
Qed.

(* ---------- enum / enum and literal enum / literal enum ---------- *)
Lemma enum_vt_agree {r1 d1 ds1 e1 vt1 v1 c1 r2 d2 ds2 e2 vt2 v2 c2} :
  wf_mprop (MP MEnum r1 d1 ds1 e1 (PL_enum vt1 v1 c1)) = true ->
  wf_mprop (MP MEnum r2 d2 ds2 e2 (PL_enum vt2 v2 c2)) = true ->
  subset_members v1 v2 = true -> vt1 = vt2.
Proof.
  cbn [wf_mprop mp_kind mp_pl]. intros H1 H2 Hs.
  apply andb_true_iff in H1 as [Hne H1]. apply andb_true_iff in H2 as [_ H2].
  destruct v1 as [|m v1]; [discriminate Hne|].
  rewrite forallb_forall in H1, H2. rewrite subset_members_In in Hs.
  specialize (H1 m (or_introl eq_refl)). specialize (H2 m (Hs m (or_introl eq_refl))).
  destruct vt1, vt2, (snd m); try reflexivity; discriminate.
Qed.
Lemma litenum_vt_agree {r1 d1 ds1 e1 vt1 v1 c1 r2 d2 ds2 e2 vt2 v2 c2} :
  wf_mprop (MP MLitEnum r1 d1 ds1 e1 (PL_litenum vt1 v1 c1)) = true ->
  wf_mprop (MP MLitEnum r2 d2 ds2 e2 (PL_litenum vt2 v2 c2)) = true ->
  subset_evalues v1 v2 = true -> vt1 = vt2.
Proof.
  cbn [wf_mprop mp_kind mp_pl]. intros H1 H2 Hs.
  apply andb_true_iff in H1 as [Hne H1]. apply andb_true_iff in H2 as [_ H2].
  destruct v1 as [|m v1]; [discriminate Hne|].
  rewrite forallb_forall in H1, H2. rewrite subset_evalues_In in Hs.
  specialize (H1 m (or_introl eq_refl)). specialize (H2 m (Hs m (or_introl eq_refl))).
  destruct vt1, vt2, m; try reflexivity; discriminate.
Qed.

Lemma enum_enum_sym o r1 d1 ds1 e1 vt1 v1 c1 r2 d2 ds2 e2 vt2 v2 c2 x1 x2 :
  let p := MP MEnum r1 d1 ds1 e1 (PL_enum vt1 v1 c1) in
  let q := MP MEnum r2 d2 ds2 e2 (PL_enum vt2 v2 c2) in
  wf_mprop p = true -> wf_mprop q = true -> g_merge p q = true ->
  merge o p q = MOk x1 -> merge o q p = MOk x2 -> ty_eqb x1 x2 = true.
Proof.
  intros p q Hwp Hwq Hg H1 H2. subst p q.
  assert (Hvt : subset_members v1 v2 = true \/ subset_members v2 v1 = true -> vt1 = vt2).
  { intros [E|E]; [exact (enum_vt_agree Hwp Hwq E) | symmetry; exact (enum_vt_agree Hwq Hwp E)]. }
  cbn -[common subset_members] in H1, H2, Hg. unfold same_set_members in Hg.
  destruct (subset_members v1 v2) eqn:E12; destruct (subset_members v2 v1) eqn:E21;
    try discriminate H1; (assert (vt1 = vt2) as <- by (apply Hvt; auto));
    apply common_spec in H1; apply common_spec in H2;
    destruct H1 as (Hk1 & Hp1 & _); destruct H2 as (Hk2 & Hp2 & _);
    rewrite (ty_eqb_ext _ _ _ _ Hk1 Hp1 Hk2 Hp2); try (apply ty_eqb_same; reflexivity).
  rewrite ty_eqb_unfold. cbn [mp_kind mp_pl mkind_eqb andb]. unfold same_set_members.
  cbn [negb andb orb] in Hg. now rewrite vtype_eqb_refl, E12, E21, Hg.
Qed.
Lemma lit_lit_sym o r1 d1 ds1 e1 vt1 v1 c1 r2 d2 ds2 e2 vt2 v2 c2 x1 x2 :
  let p := MP MLitEnum r1 d1 ds1 e1 (PL_litenum vt1 v1 c1) in
  let q := MP MLitEnum r2 d2 ds2 e2 (PL_litenum vt2 v2 c2) in
  wf_mprop p = true -> wf_mprop q = true -> g_merge p q = true ->
  merge o p q = MOk x1 -> merge o q p = MOk x2 -> ty_eqb x1 x2 = true.
Proof.
  intros p q Hwp Hwq Hg H1 H2. subst p q.
  assert (Hvt : subset_evalues v1 v2 = true \/ subset_evalues v2 v1 = true -> vt1 = vt2).
  { intros [E|E]; [exact (litenum_vt_agree Hwp Hwq E) | symmetry; exact (litenum_vt_agree Hwq Hwp E)]. }
  cbn -[common subset_evalues] in H1, H2, Hg. unfold same_set_evalues in Hg.
  destruct (subset_evalues v1 v2) eqn:E12; destruct (subset_evalues v2 v1) eqn:E21;
    try discriminate H1; (assert (vt1 = vt2) as <- by (apply Hvt; auto));
    apply common_spec in H1; apply common_spec in H2;
    destruct H1 as (Hk1 & Hp1 & _); destruct H2 as (Hk2 & Hp2 & _);
    rewrite (ty_eqb_ext _ _ _ _ Hk1 Hp1 Hk2 Hp2); try (apply ty_eqb_same; reflexivity).
  rewrite ty_eqb_unfold. cbn [mp_kind mp_pl mkind_eqb andb]. unfold same_set_evalues.
  cbn [negb andb orb] in Hg. now rewrite vtype_eqb_refl, E12, E21, Hg.
Qed.

Theorem merge_type_symmetric : forall o p q r1 r2,
  wf_mprop p = true -> wf_mprop q = true -> g_merge p q = true ->
  merge o p q = MOk r1 -> merge o q p = MOk r2 -> ty_eqb r1 r2 = true.
Proof.
  intros o p. induction p as [p IH] using mprop_ind'. intros q r1 r2 Hwp Hwq Hg H1 H2.
  pose proof (mprop_eqb_sym p q) as Hsym.
  split_kinds p q Hwp Hwq;
  try (solve [eapply enum_enum_sym; [exact Hwp|exact Hwq|exact Hg|exact H1|exact H2]]);
  try (solve [eapply lit_lit_sym; [exact Hwp|exact Hwq|exact Hg|exact H1|exact H2]]);
  crunch H1; crunch H2; try discriminate Hsym;
  try (injection H1 as <-; injection H2 as <-; apply mprop_eqb_ty; assumption);
  try (apply common_spec in H1; apply common_spec in H2;
       destruct H1 as (Hk1 & Hp1 & _); destruct H2 as (Hk2 & Hp2 & _);
       rewrite (ty_eqb_ext _ _ _ _ Hk1 Hp1 Hk2 Hp2);
       first [apply ty_eqb_same; reflexivity | exact Hg]).
  destruct (merge o i1 i2) as [j1| |] eqn:Em1; try discriminate H1.
  destruct (merge o i2 i1) as [j2| |] eqn:Em2; try discriminate H2.
  pose proof (IH i1 eq_refl i2 j1 j2 Hwp Hwq Hg Em1 Em2) as Hj.
  apply common_spec in H1; apply common_spec in H2.
  destruct H1 as (Hk1 & Hp1 & _); destruct H2 as (Hk2 & Hp2 & _).
  rewrite (ty_eqb_ext _ _ _ _ Hk1 Hp1 Hk2 Hp2). exact Hj.
Qed.

Theorem merge_first_wins_refuted : exists o p q r1 r2,
  wf_mprop p = true /\ wf_mprop q = true /\ g_merge p q = false /\
  merge o p q = MOk r1 /\ merge o q p = MOk r2 /\ ty_eqb r1 r2 = false.
Proof.
  exists dummy_oracles, (MP MModel false None None None (PL_model 0)), (MP MModel false None None None (PL_model 1)),
         (MP MModel false None None None (PL_model 0)), (MP MModel false None None None (PL_model 1)).
  vm_compute. repeat split; reflexivity.
Qed.

Example merge_nonvacuous : exists o p q r,
  wf_mprop p = true /\ wf_mprop q = true /\ g_merge p q = true /\ mp_kind p <> mp_kind q /\ merge o p q = MOk r.
Proof.
  exists dummy_oracles, (MP MInt false None None None PL_none), (MP MFloat true None None None PL_none),
         (MP MInt true None None None PL_none).
  repeat split; try reflexivity. cbn. discriminate.
Qed.

(* ---------- property collection ---------- *)
Definition cstep (o : oracles) (acc : option (list (str * mprop))) (np : str * mprop) : option (list (str * mprop)) :=
  match acc with Some ps => add_prop o ps (fst np) (snd np) | None => None end.
Lemma collect_eq o ins : collect o ins = fold_left (cstep o) ins (Some []).
Proof. reflexivity. Qed.
Lemma fold_cstep_none o ins : fold_left (cstep o) ins None = None.
Proof. induction ins as [|np ins IH]; cbn [fold_left cstep]; auto. Qed.

Lemma NoDup_snoc {A} (l : list A) x : NoDup l -> ~ In x l -> NoDup (l ++ [x]).
Proof.
  induction l as [|y l IH]; cbn [app]; intros Hnd Hni.
  - constructor; [intros []|constructor].
  - inversion Hnd as [|y' l' Hy Hl]; subst. constructor.
    + rewrite in_app_iff. cbn [In]. intros [H|[H|[]]]; [now apply Hy|]. subst. apply Hni. now left.
    + apply IH; [exact Hl|]. intros H. apply Hni. now right.
Qed.

Lemma add_prop_names o : forall acc n1 p1 acc', add_prop o acc n1 p1 = Some acc' ->
  (In n1 (map fst acc) /\ map fst acc' = map fst acc) \/
  (~ In n1 (map fst acc) /\ map fst acc' = map fst acc ++ [n1]).
Proof.
  induction acc as [|[n' p'] rest IH]; intros n1 p1 acc' H; cbn [add_prop] in H.
  - injection H as <-. right. split; [intros []|reflexivity].
  - destruct (str_eqb n1 n') eqn:E.
    + apply str_eqb_eq in E. subst n'. destruct (merge o p' p1) as [m| |]; try discriminate H. injection H as <-.
      left. cbn [map fst In]. auto.
    + destruct (add_prop o rest n1 p1) as [r|] eqn:Er; try discriminate H. injection H as <-.
      assert (Hne : n1 <> n') by (intros ->; rewrite str_eqb_refl in E; discriminate E).
      destruct (IH _ _ _ Er) as [[Hin Hm]|[Hnin Hm]].
      * left. cbn [map fst In]. split; [right; exact Hin| now rewrite Hm].
      * right. cbn [map fst In app]. split; [intros [Heq|Hin]; [congruence|now apply Hnin] | now rewrite Hm].
Qed.

Lemma In_fst {A B} (a : A) (b : B) l : In (a, b) l -> In a (map fst l).
Proof. intros H. apply (in_map fst) in H. exact H. Qed.

Lemma add_prop_entries o : forall acc n1 p1 acc', add_prop o acc n1 p1 = Some acc' -> NoDup (map fst acc) ->
  forall n p0', In (n, p0') acc' ->
    (n <> n1 /\ In (n, p0') acc) \/
    (n = n1 /\ ((exists p0, In (n1, p0) acc /\ merge o p0 p1 = MOk p0') \/ (~ In n1 (map fst acc) /\ p0' = p1))).
Proof.
  induction acc as [|[n' p'] rest IH]; intros n1 p1 acc' H Hnd n p0' Hin; cbn [add_prop] in H.
  - injection H as <-. destruct Hin as [Heq|[]]. injection Heq as <- <-. right. split; [reflexivity|]. right. split; [intros []|reflexivity].
  - cbn [map fst] in Hnd. inversion Hnd as [|x l Hx Hl]; subst.
    destruct (str_eqb n1 n') eqn:E.
    + apply str_eqb_eq in E. subst n'. destruct (merge o p' p1) as [m| |] eqn:Em; try discriminate H. injection H as <-.
      destruct Hin as [Heq|Hin].
      * injection Heq as <- <-. right. split; [reflexivity|]. left. exists p'. split; [now left|exact Em].
      * left. split; [|now right]. intros ->. apply Hx. exact (In_fst _ _ _ Hin).
    + destruct (add_prop o rest n1 p1) as [r|] eqn:Er; try discriminate H. injection H as <-.
      assert (Hne : n1 <> n') by (intros ->; rewrite str_eqb_refl in E; discriminate E).
      destruct Hin as [Heq|Hin].
      * injection Heq as <- <-. left. split; [congruence|now left].
      * destruct (IH _ _ _ Er Hl _ _ Hin) as [[Hn Hi]|[Hn [(p0 & Hi & Hm)|[Hni Hp]]]].
        -- left. split; [exact Hn|now right].
        -- right. split; [exact Hn|]. left. exists p0. split; [now right|exact Hm].
        -- right. split; [exact Hn|]. right. split; [|exact Hp]. cbn [map fst In]. intros [Heq|Hi]; [congruence|now apply Hni].
Qed.

Lemma collect_names_gen o : forall ins acc out,
  fold_left (cstep o) ins (Some acc) = Some out -> NoDup (map fst acc) ->
  (forall n, In n (map fst out) <-> In n (map fst acc) \/ In n (map fst ins)) /\ NoDup (map fst out).
Proof.
  induction ins as [|[n1 p1] ins IH]; intros acc out H Hnd; cbn [fold_left] in H.
  - injection H as <-. split; [|exact Hnd]. intros n; cbn [map In]; tauto.
  - cbn [cstep fst snd] in H. destruct (add_prop o acc n1 p1) as [acc'|] eqn:Ea.
    2:{ rewrite fold_cstep_none in H. discriminate H. }
    pose proof (add_prop_names o _ _ _ _ Ea) as Hn.
    assert (Hnd' : NoDup (map fst acc')).
    { destruct Hn as [[_ ->]|[Hni ->]]; [exact Hnd | now apply NoDup_snoc]. }
    destruct (IH _ _ H Hnd') as [Hin Hnd'']. split; [|exact Hnd''].
    intros n. rewrite Hin. cbn [map fst In].
    destruct Hn as [[Hi ->]|[Hni ->]].
    + split; [tauto|]. intros [H0|[<-|H0]]; auto.
    + rewrite in_app_iff. cbn [In]. tauto.
Qed.

Theorem collect_names : forall o ins out,
  collect o ins = Some out ->
  (forall n, In n (map fst out) <-> In n (map fst ins)) /\ NoDup (map fst out).
Proof.
  intros o ins out H. rewrite collect_eq in H.
  destruct (collect_names_gen o ins [] out H (NoDup_nil _)) as [Hin Hnd]. split; [|exact Hnd].
  intros n. rewrite Hin. cbn [map In]. tauto.
Qed.

Definition reqf (n : str) (np : str * mprop) : bool := str_eqb n (fst np) && mp_required (snd np).

Lemma collect_required_gen o : forall ins acc out,
  fold_left (cstep o) ins (Some acc) = Some out -> NoDup (map fst acc) ->
  forall n p, In (n, p) out ->
    (exists p0, In (n, p0) acc /\ mp_required p = mp_required p0 || existsb (reqf n) ins) \/
    (~ In n (map fst acc) /\ mp_required p = existsb (reqf n) ins).
Proof.
  induction ins as [|[n1 p1] ins IH]; intros acc out H Hnd n p Hin; cbn [fold_left] in H.
  - injection H as <-. left. exists p. split; [exact Hin|]. cbn [existsb]. now rewrite orb_false_r.
  - cbn [cstep fst snd] in H. destruct (add_prop o acc n1 p1) as [acc'|] eqn:Ea.
    2:{ rewrite fold_cstep_none in H. discriminate H. }
    pose proof (add_prop_names o _ _ _ _ Ea) as Hn.
    assert (Hnd' : NoDup (map fst acc')).
    { destruct Hn as [[_ ->]|[Hni ->]]; [exact Hnd | now apply NoDup_snoc]. }
    cbn [existsb]. unfold reqf at 1 3. cbn [fst snd].
    destruct (IH _ _ H Hnd' n p Hin) as [(p0' & Hi' & Hr)|[Hni' Hr]].
    + destruct (add_prop_entries o _ _ _ _ Ea Hnd _ _ Hi') as [[Hne Hi]|[-> [(p0 & Hi & Hm)|[Hni Hp]]]].
      * left. exists p0'. split; [exact Hi|]. rewrite Hr.
        destruct (str_eqb n n1) eqn:E; [apply str_eqb_eq in E; congruence|]. reflexivity.
      * left. exists p0. split; [exact Hi|]. rewrite Hr, (merge_required_or _ _ _ _ Hm), str_eqb_refl.
        cbn [andb]. now rewrite orb_assoc.
      * right. split; [exact Hni|]. subst p0'. rewrite Hr, str_eqb_refl. reflexivity.
    + right.
      assert (Hnn : ~ In n (map fst acc) /\ n <> n1).
      { destruct Hn as [[Hi Hm]|[Hi Hm]]; rewrite Hm in Hni'.
        - split; [exact Hni'|]. intros ->. now apply Hni'.
        - rewrite in_app_iff in Hni'. cbn [In] in Hni'. split; [tauto|]. intros ->. tauto. }
      destruct Hnn as [Hni Hne]. split; [exact Hni|]. rewrite Hr.
      destruct (str_eqb n n1) eqn:E; [apply str_eqb_eq in E; congruence|]. reflexivity.
Qed.

Theorem collect_required : forall o ins out n p,
  collect o ins = Some out -> In (n, p) out ->
  mp_required p = existsb (fun np => str_eqb n (fst np) && mp_required (snd np)) ins.
Proof.
  intros o ins out n p H Hin. rewrite collect_eq in H.
  destruct (collect_required_gen o ins [] out H (NoDup_nil _) n p Hin) as [(p0 & [] & _)|[_ Hr]].
  exact Hr.
Qed.


(* ---------- further refutation witnesses found by the checks on the real code (known findings of C15) ---------- *)

(* pairwise merging is not associative: [int; number; int-enum] folds to the enum, the reversed member list is a diagnostic,
   although every pair is inside the guard (known finding merge_three_way_order) *)
Definition w_int : mprop := MP MInt false None None None PL_none.
Definition w_float : mprop := MP MFloat false None None None PL_none.
Definition w_enum12 : mprop := MP MEnum false None None None (PL_enum VInt [([65], EInt 1%Z); ([66], EInt 2%Z)] [69]).
Theorem collect_order_refuted : exists o ins out,
  forallb (fun np => wf_mprop (snd np)) ins = true /\
  forallb (fun a => forallb (fun b => g_merge (snd a) (snd b)) ins) ins = true /\
  collect o ins = Some out /\ collect o (rev ins) = None.
Proof.
  exists dummy_oracles, [([97], w_int); ([97], w_float); ([97], w_enum12)].
  eexists. repeat split; vm_compute; reflexivity.
Qed.

(* enum/enum merge that switches to the second enum's class keeps the first declaration's default, whose code names the
   first class (known finding merge_enum_default_stale_class) *)
Definition w_enum_abc_P : mprop :=
  MP MEnum false (Some {| code := [80; 46; 65]; raw := JStr [97] |}) None None
     (PL_enum VStr [([65], EStr [97]); ([66], EStr [98]); ([67], EStr [99])] [80]).
Definition w_enum_ab_Q : mprop := MP MEnum false None None None (PL_enum VStr [([65], EStr [97]); ([66], EStr [98])] [81]).
Theorem merge_enum_default_stale_refuted : exists o p q r vt vals cls v,
  wf_mprop p = true /\ wf_mprop q = true /\ g_merge p q = true /\ merge o p q = MOk r /\
  mp_pl r = PL_enum vt vals cls /\ mp_dflt r = Some v /\ is_prefix (cls ++ [46]) (code v) = false.
Proof.
  exists dummy_oracles, w_enum_abc_P, w_enum_ab_Q. do 5 eexists. repeat split; vm_compute; reflexivity.
Qed.

Print Assumptions merge_required_or.
Print Assumptions merge_kind_narrowest.
Print Assumptions merge_wf.
Print Assumptions merge_type_symmetric.
Print Assumptions merge_incompatible_symmetric.
Print Assumptions merge_first_wins_refuted.
Print Assumptions collect_names.
Print Assumptions collect_required.
Print Assumptions merge_nonvacuous.
Print Assumptions collect_order_refuted.
Print Assumptions merge_enum_default_stale_refuted.
