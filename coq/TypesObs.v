(* TypesObs.v — comparison of type annotations for the correspondence check of Types.v: Union[...] is a set. Definitions only. *)
From Coq Require Import NArith ZArith List Bool.
Import ListNotations.
Require Import OPC.gen.GenKinds OPC.Uni OPC.Names OPC.Codec OPC.Types.
Open Scope N_scope.

Definition lit_subset (a b : list json) : bool := forallb (fun x => existsb (json_eqb x) b) a.
Fixpoint ty_eqb (a b : ty) {struct a} : bool :=
  match a, b with
  | TyAny, TyAny | TyNone, TyNone | TyUnset, TyUnset | TyBool, TyBool | TyInt, TyInt | TyFloat, TyFloat | TyStr, TyStr
  | TyDate, TyDate | TyDateTime, TyDateTime | TyUuid, TyUuid | TyFile, TyFile => true
  | TyClass c, TyClass c' => c =? c'
  | TyLit x, TyLit y => lit_subset x y && lit_subset y x
  | TyList x, TyList y => ty_eqb x y
  | TyUnion xs, TyUnion ys =>
      (fix sub (xs : list ty) : bool := match xs with [] => true | x :: r => existsb (fun y => ty_eqb x y) ys && sub r end) xs &&
      (fix sup (ys' : list ty) : bool :=
         match ys' with [] => true | y :: r => (fix mem (xs' : list ty) : bool := match xs' with [] => false | x :: r' => ty_eqb x y || mem r' end) xs && sup r end) ys
  | _, _ => false
  end.
(* the code builds a SET of type strings at every Union: duplicates collapse and a one-element Union prints as its element *)
Fixpoint ty_norm (t : ty) : ty :=
  match t with
  | TyList x => TyList (ty_norm x)
  | TyUnion ts =>
      let ts' := (fix go (ts : list ty) (acc : list ty) : list ty :=
                    match ts with
                    | [] => rev acc
                    | x :: r => let x' := ty_norm x in if existsb (fun y => ty_eqb x' y) acc then go r acc else go r (x' :: acc)
                    end) ts [] in
      match ts' with [x] => x | _ => TyUnion ts' end
  | _ => t
  end.
(* a one-element Union prints as its element; duplicates collapse (the code builds a set of strings) *)
Definition ty_same (model observed : ty) : bool :=
  ty_eqb (ty_norm model) (ty_norm observed) || ty_eqb model observed ||
  match model with
  | TyUnion (x :: r) => forallb (fun y => ty_eqb x y) r && ty_eqb x observed
  | _ => false
  end ||
  match model, observed with
  | TyUnion xs, TyUnion ys => ty_eqb (TyUnion xs) (TyUnion ys)
  | _, _ => false
  end.
