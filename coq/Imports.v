(* Imports.v — how a generated module gets its names: a fixed header plus, per property, the property's own import set
   (get_imports / get_lazy_imports) next to the code fragments rendered for it (declaration, construct, transform).
   Model file: definitions only. *)
From Coq Require Import NArith List Bool.
Import ListNotations.
Require Import OPC.Uni OPC.Names.
Open Scope N_scope.

Record frag := { f_used : list str; f_provided : list str }.     (* names a property's fragments read / names its imports bind *)
Definition mem_name (n : str) (l : list str) : bool := existsb (str_eqb n) l.
Definition closed_frag (header : list str) (f : frag) : bool :=
  forallb (fun n => mem_name n (f_provided f) || mem_name n header) (f_used f).
(* model.py.jinja / endpoint_module.py.jinja: header imports, then the UNION of the properties' imports *)
Definition module_used (fs : list frag) : list str := flat_map f_used fs.
Definition module_provided (header : list str) (fs : list frag) : list str := header ++ flat_map f_provided fs.
