(* Signature.v — the parameter list of every generated endpoint function (templates/endpoint_macros.py.jinja, macro `arguments`):
   path parameters are POSITIONAL (those without a default first, then those with one - each group in path order; since the
   repair b9d7aba: before it they were emitted in path order and a default before a parameter without one was a SyntaxError),
   then a bare `*` when anything follows, then keyword-only: client, body,
   query, header and cookie parameters. Python accepts such a definition iff
     (a) no positional parameter without a default follows one with a default,
     (b) a bare `*` is followed by at least one parameter,
     (c) all parameter names are distinct.
   Keyword-only parameters may mix defaults freely: that is what the `*` is for.
   Tied to the code by the correspondence of harness/props/c01.py (ast of every generated def vs sig_of). *)
From Coq Require Import NArith Arith List Bool Lia.
Import ListNotations.
Require Import OPC.Uni.
Open Scope N_scope.

Record sparam := { sp_name : str; sp_default : bool }.      (* Property.to_string: `= default` iff a schema default exists or the parameter is optional *)
Record espec := { e_path : list sparam; e_body : bool; e_rest : list sparam }.   (* rest = query ++ header ++ cookie *)
Record pysig := { positional : list sparam; star : bool; kwonly : list sparam }.

Definition s_client : str := [99;108;105;101;110;116].
Definition s_body : str := [98;111;100;121].

Definition sig_of (e : espec) (include_client : bool) : pysig :=
  {| positional := filter (fun p => negb (sp_default p)) (e_path e) ++ filter sp_default (e_path e);
     star := include_client || Nat.ltb (length (e_path e)) (length (e_path e) + length (e_rest e) + (if e_body e then 1 else 0))%nat;
     kwonly := (if include_client then [{| sp_name := s_client; sp_default := false |}] else [])
               ++ (if e_body e then [{| sp_name := s_body; sp_default := false |}] else []) ++ e_rest e |}.

(* (a) *)
Fixpoint defaults_monotone (seen : bool) (ps : list sparam) : bool :=
  match ps with
  | [] => true
  | p :: r => if sp_default p then defaults_monotone true r else negb seen && defaults_monotone false r
  end.
Fixpoint distinct (l : list str) : bool := match l with [] => true | x :: r => negb (mem_str x r) && distinct r end.

(* what CPython's grammar demands of `def f(<positional>, [*,] <kwonly>)`; without the star everything is positional *)
Definition py_valid (s : pysig) : bool :=
  (if star s then defaults_monotone false (positional s) && negb (Nat.eqb (length (kwonly s)) 0)
   else defaults_monotone false (positional s ++ kwonly s))
  && distinct (map sp_name (positional s ++ kwonly s)).

Definition names_ok (e : espec) (include_client : bool) : bool := distinct (map sp_name (positional (sig_of e include_client) ++ kwonly (sig_of e include_client))).

(* ---------------- theorems ---------------- *)
Lemma star_iff_kwonly : forall e b, star (sig_of e b) = negb (Nat.eqb (length (kwonly (sig_of e b))) 0).
Proof.
  intros e b. unfold sig_of; cbn [star kwonly].
  destruct b; cbn [orb]; [reflexivity|].
  rewrite !app_length. destruct (e_body e); cbn [length app].
  - destruct (Nat.ltb_spec (length (e_path e)) (length (e_path e) + length (e_rest e) + 1)%nat) as [H|H]; [reflexivity|lia].
  - destruct (e_rest e) as [|x r]; cbn [length].
    + destruct (Nat.ltb_spec (length (e_path e)) (length (e_path e) + 0 + 0)%nat) as [H|H]; [lia|reflexivity].
    + destruct (Nat.ltb_spec (length (e_path e)) (length (e_path e) + S (length r) + 0)%nat) as [H|H]; [reflexivity|lia].
Qed.

(* the star is emitted exactly when something follows it: never a bare `*`, never a keyword parameter made positional *)
Theorem star_exact : forall e b, star (sig_of e b) = true <-> kwonly (sig_of e b) <> [].
Proof.
  intros e b. rewrite star_iff_kwonly. destruct (kwonly (sig_of e b)) as [|x r]; cbn; split; intro H; try discriminate; try congruence; reflexivity.
Qed.

Lemma monotone_all_default : forall l seen, forallb sp_default l = true -> defaults_monotone seen l = true.
Proof.
  induction l as [|p r IH]; intros seen H; [reflexivity|].
  cbn [forallb] in H. apply andb_true_iff in H. destruct H as [Hp Hr]. cbn [defaults_monotone]. rewrite Hp. exact (IH true Hr).
Qed.
Lemma monotone_nodefault_prefix : forall l1 l2, forallb (fun p => negb (sp_default p)) l1 = true ->
  defaults_monotone false (l1 ++ l2) = defaults_monotone false l2.
Proof.
  induction l1 as [|p r IH]; intros l2 H; [reflexivity|].
  cbn [forallb] in H. apply andb_true_iff in H. destruct H as [Hp Hr]. apply negb_true_iff in Hp.
  cbn [app defaults_monotone]. rewrite Hp. cbn [negb andb]. exact (IH l2 Hr).
Qed.
Lemma filter_forallb : forall (A : Type) (f : A -> bool) l, forallb f (filter f l) = true.
Proof. induction l as [|x r IH]; [reflexivity|]. cbn [filter]. destruct (f x) eqn:E; [cbn [forallb]; rewrite E; exact IH | exact IH]. Qed.
Lemma positional_monotone : forall e b, defaults_monotone false (positional (sig_of e b)) = true.
Proof.
  intros e b. unfold sig_of; cbn [positional].
  rewrite monotone_nodefault_prefix by (apply filter_forallb with (f := fun p => negb (sp_default p))).
  apply monotone_all_default. apply filter_forallb.
Qed.

(* THE statement: for EVERY endpoint - whatever the defaults of its path, body, query, header and cookie parameters - the
   generated definition is accepted by Python as soon as the parameter names are distinct (C09/C18's business) *)
Theorem signature_valid : forall e b, py_valid (sig_of e b) = names_ok e b.
Proof.
  intros e b. unfold py_valid, names_ok.
  destruct (star (sig_of e b)) eqn:Es.
  - rewrite star_iff_kwonly in Es. rewrite Es, positional_monotone. reflexivity.
  - rewrite star_iff_kwonly in Es. apply negb_false_iff in Es. apply Nat.eqb_eq in Es.
    destruct (kwonly (sig_of e b)) as [|x r] eqn:Ek; [|discriminate]. rewrite app_nil_r, positional_monotone. reflexivity.
Qed.

(* every path parameter is still a positional parameter, exactly once (the repair only reorders) *)
Theorem positional_is_path_permuted : forall e b p, In p (positional (sig_of e b)) <-> In p (e_path e).
Proof.
  intros e b p. unfold sig_of; cbn [positional]. rewrite in_app_iff, !filter_In. split.
  - intros [[H _]|[H _]]; exact H.
  - intro H. destruct (sp_default p) eqn:E; [right|left]; split; auto.
Qed.
Theorem positional_length : forall e b, length (positional (sig_of e b)) = length (e_path e).
Proof.
  intros e b. unfold sig_of; cbn [positional]. rewrite app_length. induction (e_path e) as [|p r IH]; [reflexivity|].
  cbn [filter]. destruct (sp_default p); cbn [negb length]; lia.
Qed.

(* non-vacuity *)
Example signature_valid_example :
  py_valid (sig_of {| e_path := [{| sp_name := [97]; sp_default := false |}; {| sp_name := [98]; sp_default := true |}]; e_body := true;
                      e_rest := [{| sp_name := [113]; sp_default := true |}; {| sp_name := [114]; sp_default := false |}] |} false) = true.
Proof. vm_compute. reflexivity. Qed.

(* before the repair (positional := e_path e, in path order) this arrangement was rejected by Python: the witness of the fixed
   finding path_default_before_required, kept as a regression statement about the OLD rule *)
Theorem path_order_rule_refuted : exists ps, defaults_monotone false ps = false /\
  defaults_monotone false (filter (fun p => negb (sp_default p)) ps ++ filter sp_default ps) = true.
Proof.
  exists [{| sp_name := [97]; sp_default := true |}; {| sp_name := [98]; sp_default := false |}]. vm_compute. split; reflexivity.
Qed.

(* without the star a keyword parameter list with an optional-before-required pair would be rejected: the star matters *)
Theorem star_needed : exists e, py_valid (sig_of e false) = true /\
  py_valid {| positional := positional (sig_of e false); star := false; kwonly := kwonly (sig_of e false) |} = false.
Proof.
  exists {| e_path := []; e_body := false; e_rest := [{| sp_name := [111]; sp_default := true |}; {| sp_name := [114]; sp_default := false |}] |}.
  vm_compute. split; reflexivity.
Qed.

(* observation helper for the correspondence *)
Definition sparam_eqb (a b : sparam) : bool := str_eqb (sp_name a) (sp_name b) && Bool.eqb (sp_default a) (sp_default b).
Fixpoint sparams_eqb (a b : list sparam) : bool :=
  match a, b with [], [] => true | x :: r, y :: s => sparam_eqb x y && sparams_eqb r s | _, _ => false end.
Definition sig_eqb (a b : pysig) : bool := sparams_eqb (positional a) (positional b) && Bool.eqb (star a) (star b) && sparams_eqb (kwonly a) (kwonly b).
