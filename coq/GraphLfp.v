(* GraphLfp.v -- the retry loops of Graph.v compute least fixed points (T lfp), and what survives depends only on the part of
   the graph a component can reach (T containment, C08): replacing the description of component b by anything else changes the
   fate of no component that does not reach b. *)
From Coq Require Import NArith List Bool Lia PeanoNat.
Import ListNotations.
Require Import OPC.Graph OPC.GraphThm.
Open Scope N_scope.

(* ------------------------------------------------------------------ generic: at the exit of a retry loop every pending item has
   just failed against a state that carries the same knowledge as the final one *)
Section Stuck.
  Context {St It : Type}.
  Variable try : St -> It -> St * option N.
  Variable is_final : N -> bool.
  Variable K : St -> St -> Prop.
  Hypothesis K_refl : forall s, K s s.
  Hypothesis K_trans : forall a b c, K a b -> K b c -> K a c.
  Hypothesis K_fail : forall s x s' c, try s x = (s', Some c) -> K s s'.

  Lemma round_noprog : forall todo s, r_prog (round try is_final s todo) = false ->
    K s (r_st (round try is_final s todo)) /\
    forall x c, In (x, c) (r_retry (round try is_final s todo)) ->
      exists s0 s0', K s0 (r_st (round try is_final s todo)) /\ try s0 x = (s0', Some c).
  Proof.
    induction todo as [|y t IH]; intros s H; cbn [round] in *.
    - split; [apply K_refl|intros x c []].
    - destruct (try s y) as [s' [c'|]] eqn:E.
      + assert (Hp : r_prog (round try is_final s' t) = false) by (destruct (is_final c'); exact H).
        destruct (IH s' Hp) as [I1 I2]. pose proof (K_fail _ _ _ _ E) as Kf.
        destruct (is_final c'); cbn [r_st r_retry]; (split; [eapply K_trans; eauto|]).
        * exact I2.
        * intros x c [Hx|Hx]; [|now apply I2]. inversion Hx; subst. exists s, s'. split; [eapply K_trans; eauto|exact E].
      + cbn [r_prog] in H. discriminate.
  Qed.

  Lemma loop_stuck : forall f todo s fin, (length todo < f)%nat ->
    forall x c, In (x, c) (r_retry (loop try is_final f s todo fin)) ->
      exists s0 s0', K s0 (r_st (loop try is_final f s todo fin)) /\ try s0 x = (s0', Some c).
  Proof.
    induction f as [|f IH]; intros todo s fin Hf x c Hin; [lia|]. cbn [loop] in *.
    destruct (r_prog (round try is_final s todo)) eqn:E.
    - pose proof (round_len try is_final s todo) as [_ L]. specialize (L E).
      eapply IH; [|exact Hin]. rewrite map_length. lia.
    - cbn [r_st r_retry] in *. destruct (round_noprog todo s E) as [_ R]. now apply R.
  Qed.

  (* errors that are final were returned by some attempt *)
  Lemma round_final_cat : forall todo s x c, In (x, c) (r_final (round try is_final s todo)) -> is_final c = true.
  Proof.
    induction todo as [|y t IH]; intros s x c H; cbn [round] in H; [contradiction|].
    destruct (try s y) as [s' [c'|]]; [|eapply IH; eauto].
    destruct (is_final c') eqn:E; cbn [r_final] in H; [|eapply IH; eauto].
    destruct H as [H|H]; [inversion H; subst; exact E|eapply IH; eauto].
  Qed.
  Lemma loop_final_cat : forall f todo s fin x c, In (x, c) (r_final (loop try is_final f s todo fin)) ->
    In (x, c) fin \/ is_final c = true.
  Proof.
    induction f as [|f IH]; intros todo s fin x c H; cbn [loop] in H; [now left|].
    destruct (r_prog (round try is_final s todo)).
    - destruct (IH _ _ _ _ _ H) as [H'|H']; [|now right]. apply in_app_or in H'. destruct H' as [H'|H']; [now left|right].
      eapply round_final_cat; eauto.
    - cbn [r_final] in H. apply in_app_or in H. destruct H as [H|H]; [now left|right]. eapply round_final_cat; eauto.
  Qed.
End Stuck.

(* ------------------------------------------------------------------ why an instruction list fails *)
Definition is_mint (o : op) : bool := match o with OMintModel _ _ | OMintEnum _ _ => true | _ => false end.

Lemma exec_op_fails_why cx s o s' c : exec_op cx s o = (s', Some c) ->
  (exists c0, o = OFail c0) \/
  (exists k t rs nm rc, o = ONeed k t rs nm rc /\ lookup (s_cbr s) t = None) \/
  (exists t rs rc, o = OAllOf t rs rc /\
     (lookup (s_cbr s) t = None \/ lookup (s_cbr s) t = Some POther \/ mem t (s_done s) = false)) \/
  (is_mint o = true /\ (c = cat_dup \/ c = cat_enum_conflict)).
Proof.
  intro H. destruct o; cbn [exec_op] in H.
  - left. eauto.
  - destruct (lookup (s_cbr s) t) eqn:L; [discriminate|]. right. left. repeat eexists. exact L.
  - right. right. left. exists t, rs, recur. split; [reflexivity|].
    destruct (lookup (s_cbr s) t) as [[e|]|]; [|now right; left|now left].
    destruct (mem t (s_done s)); [discriminate|]. right. right. reflexivity.
  - discriminate.
  - destruct (has (s_cbn s) c0); [|discriminate]. inversion H; subst. right. right. right. split; [reflexivity|now left].
  - right. right. right. split; [reflexivity|].
    destruct (lookup (s_cbn s) c0) as [[|v']|]; [inversion H; now right| |discriminate].
    destruct (v' =? v); [discriminate|]. inversion H. now right.
Qed.

Lemma exec_fails_why cx : forall p s s' c, exec cx s p = (s', Some c) ->
  exists i, In i p /\
    ((exists c0, i_op i = OFail c0) \/
     (exists k t rs nm rc, i_op i = ONeed k t rs nm rc /\ lookup (s_cbr s) t = None) \/
     (exists t rs rc, i_op i = OAllOf t rs rc /\
        (lookup (s_cbr s) t = None \/ lookup (s_cbr s) t = Some POther \/ mem t (s_done s) = false)) \/
     (is_mint (i_op i) = true /\ (i_ovr i = 0 -> c = cat_dup \/ c = cat_enum_conflict))).
Proof.
  induction p as [|i p IH]; intros s s' c H; cbn [exec] in H; [discriminate|].
  destruct (exec_op cx s (i_op i)) as [s1 [c1|]] eqn:E.
  - inversion H; subst. exists i. split; [now left|].
    destruct (exec_op_fails_why _ _ _ _ _ E) as [A|[A|[A|[A B]]]]; auto.
    right. right. right. split; [exact A|]. intro Ho. rewrite Ho. cbn. exact B.
  - destruct (exec_op_frame _ _ _ _ _ E) as (F1 & F2 & _).
    destruct (IH _ _ _ H) as [j [Hj W]]. exists j. split; [now right|]. rewrite F1, F2 in W. exact W.
Qed.

(* exec only looks at classes_by_reference, classes_by_name and the processed set *)
Definition same_know (s s' : st) : Prop := s_cbr s = s_cbr s' /\ s_cbn s = s_cbn s' /\ s_done s = s_done s' /\ s_queue s = s_queue s'.
Lemma same_know_refl s : same_know s s. Proof. repeat split. Qed.
Lemma same_know_trans a b c : same_know a b -> same_know b c -> same_know a c.
Proof. intros (A1 & A2 & A3 & A4) (B1 & B2 & B3 & B4). repeat split; congruence. Qed.
Lemma create_try_fail_know s n s' c : create_try s n = (s', Some c) -> same_know s s'.
Proof.
  unfold create_try. destruct (exec (ctx_of n) s (n_create n)) as [s1 [c1|]]; intro H; inversion H; subst. repeat split.
Qed.
Lemma proc_try_fail_know s q s' c : proc_try s q = (s', Some c) -> same_know s s'.
Proof.
  unfold proc_try. destruct (exec ctx_proc s (e_prog (q_entry q))) as [s1 [c1|]]; intro H; inversion H; subst. repeat split.
Qed.

(* ------------------------------------------------------------------ guards, unpacked *)
Lemma g_plain_spec g : g_plain g = true -> forall n p i, In n g -> prog_of n p -> In i p -> instr_plain i = true.
Proof.
  unfold g_plain, all_progs. intros H n p i Hn Hp Hi. rewrite forallb_forall in H.
  assert (Hin : In p (flat_map (fun n => n_create n :: map e_prog (n_entries n)) g)).
  { apply in_flat_map. exists n. split; [exact Hn|]. destruct Hp as [->|[e [He ->]]]; [now left|right; now apply in_map]. }
  specialize (H _ Hin). rewrite forallb_forall in H. now apply H.
Qed.

Lemma g_no_dup_error_spec g : g_no_dup_error g = true ->
  forall e, In e (res_errs (build_schemas g)) -> er_cat e <> cat_dup /\ er_cat e <> cat_enum_conflict.
Proof.
  unfold g_no_dup_error. intros H e He. rewrite forallb_forall in H. specialize (H _ He). apply andb_true_iff in H.
  destruct H as [H1 H2]. apply negb_true_iff in H1, H2. apply N.eqb_neq in H1, H2. auto.
Qed.

(* ------------------------------------------------------------------ create phase: least fixed point *)
Fixpoint Cn (g : graph) (k : nat) (n : node) : Prop :=
  match k with
  | O => False
  | S k' => In n g /\ n_isref n = false /\ static_ok_c (n_create n) = true /\
            forall t, In t (need_ts (n_create n)) -> exists m, In m g /\ n_ref m = t /\ Cn g k' m
  end.
Definition C (g : graph) (n : node) : Prop := exists k, Cn g k n.

Lemma Cn_S g : forall k n, Cn g k n -> Cn g (S k) n.
Proof.
  induction k as [|k IH]; intros n H; [destruct H|]. destruct H as (A & B & D & E).
  change (In n g /\ n_isref n = false /\ static_ok_c (n_create n) = true /\
          forall t, In t (need_ts (n_create n)) -> exists m, In m g /\ n_ref m = t /\ Cn g (S k) m).
  split; [exact A|]. split; [exact B|]. split; [exact D|].
  intros t Ht. destruct (E t Ht) as [m (M1 & M2 & M3)]. exists m. split; [exact M1|]. split; [exact M2|]. apply IH, M3.
Qed.
Lemma Cn_le g k k' n : (k <= k')%nat -> Cn g k n -> Cn g k' n.
Proof. intro Hle. induction Hle as [|k' Hle IH]; [auto|]. intro Hc. apply Cn_S. auto. Qed.

Lemma finite_rank {A} (P : nat -> A -> Prop) (l : list A) :
  (forall k k' a, (k <= k')%nat -> P k a -> P k' a) -> (forall a, In a l -> exists k, P k a) -> exists K, forall a, In a l -> P K a.
Proof.
  intros Hm. induction l as [|a l IH]; intro H; [exists O; intros a []|].
  destruct (H a (or_introl eq_refl)) as [k1 H1]. destruct IH as [k2 H2]; [intros b Hb; apply H; now right|].
  exists (Nat.max k1 k2). intros b [<-|Hb]; [eapply Hm; [|exact H1]; lia|eapply Hm; [|apply H2, Hb]; lia].
Qed.

Lemma C_intro g n : In n g -> n_isref n = false -> static_ok_c (n_create n) = true ->
  (forall t, In t (need_ts (n_create n)) -> exists m, In m g /\ n_ref m = t /\ C g m) -> C g n.
Proof.
  intros H1 H2 H3 H4.
  destruct (finite_rank (fun k t => exists m, In m g /\ n_ref m = t /\ Cn g k m) (need_ts (n_create n))) as [K HK].
  - intros k k' t Hle [m (A & B & D)]. exists m. split; [exact A|]. split; [exact B|]. eapply Cn_le; eauto.
  - intros t Ht. destruct (H4 t Ht) as [m (A & B & [k D])]. exists k, m. auto.
  - exists (S K). cbn [Cn]. split; [exact H1|]. split; [exact H2|]. split; [exact H3|exact HK].
Qed.

Lemma need_ts_edges p t : In t (need_ts p) -> exists k rs, In (k, t, rs) (prog_edges p).
Proof.
  unfold need_ts, prog_edges. intro H. apply in_flat_map in H. destruct H as [i [Hi Ht]].
  destruct (i_op i) eqn:E; try contradiction. destruct Ht as [<-|[]]. exists k, rs. apply in_flat_map. exists i. split; [exact Hi|].
  rewrite E. now left.
Qed.

Lemma exec_success_static cx : forall p s s', s_done s = [] -> exec cx s p = (s', None) -> static_ok_c p = true.
Proof.
  induction p as [|i p IH]; intros s s' Hd H; [reflexivity|]. cbn [exec] in H.
  destruct (exec_op cx s (i_op i)) as [s1 [c|]] eqn:E; [discriminate|].
  destruct (exec_op_frame _ _ _ _ _ E) as (_ & F2 & _).
  assert (Hp : static_ok_c p = true) by (apply (IH s1 s'); [congruence|exact H]).
  unfold static_ok_c in *. cbn [forallb]. rewrite Hp, andb_true_r.
  destruct (i_op i); try reflexivity; cbn [exec_op] in E; [discriminate|].
  destruct (lookup (s_cbr s) t) as [[e|]|]; try discriminate. rewrite Hd in E. cbn in E. discriminate.
Qed.

(* soundness: whatever the create loop puts into classes_by_reference is derivable *)
Definition inv_C (g : graph) (s : st) : Prop :=
  s_done s = [] /\ (forall r, has (s_cbr s) r = true -> exists n, In n g /\ n_ref n = r /\ n_isref n = false /\ C g n).

Lemma create_try_done s n s' r : create_try s n = (s', r) -> s_done s' = s_done s.
Proof.
  unfold create_try. destruct (exec (ctx_of n) s (n_create n)) as [s1 [c|]] eqn:E; intro H; inversion H; subst; cbn; [reflexivity|].
  destruct (exec_frame _ _ _ _ _ E) as (_ & F2 & _). exact F2.
Qed.

Lemma create_sound g : NoDup (map n_ref g) -> inv_C g (r_st (create_loop g)).
Proof.
  intro Hnd. unfold create_loop, run_loop.
  pose proof (loop_inv create_try no_final (inv_C g) (fun _ _ => True) (fun n => In n g /\ n_isref n = false)) as L.
  assert (P_step : forall s x s' r, In x g /\ n_isref x = false -> inv_C g s -> create_try s x = (s', r) -> inv_C g s').
  { intros s x s' r [Hx Hrf] [Hd HI] Ht. split; [rewrite (create_try_done _ _ _ _ Ht); exact Hd|].
    destruct r as [c|].
    - destruct (create_try_fail _ _ _ _ Ht) as (E1 & _). rewrite E1. exact HI.
    - intros r0 Hh. destruct (create_try_succ _ _ _ Ht) as [[pl E1] Hdone]. rewrite E1, has_cons in Hh.
      apply orb_true_iff in Hh. destruct Hh as [Hh|Hh]; [|now apply HI].
      apply N.eqb_eq in Hh. subst r0. exists x. repeat split; auto.
      unfold create_try in Ht. destruct (exec (ctx_of x) s (n_create x)) as [s1 [c1|]] eqn:E; [discriminate|].
      apply C_intro; auto.
      + eapply exec_success_static; eauto.
      + intros t Htn. destruct (need_ts_edges _ _ Htn) as [k [rs He]].
        destruct (exec_done _ _ _ _ E) as (D1 & _). destruct (D1 _ _ _ He) as [Hc _].
        destruct (exec_frame _ _ _ _ _ E) as (F1 & _). rewrite F1 in Hc.
        destruct (HI t Hc) as [m (M1 & M2 & M3 & M4)]. exists m. auto. }
  specialize (L P_step (fun _ _ _ _ _ _ _ _ _ => I) (fun _ _ _ _ _ _ => I) (S (length (create_todo g))) (create_todo g) st0 []
                (Nat.lt_succ_diag_r _)).
  assert (HD : forall x, In x (create_todo g) -> In x g /\ n_isref x = false).
  { intros x Hx. unfold create_todo in Hx. apply filter_In in Hx. destruct Hx as [A B]. split; [exact A|]. now apply negb_true_iff in B. }
  assert (H0 : inv_C g st0). { split; [reflexivity|]. intros r Hh. unfold st0, has in Hh. cbn in Hh. discriminate. }
  specialize (L HD H0). cbn zeta in L. tauto.
Qed.

Lemma static_ok_c_in p i : static_ok_c p = true -> In i p -> (forall c0, i_op i <> OFail c0) /\ (forall t rs rc, i_op i <> OAllOf t rs rc).
Proof.
  unfold static_ok_c. rewrite forallb_forall. intros H Hi. specialize (H _ Hi). split; intros; intro E; rewrite E in H; discriminate.
Qed.

Lemma need_ts_in p i k t rs nm rc : In i p -> i_op i = ONeed k t rs nm rc -> In t (need_ts p).
Proof. intros Hi E. unfold need_ts. apply in_flat_map. exists i. split; [exact Hi|]. rewrite E. now left. Qed.

Lemma instr_plain_mint i : instr_plain i = true -> is_mint (i_op i) = true -> i_ovr i = 0.
Proof.
  unfold instr_plain. intro H. apply andb_true_iff in H. destruct H as [_ H].
  destruct (i_op i); try discriminate; intros _; now apply N.eqb_eq in H.
Qed.

(* completeness: every derivable component is created (the loop stops only when nothing more can be done) *)
Lemma create_complete g : NoDup (map n_ref g) -> g_plain g = true -> g_no_dup_error g = true ->
  forall n, C g n -> has (s_cbr (r_st (create_loop g))) (n_ref n) = true.
Proof.
  intros Hnd Hpl Hdup n [k Hk]. revert n Hk. induction k as [|k IH]; intros n Hk; [destruct Hk|].
  destruct Hk as (Hn & Hrf & Hst & Hts).
  assert (Htodo : In n (create_todo g)) by (unfold create_todo; apply filter_In; split; [exact Hn|now rewrite Hrf]).
  destruct (create_phase_account g n Htodo) as [Hc|[c Hc]]; [exact Hc|exfalso].
  unfold create_loop, run_loop in Hc.
  destruct (loop_stuck create_try no_final same_know same_know_refl same_know_trans create_try_fail_know
              _ _ st0 [] (Nat.lt_succ_diag_r (length (create_todo g))) n c Hc) as [s0 [s0' [Kn Ht]]].
  fold (run_loop create_try no_final st0 (create_todo g)) in Kn. fold (create_loop g) in Kn.
  destruct Kn as (K1 & K2 & K3 & K4).
  unfold create_try in Ht. destruct (exec (ctx_of n) s0 (n_create n)) as [sx [cx|]] eqn:E; [|discriminate].
  inversion Ht; subst cx. clear Ht.
  destruct (exec_fails_why _ _ _ _ _ E) as [i [Hi W]].
  destruct (static_ok_c_in _ _ Hst Hi) as [NF NA].
  destruct W as [[c0 W]|[[kk [t [rs [nm [rc [W1 W2]]]]]]|[[t [rs [rc [W1 _]]]]|[W1 W2]]]].
  - exact (NF _ W).
  - destruct (Hts t (need_ts_in _ _ _ _ _ _ _ Hi W1)) as [m (M1 & M2 & M3)].
    specialize (IH m M3). rewrite M2, <- K1 in IH. apply has_lookup in IH. destruct IH as [v Hv]. congruence.
  - exact (NA _ _ _ W1).
  - assert (Hovr : i_ovr i = 0).
    { apply instr_plain_mint; [|exact W1]. eapply g_plain_spec; eauto. now left. }
    specialize (W2 Hovr).
    destruct (build_facts g) as [es (F1 & _)]. cbn zeta in F1.
    assert (Hin : In (mkErr true (n_ref n) c [] []) (res_errs (build_schemas g))).
    { rewrite F1. apply in_or_app. left. unfold create_errs. apply in_or_app. right.
      apply in_map_iff. exists (n, c). split; [reflexivity|]. unfold create_loop, run_loop. exact Hc. }
    destruct (g_no_dup_error_spec g Hdup _ Hin) as [D1 D2]. cbn in D1, D2. destruct W2; congruence.
Qed.

(* ------------------------------------------------------------------ final errors come from an attempt *)
Section FinalSrc.
  Context {St It : Type}.
  Variable try : St -> It -> St * option N.
  Variable is_final : N -> bool.
  Lemma round_final_src : forall todo s x c, In (x, c) (r_final (round try is_final s todo)) ->
    In x todo /\ exists s0 s0', try s0 x = (s0', Some c).
  Proof.
    induction todo as [|y t IH]; intros s x c H; cbn [round] in H; [contradiction|].
    destruct (try s y) as [s' [c'|]] eqn:E.
    - destruct (is_final c'); cbn [r_final] in H.
      + destruct H as [H|H]; [inversion H; subst; split; [now left|eauto]|]. destruct (IH _ _ _ H) as [A B]. split; [now right|exact B].
      + destruct (IH _ _ _ H) as [A B]. split; [now right|exact B].
    - cbn [r_final] in H. destruct (IH _ _ _ H) as [A B]. split; [now right|exact B].
  Qed.
  Lemma round_retry_in : forall todo s x c, In (x, c) (r_retry (round try is_final s todo)) -> In x todo.
  Proof.
    induction todo as [|y t IH]; intros s x c H; cbn [round] in H; [contradiction|].
    destruct (try s y) as [s' [c'|]].
    - destruct (is_final c'); cbn [r_retry] in H; [right; eapply IH; eauto|].
      destruct H as [H|H]; [inversion H; now left|right; eapply IH; eauto].
    - cbn [r_retry] in H. right; eapply IH; eauto.
  Qed.
  Lemma loop_final_src : forall f todo s fin x c, In (x, c) (r_final (loop try is_final f s todo fin)) ->
    In (x, c) fin \/ (In x todo /\ exists s0 s0', try s0 x = (s0', Some c)).
  Proof.
    induction f as [|f IH]; intros todo s fin x c H; cbn [loop] in H; [now left|].
    destruct (r_prog (round try is_final s todo)).
    - destruct (IH _ _ _ _ _ H) as [H'|[H1 H2]].
      + apply in_app_or in H'. destruct H' as [H'|H']; [now left|right]. eapply round_final_src; eauto.
      + right. split; [|exact H2]. apply in_map_iff in H1. destruct H1 as [[y c'] [E1 E2]]. cbn in E1. subst y. eapply round_retry_in; eauto.
    - cbn [r_final] in H. apply in_app_or in H. destruct H as [H|H]; [now left|right]. eapply round_final_src; eauto.
  Qed.
End FinalSrc.

Lemma exec_op_cat_plain cx s o s' c : exec_op cx s o = (s', Some c) ->
  match o with OFail c0 => c0 <> cat_recursive | ONeed _ _ _ _ r => r = false | OAllOf _ _ r => r = false | _ => True end ->
  c <> cat_recursive.
Proof.
  intros H Hp. destruct o; cbn [exec_op] in H.
  - inversion H; subst. exact Hp.
  - destruct (lookup (s_cbr s) t); [discriminate|]. subst recur. inversion H. discriminate.
  - subst recur. destruct (lookup (s_cbr s) t) as [[e|]|]; [|inversion H; discriminate|inversion H; discriminate].
    destruct (mem t (s_done s)); [discriminate|]. inversion H. discriminate.
  - discriminate.
  - destruct (has (s_cbn s) c0); inversion H. discriminate.
  - destruct (lookup (s_cbn s) c0) as [[|v']|]; [inversion H; discriminate| |discriminate].
    destruct (v' =? v); inversion H. discriminate.
Qed.

Lemma exec_cat_plain cx : forall p s s' c, forallb instr_plain p = true -> exec cx s p = (s', Some c) -> c <> cat_recursive.
Proof.
  induction p as [|i p IH]; intros s s' c Hp H; cbn [exec] in H; [discriminate|].
  cbn [forallb] in Hp. apply andb_true_iff in Hp. destruct Hp as [Hi Hp].
  destruct (exec_op cx s (i_op i)) as [s1 [c1|]] eqn:E; [|eapply IH; eauto].
  inversion H; subst. unfold instr_plain in Hi. apply andb_true_iff in Hi. destruct Hi as [Ho Hi].
  apply negb_true_iff in Ho. apply N.eqb_neq in Ho.
  assert (Hc1 : c1 <> cat_recursive).
  { eapply exec_op_cat_plain; [exact E|]. destruct (i_op i); auto.
    - apply negb_true_iff in Hi. now apply N.eqb_neq in Hi.
    - now apply negb_true_iff in Hi.
    - now apply negb_true_iff in Hi. }
  destruct (i_ovr i =? 0) eqn:E0; cbn [orb].
  - exact Hc1.
  - destruct (c1 =? cat_recursive) eqn:E1; [apply N.eqb_eq in E1; contradiction|exact Ho].
Qed.

(* ------------------------------------------------------------------ what the create phase leaves for the process phase *)
Definition push_owner (cx : ctx) (k : nat) : option ref :=
  match c_top cx with TModel k' => if Nat.eqb k k' then Some (c_ref cx) else None | _ => None end.

Lemma exec_pushed cx : forall p s s', exec cx s p = (s', None) ->
  forall i c k e, In i p -> i_op i = OMintModel c (Some k) -> nth_error (c_ents cx) k = Some e ->
  In (mkQ (push_owner cx k) (e_name e) e) (s_queue s').
Proof.
  induction p as [|i0 p IH]; intros s s' H i c k e Hi Ho Hn; [contradiction|]. cbn [exec] in H.
  destruct (exec_op cx s (i_op i0)) as [s1 [c1|]] eqn:E; [discriminate|]. destruct Hi as [<-|Hi]; [|eapply IH; eauto].
  destruct (exec_frame _ _ _ _ _ H) as (_ & _ & _ & _ & FQ). apply FQ.
  rewrite Ho in E. cbn [exec_op] in E. destruct (has (s_cbn s) c); [discriminate|]. inversion E; subst. cbn [s_queue].
  apply in_or_app. right. unfold push_entry. rewrite Hn. left. reflexivity.
Qed.

(* new queue items of a component: owned by nobody, or by the component itself with the entry its top-level model has *)
Lemma exec_op_new_items cx s o s' r : exec_op cx s o = (s', r) ->
  forall q, In q (s_queue s') -> In q (s_queue s) \/ q_owner q = None \/
    (q_owner q = Some (c_ref cx) /\
     ((exists k e, c_top cx = TModel k /\ nth_error (c_ents cx) k = Some e /\ q_entry q = e) \/ exists t, c_top cx = TWrap t)).
Proof.
  intros H q Hq. destruct o; cbn [exec_op] in H.
  - inversion H; subst. now left.
  - destruct (lookup (s_cbr s) t) as [pl|]; [|inversion H; subst; now left]. inversion H; subst. cbn [s_queue] in Hq.
    apply in_app_or in Hq. destruct Hq as [Hq|Hq]; [now left|right].
    destruct k, pl; cbn in Hq; try contradiction. destruct Hq as [<-|[]]. cbn [q_owner]. unfold wrap_owner.
    destruct (c_top cx) eqn:Et; [now left| |now left]. right. split; [reflexivity|]. right. eauto.
  - destruct (lookup (s_cbr s) t) as [[e|]|]; try (inversion H; subst; now left).
    destruct (mem t (s_done s)); inversion H; subst; now left.
  - inversion H; subst. now left.
  - destruct (has (s_cbn s) c); [inversion H; subst; now left|]. inversion H; subst. cbn [s_queue] in Hq.
    apply in_app_or in Hq. destruct Hq as [Hq|Hq]; [now left|right]. unfold push_entry in Hq.
    destruct q0 as [k|]; [|contradiction]. destruct (nth_error (c_ents cx) k) as [e|] eqn:En; [|contradiction].
    destruct Hq as [<-|[]]. cbn [q_owner q_entry]. destruct (c_top cx) as [k'| |] eqn:Et; [|now left|now left].
    destruct (Nat.eqb k k') eqn:Ek; [|now left]. apply Nat.eqb_eq in Ek. subst k'. right. split; [reflexivity|]. left. eauto.
  - destruct (lookup (s_cbn s) c) as [[|v']|]; [inversion H; subst; now left| |inversion H; subst; now left].
    destruct (v' =? v); inversion H; subst; now left.
Qed.

Lemma exec_new_items cx : forall p s s' r, exec cx s p = (s', r) ->
  forall q, In q (s_queue s') -> In q (s_queue s) \/ q_owner q = None \/
    (q_owner q = Some (c_ref cx) /\
     ((exists k e, c_top cx = TModel k /\ nth_error (c_ents cx) k = Some e /\ q_entry q = e) \/ exists t, c_top cx = TWrap t)).
Proof.
  induction p as [|i p IH]; intros s s' r H q Hq; cbn [exec] in H.
  - inversion H; subst. now left.
  - destruct (exec_op cx s (i_op i)) as [s1 [c1|]] eqn:E.
    + inversion H; subst. eapply exec_op_new_items; eauto.
    + destruct (IH _ _ _ H q Hq) as [A|A]; [|now right]. eapply exec_op_new_items; eauto.
Qed.

(* invariant of the create phase about owners and payloads of top-level models *)
Definition inv_own (g : graph) (s : st) : Prop :=
  (forall q r, In q (s_queue s) -> q_owner q = Some r ->
     forall m k e, In m g -> n_ref m = r -> n_top m = TModel k -> nth_error (n_entries m) k = Some e -> q_entry q = e) /\
  (forall m k e, In m g -> has (s_cbr s) (n_ref m) = true -> n_top m = TModel k -> nth_error (n_entries m) k = Some e ->
     lookup (s_cbr s) (n_ref m) = Some (PModel e) /\ In (mkQ (Some (n_ref m)) (e_name e) e) (s_queue s)) /\
  (forall m, In m g -> has (s_cbr s) (n_ref m) = true ->
     (n_top m = TOther \/ exists k, n_top m = TModel k /\ nth_error (n_entries m) k = None) -> lookup (s_cbr s) (n_ref m) = Some POther).

Lemma create_own g : wf_graph g = true -> inv_own g (r_st (create_loop g)).
Proof.
  intro Hwf. destruct (wf_graph_spec _ Hwf) as [Hnd Hwn]. unfold create_loop, run_loop.
  pose proof (loop_inv create_try no_final (inv_own g) (fun _ _ => True) (fun n => In n g)) as L.
  assert (P_step : forall s x s' r, In x g -> inv_own g s -> create_try s x = (s', r) -> inv_own g s').
  { intros s x s' r Hx (I1 & I2 & I3) Ht. unfold create_try in Ht.
    destruct (exec (ctx_of x) s (n_create x)) as [s1 [c|]] eqn:E; inversion Ht; subst; clear Ht.
    - unfold revert. split; [|split]; cbn; auto.
    - destruct (exec_frame _ _ _ _ _ E) as (F1 & F2 & F3 & F4 & F5).
      split; [|split]; cbn [s_queue s_cbr].
      + intros q r Hq Ho m k e Hm Hr Htop Hnth.
        destruct (exec_new_items _ _ _ _ _ E q Hq) as [A|[A|[A B]]].
        * eapply I1; eauto.
        * congruence.
        * cbn [ctx_of c_ref c_top c_ents] in A, B. rewrite A in Ho. inversion Ho; subst r.
          assert (m = x) by (eapply ref_inj; eauto). subst m.
          destruct B as [[k' [e' (B1 & B2 & B3)]]|[t B]]; [|congruence]. rewrite B1 in Htop. inversion Htop; subst k'. congruence.
      + intros m k e Hm Hh Htop Hnth. rewrite has_cons in Hh. rewrite lookup_cons.
        destruct (N.eqb_spec (n_ref x) (n_ref m)) as [Eq|Ne].
        * assert (m = x) by (eapply ref_inj; eauto). subst m. split.
          -- unfold node_payload. rewrite Htop, Hnth. reflexivity.
          -- destruct (wf_node_pushed x e (Hwn x Hx) (nth_error_In _ _ Hnth)) as [i [j (Hi & Ho & Hj)]].
             pose proof (exec_pushed _ _ _ _ E i _ _ _ Hi Ho Hj) as Hq.
             (* the entry is pushed under its own index: the index found by wf is an index of e, but the owner needs k *)
             unfold wf_node in Hwn. pose proof (Hwn x Hx) as W. apply andb_true_iff in W. destruct W as [W _].
             apply andb_true_iff in W. destruct W as [W _].
             destruct (entries_pushed_spec _ _ _ W _ _ Hnth) as [i2 [Hi2 Ho2]]. rewrite Nat.add_0_l in Ho2.
             pose proof (exec_pushed _ _ _ _ E i2 _ _ _ Hi2 Ho2 Hnth) as Hq2.
             unfold push_owner in Hq2. cbn [ctx_of c_top c_ref] in Hq2. rewrite Htop, Nat.eqb_refl in Hq2. exact Hq2.
        * cbn [orb] in Hh. rewrite F1 in Hh. rewrite F1. destruct (I2 m k e Hm Hh Htop Hnth) as [A B]. split; [exact A|now apply F5].
      + intros m Hm Hh Htop. rewrite has_cons in Hh. rewrite lookup_cons.
        destruct (N.eqb_spec (n_ref x) (n_ref m)) as [Eq|Ne].
        * assert (m = x) by (eapply ref_inj; eauto). subst m. unfold node_payload.
          destruct Htop as [Htop|[k [Htop Hnone]]]; rewrite Htop; [reflexivity|rewrite Hnone; reflexivity].
        * cbn [orb] in Hh. rewrite F1 in Hh. rewrite F1. apply I3; auto. }
  specialize (L P_step (fun _ _ _ _ _ _ _ _ _ => I) (fun _ _ _ _ _ _ => I) (S (length (create_todo g))) (create_todo g) st0 []
                (Nat.lt_succ_diag_r _) (create_todo_in g)).
  assert (H0 : inv_own g st0).
  { split; [|split]; cbn; intros; try contradiction; unfold has in *; cbn in *; discriminate. }
  specialize (L H0). cbn zeta in L. tauto.
Qed.

(* ------------------------------------------------------------------ process phase: least fixed point *)
Fixpoint Pn (g : graph) (k : nat) (e : entry) : Prop :=
  match k with
  | O => False
  | S k' => static_ok_p (e_prog e) = true /\
            (forall t, In t (need_ts (e_prog e)) -> exists m, In m g /\ n_ref m = t /\ C g m) /\
            (forall t, In t (allof_ts (e_prog e)) ->
               exists m j e', In m g /\ n_ref m = t /\ C g m /\ n_top m = TModel j /\ nth_error (n_entries m) j = Some e' /\ Pn g k' e')
  end.
Definition P (g : graph) (e : entry) : Prop := exists k, Pn g k e.

Lemma Pn_S g : forall k e, Pn g k e -> Pn g (S k) e.
Proof.
  induction k as [|k IH]; intros e H; [destruct H|]. destruct H as (A & B & D).
  change (static_ok_p (e_prog e) = true /\
          (forall t, In t (need_ts (e_prog e)) -> exists m, In m g /\ n_ref m = t /\ C g m) /\
          (forall t, In t (allof_ts (e_prog e)) ->
             exists m j e', In m g /\ n_ref m = t /\ C g m /\ n_top m = TModel j /\ nth_error (n_entries m) j = Some e' /\ Pn g (S k) e')).
  split; [exact A|]. split; [exact B|]. intros t Ht. destruct (D t Ht) as [m [j [e' (M1 & M2 & M3 & M4 & M5 & M6)]]].
  exists m, j, e'. split; [exact M1|]. split; [exact M2|]. split; [exact M3|]. split; [exact M4|]. split; [exact M5|]. apply IH, M6.
Qed.
Lemma Pn_le g k k' e : (k <= k')%nat -> Pn g k e -> Pn g k' e.
Proof. intro Hle. induction Hle as [|k' Hle IH]; [auto|]. intro Hc. apply Pn_S. auto. Qed.

Lemma P_intro g e : static_ok_p (e_prog e) = true ->
  (forall t, In t (need_ts (e_prog e)) -> exists m, In m g /\ n_ref m = t /\ C g m) ->
  (forall t, In t (allof_ts (e_prog e)) ->
     exists m j e', In m g /\ n_ref m = t /\ C g m /\ n_top m = TModel j /\ nth_error (n_entries m) j = Some e' /\ P g e') -> P g e.
Proof.
  intros H1 H2 H3.
  destruct (finite_rank (fun k t => exists m j e', In m g /\ n_ref m = t /\ C g m /\ n_top m = TModel j /\
                                      nth_error (n_entries m) j = Some e' /\ Pn g k e') (allof_ts (e_prog e))) as [K HK].
  - intros k k' t Hle [m [j [e' (A1 & A2 & A3 & A4 & A5 & A6)]]]. exists m, j, e'.
    split; [exact A1|]. split; [exact A2|]. split; [exact A3|]. split; [exact A4|]. split; [exact A5|]. eapply Pn_le; eauto.
  - intros t Ht. destruct (H3 t Ht) as [m [j [e' (A1 & A2 & A3 & A4 & A5 & [k A6])]]]. exists k, m, j, e'.
    split; [exact A1|]. split; [exact A2|]. split; [exact A3|]. split; [exact A4|]. split; [exact A5|exact A6].
  - exists (S K). cbn [Pn]. split; [exact H1|]. split; [exact H2|exact HK].
Qed.

Lemma exec_success_static_p cx : forall p s s', exec cx s p = (s', None) -> static_ok_p p = true.
Proof.
  induction p as [|i p IH]; intros s s' H; [reflexivity|]. cbn [exec] in H.
  destruct (exec_op cx s (i_op i)) as [s1 [c|]] eqn:E; [discriminate|].
  pose proof (IH _ _ H) as Hp. unfold static_ok_p in *. cbn [forallb]. rewrite Hp, andb_true_r.
  destruct (i_op i); try reflexivity. cbn [exec_op] in E. discriminate.
Qed.

Lemma exec_allof_ok cx : forall p s s', exec cx s p = (s', None) ->
  forall t, In t (allof_ts p) -> (exists e, lookup (s_cbr s) t = Some (PModel e)) /\ mem t (s_done s) = true.
Proof.
  induction p as [|i p IH]; intros s s' H t Ht; [contradiction|]. cbn [exec] in H.
  destruct (exec_op cx s (i_op i)) as [s1 [c|]] eqn:E; [discriminate|].
  destruct (exec_op_frame _ _ _ _ _ E) as (F1 & F2 & _).
  unfold allof_ts in Ht. cbn [flat_map] in Ht. apply in_app_or in Ht. destruct Ht as [Ht|Ht].
  - destruct (i_op i); try contradiction. destruct Ht as [<-|[]]. cbn [exec_op] in E.
    destruct (lookup (s_cbr s) t0) as [[e|]|]; try discriminate. destruct (mem t0 (s_done s)); [|discriminate]. eauto.
  - destruct (IH _ _ H t Ht) as [A B]. rewrite F1, F2 in *. auto.
Qed.

Lemma find_node_spec g r n : NoDup (map n_ref g) -> In n g -> n_ref n = r -> find_node g r = Some n.
Proof.
  induction g as [|a g IH]; cbn [map find_node]; intros Hnd Hn E; [contradiction|].
  inversion Hnd as [|? ? Hni Hnd']; subst. destruct Hn as [->|Hn].
  - now rewrite N.eqb_refl.
  - destruct (N.eqb_spec (n_ref a) (n_ref n)) as [Eq|Ne]; [|now apply IH].
    exfalso. apply Hni. rewrite Eq. now apply in_map.
Qed.

Lemma g_allof_direct_spec g : g_allof_direct g = true ->
  forall n p i t rs rc, In n g -> prog_of n p -> In i p -> i_op i = OAllOf t rs rc ->
  forall m, find_node g t = Some m -> is_twrap m = false.
Proof.
  unfold g_allof_direct, all_progs. intros H n p i t rs rc Hn Hp Hi Ho m Hf. rewrite forallb_forall in H.
  assert (Hin : In p (flat_map (fun n => n_create n :: map e_prog (n_entries n)) g)).
  { apply in_flat_map. exists n. split; [exact Hn|]. destruct Hp as [->|[e [He ->]]]; [now left|right; now apply in_map]. }
  specialize (H _ Hin). rewrite forallb_forall in H. specialize (H _ Hi). rewrite Ho, Hf in H. now apply negb_true_iff in H.
Qed.

Lemma allof_ts_in p t : In t (allof_ts p) -> exists i rs rc, In i p /\ i_op i = OAllOf t rs rc.
Proof.
  unfold allof_ts. intro H. apply in_flat_map in H. destruct H as [i [Hi Ht]].
  destruct (i_op i) eqn:E; try contradiction. destruct Ht as [<-|[]]. eauto.
Qed.

Section Process.
  Variable g : graph.
  Hypothesis Hwf : wf_graph g = true.
  Hypothesis Hdir : g_allof_direct g = true.
  Let s1 := r_st (create_loop g).

  (* a successful process_model establishes P for the model *)
  Lemma proc_success_P s q sx :
    s_cbr s = s_cbr s1 -> AE g (q_entry q) ->
    (forall t, In t (s_done s) -> forall m j e', In m g -> n_ref m = t -> n_top m = TModel j -> nth_error (n_entries m) j = Some e' -> P g e') ->
    exec ctx_proc s (e_prog (q_entry q)) = (sx, None) -> P g (q_entry q).
  Proof.
    intros Hc [nq [Hnq Heq]] Hdone E.
    destruct (wf_graph_spec _ Hwf) as [Hnd Hwn].
    destruct (create_sound g Hnd) as [_ CS]. fold s1 in CS.
    destruct (create_own g Hwf) as (O1 & O2 & O3). fold s1 in O1, O2, O3.
    apply P_intro.
    - eapply exec_success_static_p; eauto.
    - intros t Ht. destruct (need_ts_edges _ _ Ht) as [k [rs He]].
      destruct (exec_done _ _ _ _ E) as (D1 & _). destruct (D1 _ _ _ He) as [Hh _].
      destruct (exec_frame _ _ _ _ _ E) as (F1 & _). rewrite F1, Hc in Hh.
      destruct (CS t Hh) as [m (M1 & M2 & M3 & M4)]. exists m. auto.
    - intros t Ht. destruct (exec_allof_ok _ _ _ _ E t Ht) as [[e' Hl] Hm]. rewrite Hc in Hl.
      assert (Hh : has (s_cbr s1) t = true) by (apply has_lookup; eauto).
      destruct (CS t Hh) as [m (M1 & M2 & M3 & M4)].
      destruct (allof_ts_in _ _ Ht) as [i [rs [rc [Hi Ho]]]].
      assert (Htw : is_twrap m = false).
      { apply (g_allof_direct_spec g Hdir nq (e_prog (q_entry q)) i t rs rc Hnq
                 (or_intror (ex_intro _ (q_entry q) (conj Heq eq_refl))) Hi Ho m).
        now apply find_node_spec. }
      subst t. destruct (n_top m) as [j|t'|] eqn:Etop.
      + destruct (nth_error (n_entries m) j) as [e2|] eqn:En.
        * exists m, j, e2. repeat (split; [auto|]). apply mem_in in Hm. eapply Hdone; eauto.
        * rewrite (O3 m M1 Hh) in Hl; [discriminate|]. right. eauto.
      + unfold is_twrap in Htw. rewrite Etop in Htw. discriminate.
      + rewrite (O3 m M1 Hh) in Hl; [discriminate|now left].
  Qed.

  Definition inv_P (s : st) : Prop :=
    s_cbr s = s_cbr s1 /\ s_queue s = s_queue s1 /\
    (forall t, In t (s_done s) -> forall m j e', In m g -> n_ref m = t -> n_top m = TModel j -> nth_error (n_entries m) j = Some e' -> P g e').
  Definition Qp (q : qitem) (s : st) : Prop :=
    P g (q_entry q) /\ prog_done [] (e_prog (q_entry q)) s /\ forall r, q_owner q = Some r -> In r (s_done s).

  Lemma process_lfp :
    let pl := process_loop s1 in
    inv_P (r_st pl) /\
    (forall q, In q (s_queue s1) -> Qp q (r_st pl) \/ (exists c, In (q, c) (r_retry pl)) \/ (exists c, In (q, c) (r_final pl))).
  Proof.
    cbn zeta. unfold process_loop, run_loop.
    destruct (wf_graph_spec _ Hwf) as [Hnd Hwn].
    destruct (provenance g) as [[Q1 Q2] _]. fold s1 in Q1, Q2.
    destruct (create_own g Hwf) as (O1 & O2 & O3). fold s1 in O1, O2, O3.
    pose proof (loop_inv proc_try is_rec inv_P Qp (fun q => In q (s_queue s1))) as L.
    assert (P_step : forall s x s' r, In x (s_queue s1) -> inv_P s -> proc_try s x = (s', r) -> inv_P s').
    { intros s x s' r Hx (I1 & I2 & I3) Ht. destruct (proc_try_frame _ _ _ _ Ht) as (A1 & A2 & A3).
      split; [congruence|]. split; [congruence|]. unfold proc_try in Ht.
      destruct (exec ctx_proc s (e_prog (q_entry x))) as [sx [c|]] eqn:E; inversion Ht; subst; clear Ht; cbn [s_done revert].
      - exact I3.
      - destruct (exec_frame _ _ _ _ _ E) as (_ & F2 & _). rewrite F2.
        destruct (q_owner x) as [r0|] eqn:Eo; [|exact I3].
        intros t [<-|Ht]; [|now apply I3]. intros m j e' Hm Hr Htop Hnth.
        rewrite <- (O1 x r0 Hx Eo m j e' Hm Hr Htop Hnth). eapply proc_success_P; eauto. }
    assert (Q_step : forall s x y s' r, In y (s_queue s1) -> inv_P s -> proc_try s y = (s', r) -> Qp x s -> Qp x s').
    { intros s x y s' r _ _ Ht (A & B & D). destruct (proc_try_frame _ _ _ _ Ht) as (A1 & A2 & A3).
      split; [exact A|]. split; [eapply prog_done_ext; eauto|]. intros r0 Hr0. specialize (D r0 Hr0).
      unfold proc_try in Ht. destruct (exec ctx_proc s (e_prog (q_entry y))) as [sx [c|]] eqn:E; inversion Ht; subst; cbn [s_done revert]; [exact D|].
      destruct (exec_frame _ _ _ _ _ E) as (_ & F2 & _). rewrite F2. destruct (q_owner y); [now right|exact D]. }
    assert (Q_succ : forall s x s', In x (s_queue s1) -> inv_P s -> proc_try s x = (s', None) -> Qp x s').
    { intros s x s' Hx (I1 & I2 & I3) Ht. split; [|split].
      - unfold proc_try in Ht. destruct (exec ctx_proc s (e_prog (q_entry x))) as [sx [c|]] eqn:E; [discriminate|].
        eapply proc_success_P; eauto.
      - exact (proc_try_succ _ _ _ Ht).
      - intros r0 Hr0. unfold proc_try in Ht. destruct (exec ctx_proc s (e_prog (q_entry x))) as [sx [c|]] eqn:E; [discriminate|].
        inversion Ht; subst. cbn [s_done]. rewrite Hr0. now left. }
    specialize (L P_step Q_step Q_succ (S (length (s_queue s1))) (s_queue s1) s1 [] (Nat.lt_succ_diag_r _) (fun x Hx => Hx)).
    assert (H0 : inv_P s1).
    { split; [reflexivity|]. split; [reflexivity|]. destruct (create_sound g Hnd) as [Hd _]. fold s1 in Hd. rewrite Hd. intros t []. }
    specialize (L H0). cbn zeta in L. destruct L as (L1 & _ & L3 & _). split; [exact L1|exact L3].
  Qed.
End Process.

Lemma static_ok_p_in p i : static_ok_p p = true -> In i p -> forall c0, i_op i <> OFail c0.
Proof.
  unfold static_ok_p. rewrite forallb_forall. intros H Hi c0 E. specialize (H _ Hi). rewrite E in H. discriminate.
Qed.

Lemma allof_ts_intro p i t rs rc : In i p -> i_op i = OAllOf t rs rc -> In t (allof_ts p).
Proof. intros Hi E. unfold allof_ts. apply in_flat_map. exists i. split; [exact Hi|]. rewrite E. now left. Qed.

Section ProcessComplete.
  Variable g : graph.
  Hypothesis Hwf : wf_graph g = true.
  Hypothesis Hdir : g_allof_direct g = true.
  Hypothesis Hpl : g_plain g = true.
  Hypothesis Hdup : g_no_dup_error g = true.
  Let s1 := r_st (create_loop g).
  Let pl := process_loop s1.
  Let s2 := r_st pl.

  (* completeness: a model whose derivation exists is processed: it is in neither error list *)
  Lemma process_complete : forall k q, In q (s_queue s1) -> Pn g k (q_entry q) ->
    (forall c, ~ In (q, c) (r_retry pl)) /\ (forall c, ~ In (q, c) (r_final pl)).
  Proof.
    destruct (wf_graph_spec _ Hwf) as [Hnd Hwn].
    destruct (process_lfp g Hwf Hdir) as [(IP1 & IP2 & IP3) ACC]. cbn zeta in IP1, IP2, IP3, ACC. fold s1 pl s2 in IP1, IP2, IP3, ACC.
    destruct (provenance g) as [[Q1 Q2] _]. fold s1 in Q1, Q2.
    destruct (create_own g Hwf) as (O1 & O2 & O3). fold s1 in O1, O2, O3.
    induction k as [|k IH]; intros q Hq Hk; [destruct Hk|]. destruct Hk as (Hst & Hne & Hal).
    destruct (Q1 q Hq) as [nq [Hnq Heq]].
    assert (Hplain : forallb instr_plain (e_prog (q_entry q)) = true).
    { apply forallb_forall. intros i Hi. eapply (g_plain_spec g Hpl nq); eauto. right. eauto. }
    split.
    - intros c Hc. unfold pl, process_loop, run_loop in Hc.
      destruct (loop_stuck proc_try is_rec same_know same_know_refl same_know_trans proc_try_fail_know
                  _ _ s1 [] (Nat.lt_succ_diag_r (length (s_queue s1))) q c Hc) as [s0 [s0' [Kn Ht]]].
      fold (run_loop proc_try is_rec s1 (s_queue s1)) in Kn. fold (process_loop s1) in Kn. fold pl s2 in Kn.
      destruct Kn as (K1 & K2 & K3 & K4).
      unfold proc_try in Ht. destruct (exec ctx_proc s0 (e_prog (q_entry q))) as [sx [cx|]] eqn:E; [|discriminate].
      inversion Ht; subst cx. clear Ht.
      destruct (exec_fails_why _ _ _ _ _ E) as [i [Hi W]].
      destruct W as [[c0 W]|[[kk [t [rs [nm [rc [W1 W2]]]]]]|[[t [rs [rc [W1 W2]]]]|[W1 W2]]]].
      + exact (static_ok_p_in _ _ Hst Hi _ W).
      + destruct (Hne t (need_ts_in _ _ _ _ _ _ _ Hi W1)) as [m (M1 & M2 & M3)].
        pose proof (create_complete g Hnd Hpl Hdup m M3) as Hc1. fold s1 in Hc1.
        rewrite M2, <- IP1, <- K1 in Hc1. apply has_lookup in Hc1. destruct Hc1 as [v Hv]. congruence.
      + destruct (Hal t (allof_ts_intro _ _ _ _ _ Hi W1)) as [m [j [e' (M1 & M2 & M3 & M4 & M5 & M6)]]].
        pose proof (create_complete g Hnd Hpl Hdup m M3) as Hc1. fold s1 in Hc1.
        destruct (O2 m j e' M1 Hc1 M4 M5) as [Hl Hitem]. rewrite M2 in Hl.
        rewrite K1, IP1 in W2. destruct W2 as [W2|[W2|W2]]; [congruence|congruence|].
        (* the parent's own model is processed by the induction hypothesis *)
        destruct (IH _ Hitem M6) as [NR NF].
        destruct (ACC _ Hitem) as [(_ & _ & Hown)|[[c1 Hx]|[c1 Hx]]]; [|exfalso; eapply NR; eauto|exfalso; eapply NF; eauto].
        specialize (Hown (n_ref m) eq_refl). rewrite M2 in Hown. rewrite K3 in W2. apply mem_in in Hown. congruence.
      + assert (Hovr : i_ovr i = 0).
        { apply instr_plain_mint; [|exact W1]. rewrite forallb_forall in Hplain. now apply Hplain. }
        specialize (W2 Hovr).
        destruct (build_facts g) as [es (F1 & _ & _ & _ & _ & _ & F7 & _)]. cbn zeta in F1, F7. fold s1 pl in F7.
        assert (Hm : In (q, c) (r_final pl ++ r_retry pl)) by (apply in_or_app; right; exact Hc).
        destruct (F7 _ _ Hm) as [er (E1 & E2 & E3 & E4 & E5)].
        assert (Hin : In er (res_errs (build_schemas g))) by (rewrite F1; apply in_or_app; now right).
        destruct (g_no_dup_error_spec g Hdup _ Hin) as [D1 D2]. rewrite E4 in D1, D2. destruct W2; congruence.
    - intros c Hc. unfold pl, process_loop, run_loop in Hc.
      destruct (loop_final_cat proc_try is_rec _ _ _ _ _ _ Hc) as [[]|Hf].
      destruct (loop_final_src proc_try is_rec _ _ _ _ _ _ Hc) as [[]|[_ [s0 [s0' Ht]]]].
      unfold is_rec in Hf. apply N.eqb_eq in Hf. subst c.
      unfold proc_try in Ht. destruct (exec ctx_proc s0 (e_prog (q_entry q))) as [sx [cx|]] eqn:E; [|discriminate].
      inversion Ht; subst cx. eapply exec_cat_plain; eauto.
  Qed.

  (* T lfp (process part): a queued model is reported as failed exactly when it has no derivation *)
  Lemma process_failed_iff q : In q (s_queue s1) ->
    ((exists c, In (q, c) (r_final pl ++ r_retry pl)) <-> ~ P g (q_entry q)).
  Proof.
    intro Hq. destruct (process_lfp g Hwf Hdir) as [_ ACC]. cbn zeta in ACC. fold s1 pl in ACC. split.
    - intros [c Hc] [k Hk]. destruct (process_complete k q Hq Hk) as [NR NF].
      apply in_app_or in Hc. destruct Hc as [Hc|Hc]; [eapply NF|eapply NR]; eauto.
    - intro HnP. destruct (ACC q Hq) as [(HP & _)|[[c Hc]|[c Hc]]]; [contradiction| |]; exists c; apply in_or_app; [now right|now left].
  Qed.
End ProcessComplete.

(* ------------------------------------------------------------------ locality: derivations only look at what a component reaches *)
Inductive reaches (g : graph) (b : ref) : ref -> Prop :=
| reach_here : reaches g b b
| reach_edge r n e : In n g -> n_ref n = r -> In e (node_edges n) -> reaches g b (snd (fst e)) -> reaches g b r.

(* g and g' are the same document except for the description of component b *)
Definition agree_off (b : ref) (g g' : graph) : Prop :=
  (forall n, In n g -> n_ref n <> b -> In n g') /\ (forall n, In n g' -> n_ref n <> b -> In n g).
Lemma agree_off_sym b g g' : agree_off b g g' -> agree_off b g' g.
Proof. intros [A B]. split; assumption. Qed.

Lemma reaches_transfer b g g' : agree_off b g g' -> forall r, reaches g b r -> reaches g' b r.
Proof.
  intros [A _] r H. induction H as [|r n e Hn Hr He _ IH]; [constructor|].
  destruct (N.eq_dec r b) as [->|Hne]; [constructor|]. eapply reach_edge; [apply A; [exact Hn|congruence]|exact Hr|exact He|exact IH].
Qed.

Lemma unaffected_target g b n e : In n g -> In e (node_edges n) -> ~ reaches g b (n_ref n) -> ~ reaches g b (snd (fst e)).
Proof. intros Hn He Hu Hr. apply Hu. eapply reach_edge; eauto. Qed.

Lemma need_ts_node_edge n t : In t (need_ts (n_create n)) -> exists k rs, In (k, t, rs) (node_edges n).
Proof. intro H. destruct (need_ts_edges _ _ H) as [k [rs He]]. exists k, rs. unfold node_edges. apply in_or_app. now left. Qed.
Lemma need_ts_entry_edge n e t : In e (n_entries n) -> In t (need_ts (e_prog e)) -> exists k rs, In (k, t, rs) (node_edges n).
Proof.
  intros He H. destruct (need_ts_edges _ _ H) as [k [rs Hx]]. exists k, rs. unfold node_edges. apply in_or_app. right.
  apply in_flat_map. eauto.
Qed.
Lemma allof_ts_entry_edge n e t : In e (n_entries n) -> In t (allof_ts (e_prog e)) -> exists rs, In (EAllOf, t, rs) (node_edges n).
Proof.
  intros He H. destruct (allof_ts_in _ _ H) as [i [rs [rc [Hi Ho]]]]. exists rs. unfold node_edges. apply in_or_app. right.
  apply in_flat_map. exists e. split; [exact He|]. unfold prog_edges. apply in_flat_map. exists i. split; [exact Hi|]. rewrite Ho. now left.
Qed.

Lemma C_local b g g' : agree_off b g g' -> forall k n, Cn g k n -> ~ reaches g b (n_ref n) -> Cn g' k n.
Proof.
  intros Hag. induction k as [|k IH]; intros n H Hu; [destruct H|]. destruct H as (A & B & D & E).
  assert (Hnb : n_ref n <> b) by (intro X; apply Hu; rewrite X; constructor).
  cbn [Cn]. split; [apply Hag; assumption|]. split; [exact B|]. split; [exact D|].
  intros t Ht. destruct (E t Ht) as [m (M1 & M2 & M3)]. destruct (need_ts_node_edge _ _ Ht) as [kk [rs He]].
  assert (Hum : ~ reaches g b (n_ref m)) by (rewrite M2; exact (unaffected_target g b n _ A He Hu)).
  exists m. split; [apply Hag; [exact M1|intro X; apply Hum; rewrite X; constructor]|]. split; [exact M2|]. now apply IH.
Qed.

Lemma P_local b g g' : agree_off b g g' -> forall k n e, In n g -> In e (n_entries n) -> ~ reaches g b (n_ref n) -> Pn g k e -> Pn g' k e.
Proof.
  intros Hag. induction k as [|k IH]; intros n e Hn He Hu H; [destruct H|]. destruct H as (A & B & D).
  cbn [Pn]. split; [exact A|]. split.
  - intros t Ht. destruct (B t Ht) as [m (M1 & M2 & [kc M3])]. destruct (need_ts_entry_edge _ _ _ He Ht) as [kk [rs Hx]].
    assert (Hum : ~ reaches g b (n_ref m)) by (rewrite M2; exact (unaffected_target g b n _ Hn Hx Hu)).
    exists m. split; [apply Hag; [exact M1|intro X; apply Hum; rewrite X; constructor]|]. split; [exact M2|].
    exists kc. eapply C_local; eauto.
  - intros t Ht. destruct (D t Ht) as [m [j [e' (M1 & M2 & [kc M3] & M4 & M5 & M6)]]]. destruct (allof_ts_entry_edge _ _ _ He Ht) as [rs Hx].
    assert (Hum : ~ reaches g b (n_ref m)) by (rewrite M2; exact (unaffected_target g b n _ Hn Hx Hu)).
    exists m, j, e'. split; [apply Hag; [exact M1|intro X; apply Hum; rewrite X; constructor]|]. split; [exact M2|].
    split; [exists kc; eapply C_local; eauto|]. split; [exact M4|]. split; [exact M5|].
    eapply IH; [exact M1|eapply nth_error_In; eauto|exact Hum|exact M6].
Qed.

(* ------------------------------------------------------------------ guards unpacked *)
Lemma g_contain_spec g : g_contain g = true ->
  wf_graph g = true /\ g_plain g = true /\ g_allof_direct g = true /\ g_no_dup_error g = true /\ g_no_union_edge_to_failing g = true.
Proof.
  unfold g_contain. intro H. apply andb_true_iff in H. destruct H as [H H5]. apply andb_true_iff in H. destruct H as [H H4].
  apply andb_true_iff in H. destruct H as [H H3]. apply andb_true_iff in H. destruct H as [H1 H2]. auto.
Qed.

Definition Surv (g : graph) (r : ref) : Prop := has (res_cbr (build_schemas g)) r = true.

(* a component whose reference is among the roots of a model without derivation does not survive *)
Lemma failed_entry_removed g : g_contain g = true ->
  forall n e, In n g -> In e (n_entries n) -> has (s_cbr (r_st (create_loop g))) (n_ref n) = true ->
  In (RRef (n_ref n)) (e_roots e) -> ~ P g e -> ~ Surv g (n_ref n).
Proof.
  intros Hg n e Hn He Hc Hroot HnP Hs. destruct (g_contain_spec _ Hg) as (Hwf & Hpl & Hdir & Hdup & Hun).
  destruct (wf_graph_spec _ Hwf) as [Hnd Hwn].
  destruct (create_phase_spec g Hnd) as [IC _].
  destruct (wf_node_pushed n e (Hwn n Hn) He) as [i [j (Hi & Ho & Hj)]].
  destruct (IC n Hn Hc) as (_ & _ & D3 & _). destruct (D3 i _ _ _ Hi Ho Hj) as [ow Hq].
  destruct (proj2 (process_failed_iff g Hwf Hdir Hpl Hdup _ Hq) HnP) as [c Hm].
  destruct (build_facts g) as [es (_ & _ & _ & _ & F5 & _)]. cbn zeta in F5.
  specialize (F5 _ _ _ Hm Hroot). cbn in F5. unfold Surv in Hs. congruence.
Qed.

Section Transfer.
  Variables (b : ref) (h h' : graph).
  Hypothesis Hag : agree_off b h h'.
  Hypothesis Hgh : g_contain h = true.
  Hypothesis Hgh' : g_contain h' = true.

  Lemma created_transfer n : In n h -> ~ reaches h b (n_ref n) ->
    has (s_cbr (r_st (create_loop h))) (n_ref n) = true -> has (s_cbr (r_st (create_loop h'))) (n_ref n) = true.
  Proof.
    intros Hn Hu Hc. destruct (g_contain_spec _ Hgh) as (Hwf & Hpl & Hdir & Hdup & Hun).
    destruct (g_contain_spec _ Hgh') as (Hwf' & Hpl' & Hdir' & Hdup' & Hun').
    destruct (wf_graph_spec _ Hwf) as [Hnd _]. destruct (wf_graph_spec _ Hwf') as [Hnd' _].
    destruct (create_sound h Hnd) as [_ CS]. destruct (CS _ Hc) as [n' (N1 & N2 & N3 & [k N4])].
    assert (n' = n) by (exact (ref_inj h n' n Hnd N1 Hn N2)). subst n'.
    apply (create_complete h' Hnd' Hpl' Hdup'). exists k. exact (C_local b h h' Hag k n N4 Hu).
  Qed.

  (* what the cascade of h deletes among the components that do not reach b, the run on h' does not keep either *)
  Lemma removed_transfer q c : In (q, c) (r_final (process_loop (r_st (create_loop h))) ++ r_retry (process_loop (r_st (create_loop h)))) ->
    forall r, Reach (s_deps (r_st (process_loop (r_st (create_loop h))))) (s_cbr (r_st (process_loop (r_st (create_loop h)))))
                    (e_roots (q_entry q)) r ->
    ~ reaches h b r -> ~ Surv h' r.
  Proof.
    intros Hm r HR. destruct (g_contain_spec _ Hgh) as (Hwf & Hpl & Hdir & Hdup & Hun).
    destruct (g_contain_spec _ Hgh') as (Hwf' & Hpl' & Hdir' & Hdup' & Hun').
    destruct (wf_graph_spec _ Hwf) as [Hnd Hwn]. destruct (wf_graph_spec _ Hwf') as [Hnd' Hwn'].
    destruct (process_phase_spec (r_st (create_loop h))) as (P1 & P2 & P3 & P4 & P5).
    destruct (create_sound h Hnd) as [_ CS].
    destruct (provenance h) as [[Q1 Q2] ID]. cbn zeta in ID.
    induction HR as [r Hin Hh|t r HRt IHt Hin Hh]; intros Hu Hs.
    - (* r is a root of the model that failed *)
      assert (Hq : In q (s_queue (r_st (create_loop h)))) by (apply in_app_or in Hm; destruct Hm as [Hm|Hm]; [eapply P5|eapply P4]; eauto).
      destruct (Q1 q Hq) as [m [Hm1 Hm2]].
      pose proof (wf_node_entry_self m _ r (Hwn m Hm1) Hm2 Hin) as Hr. subst r.
      rewrite P1 in Hh.
      assert (HnP : ~ P h (q_entry q)) by (apply (proj1 (process_failed_iff h Hwf Hdir Hpl Hdup _ Hq)); eauto).
      assert (Hnb : n_ref m <> b) by (intro X; apply Hu; rewrite X; constructor).
      assert (Hm' : In m h') by (apply Hag; assumption).
      assert (Hu' : ~ reaches h' b (n_ref m)) by (intro X; apply Hu; eapply reaches_transfer; [apply agree_off_sym; exact Hag|exact X]).
      assert (HnP' : ~ P h' (q_entry q)).
      { intros [k Hk]. apply HnP. exists k. eapply (P_local b h' h (agree_off_sym _ _ _ Hag)); eauto. }
      eapply (failed_entry_removed h' Hgh' m (q_entry q)); eauto. eapply created_transfer; eauto.
    - (* r depends on a deleted reference t: the dependency was recorded by an instruction of r itself *)
      destruct (ID _ _ Hin) as (m & p & i & Hm1 & Hp & Hi & Hd).
      assert (Hedge : exists k rs, In (k, t, rs) (node_edges m) /\ In (RRef r) rs).
      { destruct (i_op i) eqn:Eo; cbn in Hd; try contradiction.
        - destruct Hd as (-> & Hx & _). exists k, rs. split; [|exact Hx]. eapply prog_of_edges; eauto.
          unfold prog_edges. apply in_flat_map. exists i. split; [exact Hi|]. rewrite Eo. now left.
        - destruct Hd as (-> & Hx & _). exists EAllOf, rs. split; [|exact Hx]. eapply prog_of_edges; eauto.
          unfold prog_edges. apply in_flat_map. exists i. split; [exact Hi|]. rewrite Eo. now left.
        - destruct Hd as [_ Hx]. discriminate. }
      destruct Hedge as [k [rs [He Hrs]]].
      assert (Hr : r = n_ref m).
      { (* the only reference among the roots an instruction of m uses is m itself *)
        pose proof (Hwn m Hm1) as W. unfold wf_node in W. apply andb_true_iff in W. destruct W as [W W3].
        apply andb_true_iff in W. destruct W as [_ W2].
        assert (Hs' : prog_self (n_ref m) p = true).
        { destruct Hp as [->|[e [He' ->]]]; [exact W2|]. rewrite forallb_forall in W3. specialize (W3 _ He'). apply andb_true_iff in W3. tauto. }
        unfold prog_self in Hs'. rewrite forallb_forall in Hs'. specialize (Hs' _ Hi).
        destruct (i_op i) eqn:Eo; cbn in Hd; try contradiction.
        - destruct Hd as (_ & Hx & _). cbn in Hs'. eapply roots_self_spec; eauto.
        - destruct Hd as (_ & Hx & _). cbn in Hs'. eapply roots_self_spec; eauto.
        - destruct Hd as [_ Hx]. discriminate. }
      subst r.
      assert (Hnb : n_ref m <> b) by (intro X; apply Hu; rewrite X; constructor).
      assert (Hm' : In m h') by (apply Hag; assumption).
      assert (Hut : ~ reaches h b t) by (exact (unaffected_target h b m _ Hm1 He Hu)).
      (* if m survived in h', its edge to t would point at a survivor (removal_closed), but t does not survive there *)
      pose proof (removal_closed h' Hwf' Hun' m Hm' Hs _ He) as Hst. cbn [fst snd] in Hst.
      exact (IHt Hut Hst).
  Qed.

End Transfer.

(* T containment, one direction: a survivor that does not reach b survives whatever b is replaced by *)
Lemma surv_transfer b h h' : agree_off b h h' -> g_contain h = true -> g_contain h' = true ->
  forall n, In n h -> ~ reaches h b (n_ref n) -> Surv h (n_ref n) -> Surv h' (n_ref n).
Proof.
  intros Hag Hgh Hgh' n Hn Hu Hs.
  destruct (build_facts h) as [es (_ & _ & F3 & _)]. cbn zeta in F3.
  destruct (process_phase_spec (r_st (create_loop h))) as (P1 & _).
  assert (Hc : has (s_cbr (r_st (create_loop h))) (n_ref n) = true) by (rewrite <- P1; apply F3, Hs).
  pose proof (created_transfer b h h' Hag Hgh Hgh' n Hn Hu Hc) as Hc'.
  destruct (process_phase_spec (r_st (create_loop h'))) as (P1' & _).
  unfold Surv. destruct (has (res_cbr (build_schemas h')) (n_ref n)) eqn:E; [reflexivity|exfalso].
  rewrite <- P1' in Hc'.
  destruct (removal_exact h' _ Hc' E) as [q [c [Hm HR]]].
  (* the transfer lemma with the roles of the two documents exchanged *)
  assert (Hu' : ~ reaches h' b (n_ref n)) by (intro X; apply Hu; eapply reaches_transfer; [apply agree_off_sym; exact Hag|exact X]).
  exact (removed_transfer b h' h (agree_off_sym _ _ _ Hag) Hgh' Hgh q c Hm _ HR Hu' Hs).
Qed.

(* ------------------------------------------------------------------ T containment (C08): replace the description of component b by
   anything (in particular by a version with a bad piece in it).  Under the guards on both documents, a component that does
   not reach b through references survives in the one exactly when it survives in the other. *)
Theorem containment b g g' : agree_off b g g' -> g_contain g = true -> g_contain g' = true ->
  forall n, In n g -> ~ reaches g b (n_ref n) -> (Surv g (n_ref n) <-> Surv g' (n_ref n)).
Proof.
  intros Hag Hg Hg' n Hn Hu. split.
  - now apply (surv_transfer b g g').
  - assert (Hnb : n_ref n <> b) by (intro X; apply Hu; rewrite X; constructor).
    assert (Hn' : In n g') by (apply Hag; assumption).
    assert (Hu' : ~ reaches g' b (n_ref n)) by (intro X; apply Hu; eapply reaches_transfer; [apply agree_off_sym; exact Hag|exact X]).
    now apply (surv_transfer b g' g (agree_off_sym _ _ _ Hag)).
Qed.

(* survivors only reach survivors (iterating removal_closed) *)
Lemma surv_reach_closed g b : wf_graph g = true -> g_no_union_edge_to_failing g = true ->
  forall r, reaches g b r -> Surv g r -> Surv g b.
Proof.
  intros Hwf Hun r H. induction H as [|r n e Hn Hr He _ IH]; [auto|]. intro Hs. apply IH.
  subst r. exact (removal_closed g Hwf Hun n Hn Hs e He).
Qed.

(* ... so when b itself does not survive in g' (it carries the bad piece), the survivors of g' are exactly the survivors of g
   minus the dependants* of b: nothing else is lost, nothing else appears *)
Theorem containment_exact b g g' : agree_off b g g' -> g_contain g = true -> g_contain g' = true -> ~ Surv g' b ->
  forall n, In n g -> (Surv g' (n_ref n) <-> Surv g (n_ref n) /\ ~ reaches g b (n_ref n)).
Proof.
  intros Hag Hg Hg' Hb n Hn. destruct (g_contain_spec _ Hg') as (Hwf' & _ & _ & _ & Hun'). split.
  - intro Hs.
    assert (Hu' : ~ reaches g' b (n_ref n)) by (intro X; apply Hb; eapply surv_reach_closed; eauto).
    assert (Hu : ~ reaches g b (n_ref n)) by (intro X; apply Hu'; eapply reaches_transfer; eauto).
    split; [|exact Hu]. now apply (containment b g g' Hag Hg Hg' n Hn Hu).
  - intros [Hs Hu]. now apply (containment b g g' Hag Hg Hg' n Hn Hu).
Qed.

(* non-vacuity: the valid document A, L = array of A, N{l: L}, Z and the same document with a bad property in A *)
Definition valid_item : graph :=
  [mkN 1 false (TModel 0%nat) [mkI (OMintModel 1 (Some 0%nat)) 0] [mkE 1 1 [RRef 1; RCls 1] []];
   mkN 2 false TOther [mkI (ONeed EItem 1 [RRef 2] 0 false) 0] [];
   mkN 3 false (TModel 0%nat) [mkI (OMintModel 2 (Some 0%nat)) 0] [mkE 3 2 [RRef 3; RCls 2] [mkI (ONeed EProp 2 [RRef 3; RCls 2] 0 false) 0]];
   mkN 4 false (TModel 0%nat) [mkI (OMintModel 3 (Some 0%nat)) 0] [mkE 4 3 [RRef 4; RCls 3] []]].
Example containment_nonvacuous :
  g_contain valid_item = true /\ g_contain witness_item = true /\ agree_off 1 valid_item witness_item /\
  survivors valid_item = [4; 3; 2; 1] /\ survivors witness_item = [4].
Proof.
  split; [vm_compute; reflexivity|]. split; [vm_compute; reflexivity|]. split; [|split; vm_compute; reflexivity].
  split; intros n Hn Hne; cbn in Hn; destruct Hn as [<-|[<-|[<-|[<-|[]]]]]; cbn in *; try congruence; tauto.
Qed.

(* T lfp (create part), stated as an equivalence: a component is in classes_by_reference after _create_schemas exactly when it
   has a derivation (it is not a bare reference, nothing in it fails by itself, and everything it refers to at create time has a
   derivation) - whatever the order of the components *)
Theorem create_lfp g : wf_graph g = true -> g_plain g = true -> g_no_dup_error g = true ->
  forall n, In n g -> (has (s_cbr (r_st (create_loop g))) (n_ref n) = true <-> C g n).
Proof.
  intros Hwf Hpl Hdup n Hn. destruct (wf_graph_spec _ Hwf) as [Hnd _]. split.
  - intro Hc. destruct (create_sound g Hnd) as [_ CS]. destruct (CS _ Hc) as [n' (N1 & N2 & N3 & N4)].
    assert (n' = n) by (exact (ref_inj g n' n Hnd N1 Hn N2)). now subst n'.
  - now apply create_complete.
Qed.
