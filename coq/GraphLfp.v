(* GraphLfp.v -- the retry loops of Graph.v compute least fixed points (T lfp), and what survives depends only on the part of
   the graph a component can reach (T containment, C08): replacing the description of component b by anything else changes the
   fate of no component that does not reach b. *)
From Coq Require Import NArith List Bool Lia PeanoNat.
Import ListNotations.
Require Import OPC.Graph OPC.GraphThm.
Open Scope N_scope.

(* ------------------------------------------------------------------ generic: at the exit of a retry loop every pending item has
   just failed against a state that carries the same knowledge as the final one *)
Section Stuck.
  Context {St It : Type}.
  Variable try : St -> It -> St * option N.
  Variable is_final : N -> bool.
  Variable K : St -> St -> Prop.
  Hypothesis K_refl : forall s, K s s.
  Hypothesis K_trans : forall a b c, K a b -> K b c -> K a c.
  Hypothesis K_fail : forall s x s' c, try s x = (s', Some c) -> K s s'.

  Lemma round_noprog : forall todo s, r_prog (round try is_final s todo) = false ->
    K s (r_st (round try is_final s todo)) /\
    forall x c, In (x, c) (r_retry (round try is_final s todo)) ->
      exists s0 s0', K s0 (r_st (round try is_final s todo)) /\ try s0 x = (s0', Some c).
  Proof.
    induction todo as [|y t IH]; intros s H; cbn [round] in *.
    - split; [apply K_refl|intros x c []].
    - destruct (try s y) as [s' [c'|]] eqn:E.
      + assert (Hp : r_prog (round try is_final s' t) = false) by (destruct (is_final c'); exact H).
        destruct (IH s' Hp) as [I1 I2]. pose proof (K_fail _ _ _ _ E) as Kf.
        destruct (is_final c'); cbn [r_st r_retry]; (split; [eapply K_trans; eauto|]).
        * exact I2.
        * intros x c [Hx|Hx]; [|now apply I2]. inversion Hx; subst. exists s, s'. split; [eapply K_trans; eauto|exact E].
      + cbn [r_prog] in H. discriminate.
  Qed.

  Lemma loop_stuck : forall f todo s fin, (length todo < f)%nat ->
    forall x c, In (x, c) (r_retry (loop try is_final f s todo fin)) ->
      exists s0 s0', K s0 (r_st (loop try is_final f s todo fin)) /\ try s0 x = (s0', Some c).
  Proof.
    induction f as [|f IH]; intros todo s fin Hf x c Hin; [lia|]. cbn [loop] in *.
    destruct (r_prog (round try is_final s todo)) eqn:E.
    - pose proof (round_len try is_final s todo) as [_ L]. specialize (L E).
      eapply IH; [|exact Hin]. rewrite map_length. lia.
    - cbn [r_st r_retry] in *. destruct (round_noprog todo s E) as [_ R]. now apply R.
  Qed.

  (* errors that are final were returned by some attempt *)
  Lemma round_final_cat : forall todo s x c, In (x, c) (r_final (round try is_final s todo)) -> is_final c = true.
  Proof.
    induction todo as [|y t IH]; intros s x c H; cbn [round] in H; [contradiction|].
    destruct (try s y) as [s' [c'|]]; [|eapply IH; eauto].
    destruct (is_final c') eqn:E; cbn [r_final] in H; [|eapply IH; eauto].
    destruct H as [H|H]; [inversion H; subst; exact E|eapply IH; eauto].
  Qed.
  Lemma loop_final_cat : forall f todo s fin x c, In (x, c) (r_final (loop try is_final f s todo fin)) ->
    In (x, c) fin \/ is_final c = true.
  Proof.
    induction f as [|f IH]; intros todo s fin x c H; cbn [loop] in H; [now left|].
    destruct (r_prog (round try is_final s todo)).
    - destruct (IH _ _ _ _ _ H) as [H'|H']; [|now right]. apply in_app_or in H'. destruct H' as [H'|H']; [now left|right].
      eapply round_final_cat; eauto.
    - cbn [r_final] in H. apply in_app_or in H. destruct H as [H|H]; [now left|right]. eapply round_final_cat; eauto.
  Qed.
End Stuck.

(* ------------------------------------------------------------------ why an instruction list fails *)
Definition is_mint (o : op) : bool := match o with OMintModel _ _ | OMintEnum _ _ => true | _ => false end.

Lemma exec_op_fails_why cx s o s' c : exec_op cx s o = (s', Some c) ->
  (exists c0, o = OFail c0) \/
  (exists k t rs nm rc, o = ONeed k t rs nm rc /\ lookup (s_cbr s) t = None) \/
  (exists t rs rc, o = OAllOf t rs rc /\
     (lookup (s_cbr s) t = None \/ lookup (s_cbr s) t = Some POther \/ mem t (s_done s) = false)) \/
  (is_mint o = true /\ (c = cat_dup \/ c = cat_enum_conflict)).
Proof.
  intro H. destruct o; cbn [exec_op] in H.
  - left. eauto.
  - destruct (lookup (s_cbr s) t) eqn:L; [discriminate|]. right. left. repeat eexists. exact L.
  - right. right. left. exists t, rs, recur. split; [reflexivity|].
    destruct (lookup (s_cbr s) t) as [[e|]|]; [|now right; left|now left].
    destruct (mem t (s_done s)); [discriminate|]. right. right. reflexivity.
  - discriminate.
  - destruct (has (s_cbn s) c0); [|discriminate]. inversion H; subst. right. right. right. split; [reflexivity|now left].
  - right. right. right. split; [reflexivity|].
    destruct (lookup (s_cbn s) c0) as [[|v']|]; [inversion H; now right| |discriminate].
    destruct (v' =? v); [discriminate|]. inversion H. now right.
Qed.

Lemma exec_fails_why cx : forall p s s' c, exec cx s p = (s', Some c) ->
  exists i, In i p /\
    ((exists c0, i_op i = OFail c0) \/
     (exists k t rs nm rc, i_op i = ONeed k t rs nm rc /\ lookup (s_cbr s) t = None) \/
     (exists t rs rc, i_op i = OAllOf t rs rc /\
        (lookup (s_cbr s) t = None \/ lookup (s_cbr s) t = Some POther \/ mem t (s_done s) = false)) \/
     (is_mint (i_op i) = true /\ (i_ovr i = 0 -> c = cat_dup \/ c = cat_enum_conflict))).
Proof.
  induction p as [|i p IH]; intros s s' c H; cbn [exec] in H; [discriminate|].
  destruct (exec_op cx s (i_op i)) as [s1 [c1|]] eqn:E.
  - inversion H; subst. exists i. split; [now left|].
    destruct (exec_op_fails_why _ _ _ _ _ E) as [A|[A|[A|[A B]]]]; auto.
    right. right. right. split; [exact A|]. intro Ho. rewrite Ho. cbn. exact B.
  - destruct (exec_op_frame _ _ _ _ _ E) as (F1 & F2 & _).
    destruct (IH _ _ _ H) as [j [Hj W]]. exists j. split; [now right|]. rewrite F1, F2 in W. exact W.
Qed.

(* exec only looks at classes_by_reference, classes_by_name and the processed set *)
Definition same_know (s s' : st) : Prop := s_cbr s = s_cbr s' /\ s_cbn s = s_cbn s' /\ s_done s = s_done s' /\ s_queue s = s_queue s'.
Lemma same_know_refl s : same_know s s. Proof. repeat split. Qed.
Lemma same_know_trans a b c : same_know a b -> same_know b c -> same_know a c.
Proof. intros (A1 & A2 & A3 & A4) (B1 & B2 & B3 & B4). repeat split; congruence. Qed.
Lemma create_try_fail_know s n s' c : create_try s n = (s', Some c) -> same_know s s'.
Proof.
  unfold create_try. destruct (exec (ctx_of n) s (n_create n)) as [s1 [c1|]]; intro H; inversion H; subst. repeat split.
Qed.
Lemma proc_try_fail_know s q s' c : proc_try s q = (s', Some c) -> same_know s s'.
Proof.
  unfold proc_try. destruct (exec ctx_proc s (e_prog (q_entry q))) as [s1 [c1|]]; intro H; inversion H; subst. repeat split.
Qed.

(* ------------------------------------------------------------------ guards, unpacked *)
Lemma g_plain_spec g : g_plain g = true -> forall n p i, In n g -> prog_of n p -> In i p -> instr_plain i = true.
Proof.
  unfold g_plain, all_progs. intros H n p i Hn Hp Hi. rewrite forallb_forall in H.
  assert (Hin : In p (flat_map (fun n => n_create n :: map e_prog (n_entries n)) g)).
  { apply in_flat_map. exists n. split; [exact Hn|]. destruct Hp as [->|[e [He ->]]]; [now left|right; now apply in_map]. }
  specialize (H _ Hin). rewrite forallb_forall in H. now apply H.
Qed.

Lemma g_no_dup_error_spec g : g_no_dup_error g = true ->
  forall e, In e (res_errs (build_schemas g)) -> er_cat e <> cat_dup /\ er_cat e <> cat_enum_conflict.
Proof.
  unfold g_no_dup_error. intros H e He. rewrite forallb_forall in H. specialize (H _ He). apply andb_true_iff in H.
  destruct H as [H1 H2]. apply negb_true_iff in H1, H2. apply N.eqb_neq in H1, H2. auto.
Qed.

(* ------------------------------------------------------------------ create phase: least fixed point *)
Fixpoint Cn (g : graph) (k : nat) (n : node) : Prop :=
  match k with
  | O => False
  | S k' => In n g /\ n_isref n = false /\ static_ok_c (n_create n) = true /\
            forall t, In t (need_ts (n_create n)) -> exists m, In m g /\ n_ref m = t /\ Cn g k' m
  end.
Definition C (g : graph) (n : node) : Prop := exists k, Cn g k n.

Lemma Cn_S g : forall k n, Cn g k n -> Cn g (S k) n.
Proof.
  induction k as [|k IH]; intros n H; [destruct H|]. destruct H as (A & B & D & E).
  change (In n g /\ n_isref n = false /\ static_ok_c (n_create n) = true /\
          forall t, In t (need_ts (n_create n)) -> exists m, In m g /\ n_ref m = t /\ Cn g (S k) m).
  split; [exact A|]. split; [exact B|]. split; [exact D|].
  intros t Ht. destruct (E t Ht) as [m (M1 & M2 & M3)]. exists m. split; [exact M1|]. split; [exact M2|]. apply IH, M3.
Qed.
Lemma Cn_le g k k' n : (k <= k')%nat -> Cn g k n -> Cn g k' n.
Proof. intro Hle. induction Hle as [|k' Hle IH]; [auto|]. intro Hc. apply Cn_S. auto. Qed.

Lemma finite_rank {A} (P : nat -> A -> Prop) (l : list A) :
  (forall k k' a, (k <= k')%nat -> P k a -> P k' a) -> (forall a, In a l -> exists k, P k a) -> exists K, forall a, In a l -> P K a.
Proof.
  intros Hm. induction l as [|a l IH]; intro H; [exists O; intros a []|].
  destruct (H a (or_introl eq_refl)) as [k1 H1]. destruct IH as [k2 H2]; [intros b Hb; apply H; now right|].
  exists (Nat.max k1 k2). intros b [<-|Hb]; [eapply Hm; [|exact H1]; lia|eapply Hm; [|apply H2, Hb]; lia].
Qed.

Lemma C_intro g n : In n g -> n_isref n = false -> static_ok_c (n_create n) = true ->
  (forall t, In t (need_ts (n_create n)) -> exists m, In m g /\ n_ref m = t /\ C g m) -> C g n.
Proof.
  intros H1 H2 H3 H4.
  destruct (finite_rank (fun k t => exists m, In m g /\ n_ref m = t /\ Cn g k m) (need_ts (n_create n))) as [K HK].
  - intros k k' t Hle [m (A & B & D)]. exists m. split; [exact A|]. split; [exact B|]. eapply Cn_le; eauto.
  - intros t Ht. destruct (H4 t Ht) as [m (A & B & [k D])]. exists k, m. auto.
  - exists (S K). cbn [Cn]. split; [exact H1|]. split; [exact H2|]. split; [exact H3|exact HK].
Qed.

Lemma need_ts_edges p t : In t (need_ts p) -> exists k rs, In (k, t, rs) (prog_edges p).
Proof.
  unfold need_ts, prog_edges. intro H. apply in_flat_map in H. destruct H as [i [Hi Ht]].
  destruct (i_op i) eqn:E; try contradiction. destruct Ht as [<-|[]]. exists k, rs. apply in_flat_map. exists i. split; [exact Hi|].
  rewrite E. now left.
Qed.

Lemma exec_success_static cx : forall p s s', s_done s = [] -> exec cx s p = (s', None) -> static_ok_c p = true.
Proof.
  induction p as [|i p IH]; intros s s' Hd H; [reflexivity|]. cbn [exec] in H.
  destruct (exec_op cx s (i_op i)) as [s1 [c|]] eqn:E; [discriminate|].
  destruct (exec_op_frame _ _ _ _ _ E) as (_ & F2 & _).
  assert (Hp : static_ok_c p = true) by (apply (IH s1 s'); [congruence|exact H]).
  unfold static_ok_c in *. cbn [forallb]. rewrite Hp, andb_true_r.
  destruct (i_op i); try reflexivity; cbn [exec_op] in E; [discriminate|].
  destruct (lookup (s_cbr s) t) as [[e|]|]; try discriminate. rewrite Hd in E. cbn in E. discriminate.
Qed.

(* soundness: whatever the create loop puts into classes_by_reference is derivable *)
Definition inv_C (g : graph) (s : st) : Prop :=
  s_done s = [] /\ (forall r, has (s_cbr s) r = true -> exists n, In n g /\ n_ref n = r /\ n_isref n = false /\ C g n).

Lemma create_try_done s n s' r : create_try s n = (s', r) -> s_done s' = s_done s.
Proof.
  unfold create_try. destruct (exec (ctx_of n) s (n_create n)) as [s1 [c|]] eqn:E; intro H; inversion H; subst; cbn; [reflexivity|].
  destruct (exec_frame _ _ _ _ _ E) as (_ & F2 & _). exact F2.
Qed.

Lemma create_sound g : NoDup (map n_ref g) -> inv_C g (r_st (create_loop g)).
Proof.
  intro Hnd. unfold create_loop, run_loop.
  pose proof (loop_inv create_try no_final (inv_C g) (fun _ _ => True) (fun n => In n g /\ n_isref n = false)) as L.
  assert (P_step : forall s x s' r, In x g /\ n_isref x = false -> inv_C g s -> create_try s x = (s', r) -> inv_C g s').
  { intros s x s' r [Hx Hrf] [Hd HI] Ht. split; [rewrite (create_try_done _ _ _ _ Ht); exact Hd|].
    destruct r as [c|].
    - destruct (create_try_fail _ _ _ _ Ht) as (E1 & _). rewrite E1. exact HI.
    - intros r0 Hh. destruct (create_try_succ _ _ _ Ht) as [[pl E1] Hdone]. rewrite E1, has_cons in Hh.
      apply orb_true_iff in Hh. destruct Hh as [Hh|Hh]; [|now apply HI].
      apply N.eqb_eq in Hh. subst r0. exists x. repeat split; auto.
      unfold create_try in Ht. destruct (exec (ctx_of x) s (n_create x)) as [s1 [c1|]] eqn:E; [discriminate|].
      apply C_intro; auto.
      + eapply exec_success_static; eauto.
      + intros t Htn. destruct (need_ts_edges _ _ Htn) as [k [rs He]].
        destruct (exec_done _ _ _ _ E) as (D1 & _). destruct (D1 _ _ _ He) as [Hc _].
        destruct (exec_frame _ _ _ _ _ E) as (F1 & _). rewrite F1 in Hc.
        destruct (HI t Hc) as [m (M1 & M2 & M3 & M4)]. exists m. auto. }
  specialize (L P_step (fun _ _ _ _ _ _ _ _ _ => I) (fun _ _ _ _ _ _ => I) (S (length (create_todo g))) (create_todo g) st0 []
                (Nat.lt_succ_diag_r _)).
  assert (HD : forall x, In x (create_todo g) -> In x g /\ n_isref x = false).
  { intros x Hx. unfold create_todo in Hx. apply filter_In in Hx. destruct Hx as [A B]. split; [exact A|]. now apply negb_true_iff in B. }
  assert (H0 : inv_C g st0). { split; [reflexivity|]. intros r Hh. unfold st0, has in Hh. cbn in Hh. discriminate. }
  specialize (L HD H0). cbn zeta in L. tauto.
Qed.

Lemma static_ok_c_in p i : static_ok_c p = true -> In i p -> (forall c0, i_op i <> OFail c0) /\ (forall t rs rc, i_op i <> OAllOf t rs rc).
Proof.
  unfold static_ok_c. rewrite forallb_forall. intros H Hi. specialize (H _ Hi). split; intros; intro E; rewrite E in H; discriminate.
Qed.

Lemma need_ts_in p i k t rs nm rc : In i p -> i_op i = ONeed k t rs nm rc -> In t (need_ts p).
Proof. intros Hi E. unfold need_ts. apply in_flat_map. exists i. split; [exact Hi|]. rewrite E. now left. Qed.

Lemma instr_plain_mint i : instr_plain i = true -> is_mint (i_op i) = true -> i_ovr i = 0.
Proof.
  unfold instr_plain. intro H. apply andb_true_iff in H. destruct H as [_ H].
  destruct (i_op i); try discriminate; intros _; now apply N.eqb_eq in H.
Qed.

(* completeness: every derivable component is created (the loop stops only when nothing more can be done) *)
Lemma create_complete g : NoDup (map n_ref g) -> g_plain g = true -> g_no_dup_error g = true ->
  forall n, C g n -> has (s_cbr (r_st (create_loop g))) (n_ref n) = true.
Proof.
  intros Hnd Hpl Hdup n [k Hk]. revert n Hk. induction k as [|k IH]; intros n Hk; [destruct Hk|].
  destruct Hk as (Hn & Hrf & Hst & Hts).
  assert (Htodo : In n (create_todo g)) by (unfold create_todo; apply filter_In; split; [exact Hn|now rewrite Hrf]).
  destruct (create_phase_account g n Htodo) as [Hc|[c Hc]]; [exact Hc|exfalso].
  unfold create_loop, run_loop in Hc.
  destruct (loop_stuck create_try no_final same_know same_know_refl same_know_trans create_try_fail_know
              _ _ st0 [] (Nat.lt_succ_diag_r (length (create_todo g))) n c Hc) as [s0 [s0' [Kn Ht]]].
  fold (run_loop create_try no_final st0 (create_todo g)) in Kn. fold (create_loop g) in Kn.
  destruct Kn as (K1 & K2 & K3 & K4).
  unfold create_try in Ht. destruct (exec (ctx_of n) s0 (n_create n)) as [sx [cx|]] eqn:E; [|discriminate].
  inversion Ht; subst cx. clear Ht.
  destruct (exec_fails_why _ _ _ _ _ E) as [i [Hi W]].
  destruct (static_ok_c_in _ _ Hst Hi) as [NF NA].
  destruct W as [[c0 W]|[[kk [t [rs [nm [rc [W1 W2]]]]]]|[[t [rs [rc [W1 _]]]]|[W1 W2]]]].
  - exact (NF _ W).
  - destruct (Hts t (need_ts_in _ _ _ _ _ _ _ Hi W1)) as [m (M1 & M2 & M3)].
    specialize (IH m M3). rewrite M2, <- K1 in IH. apply has_lookup in IH. destruct IH as [v Hv]. congruence.
  - exact (NA _ _ _ W1).
  - assert (Hovr : i_ovr i = 0).
    { apply instr_plain_mint; [|exact W1]. eapply g_plain_spec; eauto. now left. }
    specialize (W2 Hovr).
    destruct (build_facts g) as [es (F1 & _)]. cbn zeta in F1.
    assert (Hin : In (mkErr true (n_ref n) c [] []) (res_errs (build_schemas g))).
    { rewrite F1. apply in_or_app. left. unfold create_errs. apply in_or_app. right.
      apply in_map_iff. exists (n, c). split; [reflexivity|]. unfold create_loop, run_loop. exact Hc. }
    destruct (g_no_dup_error_spec g Hdup _ Hin) as [D1 D2]. cbn in D1, D2. destruct W2; congruence.
Qed.
