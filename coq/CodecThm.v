(* CodecThm.v — proofs about Codec.v (C02, C10). *)
From Coq Require Import NArith ZArith List Bool Lia.
Import ListNotations.
Require Import OPC.gen.GenKinds OPC.Uni OPC.Names OPC.NamesThm OPC.Codec OPC.MapsThm.
Open Scope N_scope.

(* ================================================================== facts read off the generated kind table *)
Lemma no_construct_no_transform k : has_construct k = false -> has_transform k = false.
Proof. destruct k; cbv; congruence. Qed.

Lemma transform_has_check k : has_transform k = true -> (forall ms, k <> KUnion ms) -> has_check k = true /\ has_construct k = true.
Proof. destruct k; cbv; intros H Hn; try congruence; try (split; reflexivity). exfalso. eapply Hn. reflexivity. Qed.

Lemma construct_no_transform_const k : has_construct k = true -> has_transform k = false -> exists c, k = KConst c.
Proof. destruct k; cbv; intros H1 H2; try congruence. eauto. Qed.

(* ================================================================== tags *)
Definition tagin (t : jtag) (l : list jtag) : bool := existsb (jtag_eqb t) l.

Lemma jtag_eqb_eq a b : jtag_eqb a b = true <-> a = b.
Proof. destruct a, b; simpl; split; intro H; try reflexivity; discriminate H. Qed.

Lemma tags_disjoint_l a b t : tags_disjoint a b = true -> tagin t a = true -> tagin t b = false.
Proof.
  unfold tags_disjoint, tagin. intros H1 H2. rewrite forallb_forall in H1. apply existsb_exists in H2 as (x & Hx & He).
  apply jtag_eqb_eq in He. subst x. apply H1 in Hx. now apply negb_true_iff in Hx.
Qed.

Lemma tags_disjoint_r a b t : tags_disjoint a b = true -> tagin t b = true -> tagin t a = false.
Proof.
  intros H1 H2. destruct (tagin t a) eqn:E; [|reflexivity].
  rewrite (tags_disjoint_l a b t H1 E) in H2. discriminate.
Qed.

Lemma pd_split pre : forall x post, pairwise_disjoint (pre ++ x :: post) = true ->
  (forall a, In a pre -> tags_disjoint a x = true) /\ (forall b, In b post -> tags_disjoint x b = true).
Proof.
  induction pre as [|a0 pre IH]; intros x post H; simpl in H; apply andb_true_iff in H as [H1 H2].
  - split; [intros a []|]. now rewrite forallb_forall in H1.
  - destruct (IH _ _ H2) as [Ha Hb]. split; [|exact Hb].
    intros a [<-|Hin]; [|auto]. rewrite forallb_forall in H1. apply H1. apply in_or_app. right. now left.
Qed.

Definition off (j : json) (m : pk) : Prop := tagin (tag_of j) (ktags m) = false.

Lemma off_class j m : off j m ->
  (has_construct m = false /\ has_transform m = false) \/ (has_construct m = true /\ has_check m = true /\ has_transform m = true).
Proof.
  unfold off. destruct m; intro H; try (left; split; reflexivity); try (right; repeat split; reflexivity); destruct j; discriminate H.
Qed.

Lemma check_tag m j : has_check m = true -> check_type m j = true -> tagin (tag_of j) (ktags m) = true.
Proof.
  intros H1 H2. destruct m; cbv in H1; try discriminate H1; try destruct vt; destruct j; try discriminate H2; reflexivity.
Qed.

Lemma inst_pj_tag m j : inst_match m (PJ j) = true -> tagin (tag_of j) (ktags m) = true.
Proof. intro H. destruct m; try destruct vt; destruct j; try discriminate H; reflexivity. Qed.

Lemma inst_unset m : inst_match m PUnset = false.
Proof. destruct m; try destruct vt; reflexivity. Qed.

Lemma inst_null m : inst_match m (PJ JNull) = false.
Proof. destruct m; try destruct vt; reflexivity. Qed.

(* ================================================================== typed enum values *)
Lemma json_eqb_typed vt x j : vty_of_json vt x = true -> json_eqb j x = true -> j = x.
Proof.
  destruct vt, x; try discriminate; intros _ H; destruct j; try discriminate H; simpl in H.
  - apply Z.eqb_eq in H. now subst.
  - apply str_eqb_eq in H. now subst.
Qed.

Lemma py_eq_typed vt x j : vty_of_json vt x = true -> vty_of_json vt j = true -> py_scalar_eqb j x = true -> x = j.
Proof.
  destruct vt, x; try discriminate; intros _; destruct j; try discriminate; intros _ H; simpl in H.
  - apply Z.eqb_eq in H. now subst.
  - apply str_eqb_eq in H. now subst.
Qed.

Lemma py_eq_refl_typed vt j : vty_of_json vt j = true -> py_scalar_eqb j j = true.
Proof. destruct vt, j; try discriminate; intros _; simpl; [apply Z.eqb_refl | now apply str_eqb_eq]. Qed.

Lemma typed_mem vt vals j : forallb (vty_of_json vt) vals = true -> existsb (json_eqb j) vals = true ->
  In j vals /\ vty_of_json vt j = true.
Proof.
  intros H1 H2. rewrite forallb_forall in H1. apply existsb_exists in H2 as (x & Hx & He).
  pose proof (H1 _ Hx) as Ht. apply (json_eqb_typed vt) in He; auto. subst. auto.
Qed.

Lemma typed_find vt vals j : forallb (vty_of_json vt) vals = true -> existsb (json_eqb j) vals = true ->
  find (py_scalar_eqb j) vals = Some j /\ existsb (py_scalar_eqb j) vals = true.
Proof.
  intros H1 H2. destruct (typed_mem _ _ _ H1 H2) as [Hin Ht]. rewrite forallb_forall in H1. split.
  - destruct (find (py_scalar_eqb j) vals) as [y|] eqn:Ef.
    + apply find_some in Ef as [Hy He]. f_equal. eapply py_eq_typed; eauto.
    + eapply find_none in Ef; eauto. rewrite (py_eq_refl_typed vt) in Ef; auto. discriminate.
  - apply existsb_exists. exists j. split; auto. eapply py_eq_refl_typed; eauto.
Qed.

(* ================================================================== the steps, kind by kind *)
Section Eqs.
  Variable orc : oracles.
  Variable T : ctable.
  Variable d : pk -> json -> option pv.
  Variable e : pk -> pv -> option json.

  Lemma dec_step_pass k j : has_construct k = false -> dec_step orc T d k j = Some (PJ j).
  Proof. intro H. unfold dec_step. now rewrite H. Qed.
  Lemma dec_step_date j : dec_step orc T d KDate j = match j with JStr s => option_map PDate (parse_date orc s) | _ => None end.
  Proof. reflexivity. Qed.
  Lemma dec_step_datetime j : dec_step orc T d KDateTime j = match j with JStr s => option_map PDateTime (parse_datetime orc s) | _ => None end.
  Proof. reflexivity. Qed.
  Lemma dec_step_uuid j : dec_step orc T d KUuid j = match j with JStr s => option_map PUuid (parse_uuid orc s) | _ => None end.
  Proof. reflexivity. Qed.
  Lemma dec_step_const c j : dec_step orc T d (KConst c) j = if py_scalar_eqb j c then Some (PJ j) else None.
  Proof. reflexivity. Qed.
  Lemma dec_step_enum cls vt vals j :
    dec_step orc T d (KEnum cls vt vals) j = match find (py_scalar_eqb j) vals with Some v => Some (PEnum cls v) | None => None end.
  Proof. reflexivity. Qed.
  Lemma dec_step_litenum vt vals j : dec_step orc T d (KLitEnum vt vals) j = if existsb (py_scalar_eqb j) vals then Some (PJ j) else None.
  Proof. reflexivity. Qed.
  Lemma dec_step_list inner j :
    dec_step orc T d (KList inner) j =
    if has_construct inner then
      match j with
      | JArr l => option_map PList (map_opt (d inner) l)
      | JStr s => option_map PList (map_opt (d inner) (map (fun c => JStr [c]) s))
      | JObj m => option_map PList (map_opt (d inner) (map (fun kv => JStr (fst kv)) m))
      | _ => None
      end
    else Some (PJ j).
  Proof. reflexivity. Qed.
  Lemma dec_step_union ms j : dec_step orc T d (KUnion ms) j = dec_union d ms j.
  Proof. reflexivity. Qed.
  Lemma dec_step_model c j : dec_step orc T d (KModel c) j = dec_model T d c j.
  Proof. reflexivity. Qed.

  Lemma enc_step_pass k v : has_transform k = false -> enc_step T e k v = plain v.
  Proof. intro H. unfold enc_step. now rewrite H. Qed.
  Lemma enc_step_list inner v :
    enc_step T e (KList inner) v =
    if has_transform inner then match items v with Some l => option_map JArr (map_opt (e inner) l) | None => None end else plain v.
  Proof. reflexivity. Qed.
  Lemma enc_step_union ms v : enc_step T e (KUnion ms) v = enc_union_loop e ms false false v.
  Proof. reflexivity. Qed.
  Lemma enc_step_model c v : enc_step T e (KModel c) v = match v with PObj c' fs ad => enc_obj T e c' fs ad | _ => None end.
  Proof. reflexivity. Qed.

  (* the general branch of dec_model *)
  Definition dec_model_gen (c : N) (cd : cdef) (j : json) : option pv :=
    match j with
    | JObj m =>
        match dec_props d (c_props cd) m with
        | None => None
        | Some (fs, rest) =>
            match c_addl cd with
            | None => Some (PObj c fs [])
            | Some ak =>
                if has_construct ak then
                  match map_opt_snd (d ak) rest with Some ad => Some (PObj c fs ad) | None => None end
                else Some (PObj c fs (map (fun kv => (fst kv, PJ (snd kv))) rest))
            end
        end
    | _ => None
    end.
  Definition trivial_class (cd : cdef) : bool :=
    match c_props cd with [] => match c_addl cd with None => true | _ => false end | _ => false end.
  Lemma dec_model_eq c j :
    dec_model T d c j = match get_class T c with
                        | None => None
                        | Some cd => if trivial_class cd then Some (PObj c [] []) else dec_model_gen c cd j
                        end.
  Proof.
    unfold dec_model, dec_model_gen, trivial_class. destruct (get_class T c) as [cd|]; [|reflexivity].
    destruct (c_props cd); destruct (c_addl cd); reflexivity.
  Qed.

  Lemma dec_model_shape c j v : dec_model T d c j = Some v -> exists fs ad, v = PObj c fs ad.
  Proof.
    rewrite dec_model_eq. destruct (get_class T c) as [cd|]; [|discriminate].
    destruct (trivial_class cd); [intro H; injection H as <-; eauto|].
    unfold dec_model_gen. destruct j; try discriminate.
    destruct (dec_props d (c_props cd) m) as [[fs rest]|]; [|discriminate].
    destruct (c_addl cd) as [ak|]; [|intro H; injection H as <-; eauto].
    destruct (has_construct ak); [|intro H; injection H as <-; eauto].
    destruct (map_opt_snd (d ak) rest); [|discriminate]. intro H; injection H as <-; eauto.
  Qed.
End Eqs.

(* ================================================================== generic list facts *)
Lemma map_opt_rt {A B} (dd : A -> option B) (ee : B -> option A) l :
  (forall x, In x l -> exists y, dd x = Some y /\ ee y = Some x) ->
  exists l', map_opt dd l = Some l' /\ map_opt ee l' = Some l.
Proof.
  induction l as [|x l IH]; intro H; simpl.
  - exists []. auto.
  - destruct (H x (or_introl eq_refl)) as (y & Hy & Hx). destruct IH as (l' & H1 & H2); [intros; apply H; now right|].
    exists (y :: l'). rewrite Hy, H1. split; [reflexivity|]. simpl. now rewrite Hx, H2.
Qed.

Lemma map_opt_snd_rt {A B} (dd : A -> option B) (ee : B -> option A) (l : list (str * A)) :
  (forall k x, In (k, x) l -> exists y, dd x = Some y /\ ee y = Some x) ->
  exists l', map_opt_snd dd l = Some l' /\ map_opt_snd ee l' = Some l.
Proof.
  induction l as [|[k x] l IH]; intro H; simpl.
  - exists []. auto.
  - destruct (H k x (or_introl eq_refl)) as (y & Hy & Hx). destruct IH as (l' & H1 & H2); [intros; eapply H; right; eauto|].
    exists ((k, y) :: l'). rewrite Hy, H1. split; [reflexivity|]. simpl. now rewrite Hx, H2.
Qed.

Lemma map_opt_snd_keys {A B} (ff : A -> option B) (l : list (str * A)) : forall l', map_opt_snd ff l = Some l' -> map fst l' = map fst l.
Proof.
  induction l as [|[k x] l IH]; simpl; intros l' H.
  - injection H as <-. reflexivity.
  - destruct (ff x); [|discriminate]. destruct (map_opt_snd ff l) as [r|]; [|discriminate]. injection H as <-. simpl. f_equal. auto.
Qed.

Lemma map_opt_snd_pj (l : list (str * json)) : map_opt_snd plain (map (fun kv => (fst kv, PJ (snd kv))) l) = Some l.
Proof. induction l as [|[k x] l IH]; simpl; [reflexivity|]. now rewrite IH. Qed.

Lemma plain_list vs : plain (PList vs) = option_map JArr (map_opt plain vs).
Proof. simpl. f_equal. induction vs as [|x vs IH]; simpl; [reflexivity|]. now rewrite IH. Qed.

Lemma existsb_str_In key l : existsb (str_eqb key) l = true <-> In key l.
Proof.
  rewrite existsb_exists. split.
  - intros (x & Hx & He). apply str_eqb_eq in He. now subst.
  - intro H. exists key. split; auto. now apply str_eqb_eq.
Qed.

Lemma existsb_str_notIn key l : existsb (str_eqb key) l = false -> ~ In key l.
Proof. intros H Hin. apply existsb_str_In in Hin. congruence. Qed.

Lemma wf_obj m : wf_json (JObj m) = m_sorted m && forallb (fun kv => wf_json (snd kv)) m.
Proof.
  simpl. f_equal. induction m as [|[k v] m IH]; simpl; [reflexivity|]. now rewrite IH.
Qed.

Lemma wf_arr l : wf_json (JArr l) = forallb wf_json l.
Proof. reflexivity. Qed.

(* ================================================================== UNSET is never encodable as a value *)
Lemma enc_loop_unset e ms : (forall m, e m PUnset = None) -> forall hi un, enc_union_loop e ms hi un PUnset = None.
Proof.
  intro H. induction ms as [|m rest IH]; intros hi un; simpl; [reflexivity|].
  destruct (has_transform m); simpl; [|apply IH].
  match goal with |- (if ?c then _ else _) = _ => destruct c end; [|apply H].
  rewrite inst_unset. apply IH.
Qed.

Lemma enc_unset T g : forall k, enc T g k PUnset = None.
Proof.
  induction g as [|g IH]; intro k; [reflexivity|]. simpl.
  destruct k; try reflexivity.
  - rewrite enc_step_list. destruct (has_transform k); reflexivity.
  - rewrite enc_step_union. now apply enc_loop_unset.
Qed.

Lemma enc_plain T g k v j : has_transform k = false -> enc T g k v = Some j -> plain v = Some j.
Proof. intros Ht H. destruct g; [discriminate|]. simpl in H. now rewrite enc_step_pass in H. Qed.

Lemma field_of_enc T g k v j req : (forall ms, k <> KUnion ms) -> enc T g k v = Some j -> enc_field (enc T g) k req v = Some (Some j).
Proof.
  intros Hnu H.
  assert (Hv: v <> PUnset) by (intro; subst; rewrite enc_unset in H; discriminate).
  unfold enc_field. destruct (has_transform k) eqn:Et.
  - destruct k; try (destruct v; [congruence|..]; rewrite H; reflexivity). exfalso. eapply Hnu. reflexivity.
  - apply enc_plain in H; auto. destruct v; [congruence|..]; rewrite H; reflexivity.
Qed.

(* ================================================================== union loops *)
Definition is_nil {A} (l : list A) : bool := match l with [] => true | _ => false end.
Lemma is_nil_app {A} (pre rest : list A) : rest <> [] -> is_nil (pre ++ rest) = false.
Proof. intro H. destruct pre; simpl; [|reflexivity]. destruct rest; [contradiction|reflexivity]. Qed.

Section UnionLoops.
  Variable d : pk -> json -> option pv.
  Variable e : pk -> pv -> option json.

  Lemma dec_union_loop_cons m rest unmod j :
    dec_union_loop d (m :: rest) unmod j =
    if negb (has_construct m) then dec_union_loop d rest true j
    else if has_check m && (negb (is_nil rest) || unmod) then
           if check_type m j then match d m j with Some v => Some v | None => dec_union_loop d rest unmod j end
           else dec_union_loop d rest unmod j
         else if has_check m && negb (check_type m j) then None else d m j.
  Proof. reflexivity. Qed.

  Lemma enc_union_loop_cons m rest hi un v :
    enc_union_loop e (m :: rest) hi un v =
    if negb (has_transform m) then enc_union_loop e rest hi true v
    else if negb hi || negb (is_nil rest) || un then
           if inst_match m v then e m v else enc_union_loop e rest true un v
         else e m v.
  Proof. reflexivity. Qed.

  Lemma off_check j m : off j m -> has_check m = true -> check_type m j = false.
  Proof.
    intros Ho Hk. destruct (check_type m j) eqn:E; [|reflexivity]. apply check_tag in E; auto. unfold off in Ho. congruence.
  Qed.

  Lemma dec_skip j pre : forall unmod rest, rest <> [] -> (forall m, In m pre -> off j m) ->
    dec_union_loop d (pre ++ rest) unmod j = dec_union_loop d rest (unmod || existsb (fun m => negb (has_construct m)) pre) j.
  Proof.
    induction pre as [|m pre IH]; intros unmod rest Hne Hoff.
    - simpl. now rewrite orb_false_r.
    - rewrite <- app_comm_cons, dec_union_loop_cons. cbn [existsb].
      destruct (off_class j m (Hoff m (or_introl eq_refl))) as [[Hc Ht]|(Hc & Hk & Ht)]; rewrite Hc; cbn [negb orb].
      + rewrite IH; auto; [|intros; apply Hoff; now right]. cbn [orb]. now rewrite orb_true_r.
      + rewrite Hk, is_nil_app by exact Hne. cbn [negb andb orb].
        rewrite (off_check j m (Hoff m (or_introl eq_refl)) Hk). apply IH; auto. intros; apply Hoff; now right.
  Qed.

  Lemma dec_skip_end j post : (forall m, In m post -> off j m) -> dec_union_loop d post true j = Some (PJ j).
  Proof.
    induction post as [|m post IH]; intro Hoff; [reflexivity|]. rewrite dec_union_loop_cons.
    destruct (off_class j m (Hoff m (or_introl eq_refl))) as [[Hc Ht]|(Hc & Hk & Ht)]; rewrite Hc; cbn [negb].
    - apply IH. intros; apply Hoff; now right.
    - rewrite Hk, orb_true_r. cbn [andb]. rewrite (off_check j m (Hoff m (or_introl eq_refl)) Hk). apply IH. intros; apply Hoff; now right.
  Qed.

  Lemma dec_hit mi post unmod j v : has_construct mi = true -> (has_check mi = true -> check_type mi j = true) -> d mi j = Some v ->
    dec_union_loop d (mi :: post) unmod j = Some v.
  Proof.
    intros Hc Hk Hd. rewrite dec_union_loop_cons, Hc. cbn [negb].
    destruct (has_check mi) eqn:Ek; cbn [andb].
    - rewrite (Hk eq_refl), Hd. cbn [negb]. now destruct (_ || unmod).
    - exact Hd.
  Qed.

  Lemma enc_hit pre mi post v j :
    (forall m, In m pre -> has_transform m = true -> inst_match m v = true -> e m v = Some j) ->
    has_transform mi = true -> inst_match mi v = true -> e mi v = Some j ->
    forall hi un, enc_union_loop e (pre ++ mi :: post) hi un v = Some j.
  Proof.
    intros Hpre Ht Hi He. induction pre as [|m pre IH]; intros hi un.
    - simpl app. rewrite enc_union_loop_cons, Ht, Hi. cbn [negb]. now destruct (_ || un).
    - rewrite <- app_comm_cons, enc_union_loop_cons.
      destruct (has_transform m) eqn:Etm; cbn [negb].
      + rewrite is_nil_app by discriminate. cbn [negb]. rewrite orb_true_r. cbn [orb].
        destruct (inst_match m v) eqn:Eim.
        * apply Hpre; auto. now left.
        * apply IH. intros; apply Hpre; auto. now right.
      + apply IH. intros; apply Hpre; auto. now right.
  Qed.

  Lemma enc_pj ms j :
    (forall m, In m ms -> has_transform m = true -> inst_match m (PJ j) = false) ->
    forall hi un, (un = true \/ exists m, In m ms /\ has_transform m = false) ->
    enc_union_loop e ms hi un (PJ j) = Some j.
  Proof.
    induction ms as [|m rest IH]; intros Hin hi un Hun; [reflexivity|]. rewrite enc_union_loop_cons.
    destruct (has_transform m) eqn:Et; cbn [negb].
    - destruct (negb hi || negb (is_nil rest) || un) eqn:Ec.
      + rewrite (Hin m (or_introl eq_refl) Et). apply IH; [intros; apply Hin; auto; now right|].
        destruct Hun as [?|(m' & [<-|Hm'] & Ht')]; auto; [congruence|]. right. eauto.
      + exfalso. apply orb_false_iff in Ec as [Ec Eu]. apply orb_false_iff in Ec as [_ Ec].
        destruct rest; [|discriminate Ec].
        destruct Hun as [?|(m' & [<-|[]] & Ht')]; congruence.
    - apply IH; [intros; apply Hin; auto; now right|]. now left.
  Qed.
End UnionLoops.

(* ================================================================== what validity says about the JSON tag and the decoded value *)
Section Shapes.
  Variable orc : oracles.
  Variable T : ctable.

  Lemma valid_tag f k j : k_ok k = true -> valid orc T (S f) k j = true -> tagin (tag_of j) (ktags k) = true.
  Proof.
    intros Hk Hv. destruct k; simpl in Hv; try discriminate Hv;
      try (destruct j; try discriminate Hv; reflexivity).
    - apply (typed_mem vt) in Hv as [_ Ht]; auto. destruct vt, j; try discriminate Ht; reflexivity.
    - apply (typed_mem vt) in Hv as [_ Ht]; auto. destruct vt, j; try discriminate Ht; reflexivity.
    - destruct (get_class T cls); destruct j; try discriminate Hv; reflexivity.
  Qed.

  Lemma valid_check f k j : k_ok k = true -> valid orc T (S f) k j = true -> has_check k = true -> check_type k j = true.
  Proof.
    intros Hk Hv Hc. destruct k; try discriminate Hc; simpl in Hv; try discriminate Hv;
      try (destruct j; try discriminate Hv; reflexivity).
    - apply (typed_mem vt) in Hv as [_ Ht]; auto. destruct vt, j; try discriminate Ht; reflexivity.
    - apply (typed_mem vt) in Hv as [_ Ht]; auto. destruct vt, j; try discriminate Ht; reflexivity.
    - destruct (get_class T cls); destruct j; try discriminate Hv; reflexivity.
  Qed.

  Definition shape (mi : pk) (j : json) (v : pv) : Prop :=
    match mi with
    | KDate => (exists s, v = PDate s) /\ tag_of j = TStr
    | KDateTime => (exists s, v = PDateTime s) /\ tag_of j = TStr
    | KUuid => (exists s, v = PUuid s) /\ tag_of j = TStr
    | KEnum cls vt _ => v = PEnum cls j /\ vty_of_json vt j = true
    | KLitEnum vt _ => v = PJ j /\ vty_of_json vt j = true
    | KList _ => tag_of j = TArr /\ ((exists l, v = PList l) \/ v = PJ j)
    | KModel c => tag_of j = TObj /\ exists fs ad, v = PObj c fs ad
    | _ => False
    end.

  Lemma full_shape f mi j v : has_transform mi = true -> (forall ms, mi <> KUnion ms) -> k_ok mi = true ->
    valid orc T (S f) mi j = true -> dec orc T (S f) mi j = Some v -> shape mi j v.
  Proof.
    intros Ht Hnu Hk Hv Hd. destruct mi; try discriminate Ht; try discriminate Hk; simpl in Hv; cbn [dec] in Hd; unfold shape.
    - rewrite dec_step_date in Hd. destruct j; try discriminate Hv. destruct (parse_date orc s); [|discriminate Hv].
      injection Hd as <-. eauto.
    - rewrite dec_step_datetime in Hd. destruct j; try discriminate Hv. destruct (parse_datetime orc s); [|discriminate Hv].
      injection Hd as <-. eauto.
    - rewrite dec_step_uuid in Hd. destruct j; try discriminate Hv. destruct (parse_uuid orc s); [|discriminate Hv].
      injection Hd as <-. eauto.
    - rewrite dec_step_enum in Hd. simpl in Hk. destruct (typed_find vt vals j Hk Hv) as [Hf _]. rewrite Hf in Hd.
      injection Hd as <-. split; auto. now destruct (typed_mem vt vals j Hk Hv).
    - rewrite dec_step_litenum in Hd. simpl in Hk. destruct (typed_find vt vals j Hk Hv) as [_ He]. rewrite He in Hd.
      injection Hd as <-. split; auto. now destruct (typed_mem vt vals j Hk Hv).
    - rewrite dec_step_list in Hd. destruct j; try discriminate Hv. split; [reflexivity|].
      destruct (has_construct mi).
      + destruct (map_opt (dec orc T f mi) l); [|discriminate Hd]. injection Hd as <-. eauto.
      + injection Hd as <-. auto.
    - exfalso. eapply Hnu. reflexivity.
    - rewrite dec_step_model in Hd. apply dec_model_shape in Hd.
      destruct (get_class T cls); destruct j; try discriminate Hv. auto.
  Qed.

  Lemma inst_self mi j v : shape mi j v -> inst_match mi v = true.
  Proof.
    destruct mi; simpl; try contradiction.
    - intros [[s ->] _]. reflexivity.
    - intros [[s ->] _]. reflexivity.
    - intros [[s ->] _]. reflexivity.
    - intros [-> _]. apply N.eqb_refl.
    - intros [-> Ht]. destruct vt, j; try discriminate Ht; reflexivity.
    - intros [Htag [[l ->]| ->]]; [reflexivity|]. destruct j; try discriminate Htag. reflexivity.
    - intros [_ (fs & ad & ->)]. apply N.eqb_refl.
  Qed.

  (* a different member can pass the isinstance test only if it is an enum of the same class, whose transform is the same *)
  Lemma inst_other g mi j v m : shape mi j v -> off j m -> inst_match m v = true -> enc T (S g) m v = Some j.
  Proof.
    unfold off. intros Hs Ho Hi. destruct mi; simpl in Hs; try contradiction.
    - destruct Hs as [[s ->] Htag]. rewrite Htag in Ho. destruct m; try destruct vt; try discriminate Hi; discriminate Ho.
    - destruct Hs as [[s ->] Htag]. rewrite Htag in Ho. destruct m; try destruct vt; try discriminate Hi; discriminate Ho.
    - destruct Hs as [[s ->] Htag]. rewrite Htag in Ho. destruct m; try destruct vt; try discriminate Hi; discriminate Ho.
    - destruct Hs as [-> Ht]. destruct m; try discriminate Hi.
      + reflexivity.
      + destruct vt, vt0, j; try discriminate Ht; try discriminate Hi; discriminate Ho.
    - destruct Hs as [-> Ht]. apply inst_pj_tag in Hi. congruence.
    - destruct Hs as [Htag [[l ->]| ->]].
      + rewrite Htag in Ho. destruct m; try destruct vt; try discriminate Hi; discriminate Ho.
      + apply inst_pj_tag in Hi. congruence.
    - destruct Hs as [Htag (fs & ad & ->)]. rewrite Htag in Ho. destruct m; try destruct vt; try discriminate Hi; discriminate Ho.
  Qed.
End Shapes.

(* ================================================================== static guard, unpacked *)
Lemma k_ok_union ms : k_ok (KUnion ms) = true ->
  ms <> [] /\ pairwise_disjoint (map ktags ms) = true /\ forall m, In m ms -> (forall ms', m <> KUnion ms') /\ k_ok m = true.
Proof.
  intro H. simpl in H. apply andb_true_iff in H as [H H3]. apply andb_true_iff in H as [H1 H2].
  split; [intros ->; discriminate H1|]. split; [exact H2|]. clear H1 H2.
  induction ms as [|m0 r IH]; [intros ? []|].
  apply andb_true_iff in H3 as [H3 H4]. apply andb_true_iff in H3 as [H3a H3b].
  intros m [<-|Hin]; [|apply IH; auto]. split; [|exact H3b]. intros ms' ->. discriminate H3a.
Qed.

Lemma table_cdef T c cd : table_ok T = true -> get_class T c = Some cd -> cdef_ok T cd = true.
Proof.
  unfold table_ok, get_class. intros HT Hc. apply nth_error_In in Hc. rewrite forallb_forall in HT. auto.
Qed.

Lemma names_distinct_cons n x ps : names_distinct ((n, x) :: ps) = negb (existsb (str_eqb n) (map fst ps)) && names_distinct ps.
Proof. reflexivity. Qed.

Lemma enc_props_hit e n req k ps v fs :
  enc_props e ((n, (req, k)) :: ps) ((n, v) :: fs) =
  match enc_field e k req v with
  | None => None
  | Some o => match enc_props e ps ((n, v) :: fs) with
              | None => None
              | Some r => Some (match o with Some j => (n, j) :: r | None => r end)
              end
  end.
Proof. simpl. rewrite str_eqb_refl. reflexivity. Qed.

Lemma enc_props_skip e n v fs ps : ~ In n (map fst ps) -> enc_props e ps ((n, v) :: fs) = enc_props e ps fs.
Proof.
  induction ps as [|[n' [req k]] ps IH]; intro H; simpl; [reflexivity|]. simpl in H.
  rewrite (str_eqb_neq n n') by (intro; subst; apply H; now left). rewrite IH by tauto. reflexivity.
Qed.

Lemma valid_props_sub vd ps : forall m rest, m_sorted m = true -> valid_props vd ps m = Some rest ->
  m_sorted rest = true /\ forall x, In x rest -> In x m.
Proof.
  induction ps as [|[n [req k]] ps IH]; simpl; intros m rest Hs H.
  - injection H as <-. auto.
  - destruct (m_get n m) as [j|] eqn:Eg.
    + destruct (vd k j); [|discriminate]. apply IH in H as [H1 H2]; [|now apply m_sorted_del].
      split; auto. intros. eapply m_del_In; eauto.
    + destruct req; [discriminate|]. eauto.
Qed.

Lemma unset_not_encoded_aux e k : enc_field e k false PUnset = Some None.
Proof. unfold enc_field. destruct (has_transform k); [destruct k|]; reflexivity. Qed.

(* ================================================================== one level of the induction *)
Definition rt_ok orc T f g k j :=
  exists v, dec orc T f k j = Some v /\ enc T g k v = Some j /\ forall req, enc_field (enc T g) k req v = Some (Some j).

Lemma rt_ok_intro orc T f g k j v : (forall ms, k <> KUnion ms) -> dec orc T f k j = Some v -> enc T g k v = Some j -> rt_ok orc T f g k j.
Proof. intros Hn Hd He. exists v. repeat split; auto. intro req. now apply field_of_enc. Qed.

Section Level.
  Variables (orc : oracles) (T : ctable) (f : nat).
  Hypothesis HT : table_ok T = true.
  Hypothesis IH : forall g k j, (f <= g)%nat -> k_ok k = true -> wf_json j = true -> valid orc T f k j = true -> rt_ok orc T f g k j.

  (* ---------------- lists *)
  Lemma list_rt g inner l : (f <= g)%nat -> k_ok inner = true -> forallb wf_json l = true -> forallb (valid orc T f inner) l = true ->
    exists vs, map_opt (dec orc T f inner) l = Some vs /\ map_opt (enc T g inner) vs = Some l /\
               (has_transform inner = false -> map_opt plain vs = Some l).
  Proof.
    intros Hg Hk. induction l as [|x l IHl]; simpl; intros Hw Hv.
    - exists []. auto.
    - apply andb_true_iff in Hw as [Hw1 Hw2]. apply andb_true_iff in Hv as [Hv1 Hv2].
      destruct (IH g inner x Hg Hk Hw1 Hv1) as (v & Hd & He & _). destruct (IHl Hw2 Hv2) as (vs & H1 & H2 & H3).
      exists (v :: vs). rewrite Hd, H1. simpl. rewrite He, H2. repeat split; auto.
      intro Ht. now rewrite (enc_plain _ _ _ _ _ Ht He), (H3 Ht).
  Qed.

  Lemma klist_rt g inner j : (f <= g)%nat -> k_ok inner = true -> wf_json j = true -> valid orc T (S f) (KList inner) j = true ->
    rt_ok orc T (S f) (S g) (KList inner) j.
  Proof.
    intros Hg Hk Hw Hv. simpl in Hv. destruct j; try discriminate Hv. rewrite wf_arr in Hw.
    destruct (has_construct inner) eqn:Ec.
    - destruct (list_rt g inner l Hg Hk Hw Hv) as (vs & H1 & H2 & H3).
      apply (rt_ok_intro _ _ _ _ _ _ (PList vs)); [intros ms; discriminate| |].
      + cbn [dec]. rewrite dec_step_list, Ec, H1. reflexivity.
      + cbn [enc]. rewrite enc_step_list. destruct (has_transform inner) eqn:Et.
        * cbn [items]. now rewrite H2.
        * now rewrite plain_list, (H3 eq_refl).
    - apply (rt_ok_intro _ _ _ _ _ _ (PJ (JArr l))); [intros ms; discriminate| |].
      + cbn [dec]. now rewrite dec_step_list, Ec.
      + cbn [enc]. now rewrite enc_step_list, (no_construct_no_transform _ Ec).
  Qed.

  (* ---------------- model classes *)
  Lemma field_rt g k req j : (f <= g)%nat -> k_ok k = true -> wf_json j = true -> valid orc T f k j = true ->
    exists v, dec_field (dec orc T f) k req (Some j) = Some v /\ enc_field (enc T g) k req v = Some (Some j).
  Proof.
    intros Hg Hk Hw Hv. destruct (IH g k j Hg Hk Hw Hv) as (v & Hd & He & Hf).
    unfold dec_field. destruct k; try (exists v; split; [exact Hd | apply Hf]).
    destruct (has_construct (KList k) && has_construct k && negb req && falsy j) eqn:Ec; [|exists v; split; [exact Hd | apply Hf]].
    apply andb_true_iff in Ec as [Ec Hfal]. apply andb_true_iff in Ec as [Ec Hreq]. apply andb_true_iff in Ec as [_ Hc].
    exists (PList []). split; [reflexivity|].
    destruct f as [|f']; [discriminate Hv|]. simpl in Hv. destruct j; try discriminate Hv. destruct l; [|discriminate Hfal].
    cbn [dec] in Hd. rewrite dec_step_list, Hc in Hd. injection Hd as <-. apply Hf.
  Qed.

  Lemma props_rt g : (f <= g)%nat -> forall ps m rest, m_sorted m = true -> forallb (fun kv => wf_json (snd kv)) m = true ->
    forallb (fun p => k_ok (snd (snd p))) ps = true -> names_distinct ps = true ->
    valid_props (valid orc T f) ps m = Some rest ->
    exists fs kvs, dec_props (dec orc T f) ps m = Some (fs, rest) /\ enc_props (enc T g) ps fs = Some kvs /\
                   put_all kvs rest = m /\ (forall n, In n (map fst kvs) -> In n (map fst ps)).
  Proof.
    intro Hg. induction ps as [|[n [req k]] ps IHps]; intros m rest Hs Hw Hk Hn Hv.
    - simpl in Hv. injection Hv as <-. exists [], []. simpl. auto.
    - rewrite names_distinct_cons in Hn. apply andb_true_iff in Hn as [Hn1 Hn2].
      apply negb_true_iff in Hn1. apply existsb_str_notIn in Hn1.
      cbn [forallb snd] in Hk. apply andb_true_iff in Hk as [Hk1 Hk2].
      cbn [valid_props] in Hv. cbn [dec_props].
      destruct (m_get n m) as [j|] eqn:Eg.
      + destruct (valid orc T f k j) eqn:Ev; [|discriminate Hv].
        assert (Hwj: wf_json j = true).
        { rewrite forallb_forall in Hw. apply (Hw (n, j)). now apply m_get_In. }
        destruct (field_rt g k req j Hg Hk1 Hwj Ev) as (v & Hdf & Hef).
        destruct (IHps (m_del n m) rest) as (fs & kvs & Hd & He & Hp & Hnm); auto.
        { now apply m_sorted_del. }
        { rewrite forallb_forall in Hw |- *. intros x Hx. apply Hw. eapply m_del_In; eauto. }
        exists ((n, v) :: fs), ((n, j) :: kvs). rewrite Hdf, Hd. split; [reflexivity|].
        rewrite enc_props_hit, Hef, enc_props_skip, He by exact Hn1. split; [reflexivity|].
        destruct (valid_props_sub _ _ _ _ (m_sorted_del n m Hs) Hv) as [Hsr _].
        split.
        * cbn [put_all]. rewrite put_all_comm; auto. rewrite Hp. now apply m_put_del.
        * simpl. intros n' [<-|Hin]; auto.
      + destruct req; [discriminate Hv|].
        destruct (IHps m rest) as (fs & kvs & Hd & He & Hp & Hnm); auto.
        exists ((n, PUnset) :: fs), kvs. cbn [dec_field]. rewrite (m_del_absent n m Eg), Hd. split; [reflexivity|].
        rewrite enc_props_hit, unset_not_encoded_aux, enc_props_skip, He by exact Hn1. split; [reflexivity|].
        split; auto. simpl. auto.
  Qed.

  Lemma kmodel_rt g c j : (f <= g)%nat -> wf_json j = true -> valid orc T (S f) (KModel c) j = true ->
    rt_ok orc T (S f) (S g) (KModel c) j.
  Proof.
    intros Hg Hw Hv. simpl in Hv. destruct (get_class T c) as [cd|] eqn:Ec; [|discriminate Hv].
    destruct j; try discriminate Hv. destruct (valid_props (valid orc T f) (c_props cd) m) as [rest|] eqn:Evp; [|discriminate Hv].
    pose proof (table_cdef T c cd HT Ec) as Hcd. unfold cdef_ok in Hcd.
    apply andb_true_iff in Hcd as [Hcd Hak]. apply andb_true_iff in Hcd as [Hkp Hnd].
    rewrite wf_obj in Hw. apply andb_true_iff in Hw as [Hs Hwv].
    destruct (props_rt g Hg (c_props cd) m rest Hs Hwv Hkp Hnd Evp) as (fs & kvs & Hdp & Hep & Hput & _).
    destruct (valid_props_sub _ _ _ _ Hs Evp) as [Hsr Hsub].
    assert (Hwr: forall k x, In (k, x) rest -> wf_json x = true).
    { intros k x Hin. rewrite forallb_forall in Hwv. apply (Hwv (k, x)). auto. }
    (* the additional-properties part *)
    assert (Hadd: trivial_class cd = false -> exists ad,
              dec_model_gen (dec orc T f) c cd (JObj m) = Some (PObj c fs ad) /\
              match c_addl cd with
              | None => Some []
              | Some ak => if has_transform ak then map_opt_snd (enc T g ak) ad else map_opt_snd plain ad
              end = Some (match c_addl cd with None => [] | Some _ => rest end)).
    { intros _. unfold dec_model_gen. rewrite Hdp. destruct (c_addl cd) as [ak|] eqn:Ea.
      - destruct (has_construct ak) eqn:Eca.
        + destruct (map_opt_snd_rt (dec orc T f ak) (if has_transform ak then enc T g ak else plain) rest) as (ad & H1 & H2).
          { intros k x Hin. rewrite forallb_forall in Hv. specialize (Hv (k, x) Hin). simpl in Hv.
            destruct (IH g ak x Hg Hak (Hwr k x Hin) Hv) as (y & Hd & He & _). exists y. split; auto.
            destruct (has_transform ak) eqn:Et; auto. eapply enc_plain; eauto. }
          exists ad. rewrite H1. split; [reflexivity|]. destruct (has_transform ak); exact H2.
        + eexists. split; [reflexivity|]. rewrite (no_construct_no_transform _ Eca). apply map_opt_snd_pj.
      - exists []. auto. }
    destruct (trivial_class cd) eqn:Etr.
    - (* class without properties and without additionalProperties *)
      unfold trivial_class in Etr. destruct (c_props cd) eqn:Ep; [|discriminate Etr]. destruct (c_addl cd) eqn:Ea; [discriminate Etr|].
      simpl in Evp. injection Evp as <-. destruct m; [|discriminate Hv].
      apply (rt_ok_intro _ _ _ _ _ _ (PObj c [] [])); [intros ms; discriminate| |].
      + cbn [dec]. rewrite dec_step_model, dec_model_eq, Ec. unfold trivial_class. now rewrite Ep, Ea.
      + cbn [enc]. rewrite enc_step_model. unfold enc_obj. rewrite Ec, Ep, Ea. reflexivity.
    - destruct (Hadd eq_refl) as (ad & Hdm & Hbase).
      apply (rt_ok_intro _ _ _ _ _ _ (PObj c fs ad)); [intros ms; discriminate| |].
      + cbn [dec]. now rewrite dec_step_model, dec_model_eq, Ec, Etr.
      + cbn [enc]. rewrite enc_step_model. unfold enc_obj. rewrite Ec, Hep. cbv zeta. rewrite Hbase.
        f_equal. f_equal. destruct (c_addl cd).
        * now rewrite put_all_id.
        * destruct rest; [|discriminate Hv]. exact Hput.
  Qed.

  (* ---------------- unions *)
  Lemma union_rt g ms j : (f <= g)%nat -> k_ok (KUnion ms) = true -> wf_json j = true ->
    existsb (fun m => valid orc T f m j) ms = true ->
    exists v, dec_union (dec orc T f) ms j = Some v /\ forall hi, enc_union_loop (enc T g) ms hi false v = Some j.
  Proof.
    intros Hg Hk Hw Hv. unfold dec_union.
    destruct (existsb is_knone ms && json_eqb j JNull) eqn:Esc.
    - apply andb_true_iff in Esc as [Hn Hj]. destruct j; try discriminate Hj.
      exists (PJ JNull). split; [reflexivity|]. intro hi. apply enc_pj; [intros; apply inst_null|].
      right. apply existsb_exists in Hn as (m & Hin & Hm). exists m. split; auto. destruct m; try discriminate Hm. reflexivity.
    - clear Esc. apply existsb_exists in Hv as (mi & Hin & Hv).
      destruct (k_ok_union ms Hk) as (_ & Hpd & Hmem).
      destruct (Hmem mi Hin) as [Hnu Hkmi].
      apply in_split in Hin as (pre & post & ->).
      rewrite map_app in Hpd. cbn [map] in Hpd. apply pd_split in Hpd as [Hpre Hpost].
      destruct f as [|f']; [discriminate Hv|].
      pose proof (valid_tag orc T f' mi j Hkmi Hv) as Htag.
      assert (Hoffpre: forall m, In m pre -> off j m).
      { intros m Hm. unfold off. eapply tags_disjoint_r; [apply Hpre, in_map, Hm | exact Htag]. }
      assert (Hoffpost: forall m, In m post -> off j m).
      { intros m Hm. unfold off. eapply tags_disjoint_l; [apply Hpost, in_map, Hm | exact Htag]. }
      assert (Hpj: has_transform mi = false -> forall hi, enc_union_loop (enc T g) (pre ++ mi :: post) hi false (PJ j) = Some j).
      { intros Htm hi. apply enc_pj.
        - intros m Hm Ht. destruct (inst_match m (PJ j)) eqn:Ei; [|reflexivity]. apply inst_pj_tag in Ei.
          apply in_app_or in Hm as [Hm|[<-|Hm]]; [rewrite (Hoffpre m Hm) in Ei|congruence|rewrite (Hoffpost m Hm) in Ei]; discriminate.
        - right. exists mi. split; auto. apply in_or_app. right. now left. }
      destruct (IH g mi j Hg Hkmi Hw Hv) as (v & Hd & He & _).
      rewrite dec_skip by (try discriminate; auto).
      destruct (has_construct mi) eqn:Ecm.
      + exists v. split.
        { apply dec_hit; auto. intro Hc. eapply valid_check; eauto. }
        destruct (has_transform mi) eqn:Etm.
        * destruct g as [|g']; [discriminate He|].
          pose proof (full_shape orc T f' mi j v Etm Hnu Hkmi Hv Hd) as Hsh.
          intro hi. apply enc_hit; auto.
          -- intros m Hm _ Hi. eapply inst_other; eauto.
          -- eapply inst_self; eauto.
        * destruct (construct_no_transform_const mi Ecm Etm) as [c ->].
          cbn [dec] in Hd. rewrite dec_step_const in Hd. destruct (py_scalar_eqb j c); [|discriminate Hd].
          injection Hd as <-. now apply Hpj.
      + exists (PJ j). split.
        { rewrite dec_union_loop_cons, Ecm. cbn [negb]. now apply dec_skip_end. }
        apply Hpj. now apply no_construct_no_transform.
  Qed.

  Lemma kunion_rt g ms j : (f <= g)%nat -> k_ok (KUnion ms) = true -> wf_json j = true -> valid orc T (S f) (KUnion ms) j = true ->
    rt_ok orc T (S f) (S g) (KUnion ms) j.
  Proof.
    intros Hg Hk Hw Hv. simpl in Hv.
    destruct (union_rt g ms j Hg Hk Hw Hv) as (v & Hd & He).
    assert (Hg': (f <= S g)%nat) by lia.
    destruct (union_rt (S g) ms j Hg' Hk Hw Hv) as (v' & Hd' & He').
    rewrite Hd in Hd'. injection Hd' as <-.
    exists v. split; [cbn [dec]; now rewrite dec_step_union|]. split; [cbn [enc]; rewrite enc_step_union; apply He|].
    intro req. unfold enc_field. change (has_transform (KUnion ms)) with true. cbv iota.
    assert (Hnu: v <> PUnset).
    { intros ->. specialize (He false). rewrite enc_loop_unset in He; [discriminate|]. intro m. apply enc_unset. }
    destruct v; [congruence|..]; rewrite He'; reflexivity.
  Qed.
End Level.

(* ================================================================== the induction on fuel *)
Theorem rt_strong orc T : table_ok T = true ->
  forall f g k j, (f <= g)%nat -> k_ok k = true -> wf_json j = true -> valid orc T f k j = true -> rt_ok orc T f g k j.
Proof.
  intro HT. induction f as [|f IHf]; intros g k j Hg Hk Hw Hv; [discriminate Hv|].
  destruct g as [|g]; [lia|]. assert (Hg': (f <= g)%nat) by lia.
  destruct k.
  - apply (rt_ok_intro _ _ _ _ _ _ (PJ j)); [intros ms; discriminate|reflexivity|reflexivity].
  - apply (rt_ok_intro _ _ _ _ _ _ (PJ j)); [intros ms; discriminate|reflexivity|reflexivity].
  - apply (rt_ok_intro _ _ _ _ _ _ (PJ j)); [intros ms; discriminate|reflexivity|reflexivity].
  - apply (rt_ok_intro _ _ _ _ _ _ (PJ j)); [intros ms; discriminate|reflexivity|reflexivity].
  - apply (rt_ok_intro _ _ _ _ _ _ (PJ j)); [intros ms; discriminate|reflexivity|reflexivity].
  - apply (rt_ok_intro _ _ _ _ _ _ (PJ j)); [intros ms; discriminate|reflexivity|reflexivity].
  - simpl in Hv. destruct j; try discriminate Hv. destruct (parse_date orc s) as [s'|] eqn:Ep; [|discriminate Hv].
    apply str_eqb_eq in Hv. subst s'.
    apply (rt_ok_intro _ _ _ _ _ _ (PDate s)); [intros ms; discriminate| |reflexivity].
    cbn [dec]. now rewrite dec_step_date, Ep.
  - simpl in Hv. destruct j; try discriminate Hv. destruct (parse_datetime orc s) as [s'|] eqn:Ep; [|discriminate Hv].
    apply str_eqb_eq in Hv. subst s'.
    apply (rt_ok_intro _ _ _ _ _ _ (PDateTime s)); [intros ms; discriminate| |reflexivity].
    cbn [dec]. now rewrite dec_step_datetime, Ep.
  - simpl in Hv. destruct j; try discriminate Hv. destruct (parse_uuid orc s) as [s'|] eqn:Ep; [|discriminate Hv].
    apply str_eqb_eq in Hv. subst s'.
    apply (rt_ok_intro _ _ _ _ _ _ (PUuid s)); [intros ms; discriminate| |reflexivity].
    cbn [dec]. now rewrite dec_step_uuid, Ep.
  - discriminate Hk.
  - simpl in Hv. apply (rt_ok_intro _ _ _ _ _ _ (PJ j)); [intros ms; discriminate| |reflexivity].
    cbn [dec]. rewrite dec_step_const.
    assert (Hp: py_scalar_eqb j c = true) by (destruct c; try discriminate Hk; destruct j; try discriminate Hv; exact Hv).
    now rewrite Hp.
  - simpl in Hv, Hk. destruct (typed_find vt vals j Hk Hv) as [Hf _].
    apply (rt_ok_intro _ _ _ _ _ _ (PEnum cls j)); [intros ms; discriminate| |reflexivity].
    cbn [dec]. now rewrite dec_step_enum, Hf.
  - simpl in Hv, Hk. destruct (typed_find vt vals j Hk Hv) as [_ He].
    apply (rt_ok_intro _ _ _ _ _ _ (PJ j)); [intros ms; discriminate| |reflexivity].
    cbn [dec]. now rewrite dec_step_litenum, He.
  - apply (klist_rt orc T f IHf); auto.
  - apply (kunion_rt orc T f IHf); auto.
  - apply (kmodel_rt orc T f HT IHf); auto.
Qed.

(* ---------- C02: a schema-valid instance decodes, and re-encoding the decoded object gives back the same JSON value ---------- *)
Theorem roundtrip : forall orc T f k j,
  table_ok T = true -> k_ok k = true -> wf_json j = true ->
  valid orc T f k j = true ->
  exists v, dec orc T f k j = Some v /\ enc T f k v = Some j.
Proof.
  intros orc T f k j HT Hk Hw Hv.
  destruct (rt_strong orc T HT f f k j (le_n f) Hk Hw Hv) as (v & Hd & He & _). eauto.
Qed.

(* decoding the re-encoded value yields the same object *)
Corollary decode_reencoded : forall orc T f k j,
  table_ok T = true -> k_ok k = true -> wf_json j = true -> valid orc T f k j = true ->
  exists v j', dec orc T f k j = Some v /\ enc T f k v = Some j' /\ dec orc T f k j' = Some v.
Proof.
  intros orc T f k j HT Hk Hw Hv. destruct (roundtrip orc T f k j HT Hk Hw Hv) as (v & Hd & He).
  exists v, j. auto.
Qed.

(* undeclared properties survive when the schema permits additional properties *)
Corollary additional_preserved : forall orc T f c cd m key x,
  table_ok T = true -> get_class T c = Some cd -> c_addl cd <> None -> wf_json (JObj m) = true ->
  valid orc T f (KModel c) (JObj m) = true ->
  m_get key m = Some x -> existsb (str_eqb key) (map fst (c_props cd)) = false ->
  exists v m', dec orc T f (KModel c) (JObj m) = Some v /\ enc T f (KModel c) v = Some (JObj m') /\ m_get key m' = Some x.
Proof.
  intros orc T f c cd m key x HT _ _ Hw Hv Hg _.
  destruct (roundtrip orc T f (KModel c) (JObj m) HT eq_refl Hw Hv) as (v & Hd & He).
  exists v, m. auto.
Qed.

(* the encoder only ever writes declared wire names or additional keys *)
Lemma enc_props_names e ps : forall fs kvs, enc_props e ps fs = Some kvs -> forall n, In n (map fst kvs) -> In n (map fst ps).
Proof.
  induction ps as [|[n0 [req k]] ps IH]; intros fs kvs H; simpl in H.
  - injection H as <-. intros n [].
  - repeat match type of H with match ?x with _ => _ end = _ => destruct x eqn:?; try discriminate H end.
    injection H as <-. intros n Hin. simpl.
    destruct o; simpl in Hin; [destruct Hin as [<-|Hin]|]; eauto.
Qed.

Theorem wire_names_exact : forall (orc : oracles) T f c fs ad m key x,
  enc T f (KModel c) (PObj c fs ad) = Some (JObj m) -> m_get key m = Some x ->
  (exists cd, get_class T c = Some cd /\ existsb (str_eqb key) (map fst (c_props cd)) = true) \/ existsb (str_eqb key) (map fst ad) = true.
Proof.
  intros _ T f c fs ad m key x He Hg. destruct f as [|f]; [discriminate He|].
  cbn [enc] in He. rewrite enc_step_model in He. unfold enc_obj in He.
  destruct (get_class T c) as [cd|] eqn:Ec; [|discriminate He].
  destruct (enc_props (enc T f) (c_props cd) fs) as [kvs|] eqn:Ep; [|discriminate He]. cbv zeta in He.
  match type of He with match ?b with _ => _ end = _ => destruct b as [b0|] eqn:Eb; [|discriminate He] end.
  injection He as <-. apply put_all_get_inv in Hg as [Hin|Hg].
  - left. exists cd. split; auto. apply existsb_str_In. eapply enc_props_names; eauto.
  - apply put_all_get_inv in Hg as [Hin|Hg]; [|discriminate Hg]. right. apply existsb_str_In.
    destruct (c_addl cd) as [ak|].
    + destruct (has_transform ak); apply map_opt_snd_keys in Eb; now rewrite <- Eb.
    + injection Eb as <-. destruct Hin.
Qed.

(* ---------- C10: absent / null / present ---------- *)
(* an absent optional property reads back as UNSET and UNSET is never transmitted, whatever the kind *)
Theorem optional_absent_unset : forall d k, dec_field d k false None = Some PUnset.
Proof. reflexivity. Qed.
Theorem unset_not_encoded : forall e k, enc_field e k false PUnset = Some None.
Proof. intros. apply unset_not_encoded_aux. Qed.
(* a required property is always emitted *)
Theorem required_always_emitted : forall e k v o, enc_field e k true v = Some o -> o <> None.
Proof.
  intros e k v o H. unfold enc_field in H.
  assert (Hom: forall (x : option json), option_map Some x = Some o -> o <> None).
  { intros [y|]; simpl; intro Hx; [injection Hx as <-|]; discriminate. }
  destruct (has_transform k); [destruct k|]; destruct v; try discriminate H; eauto.
Qed.
(* a required property that is absent is an error, not a default *)
Theorem required_absent_error : forall d k, dec_field d k true None = None.
Proof. reflexivity. Qed.
(* null <-> None for every union with a null member, in both directions *)
Theorem null_decodes_to_none : forall orc T f ms, existsb is_knone ms = true ->
  dec orc T (S f) (KUnion ms) JNull = Some (PJ JNull).
Proof. intros orc T f ms H. cbn [dec]. rewrite dec_step_union. unfold dec_union. now rewrite H. Qed.
Theorem none_encodes_to_null : forall (orc : oracles) T f ms, existsb is_knone ms = true ->
  enc T (S f) (KUnion ms) (PJ JNull) = Some JNull.
Proof.
  intros _ T f ms H. cbn [enc]. rewrite enc_step_union. apply enc_pj; [intros; apply inst_null|].
  right. apply existsb_exists in H as (m & Hin & Hm). exists m. split; auto. destruct m; try discriminate Hm. reflexivity.
Qed.
(* a kind without a null member does not accept null (spec side) *)
Theorem null_invalid_when_not_nullable : forall orc T f k,
  k_ok k = true -> valid orc T f k JNull = true ->
  match k with KAny | KNone => True | KConst c => c = JNull | KUnion ms => exists m, In m ms /\ valid orc T (pred f) m JNull = true | _ => False end.
Proof.
  intros orc T f k Hk Hv. destruct f as [|f]; [discriminate Hv|].
  destruct k; cbn [valid valid_step is_str] in Hv; try exact I; try discriminate Hv.
  - destruct c; try discriminate Hv. reflexivity.
  - simpl in Hk. apply (typed_mem vt) in Hv as [_ Ht]; auto. destruct vt; discriminate Ht.
  - simpl in Hk. apply (typed_mem vt) in Hv as [_ Ht]; auto. destruct vt; discriminate Ht.
  - apply existsb_exists in Hv as (m & Hin & Hm). exists m. auto.
  - destruct (get_class T cls); discriminate Hv.
Qed.

(* ================================================================== concrete witnesses *)
From Coq Require Import String Ascii.
Import Coq.Lists.List.   (* keep [length] = List.length *)
Local Definition s2l (s : string) : str := List.map N_of_ascii (list_ascii_of_string s).
Definition w_dt : str := Eval vm_compute in s2l "2020-01-01T00:00:00".
Definition w_date : str := Eval vm_compute in s2l "2020-01-01".
Definition w_hello : str := Eval vm_compute in s2l "hello".
Definition w_a : str := Eval vm_compute in s2l "a".
Definition w_x : str := Eval vm_compute in s2l "x".
(* a date parser that truncates one date-time text to its date, rejects one text, and accepts everything else verbatim *)
Definition w_orc : oracles :=
  {| parse_date := fun s => if str_eqb s w_dt then Some w_date else if str_eqb s w_hello then None else Some s;
     parse_datetime := fun s => Some s;
     parse_uuid := fun s => Some s |}.

(* ---------- the guard k_ok is necessary: refutation witnesses (each a defect of the generated code) ---------- *)
(* anyOf[date, date-time]: a valid canonical date-time is decoded by the date member and re-encoded as a date *)
Theorem union_date_overlap_refuted : exists orc T f k j,
  table_ok T = true /\ wf_json j = true /\ valid orc T f k j = true /\ k_ok k = false /\
  exists v j', dec orc T f k j = Some v /\ enc T f k v = Some j' /\ j' <> j.
Proof.
  exists w_orc, [], 3%nat, (KUnion [KDate; KDateTime]), (JStr w_dt).
  repeat (split; [vm_compute; reflexivity|]).
  exists (PDate w_date), (JStr w_date). repeat (split; [vm_compute; reflexivity|]). discriminate.
Qed.
(* anyOf[closed model B, model C]: a valid C instance is decoded as B (its keys dropped) and re-encoded as an empty object *)
Definition w_T2 : ctable :=
  [ {| c_props := []; c_addl := None |};
    {| c_props := [(w_a, (true, KInt))]; c_addl := None |} ].
Theorem union_closed_model_first_refuted : exists orc T f k j,
  table_ok T = true /\ wf_json j = true /\ valid orc T f k j = true /\ k_ok k = false /\
  exists v j', dec orc T f k j = Some v /\ enc T f k v = Some j' /\ j' <> j.
Proof.
  exists w_orc, w_T2, 3%nat, (KUnion [KModel 0; KModel 1]), (JObj [(w_a, JInt 1)]).
  repeat (split; [vm_compute; reflexivity|]).
  exists (PObj 0 [] []), (JObj []). repeat (split; [vm_compute; reflexivity|]). discriminate.
Qed.
(* anyOf[array of date, array of string]: ["hello"] decodes through the passthrough member but the encoder takes the first list branch and raises *)
Theorem union_encoder_dispatch_refuted : exists orc T f k j v,
  table_ok T = true /\ wf_json j = true /\ valid orc T f k j = true /\ k_ok k = false /\
  dec orc T f k j = Some v /\ enc T f k v = None.
Proof.
  exists w_orc, [], 3%nat, (KUnion [KList KDate; KList KStr]), (JArr [JStr w_hello]), (PJ (JArr [JStr w_hello])).
  repeat (split; [vm_compute; reflexivity|]). vm_compute; reflexivity.
Qed.
(* anyOf[const "x", integer]: 5 raises in the unguarded const branch instead of reaching the integer member *)
Theorem union_const_unguarded_refuted : exists orc T f k j,
  table_ok T = true /\ wf_json j = true /\ valid orc T f k j = true /\ k_ok k = false /\ dec orc T f k j = None.
Proof.
  exists w_orc, [], 3%nat, (KUnion [KConst (JStr w_x); KInt]), (JInt 5).
  repeat (split; [vm_compute; reflexivity|]). vm_compute; reflexivity.
Qed.

(* non-vacuity: a class table with a nested model, a nullable date, a list of models, typed additional properties, and an instance
   that satisfies every hypothesis of roundtrip *)
Definition w_id : str := Eval vm_compute in s2l "id".
Definition w_child : str := Eval vm_compute in s2l "child".
Definition w_extra : str := Eval vm_compute in s2l "extra".
Definition w_items : str := Eval vm_compute in s2l "items".
Definition w_when : str := Eval vm_compute in s2l "when".
Definition w_T3 : ctable :=
  [ {| c_props := [(w_id, (true, KInt))]; c_addl := None |};
    {| c_props := [(w_child, (true, KModel 0)); (w_when, (false, KUnion [KDate; KNone])); (w_items, (false, KList (KModel 0)))];
       c_addl := Some KInt |} ].
Definition w_j3 : json :=
  JObj [ (w_child, JObj [(w_id, JInt 1)]); (w_extra, JInt 7); (w_items, JArr [JObj [(w_id, JInt 2)]; JObj [(w_id, JInt 3)]]);
         (w_when, JNull) ].
Example roundtrip_nonvacuous : exists orc T f k j,
  table_ok T = true /\ k_ok k = true /\ wf_json j = true /\ valid orc T f k j = true /\
  (exists m, j = JObj m /\ 3 <= length m)%nat.
Proof.
  exists w_orc, w_T3, 5%nat, (KModel 1), w_j3.
  repeat (split; [vm_compute; reflexivity|]). eexists. split; [reflexivity|]. simpl. lia.
Qed.
(* the same instance with a date in place of null also satisfies the hypotheses, and the model indeed round-trips on both *)
Example roundtrip_nonvacuous_run :
  exists v, dec w_orc w_T3 5 (KModel 1) w_j3 = Some v /\ enc w_T3 5 (KModel 1) v = Some w_j3.
Proof. apply roundtrip; vm_compute; reflexivity. Qed.

Print Assumptions roundtrip.
Print Assumptions decode_reencoded.
Print Assumptions additional_preserved.
Print Assumptions wire_names_exact.
Print Assumptions optional_absent_unset.
Print Assumptions unset_not_encoded.
Print Assumptions required_always_emitted.
Print Assumptions required_absent_error.
Print Assumptions null_decodes_to_none.
Print Assumptions none_encodes_to_null.
Print Assumptions null_invalid_when_not_nullable.
Print Assumptions union_date_overlap_refuted.
Print Assumptions union_closed_model_first_refuted.
Print Assumptions union_encoder_dispatch_refuted.
Print Assumptions union_const_unguarded_refuted.
Print Assumptions roundtrip_nonvacuous.
Print Assumptions roundtrip_nonvacuous_run.
