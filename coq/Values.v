(* Values.v — JSON default values and every property kind's convert_value (parser/properties/*.py), the enum member
   table builder values_from_list (enum_property.py:185-209) and const comparison. Model file.
   Runtime functions that are not re-implemented are parameters of the definitions (oracles): float parsing/printing,
   isoparse, UUID. *)
From Coq Require Import NArith ZArith List Bool Lia.
Import ListNotations.
Require Import OPC.gen.GenTables OPC.Uni OPC.Names OPC.PyLit.
Open Scope N_scope.

(* a Python float as far as the generator looks at it: its str() token, and the integer it equals if it is integral
   (None for non-integral, inf, nan); nonfinite floats make int(f) raise OverflowError / ValueError *)
Record fl := { f_tok : str; f_int : option Z; f_finite : bool }.

Inductive jval :=
| JNull | JBool (b : bool) | JInt (z : Z) | JFloat (f : fl) | JStr (s : str)
| JOther (py_str : str).      (* list / dict: only str(value) is ever used *)

Record oracles := {
  parse_float : str -> option fl;       (* float(s); None = ValueError *)
  float_of_int : Z -> option fl;        (* float(n); None = OverflowError *)
  isoparse_ok : str -> bool;            (* dateutil isoparse accepts *)
  uuid_ok : str -> bool                 (* uuid.UUID accepts *)
}.

(* ---- decimal printing of integers: str(int) ---- *)
Fixpoint dec_pos_fuel (fuel : nat) (n : N) (acc : str) : str :=
  match fuel with
  | O => acc
  | S f => let acc' := (48 + n mod 10) :: acc in
           if n / 10 =? 0 then acc' else dec_pos_fuel f (n / 10) acc'
  end.
Definition dec_N (n : N) : str := dec_pos_fuel (S (N.to_nat (N.size n))) n [].
Definition dec_Z (z : Z) : str :=
  match z with Z0 => [48] | Zpos p => dec_N (Npos p) | Zneg p => 45 :: dec_N (Npos p) end.

(* ---- results ---- *)
Record value := { code : str; raw : jval }.       (* protocol.Value(python_code, raw_value) *)
Inductive result := Ok (v : option value) | Err | Crash.   (* Crash = an uncaught Python exception *)

Definition s_True : str := [84;114;117;101].
Definition s_False : str := [70;97;108;115;101].
Definition s_None : str := [78;111;110;101].
Definition s_true : str := [116;114;117;101].
Definition s_false : str := [102;97;108;115;101].

(* str(value) for the JSON scalars *)
Definition py_str (v : jval) : str :=
  match v with
  | JNull => s_None | JBool true => s_True | JBool false => s_False
  | JInt z => dec_Z z | JFloat f => f_tok f | JStr s => s | JOther s => s
  end.

(* StringProperty.convert_value: non-strings are str()-ed; code = repr(remove_string_escapes(value)) *)
Definition conv_string (v : jval) : result :=
  match v with
  | JNull => Ok None
  | _ => let s := py_str v in Ok (Some {| code := py_repr (escape_dq s); raw := JStr s |})
  end.

Definition int_of_float (v : jval) (f : fl) : result :=
  if negb (f_finite f) then Crash                     (* int(inf) / int(nan) raise, uncaught *)
  else match f_int f with
       | Some z => Ok (Some {| code := dec_Z z; raw := v |})
       | None => Err
       end.

Definition conv_int (o : oracles) (v : jval) : result :=
  match v with
  | JNull => Ok None
  | JStr s => match parse_float o s with None => Err | Some f => int_of_float v f end
  | JFloat f => int_of_float v f
  | JInt z => Ok (Some {| code := dec_Z z; raw := v |})
  | JBool _ | JOther _ => Err
  end.

Definition conv_float (o : oracles) (v : jval) : result :=
  match v with
  | JNull => Ok None
  | JStr s => match parse_float o s with None => Err | Some f => Ok (Some {| code := f_tok f; raw := v |}) end
  | JFloat f => Ok (Some {| code := f_tok f; raw := v |})
  | JInt z => match float_of_int o z with None => Crash | Some f => Ok (Some {| code := f_tok f; raw := v |}) end
  | JBool _ | JOther _ => Err
  end.

Definition conv_bool (v : jval) : result :=
  match v with
  | JNull => Ok None
  | JStr s => if str_eqb (lower s) s_true then Ok (Some {| code := s_True; raw := v |})
              else if str_eqb (lower s) s_false then Ok (Some {| code := s_False; raw := v |}) else Err
  | JBool b => Ok (Some {| code := if b then s_True else s_False; raw := v |})
  | _ => Err
  end.

Definition s_isoparse_open : str := [105;115;111;112;97;114;115;101;40].   (* isoparse( *)
Definition s_date_close : str := [41;46;100;97;116;101;40;41].              (* ).date() *)
Definition s_uuid_open : str := [85;85;73;68;40;39].                        (* UUID(' *)
Definition s_uuid_close : str := [39;41].                                   (* ') *)

Definition conv_date (o : oracles) (v : jval) : result :=
  match v with
  | JNull => Ok None
  | JStr s => if isoparse_ok o s then Ok (Some {| code := s_isoparse_open ++ py_repr s ++ s_date_close; raw := v |}) else Err
  | _ => Err
  end.
Definition conv_datetime (o : oracles) (v : jval) : result :=
  match v with
  | JNull => Ok None
  | JStr s => if isoparse_ok o s then Ok (Some {| code := s_isoparse_open ++ py_repr s ++ [41]; raw := v |}) else Err
  | _ => Err
  end.
(* UUID: python_code = "UUID(" + repr(value) + ")"  (uuid.py since the fix "emit UUID defaults through repr") *)
Definition s_uuid_call : str := [85;85;73;68;40].                           (* UUID( *)
Definition conv_uuid (o : oracles) (v : jval) : result :=
  match v with
  | JNull => Ok None
  | JStr s => if uuid_ok o s then Ok (Some {| code := s_uuid_call ++ py_repr s ++ [41]; raw := v |}) else Err
  | _ => Err
  end.
Definition conv_none (v : jval) : result :=
  match v with
  | JNull => Ok None
  | JStr s => if str_eqb s s_None then Ok (Some {| code := s; raw := v |}) else Err
  | _ => Err
  end.
(* AnyProperty / ConstProperty._convert_value: strings as StringProperty, anything else str(value) as code *)
Definition conv_any (v : jval) : result :=
  match v with
  | JNull => Ok None
  | JStr _ => conv_string v
  | _ => Ok (Some {| code := py_str v; raw := v |})
  end.
Definition conv_file (v : jval) : result := match v with JNull => Ok None | _ => Err end.

(* ---- equality of raw JSON values as Python compares them inside Value.__eq__ / dict lookup ---- *)
Definition fl_eqb (a b : fl) : bool := str_eqb (f_tok a) (f_tok b).
Definition jval_eqb (a b : jval) : bool :=
  match a, b with
  | JNull, JNull => true
  | JBool x, JBool y => Bool.eqb x y
  | JInt x, JInt y => Z.eqb x y
  | JFloat x, JFloat y => fl_eqb x y
  | JStr x, JStr y => str_eqb x y
  | JOther x, JOther y => str_eqb x y
  | _, _ => false
  end.
Definition value_eqb (a b : value) : bool := str_eqb (code a) (code b) && jval_eqb (raw a) (raw b).

(* ConstProperty.convert_value: convert like Any, then compare the Value with the const's own Value *)
Definition conv_const (cv : jval) (v : jval) : result :=
  match conv_any v with
  | Ok None => Ok None
  | Ok (Some x) =>
      match conv_any cv with
      | Ok (Some c) => if value_eqb x c then Ok (Some x) else Err
      | _ => Err
      end
  | r => r
  end.

(* ---- enums ---- *)
Inductive vtype := VInt | VStr.
Inductive evalue := EInt (z : Z) | EStr (s : str).
Definition s_VALUE_ : str := [86;65;76;85;69;95].
Definition s_VALUE_NEGATIVE_ : str := [86;65;76;85;69;95;78;69;71;65;84;73;86;69;95].

(* str.isalpha() of one character = alphabetic; observed through the tables: word character that is not a digit-like or
   underscore is not exactly isalpha, so the table is passed in *)
Definition c_isalpha (c : N) : bool := in_ranges tbl_isalpha c.

Fixpoint assoc_set (k : str) (v : evalue) (m : list (str * evalue)) : list (str * evalue) :=
  match m with
  | [] => [(k, v)]
  | (k', v') :: m' => if str_eqb k k' then (k', v) :: m' else (k', v') :: assoc_set k v m'
  end.
Definition assoc_mem (k : str) (m : list (str * evalue)) : bool := existsb (fun kv => str_eqb k (fst kv)) m.

(* values_from_list: returns None where the code raises ValueError (duplicate key).
   Python dict semantics: assignment to an existing key keeps the key's position and replaces the value. *)
Fixpoint values_from_list_go (i : N) (vs : list evalue) (out : list (str * evalue)) : option (list (str * evalue)) :=
  match vs with
  | [] => Some out
  | EInt z :: vs' =>
      let k := match z with Zneg p => s_VALUE_NEGATIVE_ ++ dec_N (Npos p) | _ => s_VALUE_ ++ dec_Z z end in
      values_from_list_go (N.succ i) vs' (assoc_set k (EInt z) out)
  | EStr s :: vs' =>
      let key := match s with
                 | c :: _ => if c_isalpha c then upper s else s_VALUE_ ++ dec_N i
                 | [] => s_VALUE_ ++ dec_N i
                 end in
      if assoc_mem key out then None
      else values_from_list_go (N.succ i) vs' (assoc_set (upper (snake_case key)) (EStr (escape_dq s)) out)
  end.
Definition values_from_list (vs : list evalue) : option (list (str * evalue)) := values_from_list_go 0 vs [].

Definition evalue_eqb (a b : evalue) : bool :=
  match a, b with EInt x, EInt y => Z.eqb x y | EStr x, EStr y => str_eqb x y | _, _ => false end.

Fixpoint inverse_lookup (v : evalue) (m : list (str * evalue)) : option str :=
  (* {v: k for k, v in values.items()}[value]: the LAST key holding the value wins *)
  match m with
  | [] => None
  | (k, v') :: m' => match inverse_lookup v m' with
                     | Some k2 => Some k2
                     | None => if evalue_eqb v v' then Some k else None
                     end
  end.

(* EnumProperty.convert_value (class_name = class_info.name) *)
Definition conv_enum (vt : vtype) (cls : str) (members : list (str * evalue)) (v : jval) : result :=
  let find ev := match inverse_lookup ev members with
                 | Some k => Ok (Some {| code := cls ++ [46] ++ k; raw := v |})
                 | None => Err end in
  match v, vt with
  | JNull, _ => Ok None
  | JInt z, VInt => find (EInt z)
  | JBool b, VInt => find (EInt (if b then 1 else 0)%Z)      (* bool is an int in Python *)
  | JStr s, VStr => find (EStr s)
  | _, _ => Err
  end.

(* repr of an enum value: repr(int) or repr(str) *)
Definition repr_evalue (e : evalue) : str := match e with EInt z => dec_Z z | EStr s => py_repr s end.

(* LiteralEnumProperty.convert_value: membership in the value set, code = repr(value) *)
Definition conv_litenum (vt : vtype) (vals : list evalue) (v : jval) : result :=
  let find ev c := if existsb (evalue_eqb ev) vals then Ok (Some {| code := c; raw := v |}) else Err in
  match v, vt with
  | JNull, _ => Ok None
  | JInt z, VInt => find (EInt z) (dec_Z z)
  | JBool b, VInt => find (EInt (if b then 1 else 0)%Z) (if b then s_True else s_False)
  | JStr s, VStr => find (EStr s) (py_repr s)
  | _, _ => Err
  end.

(* ---- kinds with the payload convert_value needs ---- *)
Inductive ckind :=
| CAny | CNone | CBool | CInt | CFloat | CStr | CDate | CDateTime | CUuid | CFile | CList | CModel
| CConst (cv : jval)
| CEnum (vt : vtype) (cls : str) (members : list (str * evalue))
| CLitEnum (vt : vtype) (vals : list evalue)
| CUnion (members : list ckind).

Definition is_err (r : result) : bool := match r with Err => true | _ => false end.

Fixpoint convert_value (o : oracles) (k : ckind) (v : jval) {struct k} : result :=
  match k with
  | CAny => conv_any v | CNone => conv_none v | CBool => conv_bool v | CInt => conv_int o v | CFloat => conv_float o v
  | CStr => conv_string v | CDate => conv_date o v | CDateTime => conv_datetime o v | CUuid => conv_uuid o v
  | CFile => conv_file v
  | CList => Ok None
  | CModel => match v with JNull => Ok None | _ => Err end
  | CConst cv => conv_const cv v
  | CEnum vt cls ms => conv_enum vt cls ms v
  | CLitEnum vt vals => conv_litenum vt vals v
  | CUnion ms =>
      match v with
      | JNull => Ok None
      | _ => (fix go (ms : list ckind) (last : result) : result :=
                match ms with
                | [] => last
                | m :: ms' => let r := convert_value o m v in
                              if is_err r then go ms' r else r
                end) ms Err
      end
  end.
