(* ValuesThm2.v — C13: the emitted default expression denotes the declared typed value (all scalar kinds), ill-typed defaults
   are rejected; the guard default_class names one known defect class per non-zero code. *)
From Coq Require Import NArith ZArith List Bool Lia ZifyBool.
Import ListNotations.
Require Import OPC.gen.GenTables OPC.Uni OPC.Names OPC.NamesThm OPC.PyLit OPC.PyLitThm OPC.Values OPC.PyEval OPC.ValuesThm.
Open Scope N_scope.

#[local] Opaque printable upper lower snake_case c_isalpha.

(* ================= float tokens ================= *)

Definition dot_e (c : N) : bool := (c =? 46) || (c =? 101) || (c =? 69).
Definition digit_or_minus (c : N) : bool := is_digit c || (c =? 45).

Lemma parse_dec_digits : forall s a n, parse_dec s a = Some n -> forallb is_digit s = true.
Proof.
  induction s as [|c s IH]; intros a n H; [reflexivity|].
  rewrite parse_dec_cons in H. cbn [forallb]. destruct (is_digit c); [|discriminate]. cbn [andb]. apply (IH _ _ H).
Qed.

Lemma parse_nat_lit_digits s n : parse_nat_lit s = Some n -> forallb is_digit s = true.
Proof.
  destruct s as [|c r]; [discriminate|]. destruct (N.eq_dec c 48) as [->|NE].
  - destruct r as [|c2 r2]; [reflexivity | discriminate].
  - rewrite (parse_nat_lit_ne48 c r NE). apply parse_dec_digits.
Qed.

Lemma digits_dm s : forallb is_digit s = true -> forallb digit_or_minus s = true.
Proof.
  induction s as [|c s IH]; [reflexivity|]. cbn [forallb]. intros H. apply andb_prop in H as [H1 H2].
  unfold digit_or_minus at 1. rewrite H1, (IH H2). reflexivity.
Qed.

Lemma parse_int_chars t z : parse_int t = Some z -> forallb digit_or_minus t = true.
Proof.
  destruct t as [|c r]; [discriminate|]. destruct (N.eq_dec c 45) as [->|NE].
  - rewrite parse_int_neg. destruct (parse_nat_lit r) as [n|] eqn:E; [|discriminate]. intros _.
    cbn [forallb]. change (digit_or_minus 45) with true. cbn [andb]. apply digits_dm. apply (parse_nat_lit_digits _ _ E).
  - rewrite (parse_int_ne45 c r NE). destruct (parse_nat_lit (c :: r)) as [n|] eqn:E; [|discriminate]. intros _.
    apply digits_dm. apply (parse_nat_lit_digits _ _ E).
Qed.

Lemma dm_no_dot_e s : forallb digit_or_minus s = true -> existsb dot_e s = false.
Proof.
  induction s as [|c s IH]; [reflexivity|]. cbn [forallb existsb]. intros H. apply andb_prop in H as [H1 H2].
  rewrite (IH H2), orb_false_r. unfold digit_or_minus, is_digit in H1. unfold dot_e.
  destruct (N.eqb_spec c 46); [subst; discriminate H1|]. destruct (N.eqb_spec c 101); [subst; discriminate H1|].
  destruct (N.eqb_spec c 69); [subst; discriminate H1|]. reflexivity.
Qed.

Lemma float_tok_not_int t : is_float_tok t = true -> parse_int t = None.
Proof.
  intros H. destruct (parse_int t) as [z|] eqn:E; [|reflexivity].
  apply parse_int_chars in E. apply dm_no_dot_e in E.
  unfold is_float_tok in H. apply andb_prop in H as [_ H]. unfold dot_e in E. rewrite E in H. discriminate.
Qed.

Lemma float_tok_not_kw t : is_float_tok t = true ->
  str_eqb t s_True = false /\ str_eqb t s_False = false /\ str_eqb t s_None = false.
Proof.
  intros H.
  assert (X : forall k, is_float_tok k = false -> str_eqb t k = false).
  { intros k Hk. destruct (str_eqb t k) eqn:E; [|reflexivity]. apply str_eqb_eq in E. subst t. congruence. }
  repeat split; apply X; reflexivity.
Qed.

(* a float literal token evaluates to that float *)
Theorem float_tok_evals : forall t, is_float_tok t = true -> eval_code t = Some (PVFloat t).
Proof.
  intros t H. destruct (float_tok_not_kw t H) as (E1 & E2 & E3).
  unfold eval_code. rewrite E1, E2, E3, (float_tok_not_int t H), H. reflexivity.
Qed.

Definition float_meaning (o : oracles) (v : jval) : option fl :=
  match v with
  | JFloat f => Some f
  | JInt z => float_of_int o z
  | JStr s => parse_float o s
  | _ => None
  end.

Theorem conv_float_sound : forall o v x, conv_float o v = Ok (Some x) ->
  exists f, float_meaning o v = Some f /\ code x = f_tok f /\ raw x = v /\
            (is_float_tok (f_tok f) = true -> eval_code (code x) = Some (PVFloat (f_tok f))).
Proof.
  intros o v x H. destruct v as [|b|z|f|s|s]; cbn [conv_float float_meaning] in *; try discriminate.
  - destruct (float_of_int o z) as [f|]; [|discriminate]. injection H as <-. exists f. cbn [code raw].
    repeat split. apply float_tok_evals.
  - injection H as <-. exists f. cbn [code raw]. repeat split. apply float_tok_evals.
  - destruct (parse_float o s) as [f|]; [|discriminate]. injection H as <-. exists f. cbn [code raw].
    repeat split. apply float_tok_evals.
Qed.

Theorem conv_float_complete : forall o v, v <> JNull -> float_meaning o v = None ->
  conv_float o v = Err \/ conv_float o v = Crash.
Proof.
  intros o v Hv H. destruct v as [|b|z|f|s|s]; cbn [conv_float float_meaning] in *; try congruence; auto.
  - rewrite H. right; reflexivity.
  - rewrite H. left; reflexivity.
Qed.

(* ================= date, date-time, uuid ================= *)

Lemma repr_roundtrip_rest : forall s tail, repr_printable s = true -> lex_string (py_repr s ++ tail) = Some (s, tail).
Proof.
  intros s tail H. unfold py_repr.
  assert (Hq : repr_quote s = DQ \/ repr_quote s = SQ).
  { unfold repr_quote. destruct (existsb (N.eqb SQ) s && negb (existsb (N.eqb DQ) s)); auto. }
  set (q := repr_quote s) in *. clearbody q.
  cbn [app lex_string].
  assert (Eq : (q =? DQ) || (q =? SQ) = true) by (destruct Hq; subst q; reflexivity).
  rewrite Eq. rewrite <- app_assoc. cbn [app]. apply repr_body; assumption.
Qed.

Lemma eval_isoparse rest :
  eval_code (s_isoparse_open ++ rest) =
  match lex_string rest with
  | Some (v, [41]) => Some (PVDateTime v)
  | Some (v, r) => if str_eqb r s_date_close then Some (PVDate v) else None
  | None => None
  end.
Proof. reflexivity. Qed.

Lemma eval_uuid rest :
  eval_code ([85;85;73;68;40] ++ rest) =
  match lex_string rest with Some (v, [41]) => Some (PVUuid v) | _ => None end.
Proof. reflexivity. Qed.

Theorem conv_date_sound : forall o s x, conv_date o (JStr s) = Ok (Some x) ->
  isoparse_ok o s = true /\ raw x = JStr s /\ (repr_printable s = true -> eval_code (code x) = Some (PVDate s)).
Proof.
  intros o s x H. cbn [conv_date] in H. destruct (isoparse_ok o s); [|discriminate]. injection H as <-.
  cbn [code raw]. repeat split. intros Hp.
  change (eval_code (s_isoparse_open ++ (py_repr s ++ s_date_close)) = Some (PVDate s)).
  rewrite eval_isoparse, (repr_roundtrip_rest s s_date_close Hp). reflexivity.
Qed.

Theorem conv_datetime_sound : forall o s x, conv_datetime o (JStr s) = Ok (Some x) ->
  isoparse_ok o s = true /\ raw x = JStr s /\ (repr_printable s = true -> eval_code (code x) = Some (PVDateTime s)).
Proof.
  intros o s x H. cbn [conv_datetime] in H. destruct (isoparse_ok o s); [|discriminate]. injection H as <-.
  cbn [code raw]. repeat split. intros Hp.
  change (eval_code (s_isoparse_open ++ (py_repr s ++ [41])) = Some (PVDateTime s)).
  rewrite eval_isoparse, (repr_roundtrip_rest s [41] Hp). reflexivity.
Qed.

(* the UUID text is emitted through repr, like dates (the raw interpolation between single quotes, finding uuid_default_raw, was
   fixed upstream in fc6e947) *)
Theorem conv_uuid_sound : forall o s x, conv_uuid o (JStr s) = Ok (Some x) ->
  uuid_ok o s = true /\ raw x = JStr s /\ (repr_printable s = true -> eval_code (code x) = Some (PVUuid s)).
Proof.
  intros o s x H. cbn [conv_uuid] in H. destruct (uuid_ok o s); [|discriminate]. injection H as <-.
  cbn [code raw]. repeat split. intros Hp.
  change (eval_code ([85;85;73;68;40] ++ (py_repr s ++ [41])) = Some (PVUuid s)).
  rewrite eval_uuid, (repr_roundtrip_rest s [41] Hp). reflexivity.
Qed.

(* a quoted literal evaluates to the string it lexes to *)
Lemma eval_code_quoted c v : (exists t, c = DQ :: t \/ c = SQ :: t) -> lex_string c = Some (v, []) -> eval_code c = Some (PVStr v).
Proof.
  intros (t & [->| ->]) L; unfold eval_code; rewrite L; reflexivity.
Qed.

(* ================= the specification: what a well-typed JSON default denotes ================= *)

Definition typed_value (o : oracles) (k : ckind) (v : jval) : option pyval :=
  match k, v with
  | CInt, JInt z => Some (PVInt z)
  | CInt, JFloat f => if f_finite f then match f_int f with Some z => Some (PVInt z) | None => None end else None
  | CBool, JBool b => Some (PVBool b)
  | CFloat, JFloat f => Some (PVFloat (f_tok f))
  | CFloat, JInt z => match float_of_int o z with Some f => Some (PVFloat (f_tok f)) | None => None end
  | CStr, JStr s => Some (PVStr s)
  | CDate, JStr s => if isoparse_ok o s then Some (PVDate s) else None
  | CDateTime, JStr s => if isoparse_ok o s then Some (PVDateTime s) else None
  | CUuid, JStr s => if uuid_ok o s then Some (PVUuid s) else None
  | _, _ => None
  end.

Definition has_dq (s : str) : bool := existsb (N.eqb DQ) s.

(* 0 = inside the proved domain; every other code is one named class (see known_findings.json):
   1 float_token, 2 string_lenient, 3 int_lenient, 4 bool_lenient, 5 default_dq, 6 float_lenient, 7 default_nonfinite_crash,
   8 (unused since the upstream fix of uuid_default_raw), 9 not repr-printable (restriction of the MODEL's lexer, not a defect), 10 none_lenient,
   11 kind not covered by this theorem (enum, const, union, any, list: see their own theorems) *)
Definition default_class (o : oracles) (k : ckind) (v : jval) : N :=
  match k with
  | CInt =>
      match v with
      | JStr s => match parse_float o s with
                  | None => 0
                  | Some f => if f_finite f then match f_int f with Some _ => 3 | None => 0 end else 7
                  end
      | JFloat f => if f_finite f then 0 else 7
      | _ => 0
      end
  | CBool =>
      match v with
      | JStr s => if str_eqb (lower s) s_true || str_eqb (lower s) s_false then 4 else 0
      | _ => 0
      end
  | CFloat =>
      match v with
      | JStr s => match parse_float o s with None => 0 | Some f => if is_float_tok (f_tok f) then 6 else 1 end
      | JFloat f => if is_float_tok (f_tok f) then 0 else 1
      | JInt z => match float_of_int o z with None => 7 | Some f => if is_float_tok (f_tok f) then 0 else 1 end
      | _ => 0
      end
  | CStr =>
      match v with
      | JNull => 0
      | JStr s => if has_dq s then 5 else if repr_printable s then 0 else 9
      | _ => 2
      end
  | CDate | CDateTime =>
      match v with
      | JStr s => if isoparse_ok o s then (if repr_printable s then 0 else 9) else 0
      | _ => 0
      end
  | CUuid =>
      match v with
      | JStr s => if uuid_ok o s then (if repr_printable s then 0 else 9) else 0
      | _ => 0
      end
  | CNone => match v with JStr s => if str_eqb s s_None then 10 else 0 | _ => 0 end
  | CFile | CModel => 0
  | _ => 11
  end.

Theorem default_null : forall o k, convert_value o k JNull = Ok None.
Proof. intros o k. destruct k; reflexivity. Qed.

(* T default_sound: inside the guard, an accepted default's emitted expression evaluates to the declared typed value *)
Theorem default_sound : forall o k v x,
  default_class o k v = 0 -> convert_value o k v = Ok (Some x) ->
  exists pv, typed_value o k v = Some pv /\ eval_code (code x) = Some pv.
Proof.
  intros o k v x Hc H. destruct k; cbn [convert_value] in H; try discriminate Hc.
  - (* CNone *)
    destruct v as [|b|z|f|s|s]; cbn [conv_none] in H; try discriminate.
    cbn [default_class] in Hc. destruct (str_eqb s s_None); discriminate.
  - (* CBool *)
    destruct v as [|b|z|f|s|s]; cbn [conv_bool] in H; try discriminate.
    + injection H as <-. exists (PVBool b). split; [reflexivity|]. cbn [code]. destruct b; reflexivity.
    + cbn [default_class] in Hc.
      destruct (str_eqb (lower s) s_true); [discriminate Hc|].
      destruct (str_eqb (lower s) s_false); [discriminate Hc | discriminate H].
  - (* CInt *)
    destruct (conv_int_sound o v x H) as (z & Hm & He & _).
    destruct v as [|b|z0|f|s|s]; cbn [int_meaning] in Hm; try discriminate.
    + injection Hm as ->. exists (PVInt z). split; [reflexivity | exact He].
    + exists (PVInt z). split; [|exact He]. cbn [typed_value]. destruct (f_finite f); [|discriminate]. rewrite Hm. reflexivity.
    + cbn [default_class] in Hc. destruct (parse_float o s) as [f|]; [|discriminate].
      destruct (f_finite f); [|discriminate]. rewrite Hm in Hc. discriminate.
  - (* CFloat *)
    destruct (conv_float_sound o v x H) as (f & Hm & Hcode & _ & He).
    destruct v as [|b|z0|f0|s|s]; cbn [float_meaning] in Hm; try discriminate.
    + cbn [default_class] in Hc. rewrite Hm in Hc. destruct (is_float_tok (f_tok f)) eqn:Et; [|discriminate].
      exists (PVFloat (f_tok f)). split; [cbn [typed_value]; rewrite Hm; reflexivity | apply He; reflexivity].
    + injection Hm as ->. cbn [default_class] in Hc. destruct (is_float_tok (f_tok f)) eqn:Et; [|discriminate].
      exists (PVFloat (f_tok f)). split; [reflexivity | apply He; reflexivity].
    + cbn [default_class] in Hc. rewrite Hm in Hc. destruct (is_float_tok (f_tok f)); discriminate.
  - (* CStr *)
    destruct v as [|b|z|f|s|s]; cbn [default_class] in Hc; try discriminate.
    unfold has_dq in Hc. destruct (existsb (N.eqb DQ) s) eqn:Eq; [discriminate|].
    destruct (repr_printable s) eqn:Ep; [|discriminate].
    exists (PVStr s). split; [reflexivity|].
    pose proof (conv_string_sound s x Ep Eq H) as L.
    cbn [conv_string py_str] in H. injection H as <-. cbn [code] in *.
    apply eval_code_quoted; [|exact L].
    unfold py_repr, repr_quote. destruct (existsb (N.eqb SQ) (escape_dq s) && negb (existsb (N.eqb DQ) (escape_dq s))); eauto.
  - (* CDate *)
    destruct v as [|b|z|f|s|s]; cbn [conv_date] in H; try discriminate.
    destruct (conv_date_sound o s x H) as (Hi & _ & He). cbn [default_class] in Hc. rewrite Hi in Hc.
    destruct (repr_printable s); [|discriminate]. exists (PVDate s). split; [cbn [typed_value]; rewrite Hi; reflexivity | apply He; reflexivity].
  - (* CDateTime *)
    destruct v as [|b|z|f|s|s]; cbn [conv_datetime] in H; try discriminate.
    destruct (conv_datetime_sound o s x H) as (Hi & _ & He). cbn [default_class] in Hc. rewrite Hi in Hc.
    destruct (repr_printable s); [|discriminate]. exists (PVDateTime s). split; [cbn [typed_value]; rewrite Hi; reflexivity | apply He; reflexivity].
  - (* CUuid *)
    destruct v as [|b|z|f|s|s]; cbn [conv_uuid] in H; try discriminate.
    destruct (conv_uuid_sound o s x H) as (Hi & _ & He). cbn [default_class] in Hc. rewrite Hi in Hc.
    destruct (repr_printable s); [|discriminate]. exists (PVUuid s). split; [cbn [typed_value]; rewrite Hi; reflexivity | apply He; reflexivity].
  - (* CFile *) destruct v; discriminate H.
  - (* CModel *) destruct v; discriminate H.
Qed.

(* T default_complete: inside the guard, a default that denotes no value of the kind is rejected with a PropertyError *)
Theorem default_complete : forall o k v,
  default_class o k v = 0 -> v <> JNull -> typed_value o k v = None -> convert_value o k v = Err.
Proof.
  intros o k v Hc Hv Ht. destruct k; cbn [convert_value]; try discriminate Hc.
  - (* CNone *)
    destruct v as [|b|z|f|s|s]; cbn [conv_none]; try reflexivity; [congruence|].
    cbn [default_class] in Hc. destruct (str_eqb s s_None); [discriminate | reflexivity].
  - (* CBool *)
    destruct v as [|b|z|f|s|s]; cbn [conv_bool]; try reflexivity; [congruence | discriminate Ht |].
    cbn [default_class] in Hc.
    destruct (str_eqb (lower s) s_true); [discriminate Hc|].
    destruct (str_eqb (lower s) s_false); [discriminate Hc | reflexivity].
  - (* CInt *)
    destruct v as [|b|z|f|s|s]; cbn [conv_int]; try reflexivity; [congruence | discriminate Ht | |].
    + cbn [default_class typed_value] in Hc, Ht. unfold int_of_float.
      destruct (f_finite f); [|discriminate Hc]. cbn [negb]. destruct (f_int f); [discriminate Ht | reflexivity].
    + cbn [default_class] in Hc. destruct (parse_float o s) as [f|]; [|reflexivity]. unfold int_of_float.
      destruct (f_finite f); [|discriminate Hc]. cbn [negb]. destruct (f_int f); [discriminate Hc | reflexivity].
  - (* CFloat *)
    destruct v as [|b|z|f|s|s]; cbn [conv_float]; try reflexivity; [congruence | | discriminate Ht |].
    + cbn [default_class typed_value] in Hc, Ht. destruct (float_of_int o z); [discriminate Ht | discriminate Hc].
    + cbn [default_class] in Hc. destruct (parse_float o s) as [f|]; [|reflexivity].
      destruct (is_float_tok (f_tok f)); discriminate Hc.
  - (* CStr *)
    destruct v as [|b|z|f|s|s]; cbn [default_class] in Hc; try discriminate Hc; [congruence | discriminate Ht].
  - (* CDate *)
    destruct v as [|b|z|f|s|s]; cbn [conv_date]; try reflexivity; [congruence|].
    cbn [typed_value] in Ht. destruct (isoparse_ok o s); [discriminate Ht | reflexivity].
  - (* CDateTime *)
    destruct v as [|b|z|f|s|s]; cbn [conv_datetime]; try reflexivity; [congruence|].
    cbn [typed_value] in Ht. destruct (isoparse_ok o s); [discriminate Ht | reflexivity].
  - (* CUuid *)
    destruct v as [|b|z|f|s|s]; cbn [conv_uuid]; try reflexivity; [congruence|].
    cbn [typed_value] in Ht. destruct (uuid_ok o s); [discriminate Ht | reflexivity].
  - (* CFile *) destruct v; try reflexivity. congruence.
  - (* CModel *) destruct v; try reflexivity. congruence.
Qed.

(* ---- one witness per class outside the guard (the complement of the guard is exactly these classes) ---- *)
Definition wit_oracles : oracles :=
  {| parse_float := fun s => if str_eqb s [51;46;48] then Some {| f_tok := [51;46;48]; f_int := Some 3%Z; f_finite := true |}
                             else if str_eqb s [105;110;102] then Some {| f_tok := [105;110;102]; f_int := None; f_finite := false |} else None;
     float_of_int := fun _ => None; isoparse_ok := fun _ => false; uuid_ok := fun _ => true |}.

(* string_lenient: the integer 5 offered to a string property is accepted and becomes the string '5' *)
Theorem string_lenient_refuted : exists x, convert_value wit_oracles CStr (JInt 5) = Ok (Some x) /\ typed_value wit_oracles CStr (JInt 5) = None.
Proof. eexists. split; reflexivity. Qed.
(* int_lenient: the string 3.0 offered to an integer property is accepted *)
Theorem int_lenient_refuted : exists x, convert_value wit_oracles CInt (JStr [51;46;48]) = Ok (Some x) /\ typed_value wit_oracles CInt (JStr [51;46;48]) = None.
Proof. eexists. split; reflexivity. Qed.
(* bool_lenient: the string TRUE offered to a boolean property is accepted *)
Theorem bool_lenient_refuted : exists x, convert_value wit_oracles CBool (JStr [84;82;85;69]) = Ok (Some x) /\ typed_value wit_oracles CBool (JStr [84;82;85;69]) = None.
Proof. eexists. split; vm_compute; reflexivity. Qed.
(* float_token: inf becomes the bare name inf *)
Theorem float_token_refuted : exists x, convert_value wit_oracles CFloat (JStr [105;110;102]) = Ok (Some x) /\ eval_code (code x) = None.
Proof. eexists. split; [reflexivity | vm_compute; reflexivity]. Qed.
(* default_nonfinite_crash: the same text offered to an integer property raises OverflowError *)
Theorem int_nonfinite_crash_refuted : convert_value wit_oracles CInt (JStr [105;110;102]) = Crash.
Proof. reflexivity. Qed.
(* default_dq: a string default containing a double quote evaluates to a different string *)
Theorem default_dq_refuted : exists x, convert_value wit_oracles CStr (JStr [97;34;98]) = Ok (Some x) /\ eval_code (code x) <> Some (PVStr [97;34;98]).
Proof. eexists. split; [reflexivity | vm_compute; discriminate]. Qed.
(* union_first_match: the default 3 of anyOf[string, integer] is converted by the string member *)
Theorem union_first_match_refuted : exists x,
  convert_value wit_oracles (CUnion [CStr; CInt]) (JInt 3) = Ok (Some x) /\ eval_code (code x) = Some (PVStr [51]).
Proof. eexists. split; [reflexivity | vm_compute; reflexivity]. Qed.
(* enum_default_dq: a default equal to a listed value containing a double quote is rejected (the table holds the escaped spelling) *)
Theorem enum_default_dq_refuted : exists m,
  values_from_list [EStr [97;34;98]; EStr [99]] = Some m /\ conv_enum VStr [69] m (JStr [97;34;98]) = Err.
Proof. eexists. split; vm_compute; reflexivity. Qed.

Example default_guard_nontrivial :
  default_class wit_oracles CStr (JStr [97;39;92;32;233]) = 0 /\ default_class wit_oracles CInt (JFloat {| f_tok := [51;46;48]; f_int := Some 3%Z; f_finite := true |}) = 0 /\
  default_class wit_oracles CUuid (JStr [49;50]) = 0.
Proof. repeat split; vm_compute; reflexivity. Qed.

Print Assumptions float_tok_evals.
Print Assumptions conv_float_sound.
Print Assumptions conv_float_complete.
Print Assumptions conv_date_sound.
Print Assumptions conv_datetime_sound.
Print Assumptions conv_uuid_sound.
Print Assumptions default_null.
Print Assumptions default_sound.
Print Assumptions default_complete.
