(* CodecObs.v — observation helpers for the correspondence check of Codec.v: a normal form of run-time values in which a
   Python list / dict built by a construct loop and the same list / dict passed through unchanged are identified (both are
   plain Python lists / dicts at run time), and decidable equality on them. Model-side file: definitions only. *)
From Coq Require Import NArith ZArith List Bool.
Import ListNotations.
Require Import OPC.gen.GenKinds OPC.Uni OPC.Names OPC.Codec.
Open Scope N_scope.

Definition all_pj (l : list pv) : option (list json) :=
  map_opt (fun v => match v with PJ j => Some j | _ => None end) l.

Fixpoint norm_pv (v : pv) : pv :=
  match v with
  | PList l => let l' := map norm_pv l in
               match all_pj l' with Some js => PJ (JArr js) | None => PList l' end
  | PObj c fs ad =>
      PObj c ((fix go (fs : list (str * pv)) := match fs with [] => [] | (k, x) :: r => (k, norm_pv x) :: go r end) fs)
             ((fix go (fs : list (str * pv)) := match fs with [] => [] | (k, x) :: r => (k, norm_pv x) :: go r end) ad)
  | _ => v
  end.

Fixpoint pv_eqb (a b : pv) {struct a} : bool :=
  match a, b with
  | PUnset, PUnset => true
  | PJ x, PJ y => json_eqb x y
  | PDate x, PDate y | PDateTime x, PDateTime y | PUuid x, PUuid y => str_eqb x y
  | PEnum c x, PEnum c' y => (c =? c') && json_eqb x y
  | PList x, PList y =>
      (fix go (x y : list pv) : bool := match x, y with [], [] => true | a' :: x', b' :: y' => pv_eqb a' b' && go x' y' | _, _ => false end) x y
  | PObj c f1 a1, PObj c' f2 a2 =>
      (c =? c') &&
      (fix go (x y : list (str * pv)) : bool :=
         match x, y with [], [] => true | (k1, a') :: x', (k2, b') :: y' => str_eqb k1 k2 && pv_eqb a' b' && go x' y' | _, _ => false end) f1 f2 &&
      (fix go (x y : list (str * pv)) : bool :=
         match x, y with [], [] => true | (k1, a') :: x', (k2, b') :: y' => str_eqb k1 k2 && pv_eqb a' b' && go x' y' | _, _ => false end) a1 a2
  | _, _ => false
  end.

Definition opt_pv_eqb (a b : option pv) : bool :=
  match a, b with Some x, Some y => pv_eqb (norm_pv x) y | None, None => true | _, _ => false end.
Definition opt_json_eqb (a b : option json) : bool :=
  match a, b with Some x, Some y => json_eqb x y | None, None => true | _, _ => false end.

(* association-list backed oracle *)
Fixpoint assoc_str (k : str) (l : list (str * str)) : option str :=
  match l with [] => None | (k', v) :: r => if str_eqb k k' then Some v else assoc_str k r end.
Definition mk_oracles (d dt u : list (str * str)) : oracles :=
  {| parse_date := fun s => assoc_str s d; parse_datetime := fun s => assoc_str s dt; parse_uuid := fun s => assoc_str s u |}.

(* one correspondence case: decode j, compare the object; encode the model's object, compare the output *)
Definition codec_case (o : oracles) (T : ctable) (k : pk) (j : json) (obs_obj : option pv) (obs_out : option json) : bool :=
  let v := dec o T 40 k j in
  opt_pv_eqb v obs_obj &&
  match v with
  | Some x => opt_json_eqb (enc T 40 k x) obs_out
  | None => true
  end.

(* restriction of a class table to the classes reachable from the case under test (ids computed by the harness):
   every other class is replaced by the empty closed class, which no reachable kind refers to *)
Definition restrict (T : ctable) (ids : list N) : ctable :=
  (fix go (i : N) (T : ctable) : ctable :=
     match T with
     | [] => []
     | cd :: r => (if existsb (N.eqb i) ids then cd else {| c_props := []; c_addl := None |}) :: go (N.succ i) r
     end) 0 T.
(* the hypotheses of CodecThm.roundtrip, as one boolean (the run-time guard) *)
Definition rt_guard (o : oracles) (T : ctable) (ids : list N) (k : pk) (j : json) : bool :=
  table_ok (restrict T ids) && k_ok k && wf_json j && valid o (restrict T ids) 40 k j.
Definition rt_static (T : ctable) (ids : list N) (k : pk) : bool := table_ok (restrict T ids) && k_ok k.
