(* Types.v — the type annotations the generator emits for a property (get_type_string of each property class, protocol.py /
   union.py / list_property.py / const.py / enum_property.py / model_property.py), as an abstract syntax, and their meaning as
   sets of run-time values. Model file: definitions only. *)
From Coq Require Import NArith ZArith List Bool.
Import ListNotations.
Require Import OPC.gen.GenKinds OPC.Uni OPC.Names OPC.Codec.
Open Scope N_scope.

Inductive ty :=
| TyAny | TyNone | TyUnset
| TyBool | TyInt | TyFloat | TyStr | TyDate | TyDateTime | TyUuid | TyFile
| TyClass (c : N)                 (* a generated Enum or model class *)
| TyLit (vals : list json)        (* Literal[...] (const, and the alias of a literal enum) *)
| TyList (t : ty)
| TyUnion (ts : list ty).         (* Union[...] : a SET of alternatives, printed sorted *)

(* the alternatives a kind contributes (get_type_string(no_optional=True)); unions contribute their members' alternatives *)
Fixpoint alts (k : pk) : list ty :=
  match k with
  | KAny => [TyAny] | KNone => [TyNone] | KBool => [TyBool] | KInt => [TyInt] | KFloat => [TyFloat] | KStr => [TyStr]
  | KDate => [TyDate] | KDateTime => [TyDateTime] | KUuid => [TyUuid] | KFile => [TyFile]
  | KConst c => [TyLit [c]]
  | KEnum c _ _ => [TyClass c]
  | KLitEnum _ vals => [TyLit vals]
  | KList inner => [TyList (match alts inner with [t] => t | ts => TyUnion ts end)]
  | KUnion ms => flat_map alts ms
  | KModel c => [TyClass c]
  end.

(* the declared type of an attribute / parameter: Union[Unset, ...] when optional *)
Definition type_of (k : pk) (req : bool) : ty :=
  match (if req then alts k else TyUnset :: alts k) with
  | [t] => t
  | ts => TyUnion ts
  end.

(* top-level alternatives of a type *)
Definition top_alts (t : ty) : list ty := match t with TyUnion ts => ts | _ => [t] end.
Definition is_none_ty (t : ty) : bool := match t with TyNone | TyAny => true | TyLit vals => existsb (json_eqb JNull) vals | _ => false end.
(* the annotation admits the value None *)
Definition admits_none (t : ty) : bool := existsb is_none_ty (top_alts t).
Definition admits_unset (t : ty) : bool := existsb (fun a => match a with TyUnset | TyAny => true | _ => false end) (top_alts t).

(* the schema-level notion: the kind has a null member *)
Fixpoint nullable (k : pk) : bool :=
  match k with
  | KNone | KAny => true
  | KConst c => json_eqb JNull c
  | KLitEnum _ vals => existsb (json_eqb JNull) vals
  | KUnion ms => existsb nullable ms
  | _ => false
  end.

(* ---- meaning of a type as a set of run-time values (typing's rules: bool <: int <: float; datetime <: date) ---- *)
Fixpoint inhabits (v : pv) (t : ty) {struct t} : bool :=
  match t with
  | TyAny => true
  | TyNone => match v with PJ JNull => true | _ => false end
  | TyUnset => match v with PUnset => true | _ => false end
  | TyBool => match v with PJ (JBool _) => true | _ => false end
  | TyInt => match v with PJ (JInt _) | PJ (JBool _) => true | _ => false end
  | TyFloat => match v with PJ (JInt _) | PJ (JBool _) | PJ (JFlt _) => true | _ => false end
  | TyStr => match v with PJ (JStr _) => true | _ => false end
  | TyDate => match v with PDate _ | PDateTime _ => true | _ => false end
  | TyDateTime => match v with PDateTime _ => true | _ => false end
  | TyUuid => match v with PUuid _ => true | _ => false end
  | TyFile => false
  | TyClass c => match v with PEnum c' _ | PObj c' _ _ => c =? c' | _ => false end
  | TyLit vals => match v with PJ j => existsb (py_scalar_eqb j) vals | _ => false end
  | TyList t' => match v with
                 | PList l => forallb (fun x => inhabits x t') l
                 | PJ (JArr l) => forallb (fun x => inhabits (PJ x) t') l
                 | _ => false
                 end
  | TyUnion ts => existsb (fun t' => inhabits v t') ts
  end.

(* the declaration `name: type [= default]` of to_string: no default exactly for required properties without a declared default *)
Definition decl_has_default (req : bool) (has_declared_default : bool) : bool := negb req || has_declared_default.
(* attrs requires mandatory fields first: the class body is rendered by two loops *)
Definition attrs_field_order {A} (mandatory : A -> bool) (props : list A) : list A :=
  filter mandatory props ++ filter (fun p => negb (mandatory p)) props.
