(* Typed.v — well-typed run-time values: the values a caller may legitimately pass where a property of kind k is expected
   (what the generated annotation admits, with objects well-typed recursively). Model file: definitions only. *)
From Coq Require Import NArith ZArith List Bool.
Import ListNotations.
Require Import OPC.gen.GenKinds OPC.Uni OPC.Names OPC.Codec OPC.Types.
Open Scope N_scope.

Section WT.
  Variable T : ctable.
  Section Step.
    Variable w : pk -> pv -> bool.       (* one level down *)
    Definition wt_field (k : pk) (req : bool) (v : pv) : bool :=
      match v with PUnset => negb req | _ => w k v end.
    Fixpoint wt_props (ps : list (str * (bool * pk))) (fs : list (str * pv)) : bool :=
      match ps with
      | [] => true
      | (name, (req, k)) :: ps' =>
          match (fix look (fs : list (str * pv)) : option pv :=
                   match fs with [] => None | (n, v) :: r => if str_eqb n name then Some v else look r end) fs with
          | Some v => wt_field k req v && wt_props ps' fs
          | None => false
          end
      end.
    Definition wt_step (k : pk) (v : pv) : bool :=
      match k with
      | KAny => match v with PJ _ => true | _ => false end
      | KNone => match v with PJ JNull => true | _ => false end
      | KBool => match v with PJ (JBool _) => true | _ => false end
      | KInt => match v with PJ (JInt _) | PJ (JBool _) => true | _ => false end
      | KFloat => match v with PJ (JInt _) | PJ (JBool _) | PJ (JFlt _) => true | _ => false end
      | KStr => match v with PJ (JStr _) => true | _ => false end
      | KDate => match v with PDate _ | PDateTime _ => true | _ => false end
      | KDateTime => match v with PDateTime _ => true | _ => false end
      | KUuid => match v with PUuid _ => true | _ => false end
      | KFile => false
      | KConst c => match v with PJ j => py_scalar_eqb j c | _ => false end
      | KEnum c _ vals => match v with PEnum c' x => (c =? c') && existsb (json_eqb x) vals | _ => false end
      | KLitEnum _ vals => match v with PJ j => existsb (py_scalar_eqb j) vals | _ => false end
      | KList inner => match v with
                       | PList l => forallb (w inner) l
                       | PJ (JArr l) => forallb (fun x => w inner (PJ x)) l
                       | _ => false
                       end
      | KUnion ms => existsb (fun m => w m v) ms
      | KModel c =>
          match v, get_class T c with
          | PObj c' fs ad, Some cd =>
              (c =? c') && wt_props (c_props cd) fs &&
              match c_addl cd with
              | Some ak => forallb (fun kv => w ak (snd kv)) ad
              | None => match ad with [] => true | _ => false end
              end
          | _, _ => false
          end
      end.
  End Step.
  Fixpoint wt (fuel : nat) (k : pk) (v : pv) : bool :=
    match fuel with O => false | S f => wt_step (wt f) k v end.
End WT.
