(* Names.v — executable model of openapi_python_client/utils.py name derivation:
   sanitize, split_words, snake_case, pascal_case, kebab_case, fix_reserved_words, PythonIdentifier, ClassName,
   remove_string_escapes.  Strings are lists of code points (what a CPython str is). Model file: no proofs of properties. *)
From Coq Require Import NArith List Bool Lia.
Import ListNotations.
Require Import OPC.gen.GenTables OPC.Uni.
Open Scope N_scope.

(* DELIMITERS = r"\. _-"  — the set is regenerated into GenTables.delimiters *)
Definition is_delim (c : N) : bool := memN c delimiters.

(* sanitize: re.sub(rf"[^\w{DELIMITERS}]+", "", value) *)
Definition sanitize (s : str) : str := filter (fun c => is_word c || is_delim c) s.

Definition az c := (97 <=? c) && (c <=? 122).
Definition AZ c := (65 <=? c) && (c <=? 90).

Fixpoint take_az (s : str) : str * str :=
  match s with
  | c :: s' => if az c then let (a, r) := take_az s' in (c :: a, r) else ([], s)
  | [] => ([], [])
  end.

(* One delimiter-free run split following " ".join(re.split("([A-Z]?[a-z]+)", run)) then findall of non-delimiters:
   maximal matches of [A-Z]?[a-z]+ (leftmost, greedy) become words; the gaps between them become words when non-empty. *)
Fixpoint scan (fuel : nat) (s : str) (gap : str) (acc : list str) : list str :=
  let flush := match gap with [] => acc | _ => rev gap :: acc end in
  match fuel with
  | O => rev flush
  | S f =>
    match s with
    | [] => rev flush
    | c :: s' =>
      if az c then
        let (a, r) := take_az s' in scan f r [] ((c :: a) :: flush)
      else if AZ c then
        match s' with
        | d :: _ => if az d then let (a, r) := take_az s' in scan f r [] ((c :: a) :: flush)
                    else scan f s' (c :: gap) acc
        | [] => scan f s' (c :: gap) acc
        end
      else scan f s' (c :: gap) acc
    end
  end.

Definition case_split (s : str) : list str := scan (S (length s)) s [] [].

(* split on delimiters into non-empty runs: re.findall(rf"[^{DELIMITERS}]+", value) *)
Fixpoint runs (s : str) (cur : str) : list str :=
  match s with
  | [] => match cur with [] => [] | _ => [rev cur] end
  | c :: s' => if is_delim c then (match cur with [] => runs s' [] | _ => rev cur :: runs s' [] end)
               else runs s' (c :: cur)
  end.

Definition split_words (v : str) : list str :=
  if existsb c_isupper v then flat_map case_split (runs v []) else runs v [].

Fixpoint join (sep : str) (ws : list str) : str :=
  match ws with
  | [] => []
  | [w] => w
  | w :: ws' => w ++ sep ++ join sep ws'
  end.

Definition snake_case (v : str) : str := lower (join [95] (split_words (sanitize v))).
Definition kebab_case (v : str) : str := lower (join [45] (split_words (sanitize v))).

(* str.capitalize(): first character title-cased (full mapping), the rest lower-cased *)
Definition capitalize (w : str) : str :=
  match w with [] => [] | c :: r => title_c c ++ lower r end.

Definition pascal_case (v : str) : str :=
  flat_map (fun w => if s_isupper w then w else capitalize w) (split_words (sanitize v)).

Definition fix_reserved (s : str) : str :=
  if mem_str s reserved_words || mem_str s keywords then s ++ [95] else s.

Definition starts_us (s : str) := match s with 95 :: _ => true | _ => false end.

Definition python_identifier (value prefix : str) (skip_snake : bool) : str :=
  let v1 := sanitize value in
  let v2 := if skip_snake then v1 else snake_case v1 in
  let v3 := fix_reserved v2 in
  if negb (is_identifier v3) || starts_us value then prefix ++ v3 else v3.

Definition class_name (value prefix : str) : str :=
  let n1 := fix_reserved (pascal_case (sanitize value)) in
  if negb (is_identifier n1) then fix_reserved (pascal_case (sanitize (prefix ++ n1))) else n1.

(* remove_string_escapes: value.replace('"', r'\"') *)
Definition escape_dq (s : str) : str := flat_map (fun c => if c =? 34 then [92; 34] else [c]) s.

(* ---- guards (known-finding classes) ---- *)
(* g_xid: no character of the name is a regex word character (\w) that is not XID_Continue *)
Definition g_xid (value : str) : bool := forallb (fun c => implb (is_word c) (xid_continue c)) value.
Definition good_prefix (p : str) : bool :=
  is_identifier p && negb (existsb (is_prefix p) keywords).
