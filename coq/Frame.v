(* Frame.v - property C16: each configuration option has exactly its documented effect.  Model file (definitions only).
   1. the frame: which code sites may depend on each option (hand-written from README.md, section Configuration, and the help
      texts of the generate command's flags) and the boolean check of the regenerated read-site table gen/GenFrame.v against it;
   2. executable models of the five option mechanisms:
        Class.from_string with class_overrides           (parser/properties/schemas.py:63-79)
        the prefix argument of PythonIdentifier/ClassName (utils.py, via Names.v)
        tag selection of EndpointCollection.from_data     (parser/openapi.py:60-105)
        utils.get_content_type with content_type_overrides, body type / response source selection
                                                          (utils.py:109-122, parser/bodies.py:63-91, parser/responses.py:41-58)
        the file set per metadata flavour                 (Fs.v gen_files)
        the class-name string of ModelProperty.build      (parser/properties/model_property.py:68-75) *)
From Coq Require Import NArith List Bool String Ascii.
Import ListNotations.
Require Import OPC.gen.GenTables OPC.Uni OPC.Names OPC.Fs OPC.gen.GenFrame.
Open Scope N_scope.

Definition s2l (s : string) : str := map N_of_ascii (list_ascii_of_string s).
Arguments s2l _%string.

Fixpoint lookup_str {A : Type} (k : str) (l : list (str * A)) : option A :=
  match l with
  | [] => None
  | (k', v) :: l' => if str_eqb k' k then Some v else lookup_str k l'
  end.

(* ------------------------------------------------------------------------------------------------ 1. the frame *)
(* a documented site pattern; the string "*" matches anything *)
Record site := { s_file : str; s_site : str; s_ctx : str; s_via : str }.
Definition star : str := s2l "*".
Definition pat_match (p a : str) : bool := str_eqb p star || str_eqb p a.
Definition site_match (s : site) (r : read) : bool :=
  pat_match (s_file s) (r_file r) && pat_match (s_site s) (r_site r) && pat_match (s_ctx s) (r_ctx r) && str_eqb (s_via s) (r_via r).
Definition mk (f fn c v : string) : site := {| s_file := s2l f; s_site := s2l fn; s_ctx := s2l c; s_via := s2l v |}.

Definition init_py : string := "__init__.py".
(* where the output / package directory (derived from the naming options, the flavour and --output-path) may be used: the writer *)
Definition dir_sites : list site := [ mk init_py "*" "*" "self.project_dir"; mk init_py "*" "*" "self.package_dir" ].
Definition name_templates (via : string) : list site :=
  [ mk "templates/README.md.jinja" "<template>" "output" via; mk "templates/pyproject.toml.jinja" "<template>" "output" via;
    mk "templates/setup.py.jinja" "<template>" "output" via ].

Definition documented : list (str * list site) := [
  (* README class_overrides: "Used to change the name of generated model classes" *)
  (s2l "class_overrides", [ mk "parser/properties/schemas.py" "Class.from_string" "method:get" "" ]);
  (* README content_type_overrides: "treat a given content type like another" *)
  (s2l "content_type_overrides", [ mk "utils.py" "get_content_type" "method:get" "" ]);
  (* README use_path_prefixes_for_title_model_names: "use the title property of any object that has it set without prefixing" *)
  (s2l "use_path_prefixes_for_title_model_names", [ mk "parser/properties/model_property.py" "ModelProperty.build" "test" "" ]);
  (* README literal_enums: "use Literal values for enums" - the one switch between the two enum property classes *)
  (s2l "literal_enums", [ mk "parser/properties/__init__.py" "property_from_data" "test" "" ]);
  (* README generate_all_tags: "generate duplicate endpoint functions using every tag" *)
  (s2l "generate_all_tags", [ mk "parser/openapi.py" "EndpointCollection.from_data" "test" "" ]);
  (* README docstrings_on_attributes: where attribute descriptions of attrs classes are rendered (models; the Client classes use
     the same convention) *)
  (s2l "docstrings_on_attributes",
     [ mk "templates/model.py.jinja" "class_docstring_content" "test" ""; mk "templates/model.py.jinja" "declare_property" "test" "";
       mk "templates/model.py.jinja" "<template>" "arg:safe_docstring:omit_if_empty" "";
       mk "templates/client.py.jinja" "declare_attr" "test" ""; mk "templates/client.py.jinja" "<template>" "test" "" ]);
  (* README post_hooks: commands run after generation *)
  (s2l "post_hooks", [ mk init_py "Project._run_post_hooks" "iter" "" ]);
  (* README http_timeout / --url, --path: fetching the document *)
  (s2l "http_timeout", [ mk init_py "_get_project_for_url_or_path" "arg:_get_document:timeout" "" ]);
  (s2l "document_source", [ mk init_py "_get_project_for_url_or_path" "arg:_get_document:source" "" ]);
  (* --overwrite *)
  (s2l "overwrite", [ mk init_py "Project.build" "test" "" ]);
  (* --file-encoding: "Encoding used when writing generated" - only ever the encoding= argument of write_text *)
  (s2l "file_encoding", [ mk init_py "*" "arg:write_text:encoding" "" ]);
  (* README field_prefix: "this string will be prepended" - only ever the prefix argument of the two name constructors *)
  (s2l "field_prefix",
     [ mk "*" "*" "arg:PythonIdentifier:prefix" ""; mk "*" "*" "arg:PythonIdentifier:1" "";
       mk "*" "*" "arg:ClassName:prefix" ""; mk "*" "*" "arg:ClassName:1" "" ]);
  (* --meta: which metadata files exist, whether the package is nested, poetry/pdm sections of pyproject.toml and README *)
  (s2l "meta_type",
     [ mk init_py "Project.__init__" "test" ""; mk init_py "Project._create_package" "test" ""; mk init_py "Project._build_metadata" "test" "";
       mk init_py "Project._build_metadata" "arg:render:poetry" ""; mk init_py "Project._build_pyproject_toml" "arg:render:meta" "";
       mk "templates/README.md.jinja" "<template>" "test" "poetry"; mk "templates/pyproject.toml.jinja" "<template>" "value" "meta" ] ++ dir_sites);
  (* --output-path *)
  (s2l "output_path", [ mk init_py "Project.__init__" "test" ""; mk init_py "Project.__init__" "value" "" ] ++ dir_sites);
  (* README project_name_override and package_name_override: name of the project / package: directory names and the metadata files *)
  (s2l "project_name_override",
     [ mk init_py "Project.__init__" "value" "";
       (* the derived package name is project_name.replace("-", "_") - the only transformation the project name may go through *)
       mk init_py "Project.__init__" "method:replace" "self.project_name";
       mk init_py "Project.__init__" "value" "self.project_name"; mk init_py "Project.__init__" "arg:update:project_name" "self.project_name";
       mk init_py "Project.__init__" "value" "self.package_name"; mk init_py "Project.__init__" "arg:update:package_name" "self.package_name" ]
     ++ dir_sites ++ name_templates "project_name" ++ name_templates "package_name");
  (s2l "package_name_override",
     [ mk init_py "Project.__init__" "value" ""; mk init_py "Project.__init__" "value" "self.package_name";
       mk init_py "Project.__init__" "arg:update:package_name" "self.package_name" ] ++ dir_sites ++ name_templates "package_name");
  (* README package_version_override: "the package version of the generated client": pyproject.toml / setup.py only *)
  (s2l "package_version_override",
     [ mk init_py "Project.__init__" "value" ""; mk init_py "Project.__init__" "arg:update:package_version" "self.version";
       mk "templates/pyproject.toml.jinja" "<template>" "output" "package_version"; mk "templates/setup.py.jinja" "<template>" "output" "package_version" ])
].

Definition documented_sites (o : str) : list site := match lookup_str o documented with Some l => l | None => [] end.
Definition reads_within (doc : str -> list site) (r : read) : bool := existsb (fun s => site_match s r) (doc (r_opt r)).
Definition frame_ok : bool := forallb (reads_within documented_sites) gen_option_reads.

(* ConfigFile: every field is a documented option and vice versa; documented defaults; the ConfigFile -> Config merge is the identity *)
Definition documented_defaults : list (str * str) := [
  (s2l "class_overrides", s2l "None"); (s2l "content_type_overrides", s2l "None"); (s2l "project_name_override", s2l "None");
  (s2l "package_name_override", s2l "None"); (s2l "package_version_override", s2l "None");
  (s2l "use_path_prefixes_for_title_model_names", s2l "True"); (s2l "post_hooks", s2l "None");
  (s2l "docstrings_on_attributes", s2l "False"); (s2l "field_prefix", s2l "'field_'"); (s2l "generate_all_tags", s2l "False");
  (s2l "http_timeout", s2l "5"); (s2l "literal_enums", s2l "False") ].
Definition defaults_ok : bool :=
  forallb (fun fd => match lookup_str (fst fd) documented_defaults with Some d => str_eqb d (snd fd) | None => false end) gen_configfile_fields.
Definition options_documented_ok : bool :=
  forallb (fun fd => mem_str (fst fd) gen_readme_options) gen_configfile_fields &&
  forallb (fun o => mem_str o (map fst gen_configfile_fields)) gen_readme_options.
Definition cli_params : list str := [ s2l "meta_type"; s2l "document_source"; s2l "file_encoding"; s2l "overwrite"; s2l "output_path" ].
Definition merge_row_ok (row : str * str * str) : bool :=
  let '(field, kind, src) := row in
  str_eqb field src &&
  (if str_eqb kind (s2l "param") then mem_str field cli_params
   else (str_eqb kind (s2l "file") || str_eqb kind (s2l "file_or_empty") || str_eqb kind (s2l "file_or_default"))
        && mem_str field (map fst gen_configfile_fields)).
Definition merge_ok : bool :=
  forallb merge_row_ok gen_merge && forallb (fun f => mem_str f (map (fun r => fst (fst r)) gen_merge)) gen_config_fields.
Definition every_option_read_ok : bool :=
  forallb (fun f => existsb (fun r => str_eqb (r_opt r) f) gen_option_reads) gen_config_fields.

(* ------------------------------------------------------------------------------------------------ 2a. Class.from_string *)
(* get_reference_simple_name: ref_path.split("/")[-1] *)
Fixpoint last_segment (s cur : str) : str :=
  match s with
  | [] => rev cur
  | c :: s' => if c =? 47 then last_segment s' [] else last_segment s' (c :: cur)
  end.
Definition ref_simple_name (s : str) : str := last_segment s [].

Record override := { o_class : option str; o_module : option str }.
Definition overrides := list (str * override).

Definition class_from_string (s prefix : str) (ovs : overrides) : str * str :=
  let cn := class_name (ref_simple_name s) prefix in
  let ov := lookup_str cn ovs in
  let cn' := match ov with Some {| o_class := Some c |} => class_name c prefix | _ => cn end in
  let mn := match ov with Some {| o_module := Some m |} => m | _ => cn' end in
  (cn', python_identifier mn prefix false).

(* the renaming an override table induces on DEFAULT class names *)
Definition rename_class (ovs : overrides) (prefix cn : str) : str * str :=
  match lookup_str cn ovs with
  | None => (cn, python_identifier cn prefix false)
  | Some o =>
    let cn' := match o_class o with Some c => class_name c prefix | None => cn end in
    (cn', python_identifier (match o_module o with Some m => m | None => cn' end) prefix false)
  end.

Fixpoint nodup_str (l : list str) : bool := match l with [] => true | x :: l' => negb (mem_str x l') && nodup_str l' end.
(* the override table relabels the given default class names injectively (class names and module names stay distinct) *)
Definition rename_injective_on (ovs : overrides) (prefix : str) (names : list str) : bool :=
  nodup_str (map (fun n => fst (rename_class ovs prefix n)) names) && nodup_str (map (fun n => snd (rename_class ovs prefix n)) names).

(* ------------------------------------------------------------------------------------------------ 2b. field_prefix *)
Definition ident_core (value : str) (skip : bool) : str :=
  fix_reserved (if skip then sanitize value else snake_case (sanitize value)).
Definition needs_prefix (value : str) (skip : bool) : bool := negb (is_identifier (ident_core value skip)) || starts_us value.
Definition class_core (value : str) : str := fix_reserved (pascal_case (sanitize value)).
Definition class_needs_prefix (value : str) : bool := negb (is_identifier (class_core value)).

(* ------------------------------------------------------------------------------------------------ 2c. tag selection *)
Definition default_tag : str := s2l "default".
Definition tag_prefix : str := s2l "tag".
(* tags = [PythonIdentifier(tag, "tag") for tag in operation.tags or ["default"]]; if not generate_all_tags: tags = tags[:1] *)
Definition op_tags (all : bool) (tags : list str) : list str :=
  let ts := map (fun t => python_identifier t tag_prefix false) (match tags with [] => [default_tag] | _ => tags end) in
  if all then ts else firstn 1 ts.

Section Collect.
  Variable E : Type.     (* the parsed Endpoint value (built once per operation) *)
  Definition colls := list (str * list E).     (* endpoints_by_tag: insertion-ordered dict *)
  Fixpoint setdefault (t : str) (c : colls) : colls :=
    match c with
    | [] => [(t, [])]
    | (k, v) :: c' => if str_eqb k t then c else (k, v) :: setdefault t c'
    end.
  Fixpoint append_to (t : str) (e : E) (c : colls) : colls :=
    match c with
    | [] => []
    | (k, v) :: c' => if str_eqb k t then (k, v ++ [e]) :: c' else (k, v) :: append_to t e c'
    end.
  (* collections = [setdefault(tag) for tag in tags]; ...; for collection in collections: collection.endpoints.append(endpoint)
     (None = the operation failed to parse: the collections exist, nothing is appended) *)
  Definition place (c : colls) (ts : list str) (e : option E) : colls :=
    let c1 := fold_left (fun c t => setdefault t c) ts c in
    match e with None => c1 | Some e => fold_left (fun c t => append_to t e c) ts c1 end.
  Definition collect_from (all : bool) (ops : list (list str * option E)) (c : colls) : colls :=
    fold_left (fun c op => place c (op_tags all (fst op)) (snd op)) ops c.
  Definition collect (all : bool) (ops : list (list str * option E)) : colls := collect_from all ops [].
  Definition endpoints_at (t : str) (c : colls) : list E := match lookup_str t c with Some l => l | None => [] end.
  Definition count_str (t : str) (l : list str) : nat := List.length (filter (str_eqb t) l).
  (* what the tag selection amounts to: under tag t, in document order, each parsed operation once per occurrence of t among its selected tags *)
  Definition expected_at (all : bool) (t : str) (ops : list (list str * option E)) : list E :=
    flat_map (fun op => match snd op with None => [] | Some e => repeat e (count_str t (op_tags all (fst op))) end) ops.
End Collect.
Arguments setdefault {E}. Arguments append_to {E}. Arguments place {E}. Arguments collect {E}. Arguments collect_from {E}.
Arguments endpoints_at {E}. Arguments expected_at {E}.

(* ------------------------------------------------------------------------------------------------ 2d. content types *)
Definition is_space (c : N) : bool := memN c gen_py_space.
Fixpoint lstrip (s : str) : str := match s with c :: s' => if is_space c then lstrip s' else s | [] => [] end.
Definition strip (s : str) : str := rev (lstrip (rev (lstrip s))).
Fixpoint before_semi (s : str) : str := match s with [] => [] | c :: s' => if c =? 59 then [] else c :: before_semi s' end.
Definition count_c (c : N) (s : str) : nat := List.length (filter (N.eqb c) s).
Definition text_plain : str := s2l "text/plain".
(* email.message.Message.get_content_type on a message whose only header is Content-Type: v
   (ctype = _splitparam(v)[0].lower(); text/plain unless it contains exactly one slash) *)
Definition parse_ct (v : str) : str :=
  let a := lower (strip (before_semi v)) in if Nat.eqb (count_c 47 a) 1 then a else text_plain.
Definition ct_target (ovs : list (str * str)) (ct : str) : str := match lookup_str ct ovs with Some t => t | None => ct end.
(* utils.get_content_type *)
Definition get_content_type (ovs : list (str * str)) (ct : str) : option str :=
  let c := ct_target ovs ct in let p := parse_ct c in if is_prefix p c then Some p else None.

Definition ends_with (suffix s : str) : bool := is_prefix (rev suffix) (rev s).
Inductive body_type := BData | BFiles | BContent | BJson.
Definition body_type_of (p : str) : option body_type :=
  if str_eqb p (s2l "application/x-www-form-urlencoded") then Some BData
  else if str_eqb p (s2l "multipart/form-data") then Some BFiles
  else if str_eqb p (s2l "application/octet-stream") then Some BContent
  else if str_eqb p (s2l "application/json") || ends_with (s2l "+json") p then Some BJson
  else None.
(* Body(content_type=<the key of the content map>, body_type=...): b_sent is what the template writes into headers["Content-Type"] *)
Record body := { b_sent : str; b_type : body_type }.
Definition body_of (ovs : list (str * str)) (ct : str) : option body :=
  match get_content_type ovs ct with
  | None => None
  | Some p => option_map (fun bt => {| b_sent := ct; b_type := bt |}) (body_type_of p)
  end.
Inductive source := SrcText | SrcJson | SrcBytes.
Definition source_of_parsed (p : str) : option source :=
  if is_prefix (s2l "text/") p then Some SrcText
  else if str_eqb p (s2l "application/json") then Some SrcJson
  else if str_eqb p (s2l "application/octet-stream") then Some SrcBytes
  else if ends_with (s2l "+json") p then Some SrcJson else None.
(* responses._source_by_content_type *)
Definition source_of (ovs : list (str * str)) (ct : str) : option source :=
  match get_content_type ovs ct with None => None | Some p => source_of_parsed p end.

(* ------------------------------------------------------------------------------------------------ 2e. metadata flavour *)
(* the package subtree, relative to the package directory: a function of the document only *)
Definition core_files (d : doc) : list path :=
  [[f_init]; [f_types]] ++ map (fun m => [d_models_dir; m ++ ext_py]) (d_models d) ++ [[d_models_dir; f_init]] ++
  [[f_client]; [f_errors]] ++
  ([d_api_dir; f_init] :: flat_map (fun te => [d_api_dir; fst te; f_init] :: map (fun e => [d_api_dir; fst te; e ++ ext_py]) (snd te)) (d_tags d)).
(* what the flavour decides: the metadata files at the project root and the PEP 561 marker inside the (nested) package *)
Definition flavour_only (fl : flavour) (pkg : str) : list path :=
  match fl with
  | FNone => []
  | FSetup => [[f_pyproject]; [f_setup]; [f_readme]; [f_gitignore]; [pkg; f_pytyped]]
  | _ => [[f_pyproject]; [f_readme]; [f_gitignore]; [pkg; f_pytyped]]
  end.

(* ------------------------------------------------------------------------------------------------ 2f. title prefixing *)
(* ModelProperty.build: the string handed to Class.from_string (title = data.title when non-empty) *)
Definition model_class_string (use_path_prefixes : bool) (title : option str) (name parent : str) : str :=
  let title_ok := match title with Some (_ :: _) => true | _ => false end in
  if negb use_path_prefixes && title_ok then match title with Some t => t | None => [] end
  else
    let t := match title with Some (c :: r) => c :: r | _ => name end in
    match parent with [] => t | _ => pascal_case parent ++ pascal_case t end.

(* ------------------------------------------------------------------------------------------------ 2g. project / package names *)
(* Project.__init__ (openapi_python_client/__init__.py:69-70):
     project_name = config.project_name_override or f"{utils.kebab_case(openapi.title).lower()}-client"
     package_name = config.package_name_override or project_name.replace("-", "_")
   (`or`: an empty override counts as absent). README: "the package name will be converted from the project name using the
   standard convention (replacing `-`'s with `_`'s)" - the literal character replacement, nothing else. *)
Definition nonempty_or (o : option str) (d : str) : str := match o with Some (c :: r) => c :: r | _ => d end.
Definition replace_dash (s : str) : str := map (fun c => if c =? 45 then 95 else c) s.
Definition client_suffix : str := s2l "-client".
Definition project_name (proj_override : option str) (title : str) : str :=
  nonempty_or proj_override (lower (kebab_case title) ++ client_suffix).
Definition package_name (pkg_override proj_override : option str) (title : str) : str :=
  nonempty_or pkg_override (replace_dash (project_name proj_override title)).

(* ------------------------------------------------------------------------------------------------ 1b. writers and docstring literals *)
(* --file-encoding: EVERY call that writes a file passes encoding=config.file_encoding (and there is at least one writer) *)
Definition writer_encoded (w : str * str * str * bool) : bool := snd w.
Definition writers_ok : bool := forallb writer_encoded gen_writers && negb (Nat.eqb (List.length gen_writers) 0).
(* docstrings_on_attributes and every other docstring: document text reaches the inside of a triple-quoted literal only through
   helpers.jinja's safe_docstring (raw literal when the text holds a backslash); client.py.jinja's own literals hold template-fixed text *)
Definition documented_docstring_literals : list (str * str) :=
  [ (s2l "templates/helpers.jinja", s2l "content"); (s2l "templates/client.py.jinja", star) ].
Definition docstring_literal_ok (r : str * str) : bool :=
  existsb (fun d => str_eqb (fst d) (fst r) && pat_match (snd d) (snd r)) documented_docstring_literals.
Definition docstring_literals_ok : bool := forallb docstring_literal_ok gen_docstring_literals.

(* ------------------------------------------------------------------------------------------------ 1c. metadata templates *)
(* what pyproject.toml / setup.py / README.md / .gitignore may read: the derived names and version (project_name, package_name,
   package_version = package_version_override or the document's version), the fixed description, and the flavour switches.
   In particular the version is read ONLY through package_version: a read of openapi.version (or of anything under openapi /
   config) in a metadata template is outside the frame - it would bypass the override in that flavour. *)
Definition documented_metadata_vars : list str :=
  [ s2l "project_name"; s2l "package_name"; s2l "package_version"; s2l "package_description"; s2l "meta"; s2l "poetry" ].
Definition metadata_reads_ok : bool := forallb (fun r => mem_str (snd r) documented_metadata_vars) gen_metadata_reads.
(* every flavour's declaration file reads the version, and reads it through package_version *)
Definition version_declared_ok : bool :=
  existsb (fun r => str_eqb (fst r) (s2l "pyproject.toml.jinja") && str_eqb (snd r) (s2l "package_version")) gen_metadata_reads &&
  existsb (fun r => str_eqb (fst r) (s2l "setup.py.jinja") && str_eqb (snd r) (s2l "package_version")) gen_metadata_reads.
