(* Parse.v — document-level decisions of the endpoint parser that the post-parse model Endpoint.v takes as given:
   media type -> response source (parser/responses.py _source_by_content_type + response_from_data's content loop),
   media type -> request body type (parser/bodies.py body_from_data), status key -> status (openapi.py _add_responses).
   The simplification of a media-type string (utils.get_content_type, email.message) is an oracle: the functions below take
   the simplified string (None = not recognisable). Model file: definitions only. *)
From Coq Require Import NArith ZArith List Bool.
Import ListNotations.
Require Import OPC.Uni OPC.Names OPC.Codec OPC.Endpoint.
Open Scope N_scope.

Fixpoint starts_with (p s : str) : bool :=
  match p, s with
  | [], _ => true
  | x :: p', y :: s' => (x =? y) && starts_with p' s'
  | _ :: _, [] => false
  end.
Definition ends_with (p s : str) : bool := starts_with (rev p) (rev s).

Definition s_text_ : str := [116;101;120;116;47].                                                   (* text/ *)
Definition s_app_json : str := [97;112;112;108;105;99;97;116;105;111;110;47;106;115;111;110].       (* application/json *)
Definition s_octet : str := [97;112;112;108;105;99;97;116;105;111;110;47;111;99;116;101;116;45;115;116;114;101;97;109].
Definition s_plus_json : str := [43;106;115;111;110].                                               (* +json *)
Definition s_form : str := [97;112;112;108;105;99;97;116;105;111;110;47;120;45;119;119;119;45;102;111;114;109;45;117;114;108;101;110;99;111;100;101;100].
Definition s_multipart : str := [109;117;108;116;105;112;97;114;116;47;102;111;114;109;45;100;97;116;97].

(* _source_by_content_type on the simplified media type *)
Definition response_source (ct : option str) : option rsource :=
  match ct with
  | None => None
  | Some s =>
      if starts_with s_text_ s then Some SText
      else if str_eqb s s_app_json then Some SJson
      else if str_eqb s s_octet then Some SBytes
      else if ends_with s_plus_json s then Some SJson
      else None
  end.

Inductive rplan := RError | RNoContent | RParsed (src : rsource).
(* response_from_data: no content -> empty response; else the FIRST media type with a known source decides;
   no such media type -> ParseError; chosen media type without schema -> empty response *)
Fixpoint first_supported (content : list (option str * bool)) : option (rsource * bool) :=
  match content with
  | [] => None
  | (ct, has_schema) :: r => match response_source ct with Some src => Some (src, has_schema) | None => first_supported r end
  end.
Definition response_plan (content : list (option str * bool)) : rplan :=
  match content with
  | [] => RNoContent
  | _ => match first_supported content with
         | None => RError
         | Some (src, true) => RParsed src
         | Some (_, false) => RNoContent
         end
  end.

(* body_from_data: media type -> body type *)
Inductive bplan := BInvalidType | BMissingSchema | BUnsupported | BBody (t : btype).
Definition body_plan (ct : option str) (has_schema : bool) : bplan :=
  match ct with
  | None => BInvalidType
  | Some s =>
      if negb has_schema then BMissingSchema
      else if str_eqb s s_form then BBody BData
      else if str_eqb s s_multipart then BBody BFiles
      else if str_eqb s s_octet then BBody BContent
      else if str_eqb s s_app_json || ends_with s_plus_json s then BBody BJson
      else BUnsupported
  end.
