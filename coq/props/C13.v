Require Import OPC.Uni OPC.Names OPC.PyLit OPC.PyLitThm OPC.Values OPC.PyEval OPC.ValuesThm OPC.ValuesThm2 OPC.Merge OPC.MergeThm OPC.RefDefault OPC.RefDefaultThm.
From Coq Require Import NArith ZArith List Bool. Import ListNotations. Open Scope N_scope.

(* T default_sound: for every scalar kind and every JSON value inside the guard (default_class = 0; each non-zero code is one
   named defect class), an accepted default's emitted Python expression evaluates to the typed value the document declares *)
Theorem C13_default_sound : forall o k v x,
  default_class o k v = 0 -> convert_value o k v = Ok (Some x) ->
  exists pv, typed_value o k v = Some pv /\ eval_code (code x) = Some pv.
Proof. exact default_sound. Qed.
Print Assumptions C13_default_sound.

(* T default_complete: inside the guard, a value that denotes nothing of the kind is rejected (PropertyError), never emitted *)
Theorem C13_default_complete : forall o k v,
  default_class o k v = 0 -> v <> JNull -> typed_value o k v = None -> convert_value o k v = Err.
Proof. exact default_complete. Qed.
Print Assumptions C13_default_complete.

Theorem C13_default_null : forall o k, convert_value o k JNull = Ok None.
Proof. exact default_null. Qed.
Print Assumptions C13_default_null.

(* per kind, unguarded: what the lenient conversions accept is exactly what int_meaning / bool_meaning / float_meaning describe *)
Theorem C13_conv_int_sound : forall o v x,
  conv_int o v = Ok (Some x) -> exists z, int_meaning o v = Some z /\ eval_code (code x) = Some (PVInt z) /\ raw x = v.
Proof. exact conv_int_sound. Qed.
Print Assumptions C13_conv_int_sound.
Theorem C13_conv_int_complete : forall o v,
  v <> JNull -> int_meaning o v = None -> conv_int o v = Err \/ conv_int o v = Crash.
Proof. exact conv_int_complete. Qed.
Print Assumptions C13_conv_int_complete.
Theorem C13_conv_bool_sound : forall v x,
  conv_bool v = Ok (Some x) -> exists b, bool_meaning v = Some b /\ eval_code (code x) = Some (PVBool b).
Proof. exact conv_bool_sound. Qed.
Print Assumptions C13_conv_bool_sound.
Theorem C13_conv_bool_complete : forall v, v <> JNull -> bool_meaning v = None -> conv_bool v = Err.
Proof. exact conv_bool_complete. Qed.
Print Assumptions C13_conv_bool_complete.
Theorem C13_conv_float_sound : forall o v x, conv_float o v = Ok (Some x) ->
  exists f, float_meaning o v = Some f /\ code x = f_tok f /\ raw x = v /\
            (is_float_tok (f_tok f) = true -> eval_code (code x) = Some (PVFloat (f_tok f))).
Proof. exact conv_float_sound. Qed.
Print Assumptions C13_conv_float_sound.
Theorem C13_conv_float_complete : forall o v, v <> JNull -> float_meaning o v = None ->
  conv_float o v = Err \/ conv_float o v = Crash.
Proof. exact conv_float_complete. Qed.
Print Assumptions C13_conv_float_complete.
Theorem C13_conv_string_sound : forall s x,
  repr_printable s = true -> existsb (N.eqb DQ) s = false ->
  conv_string (JStr s) = Ok (Some x) -> lex_string (code x) = Some (s, []).
Proof. exact conv_string_sound. Qed.
Print Assumptions C13_conv_string_sound.
Theorem C13_conv_date_sound : forall o s x, conv_date o (JStr s) = Ok (Some x) ->
  isoparse_ok o s = true /\ raw x = JStr s /\ (repr_printable s = true -> eval_code (code x) = Some (PVDate s)).
Proof. exact conv_date_sound. Qed.
Print Assumptions C13_conv_date_sound.
Theorem C13_conv_datetime_sound : forall o s x, conv_datetime o (JStr s) = Ok (Some x) ->
  isoparse_ok o s = true /\ raw x = JStr s /\ (repr_printable s = true -> eval_code (code x) = Some (PVDateTime s)).
Proof. exact conv_datetime_sound. Qed.
Print Assumptions C13_conv_datetime_sound.
Theorem C13_conv_uuid_sound : forall o s x, conv_uuid o (JStr s) = Ok (Some x) ->
  uuid_ok o s = true /\ raw x = JStr s /\ (repr_printable s = true -> eval_code (code x) = Some (PVUuid s)).
Proof. exact conv_uuid_sound. Qed.
Print Assumptions C13_conv_uuid_sound.

(* enum, literal enum, const: an accepted default names a declared member / value / the constant *)
Theorem C13_conv_enum_sound : forall vt cls ms v x,
  conv_enum vt cls ms v = Ok (Some x) ->
  exists k ev, code x = cls ++ [46] ++ k /\ In (k, ev) ms /\
    match v, ev with
    | JInt z, EInt z' => z = z'
    | JBool b, EInt z' => z' = (if b then 1 else 0)%Z
    | JStr s, EStr s' => s = s'
    | _, _ => False
    end.
Proof. exact conv_enum_sound. Qed.
Print Assumptions C13_conv_enum_sound.
Theorem C13_conv_litenum_sound : forall vt vals v x,
  conv_litenum vt vals v = Ok (Some x) ->
  exists ev, In ev vals /\
    match v, ev with
    | JInt z, EInt z' => z = z'
    | JBool b, EInt z' => z' = (if b then 1 else 0)%Z
    | JStr s, EStr s' => s = s'
    | _, _ => False
    end.
Proof. exact conv_litenum_sound. Qed.
Print Assumptions C13_conv_litenum_sound.
Theorem C13_conv_const_sound : forall cv v x,
  conv_const cv v = Ok (Some x) -> exists c, conv_any cv = Ok (Some c) /\ value_eqb x c = true.
Proof. exact conv_const_sound. Qed.
Print Assumptions C13_conv_const_sound.

(* union: the default is converted by the FIRST member that does not reject it (class union_first_match) *)
Theorem C13_conv_union_first : forall o ms v r,
  v <> JNull -> convert_value o (CUnion ms) v = r -> r <> Err ->
  exists pre m post, ms = pre ++ m :: post /\ convert_value o m v = r /\
    forall m', In m' pre -> convert_value o m' v = Err.
Proof. exact conv_union_first. Qed.
Print Assumptions C13_conv_union_first.

(* refutation witnesses, one per class outside the guard *)
Theorem C13_float_token_refuted : exists x, convert_value wit_oracles CFloat (JStr [105;110;102]) = Ok (Some x) /\ eval_code (code x) = None.
Proof. exact float_token_refuted. Qed.
Theorem C13_string_lenient_refuted : exists x, convert_value wit_oracles CStr (JInt 5) = Ok (Some x) /\ typed_value wit_oracles CStr (JInt 5) = None.
Proof. exact string_lenient_refuted. Qed.
Theorem C13_int_lenient_refuted : exists x, convert_value wit_oracles CInt (JStr [51;46;48]) = Ok (Some x) /\ typed_value wit_oracles CInt (JStr [51;46;48]) = None.
Proof. exact int_lenient_refuted. Qed.
Theorem C13_bool_lenient_refuted : exists x, convert_value wit_oracles CBool (JStr [84;82;85;69]) = Ok (Some x) /\ typed_value wit_oracles CBool (JStr [84;82;85;69]) = None.
Proof. exact bool_lenient_refuted. Qed.
Theorem C13_int_nonfinite_crash_refuted : convert_value wit_oracles CInt (JStr [105;110;102]) = Crash.
Proof. exact int_nonfinite_crash_refuted. Qed.
Theorem C13_default_dq_refuted : exists x, convert_value wit_oracles CStr (JStr [97;34;98]) = Ok (Some x) /\ eval_code (code x) <> Some (PVStr [97;34;98]).
Proof. exact default_dq_refuted. Qed.
Theorem C13_union_first_match_refuted : exists x,
  convert_value wit_oracles (CUnion [CStr; CInt]) (JInt 3) = Ok (Some x) /\ eval_code (code x) = Some (PVStr [51]).
Proof. exact union_first_match_refuted. Qed.
Theorem C13_enum_default_dq_refuted : exists m,
  values_from_list [EStr [97;34;98]; EStr [99]] = Some m /\ conv_enum VStr [69] m (JStr [97;34;98]) = Err.
Proof. exact enum_default_dq_refuted. Qed.
Print Assumptions C13_float_token_refuted.
Print Assumptions C13_enum_default_dq_refuted.

(* ---- defaults that travel through a reference or an allOf merge ---- *)

(* a non-null value (in particular the falsy 0, 0.0, false, empty string) is never converted to "no default" *)
Theorem C13_conv_ok_none : forall o k v, convert_value o k v = Ok None ->
  v = JNull \/ k = CList \/ exists ms, k = CUnion ms.
Proof. exact conv_ok_none. Qed.
Print Assumptions C13_conv_ok_none.

(* T ref_default_revalidated: the default declared next to a $ref (bare or single-$ref allOf/oneOf/anyOf wrapper) is convert_value of
   the REFERENCED kind on the raw value, or the reference is an error *)
Theorem C13_ref_default_revalidated : forall o existing name required pd p,
  property_from_ref o existing name required pd = ROk p ->
  r_kind p = r_kind existing /\ r_required p = required /\ r_name p = name /\
  convert_value o (r_kind existing) pd = Ok (r_default p).
Proof. exact ref_default_revalidated. Qed.
Print Assumptions C13_ref_default_revalidated.
Theorem C13_ref_default_not_dropped : forall o existing name required pd p,
  pd <> JNull -> r_kind existing <> CList -> (forall ms, r_kind existing <> CUnion ms) ->
  property_from_ref o existing name required pd = ROk p -> r_default p <> None.
Proof. exact ref_default_not_dropped. Qed.
Print Assumptions C13_ref_default_not_dropped.
Theorem C13_ref_default_sound : forall o existing name required pd p,
  default_class o (r_kind existing) pd = 0 -> pd <> JNull ->
  property_from_ref o existing name required pd = ROk p ->
  exists x pv, r_default p = Some x /\ typed_value o (r_kind existing) pd = Some pv /\ eval_code (code x) = Some pv.
Proof. exact ref_default_sound. Qed.
Print Assumptions C13_ref_default_sound.
Theorem C13_ref_default_complete : forall o existing name required pd,
  default_class o (r_kind existing) pd = 0 -> pd <> JNull -> typed_value o (r_kind existing) pd = None ->
  property_from_ref o existing name required pd = RErr.
Proof. exact ref_default_complete. Qed.
Print Assumptions C13_ref_default_complete.

(* T merge_default_reconverted (Merge.common = _merge_common_attributes): every override default is re-converted by the final
   (narrower) kind, the merge is an error if that fails, and the surviving default is the base's own or such a re-conversion *)
Theorem C13_merge_default_reconverted : forall o ext cur r, common o cur ext = MOk r ->
  ckind_of r = ckind_of cur /\
  (forall ov d, In ov ext -> mp_dflt ov = Some d -> exists od, convert_value o (ckind_of r) (raw d) = Ok od) /\
  (mp_dflt r = mp_dflt cur \/
   exists ov d x, In ov ext /\ mp_dflt ov = Some d /\ convert_value o (ckind_of r) (raw d) = Ok (Some x) /\ mp_dflt r = Some x).
Proof. exact merge_default_reconverted. Qed.
Print Assumptions C13_merge_default_reconverted.
Theorem C13_merge_last_default_wins : forall o pre ov cur r d x,
  common o cur (pre ++ [ov]) = MOk r -> mp_dflt ov = Some d ->
  convert_value o (ckind_of r) (raw d) = Ok (Some x) -> mp_dflt r = Some x.
Proof. exact merge_last_default_wins. Qed.
Print Assumptions C13_merge_last_default_wins.
Theorem C13_merge_last_default_sound : forall o pre ov cur r d,
  common o cur (pre ++ [ov]) = MOk r -> mp_dflt ov = Some d -> raw d <> JNull ->
  default_class o (ckind_of r) (raw d) = 0 ->
  exists x pv, mp_dflt r = Some x /\ typed_value o (ckind_of r) (raw d) = Some pv /\ eval_code (code x) = Some pv.
Proof. exact merge_last_default_sound. Qed.
Print Assumptions C13_merge_last_default_sound.
Theorem C13_merge_narrowed_default_rejected : exists o cur ov, common o cur [ov] = MErr /\ mp_dflt ov <> None.
Proof. exact merge_narrowed_default_rejected. Qed.

(* ---- the default's journey through the null-member rewrite of EnumProperty.build / LiteralEnumProperty.build ---- *)
(* the rewritten union oneOf[null, enum] carries the outer default: it is exactly what the null-free enum makes of it *)
Theorem C13_nullable_default_carried : forall o inner pd,
  conv_none pd = Err -> nullable_enum_default o inner pd = convert_value o inner pd.
Proof. exact nullable_default_carried. Qed.
Print Assumptions C13_nullable_default_carried.
Theorem C13_nullable_default_not_dropped : forall o vt cls ms vals pd d,
  pd <> JNull -> conv_none pd = Err ->
  (nullable_enum_default o (CEnum vt cls ms) pd = Ok d -> d <> None) /\
  (nullable_enum_default o (CLitEnum vt vals) pd = Ok d -> d <> None).
Proof. exact nullable_default_not_dropped. Qed.
Print Assumptions C13_nullable_default_not_dropped.
