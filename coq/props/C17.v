Require Import OPC.Uni OPC.Names OPC.Values OPC.Enums OPC.Norm OPC.NormThm.
From Coq Require Import NArith ZArith List Bool. Import ListNotations. Open Scope N_scope.

(* 3.0 `nullable: true` on a typed schema == the 3.1 type list, at every position (top = validators run twice there) *)
Theorem C17_nullable_forms_equal : forall c e parent top t en any one all items pfx fmt d o name,
  norm c e parent top (SSch (TyOne t) true en any one all items pfx fmt d o) name
  = norm c e parent top (SSch (TyList [t; JTNull]) false en any one all items pfx fmt d o) name.
Proof. exact nullable_forms_equal. Qed.
Print Assumptions C17_nullable_forms_equal.

Theorem C17_nullable_typelist_equal : forall c e parent top l en any one all items pfx fmt d o name,
  norm c e parent top (SSch (TyList l) true en any one all items pfx fmt d o) name
  = norm c e parent top (SSch (TyList (add_null l)) false en any one all items pfx fmt d o) name.
Proof. exact nullable_typelist_equal. Qed.
Print Assumptions C17_nullable_typelist_equal.

(* oneOf / anyOf + nullable == explicit null member appended (twice where the validators run twice) *)
Theorem C17_nullable_oneof_equal : forall c e parent top en any one all items pfx fmt d o name,
  one <> [] ->
  norm c e parent top (SSch TyAbsent true en any one all items pfx fmt d o) name
  = norm c e parent top (SSch TyAbsent false en any (one ++ nulls top) all items pfx fmt d o) name.
Proof. exact nullable_oneof_equal. Qed.
Print Assumptions C17_nullable_oneof_equal.

Theorem C17_nullable_anyof_equal : forall c e parent top en any all items pfx fmt d o name,
  any <> [] ->
  norm c e parent top (SSch TyAbsent true en any [] all items pfx fmt d o) name
  = norm c e parent top (SSch TyAbsent false en (any ++ nulls top) [] all items pfx fmt d o) name.
Proof. exact nullable_anyof_equal. Qed.
Print Assumptions C17_nullable_anyof_equal.

Theorem C17_nullable_allof_equal : forall c e parent top en all items pfx fmt d o name,
  all <> [] ->
  norm c e parent top (SSch TyAbsent true en [] [] all items pfx fmt d o) name
  = norm c e parent top
      (SSch TyAbsent false en [] ([null_sch; SSch TyAbsent false [] [] [] all None [] None None o_none] ++ (if top then [null_sch] else []))
            [] items pfx fmt d o) name.
Proof. exact nullable_allof_equal. Qed.
Print Assumptions C17_nullable_allof_equal.

Theorem C17_nullable_union_top_refuted :
  exists name,
    norm cfg0 (envl []) [] true (SSch TyAbsent true [] [] [s_str] [] None [] None None o_none) name
    <> norm cfg0 (envl []) [] true (SSch TyAbsent false [] [] [s_str; null_sch] [] None [] None None o_none) name.
Proof. exact nullable_union_top_refuted. Qed.
Print Assumptions C17_nullable_union_top_refuted.

(* a 3.1 type list == anyOf of the single types (same member names, same order) *)
Theorem C17_typelist_anyof_equal : forall c e parent top l items pfx fmt d o o' name,
  l <> [] ->
  norm c e parent top (SSch (TyList l) false [] [] [] [] items pfx fmt d o) name
  = norm c e parent top
      (SSch TyAbsent false [] (map (fun t => SSch (TyOne t) false [] [] [] [] items pfx fmt None o) l) [] [] None [] None d o') name.
Proof. exact typelist_anyof_equal. Qed.
Print Assumptions C17_typelist_anyof_equal.

(* enum containing null == oneOf [ {type: null}, {enum: the rest} ]: null FIRST, enum second, names <name>_type_0 / _type_1 *)
Theorem C17_enum_null_equal : forall c e parent top ty nl en vt vals items pfx fmt d o o' name,
  g_enum_null ty nl = true ->
  enum_build en = BNullable vt vals ->
  norm c e parent top (SSch ty nl en [] [] [] items pfx fmt d o) name
  = norm c e parent top
      (SSch TyAbsent false [] [] [null_sch; SSch ty nl (nonnull en) [] [] [] items pfx fmt d o] [] None [] None d o') name.
Proof. exact enum_null_equal. Qed.
Print Assumptions C17_enum_null_equal.

Theorem C17_enum_null_typelist_refuted :
  exists ty nl en name,
    g_enum_null ty nl = false /\
    norm cfg0 (envl []) [72] false (SSch ty nl en [] [] [] None [] None None o_none) name
    <> norm cfg0 (envl []) [72] false
         (SSch TyAbsent false [] [] [null_sch; SSch ty nl (nonnull en) [] [] [] None [] None None o_none] [] None [] None None o_none) name.
Proof. exact enum_null_typelist_refuted. Qed.
Print Assumptions C17_enum_null_typelist_refuted.

(* allOf | oneOf | anyOf : [$ref R] without a default == $ref R, whatever other keywords the wrapper carries *)
Theorem C17_single_ref_wrapper : forall c e parent top k r ty nl en items pfx fmt d o name,
  g_wrapper ty nl d = true ->
  norm c e parent top (wrapper k r ty nl en items pfx fmt d o) name = norm c e parent top (SRef r) name.
Proof. exact single_ref_wrapper. Qed.
Print Assumptions C17_single_ref_wrapper.

(* with a default: exactly the referenced class renamed, the default re-validated against it *)
Theorem C17_wrapper_exact : forall c e parent top k r ty nl en items pfx fmt d o name,
  g_wrapper ty nl None = true ->
  norm c e parent top (wrapper k r ty nl en items pfx fmt d o) name = ref_build e r name d.
Proof. exact wrapper_exact. Qed.
Print Assumptions C17_wrapper_exact.

(* the referenced schema's own default never reaches the referring property, through a bare $ref or through a wrapper *)
Theorem C17_from_ref_default_from_parent : forall t name d,
  tree_default (from_ref t name d) = d \/ tree_default (from_ref t name d) = None.
Proof. exact from_ref_default_from_parent. Qed.
Print Assumptions C17_from_ref_default_from_parent.
Theorem C17_ref_target_default_dropped : forall c e parent top r name,
  tree_default (norm c e parent top (SRef r) name) = None.
Proof. exact ref_target_default_dropped. Qed.
Print Assumptions C17_ref_target_default_dropped.
Theorem C17_wrapper_target_default_dropped : forall c e parent top k r ty nl en items pfx fmt o name,
  g_wrapper ty nl None = true ->
  tree_default (norm c e parent top (wrapper k r ty nl en items pfx fmt None o) name) = None.
Proof. exact wrapper_target_default_dropped. Qed.
Print Assumptions C17_wrapper_target_default_dropped.

Theorem C17_wrapper_default_refuted :
  exists e k r d name,
    g_wrapper TyAbsent false (Some d) = false /\
    norm cfg0 e [] false (wrapper k r TyAbsent false [] None [] None (Some d) o_none) name = TErr /\
    norm cfg0 e [] false (SRef r) name = TModel name [82].
Proof. exact wrapper_default_refuted. Qed.
Print Assumptions C17_wrapper_default_refuted.

Theorem C17_wrapper_nullable_refuted :
  exists e r name,
    g_wrapper TyAbsent true None = false /\
    norm cfg0 e [] false (wrapper WOneOf r TyAbsent true [] None [] None None o_none) name
      = TUnion name [TModel (sub_name name 0) [82]; TLeaf LNone (sub_name name 1) None] None /\
    norm cfg0 e [] false (wrapper WAllOf r TyAbsent true [] None [] None None o_none) name
      = TUnion name [TLeaf LNone (sub_name name 0) None; TModel (sub_name name 1) [82]] None.
Proof. exact wrapper_nullable_refuted. Qed.
Print Assumptions C17_wrapper_nullable_refuted.

Theorem C17_wrapper_not_congruent_refuted :
  exists e r name,
    norm cfg0 e [] false (SSch TyAbsent false [] [wrapper WAllOf r TyAbsent false [] None [] None None o_none] [] [] None [] None None o_none) name
      = TUnion name [TModel (sub_name name 0) [82]] None /\
    norm cfg0 e [] false (SSch TyAbsent false [] [SRef r] [] [] None [] None None o_none) name = TModel name [82].
Proof. exact wrapper_not_congruent_refuted. Qed.
Print Assumptions C17_wrapper_not_congruent_refuted.

(* tuple arrays (prefixItems + items) and every other use of items: each sub-schema may be written in any equivalent notation
   independently of its siblings; the builder never compares sub-schemas with each other (equal members are kept) *)
Theorem C17_items_congruence : forall c e parent top ty nl en any one all items items' pfx pfx' fmt d o name,
  Forall2 (equiv c e parent) pfx pfx' -> oequiv c e parent items items' ->
  norm c e parent top (SSch ty nl en any one all items pfx fmt d o) name
  = norm c e parent top (SSch ty nl en any one all items' pfx' fmt d o) name.
Proof. exact items_congruence. Qed.
Print Assumptions C17_items_congruence.

Theorem C17_union_members_congruence : forall c e parent ty en any any' one one' all items pfx fmt d o name,
  Forall2 (equiv c e parent) any any' -> Forall2 (equiv c e parent) one one' ->
  length (all ++ any ++ one) <> 1%nat ->
  norm c e parent false (SSch ty false en any one all items pfx fmt d o) name
  = norm c e parent false (SSch ty false en any' one' all items pfx fmt d o) name.
Proof. exact union_members_congruence. Qed.
Print Assumptions C17_union_members_congruence.

(* exclusiveMinimum / exclusiveMaximum: the 3.0 boolean form == the 3.1 numeric form; running the validator twice changes nothing *)
Theorem C17_excl_bool_numeric_equal : forall m, hx {| b_lim := Some m; b_excl := XBool true |} = hx {| b_lim := None; b_excl := XNum m |}.
Proof. exact excl_bool_numeric_equal. Qed.
Print Assumptions C17_excl_bool_numeric_equal.
Theorem C17_hx_idempotent : forall b, hx (hx b) = hx b.
Proof. exact hx_idempotent. Qed.
Print Assumptions C17_hx_idempotent.

(* loader: JSON parser iff the content type is exactly application/json; file and URL sources reach the same loader *)
Theorem C17_parser_choice : forall ct, choose_parser ct = PJson <-> ct = Some s_app_json.
Proof. exact parser_choice. Qed.
Print Assumptions C17_parser_choice.

Theorem C17_loader_dispatch : forall (V : Type) (pj py : list N -> option V) (s : source),
  match s with
  | SFile content _ => get_document pj py s = load_yaml_or_json pj py content (content_type_of s)
  | SUrl (Some r) _ => get_document pj py s = load_yaml_or_json pj py (r_content r) (content_type_of s)
  | SUrl None _ => get_document pj py s = LFetchError
  end.
Proof. exact loader_dispatch. Qed.
Print Assumptions C17_loader_dispatch.

Theorem C17_json_parser_iff : forall (V : Type) (pj py : list N -> option V) data ct,
  (ct = Some s_app_json -> load_yaml_or_json pj py data ct = match pj data with Some v => LDoc v | None => LParseError PJson end) /\
  (ct <> Some s_app_json -> load_yaml_or_json pj py data ct = match py data with Some v => LDoc v | None => LParseError PYaml end).
Proof. exact json_parser_iff. Qed.
Print Assumptions C17_json_parser_iff.

Theorem C17_file_url_same : forall (V : Type) (pj py : list N -> option V) content g h g',
  before_semi h = g ->
  get_document pj py (SFile content (Some g)) = get_document pj py (SUrl (Some {| r_content := content; r_ctype := Some h |}) g').
Proof. exact file_url_same. Qed.
Print Assumptions C17_file_url_same.

Theorem C17_url_without_header_same : forall (V : Type) (pj py : list N -> option V) content g,
  get_document pj py (SFile content g) = get_document pj py (SUrl (Some {| r_content := content; r_ctype := None |}) g).
Proof. exact url_without_header_same. Qed.
Print Assumptions C17_url_without_header_same.
