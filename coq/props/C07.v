Require Import OPC.Uni OPC.Names OPC.Graph OPC.GraphThm OPC.Census OPC.CensusThm.
From Coq Require Import NArith List Bool. Import ListNotations. Open Scope N_scope.

(* every component schema is a survivor or named in a diagnostic (directly, or in the removal list of another error) - ALL graphs *)
Theorem C07_accounting_schemas : forall g n, In n g ->
  has (res_cbr (build_schemas g)) (n_ref n) = true \/
  exists e, In e (res_errs (build_schemas g)) /\ ((er_create e = true /\ er_unit e = n_ref n) \/ In (n_ref n) (er_removed e)).
Proof. exact accounting. Qed.
Print Assumptions C07_accounting_schemas.

(* a surviving component has its class(es) generated, under the guards *)
Theorem C07_survivor_has_classes : forall g, wf_graph g = true -> g_no_name_pressure g = true -> g_no_union_edge_to_failing g = true ->
  forall n, In n g -> has (res_cbr (build_schemas g)) (n_ref n) = true ->
  forall c, In c (node_mints n) -> has (res_cbn (build_schemas g)) c = true.
Proof. exact classes_closed. Qed.
Print Assumptions C07_survivor_has_classes.

(* every operation is filed under each selected tag as an endpoint or as a warning carrying METHOD and path; the warnings of a
   generated endpoint are handed on under the same key - ALL operation lists *)
Theorem C07_accounting_operations : forall ops o, In o ops -> filed (collections ops) o.
Proof. exact ops_accounted. Qed.
Print Assumptions C07_accounting_operations.

(* every documented status / media type of a generated operation is a Response / Body or a warning *)
Theorem C07_accounting_parts : forall o ep, parse_operation o = Some ep ->
  (forall code r, In (code, r) (o_responses o) ->
     (exists st, In (code, st) (ep_responses ep)) \/ exists w, In w (ep_warnings ep) /\ w_key w = code) /\
  (forall ct b, In (ct, b) (o_bodies o) -> In ct (ep_bodies ep) \/ exists w, In w (ep_warnings ep) /\ w_key w = ct).
Proof. exact endpoint_parts_accounted. Qed.
Print Assumptions C07_accounting_parts.

(* two endpoints never share a file when the module names of the tag are distinct *)
Theorem C07_no_silent_collapse : forall prefix c, g_module_names_distinct prefix c = true ->
  forall ep, In ep (c_endpoints c) -> In (module_name prefix (ep_name ep), ep_key ep) (api_files prefix c).
Proof. exact no_silent_collapse. Qed.
Print Assumptions C07_no_silent_collapse.

Theorem C07_status_distinct_no_alias : forall ep, g_status_distinct ep = true -> NoDup (map snd (ep_responses ep)).
Proof. exact status_distinct_no_alias. Qed.
Print Assumptions C07_status_distinct_no_alias.

(* refutation witnesses of the guards' complements *)
Theorem C07_module_overwrite_refuted :
  exists prefix c e1 e2, In e1 (c_endpoints c) /\ In e2 (c_endpoints c) /\ ep_key e1 <> ep_key e2 /\
    g_module_names_distinct prefix c = false /\ length (api_files prefix c) = 1%nat /\
    ~ In (ep_key e1) (map snd (api_files prefix c)) /\ c_errors c = [].
Proof. exact module_overwrite_refuted. Qed.
Print Assumptions C07_module_overwrite_refuted.

Theorem C07_status_alias_refuted :
  exists c1 c2, c1 <> c2 /\ parse_status c1 = ROk 200 /\ parse_status c2 = ROk 200 /\
    forall ep, ep_responses ep = [(c1, 200); (c2, 200)] -> g_status_distinct ep = false.
Proof. exact status_alias_refuted. Qed.
Print Assumptions C07_status_alias_refuted.

Theorem C07_name_pressure_refuted :
  exists g, wf_graph g = true /\ g_no_union_edge_to_failing g = true /\ g_no_name_pressure g = false /\
    exists n c, In n g /\ has (res_cbr (build_schemas g)) (n_ref n) = true /\ In c (node_mints n) /\
                has (res_cbn (build_schemas g)) c = false /\
                forall e, In e (res_errs (build_schemas g)) -> er_unit e <> n_ref n /\ ~ In (n_ref n) (er_removed e).
Proof. exact name_pressure_refuted. Qed.
Print Assumptions C07_name_pressure_refuted.

(* the code's tag selection is never empty, so an operation that declares no tags (or an empty list) is still filed somewhere *)
Theorem C07_ops_filed_somewhere : forall ops o all_tags raw, In o ops -> o_tags o = sel_tags all_tags raw ->
  exists t c, In t (o_tags o) /\ find_col (collections ops) t = Some c /\
    match parse_operation o with
    | Some ep => In ep (c_endpoints c)
    | None => In (o_key o, mkW 1 (o_key o)) (c_errors c)
    end.
Proof. exact ops_filed_somewhere. Qed.
Print Assumptions C07_ops_filed_somewhere.
