Require Import OPC.Uni OPC.Names OPC.NamesThm OPC.Fs OPC.gen.GenFrame OPC.Frame OPC.FrameThm OPC.Codec OPC.FrameCodec.
From Coq Require Import NArith List Bool String. Import ListNotations. Open Scope N_scope.

(* the frame: every syntactic read of a configuration option (Python ast + Jinja ast, regenerated on every run) lies in the
   site set the README documents for that option *)
Theorem C16_frame : forallb (reads_within documented_sites) gen_option_reads = true.
Proof. exact frame. Qed.
Print Assumptions C16_frame.

(* what the boolean means (soundness of the reflection) *)
Theorem C16_frame_reads_documented : forall r, In r gen_option_reads ->
  exists s, In s (documented_sites (r_opt r)) /\
    (s_file s = star \/ s_file s = r_file r) /\ (s_site s = star \/ s_site s = r_site r) /\
    (s_ctx s = star \/ s_ctx s = r_ctx r) /\ s_via s = r_via r.
Proof. exact frame_reads_documented. Qed.
Print Assumptions C16_frame_reads_documented.

Theorem C16_frame_sound : forall doc reads,
  forallb (reads_within doc) reads = true ->
  forall r, In r reads -> exists s, In s (doc (r_opt r)) /\ site_match s r = true.
Proof. exact frame_sound. Qed.
Print Assumptions C16_frame_sound.

(* ConfigFile fields = the README's options, with the documented defaults; Config.from_sources copies every field from the
   same-named ConfigFile field / CLI parameter; every option is read somewhere *)
Theorem C16_options_documented : options_documented_ok = true.
Proof. exact options_documented. Qed.
Print Assumptions C16_options_documented.
Theorem C16_defaults_documented : defaults_ok = true.
Proof. exact defaults_documented. Qed.
Print Assumptions C16_defaults_documented.
Theorem C16_merge_faithful : merge_ok = true.
Proof. exact merge_faithful. Qed.
Print Assumptions C16_merge_faithful.
Theorem C16_every_option_read : every_option_read_ok = true.
Proof. exact every_option_read. Qed.
Print Assumptions C16_every_option_read.

(* class_overrides: the overridden Class is a function of the default class name alone (a relabelling) ... *)
Theorem C16_override_is_renaming : forall s p ovs,
  class_from_string s p ovs = rename_class ovs p (fst (class_from_string s p [])).
Proof. exact override_is_renaming. Qed.
Print Assumptions C16_override_is_renaming.
(* ... that leaves unnamed classes alone ... *)
Theorem C16_override_local : forall s p ovs,
  lookup_str (fst (class_from_string s p [])) ovs = None -> class_from_string s p ovs = class_from_string s p [].
Proof. exact override_local. Qed.
Print Assumptions C16_override_local.
(* ... and, under the decidable injectivity guard, keeps distinct classes distinct *)
Theorem C16_override_injective : forall ovs p names n1 n2,
  rename_injective_on ovs p names = true -> In n1 names -> In n2 names ->
  (fst (rename_class ovs p n1) = fst (rename_class ovs p n2) \/ snd (rename_class ovs p n1) = snd (rename_class ovs p n2)) -> n1 = n2.
Proof. exact override_injective. Qed.
Print Assumptions C16_override_injective.
Theorem C16_override_collision_refuted : exists ovs names, rename_injective_on ovs (s2l "field_") names = false.
Proof. exact override_collision_refuted. Qed.
Print Assumptions C16_override_collision_refuted.

Theorem C16_override_module_collision_refuted : exists ovs n1 n2,
  n1 <> n2 /\ fst (rename_class ovs (s2l "field_") n1) <> fst (rename_class ovs (s2l "field_") n2) /\
  snd (rename_class ovs (s2l "field_") n1) = snd (rename_class ovs (s2l "field_") n2) /\
  rename_injective_on ovs (s2l "field_") [n1; n2] = false.
Proof. exact override_module_collision_refuted. Qed.
Print Assumptions C16_override_module_collision_refuted.

(* field_prefix: affects exactly the names that need a prefix *)
Theorem C16_prefix_only_prefixes : forall v skip p1 p2,
  (needs_prefix v skip = false -> python_identifier v p1 skip = python_identifier v p2 skip) /\
  (needs_prefix v skip = true -> (python_identifier v p1 skip = python_identifier v p2 skip <-> p1 = p2)) /\
  (needs_prefix v skip = true -> python_identifier v p1 skip = p1 ++ ident_core v skip).
Proof. exact prefix_only_prefixes. Qed.
Print Assumptions C16_prefix_only_prefixes.
Theorem C16_needs_prefix_spec : forall v skip,
  needs_prefix v skip = true <->
  ident_core v skip = [] \/
  (exists c r, ident_core v skip = c :: r /\ (xid_start c = false \/ forallb xid_continue r = false)) \/
  starts_us v = true.
Proof. exact needs_prefix_spec. Qed.
Print Assumptions C16_needs_prefix_spec.
Theorem C16_class_prefix_only_prefixes : forall v p1 p2, class_needs_prefix v = false -> class_name v p1 = class_name v p2.
Proof. exact class_prefix_only_prefixes. Qed.
Print Assumptions C16_class_prefix_only_prefixes.

(* generate_all_tags: complete characterisation of the tag selection; same endpoint value under every tag; first tag only otherwise *)
Theorem C16_collect_spec : forall (E : Type) all t (ops : list (list str * option E)),
  endpoints_at t (collect all ops) = expected_at all t ops.
Proof. exact collect_spec. Qed.
Print Assumptions C16_collect_spec.
Theorem C16_all_tags_identical : forall (E : Type) (ops : list (list str * option E)) tags e t,
  In (tags, Some e) ops -> In t (op_tags true tags) -> In e (endpoints_at t (collect true ops)).
Proof. exact all_tags_identical. Qed.
Print Assumptions C16_all_tags_identical.
Theorem C16_first_tag_only : forall (E : Type) (ops : list (list str * option E)) e t,
  In e (endpoints_at t (collect false ops)) <-> exists tags, In (tags, Some e) ops /\ hd_error (op_tags true tags) = Some t.
Proof. exact first_tag_only. Qed.
Print Assumptions C16_first_tag_only.
Theorem C16_off_within_on : forall (E : Type) (ops : list (list str * option E)) e t,
  In e (endpoints_at t (collect false ops)) -> In e (endpoints_at t (collect true ops)).
Proof. exact off_within_on. Qed.
Print Assumptions C16_off_within_on.

(* content_type_overrides: classified as the target, sent as itself, other media types untouched *)
Theorem C16_content_type_override : forall ovs ct, get_content_type ovs ct = get_content_type [] (ct_target ovs ct).
Proof. exact content_type_override. Qed.
Print Assumptions C16_content_type_override.
Theorem C16_body_override : forall ovs ct,
  body_of ovs ct = option_map (fun b => {| b_sent := ct; b_type := b_type b |}) (body_of [] (ct_target ovs ct)).
Proof. exact body_override. Qed.
Print Assumptions C16_body_override.
Theorem C16_body_sent_as_itself : forall ovs ct b, body_of ovs ct = Some b -> b_sent b = ct.
Proof. exact body_sent_as_itself. Qed.
Print Assumptions C16_body_sent_as_itself.
Theorem C16_source_override : forall ovs ct, source_of ovs ct = source_of [] (ct_target ovs ct).
Proof. exact source_override. Qed.
Print Assumptions C16_source_override.
Theorem C16_content_type_override_local : forall ovs ct, lookup_str ct ovs = None ->
  get_content_type ovs ct = get_content_type [] ct /\ body_of ovs ct = body_of [] ct /\ source_of ovs ct = source_of [] ct.
Proof. exact content_type_override_local. Qed.
Print Assumptions C16_content_type_override_local.

(* metadata flavour: file set = package subtree (function of the document alone) under the package prefix + the flavour's own files *)
Theorem C16_flavour_files : forall fl pkg d p,
  In p (gen_files fl pkg d) <-> In p (map (app (pkg_prefix fl pkg)) (core_files d)) \/ In p (flavour_only fl pkg).
Proof. exact flavour_files. Qed.
Print Assumptions C16_flavour_files.
Theorem C16_flavour_only_table : forall pkg,
  flavour_only FNone pkg = [] /\
  flavour_only FPoetry pkg = [[f_pyproject]; [f_readme]; [f_gitignore]; [pkg; f_pytyped]] /\
  flavour_only FPdm pkg = [[f_pyproject]; [f_readme]; [f_gitignore]; [pkg; f_pytyped]] /\
  flavour_only FSetup pkg = [[f_pyproject]; [f_setup]; [f_readme]; [f_gitignore]; [pkg; f_pytyped]].
Proof. exact flavour_only_table. Qed.
Print Assumptions C16_flavour_only_table.

(* use_path_prefixes_for_title_model_names *)
Theorem C16_title_prefix_option : forall b title name parent,
  ((title = None \/ title = Some []) -> model_class_string b title name parent = model_class_string true title name parent) /\
  (forall c r, title = Some (c :: r) -> model_class_string false title name parent = c :: r).
Proof. exact title_prefix_option. Qed.
Print Assumptions C16_title_prefix_option.

(* literal_enums: Enum class and Literal alias accept the same typed values and emit the same JSON (Codec.v step semantics) *)
Theorem C16_literal_enum_same_wire : forall orc T d e cls vt vals j,
  forallb (vty_of_json vt) vals = true -> vty_of_json vt j = true ->
  bind (dec_step orc T d (KEnum cls vt vals) j) (enc_step T e (KEnum cls vt vals)) =
  bind (dec_step orc T d (KLitEnum vt vals) j) (enc_step T e (KLitEnum vt vals)) /\
  bind (dec_step orc T d (KLitEnum vt vals) j) (enc_step T e (KLitEnum vt vals)) =
    if existsb (py_scalar_eqb j) vals then Some j else None.
Proof. exact literal_enum_same_wire. Qed.
Print Assumptions C16_literal_enum_same_wire.
Theorem C16_literal_enum_same_wire_refuted : exists orc T d e cls vt vals j,
  forallb (vty_of_json vt) vals = true /\ vty_of_json vt j = false /\
  bind (dec_step orc T d (KEnum cls vt vals) j) (enc_step T e (KEnum cls vt vals)) <>
  bind (dec_step orc T d (KLitEnum vt vals) j) (enc_step T e (KLitEnum vt vals)).
Proof. exact literal_enum_same_wire_refuted. Qed.
Print Assumptions C16_literal_enum_same_wire_refuted.

(* literal_enums does not change which operations are generated: same allowed parameter locations, same wire macros *)
Theorem C16_literal_enum_same_operations : forall cls vt vals l req,
  validate_location (KEnum cls vt vals) l req = validate_location (KLitEnum vt vals) l req.
Proof. exact literal_enum_same_operations. Qed.
Print Assumptions C16_literal_enum_same_operations.
Theorem C16_literal_enum_same_macros : forall cls vt vals, wire_macros (KEnum cls vt vals) = wire_macros (KLitEnum vt vals).
Proof. exact literal_enum_same_macros. Qed.
Print Assumptions C16_literal_enum_same_macros.

(* project_name_override / package_name_override: overrides verbatim; the derived package name is the literal `-` -> `_` replacement *)
Theorem C16_project_name_override_verbatim : forall c r title, project_name (Some (c :: r)) title = c :: r.
Proof. exact project_name_override_verbatim. Qed.
Print Assumptions C16_project_name_override_verbatim.
Theorem C16_package_name_override_verbatim : forall c r po title, package_name (Some (c :: r)) po title = c :: r.
Proof. exact package_name_override_verbatim. Qed.
Print Assumptions C16_package_name_override_verbatim.
Theorem C16_package_name_is_dash_replacement : forall po title,
  let p := project_name po title in
  let k := package_name None po title in
  List.length k = List.length p /\
  forall i, nth i k 0 = (if nth i p 0 =? 45 then 95 else nth i p 0).
Proof. exact package_name_is_dash_replacement. Qed.
Print Assumptions C16_package_name_is_dash_replacement.
Theorem C16_package_name_keeps_other_chars : forall c r title x,
  In x (package_name None (Some (c :: r)) title) -> x <> 45 /\ (In x (c :: r) \/ (x = 95 /\ In 45 (c :: r))).
Proof. exact package_name_keeps_other_chars. Qed.
Print Assumptions C16_package_name_keeps_other_chars.

(* --file-encoding: every writer of a generated file passes encoding=config.file_encoding *)
Theorem C16_all_writers_encoded : writers_ok = true.
Proof. exact all_writers_encoded. Qed.
Print Assumptions C16_all_writers_encoded.
Theorem C16_writers_sound : forall f site callee enc, In (f, site, callee, enc) gen_writers -> enc = true.
Proof. exact writers_sound. Qed.
Print Assumptions C16_writers_sound.
(* docstrings: document text enters a triple-quoted literal only through helpers.jinja safe_docstring *)
Theorem C16_docstring_literals_documented : docstring_literals_ok = true.
Proof. exact docstring_literals_documented. Qed.
Print Assumptions C16_docstring_literals_documented.
Theorem C16_docstring_literals_sound : forall f e, In (f, e) gen_docstring_literals ->
  (f = s2l "templates/helpers.jinja" /\ e = s2l "content") \/ f = s2l "templates/client.py.jinja".
Proof. exact docstring_literals_sound. Qed.
Print Assumptions C16_docstring_literals_sound.

(* metadata templates (every flavour) read only the derived names / version: the version only through package_version *)
Theorem C16_metadata_reads_documented : metadata_reads_ok = true.
Proof. exact metadata_reads_documented. Qed.
Print Assumptions C16_metadata_reads_documented.
Theorem C16_metadata_reads_sound : forall f e, In (f, e) gen_metadata_reads -> In e documented_metadata_vars.
Proof. exact metadata_reads_sound. Qed.
Print Assumptions C16_metadata_reads_sound.
Theorem C16_metadata_version_only_through_package_version : forall f e, In (f, e) gen_metadata_reads ->
  e <> s2l "openapi.version" /\ e <> s2l "openapi" /\ e <> s2l "config.package_version_override" /\ e <> s2l "config".
Proof. exact metadata_version_only_through_package_version. Qed.
Print Assumptions C16_metadata_version_only_through_package_version.
Theorem C16_version_declared : version_declared_ok = true.
Proof. exact version_declared. Qed.
Print Assumptions C16_version_declared.
