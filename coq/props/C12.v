Require Import OPC.Uni OPC.Order OPC.Registry OPC.gen.GenLoops OPC.gen.GenImports OPC.OrderThm OPC.Retry OPC.RetryThm OPC.RegistryThm.
From Coq Require Import NArith List Bool Permutation. Import ListNotations. Open Scope N_scope.

(* Python's sorted(S) on a set of strings gives one list for every enumeration order of S (union type strings, response_type) *)
Theorem C12_py_sorted_perm_invariant : forall l l', Permutation l l' -> py_sorted l = py_sorted l'.
Proof. exact py_sorted_perm_invariant. Qed.
Print Assumptions C12_py_sorted_perm_invariant.

(* the Jinja `| sort` filter (case-insensitive, stable) does so for sets without two elements that differ only in case *)
Theorem C12_jinja_sort_perm_invariant : forall l l', Permutation l l' -> keys_distinct lower l = true -> jinja_sort l = jinja_sort l'.
Proof. exact jinja_sort_perm_invariant. Qed.
Print Assumptions C12_jinja_sort_perm_invariant.

Theorem C12_jinja_sort_case_tie_refuted : exists l l', Permutation l l' /\ NoDup l /\ jinja_sort l <> jinja_sort l'.
Proof. exact jinja_sort_case_tie_refuted. Qed.
Print Assumptions C12_jinja_sort_case_tie_refuted.

(* a renderer whose sites all sort is invariant under any permutation of every set's enumeration *)
Theorem C12_sorted_emission_deterministic : forall sites e e',
  forallb (fun b => b) sites = true -> Forall2 (@Permutation str) e e' -> Forall (fun l => keys_distinct lower l = true) e ->
  render sites e = render sites e'.
Proof. exact sorted_emission_deterministic. Qed.
Print Assumptions C12_sorted_emission_deterministic.

(* one unsorted site is enough for two enumerations with different output *)
Theorem C12_unsorted_refuted : forall sites, forallb (fun b => b) sites = false ->
  exists e e', Forall2 (@Permutation str) e e' /\ Forall (fun l => keys_distinct lower l = true) e /\ render sites e <> render sites e'.
Proof. exact unsorted_refuted. Qed.
Print Assumptions C12_unsorted_refuted.

(* regenerated table: every set-to-order site sorts, or cannot reach generated files, or is a listed known-finding site (lazy_imports loops of model.py.jinja, the member loop of int_enum.py.jinja) *)
Theorem C12_all_loops_sorted_except_known : forallb loop_ok_or_known gen_loops = true.
Proof. exact all_loops_sorted_except_known. Qed.
Print Assumptions C12_all_loops_sorted_except_known.

Theorem C12_all_loops_sorted_if_fixed : known_fixed gen_loops = true -> forallb loop_ok gen_loops = true.
Proof. exact all_loops_sorted_if_fixed. Qed.
Print Assumptions C12_all_loops_sorted_if_fixed.

(* the verdict for the tree as it is now (holds before and after the fix; which branch applies is computed from the table) *)
Theorem C12_rendering_verdict :
  if known_fixed gen_loops
  then forall e e', Forall2 (@Permutation str) e e' -> Forall (fun l => keys_distinct lower l = true) e ->
                    render (output_sites gen_loops) e = render (output_sites gen_loops) e'
  else exists e e', Forall2 (@Permutation str) e e' /\ Forall (fun l => keys_distinct lower l = true) e /\
                    render (output_sites gen_loops) e <> render (output_sites gen_loops) e'.
Proof. exact rendering_verdict. Qed.
Print Assumptions C12_rendering_verdict.

(* order part: the retry-until-no-progress loop handles exactly the derivable nodes, for every order of the to-do list *)
Theorem C12_retry_sound : forall g todo n, In n (fst (process g todo)) -> Derivable g todo n.
Proof. exact process_sound. Qed.
Print Assumptions C12_retry_sound.

Theorem C12_retry_complete : forall g todo n, Derivable g todo n -> In n (fst (process g todo)).
Proof. exact process_complete. Qed.
Print Assumptions C12_retry_complete.

Theorem C12_order_independent : forall g todo todo', Permutation todo todo' ->
  forall n, In n (fst (process g todo)) <-> In n (fst (process g todo')).
Proof. exact order_independent. Qed.
Print Assumptions C12_order_independent.

Theorem C12_clean_run_order_independent : forall g todo todo', Permutation todo todo' ->
  snd (process g todo) = [] -> forall n, In n todo' -> In n (fst (process g todo')).
Proof. exact clean_run_order_independent. Qed.
Print Assumptions C12_clean_run_order_independent.

(* order part, registry: raising a flag on re-registration (the multipart body copy) depends only on the SET of uses ... *)
Theorem C12_sticky_order_independent : forall uses uses' c, Permutation uses uses' -> reg_get (sticky_final uses) c = reg_get (sticky_final uses') c.
Proof. exact sticky_order_independent. Qed.
Print Assumptions C12_sticky_order_independent.

(* ... whereas last-registration-wins is order dependent, except when all uses of a class agree *)
Theorem C12_overwrite_refuted : exists uses uses' c, Permutation uses uses' /\ reg_get (overwrite_final uses) c <> reg_get (overwrite_final uses') c.
Proof. exact overwrite_refuted. Qed.
Print Assumptions C12_overwrite_refuted.

Theorem C12_overwrite_order_independent_if_consistent : forall uses uses' c,
  Permutation uses uses' -> uses_consistent uses = true -> reg_get (overwrite_final uses) c = reg_get (overwrite_final uses') c.
Proof. exact overwrite_order_independent_if_consistent. Qed.
Print Assumptions C12_overwrite_order_independent_if_consistent.

(* regenerated table of registration sites: every re-binding of a class name is first-only, compatibility-checked or sticky *)
Theorem C12_registrations_safe : forallb reg_ok gen_registrations = true.
Proof. exact registrations_safe. Qed.
Print Assumptions C12_registrations_safe.

(* _process_models with its recursion test: with the exact test (whole last segment = class name) the processed set is the least fixed point, for every order *)
Theorem C12_rec_exact_order_independent : forall g todo todo', Permutation todo todo' ->
  forall n, In n (fst (process_rec N.eqb g todo)) <-> In n (fst (process_rec N.eqb g todo')).
Proof. exact rec_exact_order_independent. Qed.
Print Assumptions C12_rec_exact_order_independent.

Theorem C12_process_rec_complete : forall g todo n, Derivable g todo n -> In n (fst (process_rec N.eqb g todo)).
Proof. exact process_rec_complete. Qed.
Print Assumptions C12_process_rec_complete.

Theorem C12_rec_sloppy_refuted : exists self g todo todo' n,
  Permutation todo todo' /\ In n (fst (process_rec self g todo')) /\ ~ In n (fst (process_rec self g todo)).
Proof. exact rec_sloppy_refuted. Qed.
Print Assumptions C12_rec_sloppy_refuted.

Theorem C12_recursion_test_is_exact : gen_recursion_test_exact = true.
Proof. exact recursion_test_is_exact. Qed.
Print Assumptions C12_recursion_test_is_exact.

(* a node that is not ready does not change the state the rest of the round (and the retry) starts from *)
Theorem C12_failed_attempt_no_trace : forall g done n t, ready g done n = false ->
  round g done (n :: t) = (fst (round g done t), n :: snd (round g done t)).
Proof. exact failed_attempt_no_trace. Qed.
Print Assumptions C12_failed_attempt_no_trace.

Theorem C12_registries_are_persistent : gen_registries_persistent = true.
Proof. exact registries_are_persistent. Qed.
Print Assumptions C12_registries_are_persistent.

(* the case-insensitive sort key is injective on the regenerated pool of fixed import lines; sets drawn from it are emitted in one order *)
Theorem C12_import_pool_keys_distinct : keys_distinct lower gen_import_pool = true.
Proof. exact import_pool_keys_distinct. Qed.
Print Assumptions C12_import_pool_keys_distinct.

Theorem C12_import_probe_complete : gen_import_probe_complete = true.
Proof. exact import_probe_complete. Qed.
Print Assumptions C12_import_probe_complete.

Theorem C12_pool_imports_sorted_invariant : forall l l', NoDup l -> (forall x, In x l -> In x gen_import_pool) ->
  Permutation l l' -> jinja_sort l = jinja_sort l'.
Proof. exact pool_imports_sorted_invariant. Qed.
Print Assumptions C12_pool_imports_sorted_invariant.

Theorem C12_create_retry_is_unconditional : gen_create_retry_unconditional = true.
Proof. exact create_retry_is_unconditional. Qed.
Print Assumptions C12_create_retry_is_unconditional.
