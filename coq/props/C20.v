Require Import OPC.gen.GenParams OPC.Uni OPC.Refs OPC.RefsThm.
From Coq Require Import NArith List Bool. Import ListNotations. Open Scope N_scope.

(* ---- regenerated facts: every field of oai.Parameter, that add_parameters reads is copied by parameter_from_data; the model reads
   exactly those fields; a schema reference may only change name / python_name / required / default *)
Theorem C20_gen_params_facts :
  gen_params_known = true /\ subsetN gen_param_reads gen_param_copied = true /\
  subsetN gen_param_reads model_reads = true /\ subsetN model_reads gen_param_reads = true /\
  subsetN model_reads gen_param_copied = true.
Proof. exact gen_params_facts. Qed.
Print Assumptions C20_gen_params_facts.

Theorem C20_gen_ref_evolved_ok : forallb (fun f => mem_str f ref_may_change) gen_ref_evolved = true.
Proof. exact gen_ref_evolved_ok. Qed.
Print Assumptions C20_gen_ref_evolved_ok.

(* ---- (a) reference strings *)
Theorem C20_simple_name_last_segment : forall p n, memN 47 n = false -> get_reference_simple_name (p ++ 47 :: n) = n.
Proof. exact simple_name_last_segment. Qed.
Print Assumptions C20_simple_name_last_segment.

Theorem C20_parse_ref_local : forall frag, parse_reference_path (35 :: frag) = PROk (filter plain_char frag).
Proof. exact parse_ref_local. Qed.
Print Assumptions C20_parse_ref_local.

Theorem C20_ref_netloc_ignored_refuted :
  exists raw frag, g_no_authority raw = false /\ parse_reference_path raw = PROk frag /\ parse_reference_path (35 :: frag) = PROk frag.
Proof. exact ref_netloc_ignored_refuted. Qed.
Print Assumptions C20_ref_netloc_ignored_refuted.

Theorem C20_ref_urlparse_crash_refuted : exists raw, parse_reference_path raw = PRCrash.
Proof. exact ref_urlparse_crash_refuted. Qed.
Print Assumptions C20_ref_urlparse_crash_refuted.

(* ---- (b) request-body reference chains (any length) *)
Theorem C20_body_ref_terminates : forall (B : Type) (comps : list (str * body_entry B)) start, resolve_body comps start <> BRFuel.
Proof. intro B. exact body_ref_terminates. Qed.
Print Assumptions C20_body_ref_terminates.

Theorem C20_body_ref_chain : forall (B : Type) (comps : list (str * body_entry B)) r rs b,
  NoDup (r :: rs) -> links comps r rs (Some (BBody b)) -> resolve_body comps (Some (BRef r)) = BROk b.
Proof. intro B. exact body_ref_chain. Qed.
Print Assumptions C20_body_ref_chain.

Theorem C20_body_ref_inline : forall (B : Type) (comps : list (str * body_entry B)) r rs b,
  NoDup (r :: rs) -> links comps r rs (Some (BBody b)) ->
  resolve_body comps (Some (BRef r)) = resolve_body comps (Some (BBody b)).
Proof. intro B. exact body_ref_inline. Qed.
Print Assumptions C20_body_ref_inline.

Theorem C20_body_ref_missing : forall (B : Type) (comps : list (str * body_entry B)) r rs,
  NoDup (r :: rs) -> links comps r rs None -> resolve_body comps (Some (BRef r)) = BRMissing (last (r :: rs) r).
Proof. intro B. exact body_ref_missing. Qed.
Print Assumptions C20_body_ref_missing.

Theorem C20_body_ref_cycle : forall (B : Type) (comps : list (str * body_entry B)) r rs r',
  NoDup (r :: rs) -> In r' (r :: rs) -> links comps r rs (Some (BRef r')) ->
  resolve_body comps (Some (BRef r)) = BRCircular r'.
Proof. intro B. exact body_ref_cycle. Qed.
Print Assumptions C20_body_ref_cycle.

Theorem C20_body_ref_local_lookup : forall r, g_body_ref_local r = true -> r = body_ref_prefix ++ get_reference_simple_name r.
Proof. exact body_ref_local_lookup. Qed.
Print Assumptions C20_body_ref_local_lookup.

Theorem C20_body_ref_prefix_ignored_refuted :
  exists (comps : list (str * body_entry N)) r1 r2 b,
    parse_reference_path r1 = PRRemote /\ g_body_ref_local r1 = false /\ resolve_body comps (Some (BRef r1)) = BROk b /\
    g_body_ref_local r2 = false /\ resolve_body comps (Some (BRef r2)) = BROk b.
Proof. exact body_ref_prefix_ignored_refuted. Qed.
Print Assumptions C20_body_ref_prefix_ignored_refuted.

(* ---- (c) parameters *)
Theorem C20_copy_reads : forall p f, memN f gen_param_copied = true -> pget (copy_param p) f = pget p f.
Proof. exact copy_reads. Qed.
Print Assumptions C20_copy_reads.

Theorem C20_table_is_copy : forall comps frag,
  assoc frag (fst (build_parameters comps)) = option_map copy_param (raw_lookup comps frag).
Proof. exact table_is_copy. Qed.
Print Assumptions C20_table_is_copy.

Theorem C20_param_ref_inline : forall (St P : Type) (build : St -> str -> bool -> N -> option (P * St)) (validate : P -> loc -> bool) comps its its',
  inline_items comps its = Some its' ->
  forall uniq e st,
  add_loop St P build validate (fst (build_parameters comps)) its uniq e st =
  add_loop St P build validate (fst (build_parameters comps)) its' uniq e st.
Proof. exact param_ref_inline. Qed.
Print Assumptions C20_param_ref_inline.

Theorem C20_param_ref_inline_endpoint : forall (St P : Type) (build : St -> str -> bool -> N -> option (P * St)) (validate : P -> loc -> bool)
    (finish : eparams P -> eparams P + perr) (middle : St -> option St) comps ops ops' pis pis' st,
  inline_items comps ops = Some ops' -> inline_items comps pis = Some pis' ->
  endpoint_parameters St P build validate finish middle (fst (build_parameters comps)) (Some ops) (Some pis) st =
  endpoint_parameters St P build validate finish middle (fst (build_parameters comps)) (Some ops') (Some pis') st.
Proof. exact param_ref_inline_endpoint. Qed.
Print Assumptions C20_param_ref_inline_endpoint.

Theorem C20_param_ref_canonical : forall comps n p,
  forallb name_plain (map fst comps) = true -> name_plain n = true ->
  assoc n comps = Some (CParam p) -> pget p gf_param_schema <> PVnone ->
  inline_item comps (PIRef (gen_param_ref_prefix ++ n)) = Some (PIParam p).
Proof. exact param_ref_canonical. Qed.
Print Assumptions C20_param_ref_canonical.

Theorem C20_path_item_never_overrides : forall (St P : Type) (build : St -> str -> bool -> N -> option (P * St)) (validate : P -> loc -> bool)
    t it p sch rest uniq e st,
  parameter_from_reference t it = inl p -> p_schema p = Some sch ->
  key_in (p_name p) (p_loc p) uniq = false -> present P (p_name p) (p_loc p) e = true ->
  add_loop St P build validate t (it :: rest) uniq e st =
  add_loop St P build validate t rest ((p_name p, p_loc p) :: uniq) e st.
Proof. exact path_item_never_overrides. Qed.
Print Assumptions C20_path_item_never_overrides.

Theorem C20_bad_param_ref_contained : forall (St P : Type) (build : St -> str -> bool -> N -> option (P * St)) (validate : P -> loc -> bool)
    t r rest uniq e st,
  (forall frag, parse_reference_path r = PROk frag -> assoc frag t = None) ->
  exists err, add_loop St P build validate t (PIRef r :: rest) uniq e st = (inr err, st).
Proof. exact bad_param_ref_contained. Qed.
Print Assumptions C20_bad_param_ref_contained.

Theorem C20_param_ref_no_schema_refuted :
  exists comps r p, assoc [81] comps = Some (CParam p) /\ r = gen_param_ref_prefix ++ [81] /\
    add_loop unit N u_build (fun _ _ => true) (fst (build_parameters comps)) [PIParam p] [] [] tt = (inl [], tt) /\
    add_loop unit N u_build (fun _ _ => true) (fst (build_parameters comps)) [PIRef r] [] [] tt = (inr ENotFound, tt).
Proof. exact param_ref_no_schema_refuted. Qed.
Print Assumptions C20_param_ref_no_schema_refuted.

Theorem C20_param_key_collision_refuted :
  exists comps p1 p2, assoc [97;98] comps = Some (CParam p2) /\ p1 <> p2 /\
    g_param_keys_plain comps = false /\
    inline_item comps (PIRef (gen_param_ref_prefix ++ [97;98])) = Some (PIParam p1).
Proof. exact param_key_collision_refuted. Qed.
Print Assumptions C20_param_key_collision_refuted.

(* ---- (d) responses *)
Theorem C20_response_ref : forall (R : Type) (comps : list (str * resp_entry R)) n x,
  name_plain n = true -> memN 47 n = false -> assoc n comps = Some (RResp x) ->
  resolve_response comps (RRefE (35 :: gen_response_prefix ++ n)) = resolve_response comps (RResp x).
Proof. intro R. exact response_ref. Qed.
Print Assumptions C20_response_ref.

Theorem C20_response_other_error : forall (R : Type) (comps : list (str * resp_entry R)) r x,
  g_no_authority r = true -> g_single_segment r = true ->
  resolve_response comps (RRefE r) = RROk x ->
  exists n, url_clean r = 35 :: gen_response_prefix ++ n /\ memN 47 n = false /\ assoc n comps = Some (RResp x).
Proof. intro R. exact response_other_error. Qed.
Print Assumptions C20_response_other_error.

Theorem C20_response_ref_segments_refuted :
  exists (comps : list (str * resp_entry N)) r x, g_no_authority r = true /\ g_single_segment r = false /\ resolve_response comps (RRefE r) = RROk x.
Proof. exact response_ref_segments_refuted. Qed.
Print Assumptions C20_response_ref_segments_refuted.

Theorem C20_response_ref_netloc_refuted :
  exists (comps : list (str * resp_entry N)) r x, g_no_authority r = false /\ resolve_response comps (RRefE r) = RROk x.
Proof. exact response_ref_netloc_refuted. Qed.
Print Assumptions C20_response_ref_netloc_refuted.

(* ---- (e) schema references *)
Theorem C20_ref_same_wire : forall (V : Type) (existing : prop_attrs V) upd k,
  mem_str k ref_may_change = false -> assoc k (evolve_ref existing upd) = assoc k existing.
Proof. exact ref_same_wire. Qed.
Print Assumptions C20_ref_same_wire.
