Require Import OPC.gen.GenKinds OPC.Uni OPC.Names OPC.Codec OPC.CodecThm OPC.Types OPC.TypesThm OPC.Endpoint OPC.EndpointThm.
From Coq Require Import NArith ZArith List Bool. Import ListNotations. Open Scope N_scope.

(* absent: an optional property that is missing reads back as UNSET, whatever its kind; UNSET is never transmitted *)
Theorem C10_optional_absent_unset : forall d k, dec_field d k false None = Some PUnset.
Proof. exact optional_absent_unset. Qed.
Print Assumptions C10_optional_absent_unset.
Theorem C10_unset_not_encoded : forall e k, enc_field e k false PUnset = Some None.
Proof. exact unset_not_encoded. Qed.
Print Assumptions C10_unset_not_encoded.
(* required: always emitted; absent on input is an error, never a silent default *)
Theorem C10_required_always_emitted : forall e k v o, enc_field e k true v = Some o -> o <> None.
Proof. exact required_always_emitted. Qed.
Theorem C10_required_absent_error : forall d k, dec_field d k true None = None.
Proof. exact required_absent_error. Qed.
(* null <-> None for every union with a null member, both directions *)
Theorem C10_null_decodes_to_none : forall orc T f ms, existsb is_knone ms = true ->
  dec orc T (S f) (KUnion ms) JNull = Some (PJ JNull).
Proof. exact null_decodes_to_none. Qed.
Print Assumptions C10_null_decodes_to_none.
Theorem C10_none_encodes_to_null : forall (orc : oracles) T f ms, existsb is_knone ms = true ->
  enc T (S f) (KUnion ms) (PJ JNull) = Some JNull.
Proof. exact none_encodes_to_null. Qed.
Print Assumptions C10_none_encodes_to_null.
(* a kind without a null member does not accept null *)
Theorem C10_null_invalid_when_not_nullable : forall orc T f k,
  k_ok k = true -> valid orc T f k JNull = true ->
  match k with KAny | KNone => True | KConst c => c = JNull | KUnion ms => exists m, In m ms /\ valid orc T (pred f) m JNull = true | _ => False end.
Proof. exact null_invalid_when_not_nullable. Qed.
(* the declared type admits None exactly when the schema is nullable; an optional declaration admits UNSET *)
Theorem C10_type_admits_none_iff_nullable : forall k req, admits_none (type_of k req) = nullable k.
Proof. exact type_admits_none_iff_nullable. Qed.
Print Assumptions C10_type_admits_none_iff_nullable.
Theorem C10_optional_admits_unset : forall k, admits_unset (type_of k false) = true.
Proof. exact optional_admits_unset. Qed.
(* mandatory argument <-> required without a default *)
Theorem C10_mandatory_iff_required_nodefault : forall req d, decl_has_default req d = false <-> (req = true /\ d = false).
Proof. exact mandatory_iff_required_nodefault. Qed.
(* parameters: an unset optional query / header / cookie argument is not transmitted *)
Theorem C10_query_unset_absent : forall T f ps a d p,
  In p ps -> NoDup (wire_names ps) -> no_dict_params ps = true ->
  pa_req p = false -> arg a (pa_py p) = Some PUnset ->
  query_of T f ps a [] = Some d -> m_get (pa_name p) (drop_unset_none d) = None.
Proof. exact query_unset_absent. Qed.
Theorem C10_header_unset_absent : forall ps a d p,
  In p ps -> NoDup (wire_names ps) -> pa_req p = false -> arg a (pa_py p) = Some PUnset ->
  headers_of ps a [] = Some d -> m_get (pa_name p) d = None.
Proof. exact header_unset_absent. Qed.
Theorem C10_cookie_unset_absent : forall ps a d p,
  In p ps -> NoDup (wire_names ps) -> pa_req p = false -> arg a (pa_py p) = Some PUnset ->
  cookies_of ps a [] = Some d -> m_get (pa_name p) d = None.
Proof. exact cookie_unset_absent. Qed.
