Require Import OPC.Uni OPC.Names OPC.NamesThm OPC.Fs OPC.FsThm.
From Coq Require Import NArith List Bool. Import ListNotations. Open Scope N_scope.

(* without --overwrite an existing output directory is left untouched and an error is reported *)
Theorem C19_no_overwrite_untouched : forall fl pkg d id t, build fl pkg false true d id t = (t, true).
Proof. exact no_overwrite_untouched. Qed.
Print Assumptions C19_no_overwrite_untouched.

(* one generation: every generated file is fresh, nothing stale remains under models/ and api/, everything else is untouched *)
Theorem C19_build_postcondition : forall fl pkg d id t p,
  lookup_path (build_steps fl pkg d id t) p =
    if mem_path p (gen_files fl pkg d) then Some (Gen id)
    else if managed fl pkg p then None else lookup_path t p.
Proof. exact build_postcondition. Qed.
Print Assumptions C19_build_postcondition.

(* for EVERY history of generations and user writes, after the last generation the managed subtrees are exactly fresh *)
Theorem C19_overwrite_converges : forall fl pkg h t id d p,
  managed fl pkg p = true ->
  lookup_path (run fl pkg (h ++ [Build id d]) t) p = if mem_path p (gen_files fl pkg d) then Some (Gen id) else None.
Proof. exact overwrite_converges. Qed.
Print Assumptions C19_overwrite_converges.

Theorem C19_user_files_untouched : forall fl pkg h t p,
  managed fl pkg p = false ->
  (forall id d, In (Build id d) h -> mem_path p (gen_files fl pkg d) = false) ->
  lookup_path (run fl pkg h t) p = lookup_path (run fl pkg (filter is_user h) t) p.
Proof. exact user_files_untouched. Qed.
Print Assumptions C19_user_files_untouched.

(* every written path consists of safe components, whatever names the document contains *)
Theorem C19_writes_confined : forall fl pkg d p,
  safe_component pkg = true ->
  forallb safe_chars (d_models d) = true ->
  forallb (fun te => safe_component (fst te) && forallb safe_chars (snd te)) (d_tags d) = true ->
  In p (gen_files fl pkg d) -> forallb safe_component p = true.
Proof. exact writes_confined. Qed.
Print Assumptions C19_writes_confined.

Theorem C19_derived_component_safe : forall value prefix,
  good_prefix prefix = true -> forallb path_char prefix = true ->
  safe_component (python_identifier value prefix false) = true.
Proof. exact derived_component_safe. Qed.
Print Assumptions C19_derived_component_safe.

Theorem C19_derived_module_safe : forall value prefix,
  forallb path_char prefix = true -> safe_chars (python_identifier value prefix false) = true.
Proof. exact derived_module_safe. Qed.
Print Assumptions C19_derived_module_safe.

Theorem C19_project_name_chars : forall title, forallb path_char (kebab_case title) = true.
Proof. exact kebab_case_path_chars. Qed.
Print Assumptions C19_project_name_chars.
