Require Import OPC.gen.GenKinds OPC.Uni OPC.Names OPC.Codec OPC.Types OPC.Endpoint OPC.EndpointThm OPC.Parse OPC.ParseThm OPC.Multipart OPC.MultipartThm OPC.Client OPC.ClientThm OPC.Cookies OPC.CookiesThm.
From Coq Require Import NArith ZArith List Bool. Import ListNotations. Open Scope N_scope.

(* every query / header / cookie argument appears under exactly its wire name in exactly its location, with its encoded value *)
Theorem C03_query_placement : forall T f ps a d p v x,
  In p ps -> NoDup (wire_names ps) -> no_dict_params ps = true ->
  arg a (pa_py p) = Some v ->
  (if has_transform (pa_kind p)
   then exists j, enc_field (enc T f) (pa_kind p) (pa_req p) v = Some (Some j) /\ x = PJ j
   else x = v) ->
  x <> PUnset -> x <> PJ JNull ->
  query_of T f ps a [] = Some d -> m_get (pa_name p) (drop_unset_none d) = Some x.
Proof. exact query_placement. Qed.
Print Assumptions C03_query_placement.
Theorem C03_header_placement : forall ps a d p v hv,
  In p ps -> NoDup (wire_names ps) -> arg a (pa_py p) = Some v -> (pa_req p = true \/ v <> PUnset) ->
  header_value (pa_kind p) v = Some hv ->
  headers_of ps a [] = Some d -> m_get (pa_name p) d = Some hv.
Proof. exact header_placement. Qed.
Print Assumptions C03_header_placement.
Theorem C03_cookie_placement : forall ps a d p v,
  In p ps -> NoDup (wire_names ps) -> arg a (pa_py p) = Some v -> (pa_req p = true \/ v <> PUnset) ->
  cookies_of ps a [] = Some d -> m_get (pa_name p) d = Some v.
Proof. exact cookie_placement. Qed.
Print Assumptions C03_cookie_placement.
(* nothing else is sent in these locations *)
Theorem C03_query_nothing_else : forall T f ps a d key x,
  no_dict_params ps = true -> query_of T f ps a [] = Some d -> m_get key (drop_unset_none d) = Some x -> In key (wire_names ps).
Proof. exact query_nothing_else. Qed.
Theorem C03_header_nothing_else : forall ps a d key x,
  headers_of ps a [] = Some d -> m_get key d = Some x -> In key (wire_names ps).
Proof. exact header_nothing_else. Qed.
Theorem C03_cookie_nothing_else : forall ps a d key x,
  cookies_of ps a [] = Some d -> m_get key d = Some x -> In key (wire_names ps).
Proof. exact cookie_nothing_else. Qed.
(* unset optional arguments are not sent *)
Theorem C03_query_unset_absent : forall T f ps a d p,
  In p ps -> NoDup (wire_names ps) -> no_dict_params ps = true ->
  pa_req p = false -> arg a (pa_py p) = Some PUnset ->
  query_of T f ps a [] = Some d -> m_get (pa_name p) (drop_unset_none d) = None.
Proof. exact query_unset_absent. Qed.
Print Assumptions C03_query_unset_absent.
Theorem C03_header_unset_absent : forall ps a d p,
  In p ps -> NoDup (wire_names ps) -> pa_req p = false -> arg a (pa_py p) = Some PUnset ->
  headers_of ps a [] = Some d -> m_get (pa_name p) d = None.
Proof. exact header_unset_absent. Qed.
Theorem C03_cookie_unset_absent : forall ps a d p,
  In p ps -> NoDup (wire_names ps) -> pa_req p = false -> arg a (pa_py p) = Some PUnset ->
  cookies_of ps a [] = Some d -> m_get (pa_name p) d = None.
Proof. exact cookie_unset_absent. Qed.

(* path placeholders are filled in their own slots: the sequential str.replace rewrite of sort_parameters followed by str.format
   equals substituting each {wire name} by its own argument, for ALL templates and parameter lists inside the guard *)
Theorem C03_path_slots : forall segs ps a,
  lits_ok segs = true -> slots segs = wire_names ps -> NoDup (wire_names ps) -> NoDup (map pa_py ps) ->
  forallb (fun p => plain_name (pa_py p)) ps = true -> no_capture ps ->
  (forall p, In p ps -> exists v t, arg a (pa_py p) = Some v /\ str_of v = Some t) ->
  format_path (rewrite_path (render_tpl segs) ps) a = subst_segs segs ps a.
Proof. exact path_slots. Qed.
Print Assumptions C03_path_slots.

Theorem C03_method_literal : forall T f ep a k, get_kwargs T f ep a = Some k -> kw_method k = ep_method ep.
Proof. exact method_literal. Qed.
Theorem C03_content_type_matches : forall T f ep a k b,
  ep_bodies ep = [b] -> (b_type b = BJson \/ b_type b = BData) -> get_kwargs T f ep a = Some k ->
  exists hs, kw_headers k = Some hs /\ m_get s_content_type hs = Some (PJ (JStr (b_ctype b))).
Proof. exact content_type_matches. Qed.
Print Assumptions C03_content_type_matches.
Theorem C03_security_demands_auth : forall ep, client_param ep = CAuthenticated <-> ep_security ep = true.
Proof. exact security_demands_auth. Qed.
(* the guard "body classes distinct" is necessary *)
Theorem C03_multi_body_same_type_refuted : exists T f ep a k,
  get_kwargs T f ep a = Some k /\ kw_json k <> None /\ kw_data k <> None.
Proof. exact multi_body_same_type_refuted. Qed.

(* document level: every declared request media type becomes a body of its own type or a diagnostic *)
Theorem C03_body_plan_total : forall ct hs, exists p, body_plan ct hs = p /\ (p = BInvalidType \/ p = BMissingSchema \/ p = BUnsupported \/ exists t, p = BBody t).
Proof. exact body_plan_total. Qed.
Theorem C03_body_plan_json : forall s, str_eqb s s_app_json = true -> body_plan (Some s) true = BBody BJson.
Proof. exact body_plan_json. Qed.

(* multipart bodies (to_multipart): unset parts are omitted, required parts are present, scalars are sent as the text of their
   value, nested models / arrays as one JSON part holding exactly their to_dict encoding *)
Theorem C03_mp_unset_omitted : forall T f k, mp_field T f k false PUnset = Some None.
Proof. exact mp_unset_omitted. Qed.
Theorem C03_mp_required_present : forall T f k v o, mp_field T f k true v = Some o -> o <> None.
Proof. exact mp_required_present. Qed.
Theorem C03_mp_scalar_text : forall T f k req v p,
  match k with KAny | KNone | KBool | KInt | KFloat | KStr | KConst _ => True | _ => False end ->
  mp_value T f k req v = Some p -> exists s, str_of v = Some s /\ p = MText s.
Proof. exact mp_scalar_text. Qed.
Theorem C03_mp_nested_is_json : forall T f k req v p,
  match k with KList _ | KModel _ => True | _ => False end ->
  mp_value T f k req v = Some p -> exists j, enc T f k v = Some j /\ p = MJson j.
Proof. exact mp_nested_is_json. Qed.
Print Assumptions C03_mp_nested_is_json.
Theorem C03_mp_none_member_first_refuted : exists T f v, mp_value T f (KUnion [KNone; KStr]) true v = None /\ mp_value T f (KUnion [KStr; KNone]) true v <> None.
Proof. exact mp_none_member_first_refuted. Qed.

(* "that client adds its credential header": the life cycle of AuthenticatedClient objects (Client.v: shared headers dict, lazily built
   cached httpx clients, evolve / with_* derivations). For EVERY operation sequence inside the guard, every use of a client whose
   token was not reassigned after its httpx client was built carries exactly one value under its auth header name: its OWN credential. *)
Theorem C03_own_credential : forall (A : list str) (ops : list op),
  consistent A = true -> forallb (op_ok A) ops = true -> own_credential_run init ops = true.
Proof. exact own_credential. Qed.
Print Assumptions C03_own_credential.
(* a derived client never inherits the credential of the client it was derived from, whatever that one already sent *)
Theorem C03_derived_sends_own_token : forall (A : list str) (ops : list op) (i : nat) (tok : str) (v : variant) w c,
  consistent A = true -> forallb (op_ok A) ops = true ->
  fst (run init ops) = w -> nth_error (clients w) i = Some c ->
  snd (step (fst (step w (EvolveToken i tok))) (Use (length (clients w)) v)) = Some [cred (with_token c tok)].
Proof. exact derived_sends_own_token. Qed.
Print Assumptions C03_derived_sends_own_token.
(* the guards are necessary (each witness is replayed on the generated client by the correspondence) *)
Theorem C03_stale_after_set_token_refuted : exists ops i v c vals, forallb (op_ok [[65]]) ops = true /\ nth_error (clients (fst (run init ops))) i = Some c /\
  snd (step (fst (run init ops)) (Use i v)) = Some vals /\ vals <> [cred c].
Proof. exact stale_after_set_token_refuted. Qed.
Theorem C03_inconsistent_names_refuted : exists A ops, consistent A = false /\ forallb (op_ok A) ops = true /\ own_credential_run init ops = false.
Proof. exact inconsistent_names_refuted. Qed.
Theorem C03_user_key_clash_refuted : exists ops, own_credential_run init ops = false.
Proof. exact user_key_clash_refuted. Qed.

(* cookies of a client (Cookies.v): for EVERY sequence of constructions, derivations and uses, each request carries exactly the
   client's own jar, overridden in turn by what was added through that very client after the variant's httpx client was built *)
Theorem C03_cookies_sent : forall ops, cookies_run [] ops = true.
Proof. exact cookies_sent. Qed.
Print Assumptions C03_cookies_sent.
Theorem C03_derived_jar : forall w i add c, nth_error w i = Some c ->
  nth_error (fst (cstep w (CDerive i add))) (length w) = Some {| jar := dmerge (jar c) add; ksync := None; kasync := None; late_sync := []; late_async := [] |}.
Proof. exact derived_jar. Qed.
(* with_cookies is not pure: it also changes what the client it was called on sends from then on (faithful to the code) *)
Theorem C03_with_cookies_changes_original_refuted : exists ops i v a b,
  nth_error (snd (crun [] ops)) i = Some (Some a) /\ nth_error (snd (crun [] (ops ++ [CDerive 0 [([115], [50])]; CUse 0 v]))) (S (S i)) = Some (Some b) /\ a <> b.
Proof. exact with_cookies_changes_original_refuted. Qed.
