Require Import OPC.gen.GenTables OPC.gen.GenClosed OPC.gen.GenSites OPC.Uni OPC.Names OPC.NamesThm OPC.Codec OPC.Types OPC.TypesThm OPC.Imports OPC.ImportsThm
               OPC.PyLit OPC.Sites OPC.SitesThm OPC.Signature.
From Coq Require Import NArith List Bool Permutation. Import ListNotations. Open Scope N_scope.
(* C01 is an aggregator and PARTIAL: "the whole file is in CPython's grammar" has no model here. What is proved are the
   ingredients that make the generated package well-formed; whole-file compile / import / tomllib are the search stage. *)

(* names: every derived identifier is a valid non-keyword identifier (under the guard g_xid, see C09) *)
Theorem C01_python_identifier_valid : forall value prefix,
  good_prefix prefix = true -> g_xid value = true ->
  is_identifier (python_identifier value prefix false) = true /\
  mem_str (python_identifier value prefix false) GenTables.keywords = false.
Proof. exact python_identifier_valid. Qed.
Print Assumptions C01_python_identifier_valid.

(* document text only lands in safe lexical sites (see C05): every row of the regenerated site table is safe, and a safe site
   re-lexes to exactly the payload for every payload inside the site's guard *)
Theorem C01_all_sites_safe : forallb site_safe gen_sites = true.
Proof. exact all_sites_safe. Qed.
Theorem C01_site_sound : forall s p, site_safe s = true -> slot_guard s p = true -> emitted_ok s p.
Proof. exact site_sound. Qed.
Print Assumptions C01_site_sound.

(* attrs requires mandatory fields before defaulted ones: the two rendering loops of the class body guarantee it, and lose no field *)
Theorem C01_attrs_order_ok : forall (A : Type) (mand : A -> bool) (props l1 l2 l3 : list A) (x y : A),
  attrs_field_order mand props = l1 ++ x :: l2 ++ y :: l3 -> mand x = false -> mand y = false.
Proof. exact attrs_order_ok. Qed.
Theorem C01_attrs_order_perm : forall (A : Type) (mand : A -> bool) (props : list A), Permutation (attrs_field_order mand props) props.
Proof. exact attrs_order_perm. Qed.
Print Assumptions C01_attrs_order_ok.

(* no module reads a name that nothing provides: composition lemma for ANY list of properties ... *)
Theorem C01_module_names_closed : forall header fs,
  forallb (closed_frag header) fs = true ->
  forallb (fun n => mem_name n (module_provided header fs)) (module_used fs) = true.
Proof. exact module_names_closed. Qed.
Print Assumptions C01_module_names_closed.
(* ... and the regenerated fact that each kind, in each position, is closed (and every relative import resolves) in the probe packages *)
Theorem C01_all_probe_modules_closed : gen_unprovided = [].
Proof. exact all_probe_modules_closed. Qed.

(* the parameter list of EVERY generated endpoint function (path parameters positional - without a default first -, `*` exactly when
   something follows, keyword-only client / body / query / header / cookie parameters) is accepted by Python as soon as the names
   are distinct, whatever defaults the parameters carry *)
Theorem C01_signature_valid : forall e b, py_valid (sig_of e b) = names_ok e b.
Proof. exact signature_valid. Qed.
Theorem C01_star_exact : forall e b, star (sig_of e b) = true <-> kwonly (sig_of e b) <> [].
Proof. exact star_exact. Qed.
Theorem C01_positional_is_path_permuted : forall e b p, In p (positional (sig_of e b)) <-> In p (e_path e).
Proof. exact positional_is_path_permuted. Qed.
Print Assumptions C01_signature_valid.
(* the star matters (a keyword list with an optional parameter before a required one is rejected without it), and the rule the
   code used before repair b9d7aba (path order) was not valid for a default before a parameter without one *)
Theorem C01_star_needed : exists e, py_valid (sig_of e false) = true /\
  py_valid {| positional := positional (sig_of e false); star := false; kwonly := kwonly (sig_of e false) |} = false.
Proof. exact star_needed. Qed.
Theorem C01_path_order_rule_refuted : exists ps, defaults_monotone false ps = false /\
  defaults_monotone false (filter (fun p => negb (sp_default p)) ps ++ filter sp_default ps) = true.
Proof. exact path_order_rule_refuted. Qed.
