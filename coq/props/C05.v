From Coq Require Import String Ascii NArith List Bool. Import ListNotations.
Require Import OPC.gen.GenTables OPC.Uni OPC.Names OPC.NamesThm OPC.PyLit OPC.PyLitThm OPC.Sites OPC.gen.GenSites OPC.SitesThm.
Open Scope N_scope.

(* ---- string-literal lexer theorems (all strings, all continuations) ---- *)

(* text passed through remove_string_escapes and placed between double quotes comes back character for character and the lexer resumes
   right after the closing quote, for every text without backslash / newline / CR / NUL *)
Theorem C05_dq_literal_roundtrip : forall s rest,
  no_bs_nl s = true -> lex_body DQ (escape_dq s ++ DQ :: rest) = Some (s, rest).
Proof. exact dq_literal_roundtrip. Qed.
Print Assumptions C05_dq_literal_roundtrip.

(* a raw interpolation between double quotes is faithful exactly when the text has no quote (and no backslash / newline) *)
Theorem C05_raw_in_dq : forall s rest, plain_dq s = true -> lex_body DQ (s ++ DQ :: rest) = Some (s, rest).
Proof. exact raw_in_dq. Qed.
Print Assumptions C05_raw_in_dq.

Theorem C05_raw_in_dq_quote_breaks : forall s rest,
  no_bs_nl s = true -> existsb (N.eqb DQ) s = true -> lex_body DQ (s ++ DQ :: rest) <> Some (s, rest).
Proof. exact raw_in_dq_quote_breaks. Qed.
Print Assumptions C05_raw_in_dq_quote_breaks.

(* safe_docstring: one STRING token, lexer resumes after the closing triple quote, for every content without a triple quote *)
Theorem C05_docstring_safe : forall c rest,
  has_triple c = false -> lex_docstring (safe_docstring c ++ rest) = Some ([32] ++ c ++ [32], rest).
Proof. exact docstring_safe. Qed.
Print Assumptions C05_docstring_safe.

(* ... and escaped text never contains a triple quote *)
Theorem C05_docstring_escaped_safe : forall c rest,
  lex_docstring (safe_docstring (escape_dq c) ++ rest) = Some ([32] ++ escape_dq c ++ [32], rest).
Proof. exact docstring_escaped_safe. Qed.
Print Assumptions C05_docstring_escaped_safe.

(* repr(s) is a complete literal that evaluates to s (printable strings of any length) *)
Theorem C05_repr_roundtrip_printable : forall s, repr_printable s = true -> lex_string (py_repr s) = Some (s, []).
Proof. exact repr_roundtrip_printable. Qed.
Print Assumptions C05_repr_roundtrip_printable.

(* an inert image between plain template text inside one literal: the literal denotes template text + value and ends where it should *)
Theorem C05_lit_site : forall q img v, lit_value q img = Some v ->
  forall pre post rest, plain q pre = true -> plain q post = true ->
    lex_body q (pre ++ img ++ post ++ q :: rest) = Some (pre ++ v ++ post, rest).
Proof. exact lit_site. Qed.
Print Assumptions C05_lit_site.

(* identifier-class sanitisers (PythonIdentifier, ClassName, kebab_case, enum keys) emit, inside ASCII, only word characters and '-' *)
Theorem C05_identifier_slot_safe : forall sa p, ident_san sa = true -> forallb inert_char (image sa p) = true.
Proof. exact ident_image_inert. Qed.
Print Assumptions C05_identifier_slot_safe.

(* ---- the site table ---- *)

(* every interpolation site of the generator under verification (regenerated from its output on every run) is acceptable *)
Theorem C05_all_sites_safe : forallb site_safe gen_sites = true.
Proof. exact all_sites_safe. Qed.
Print Assumptions C05_all_sites_safe.

(* for every acceptable site and every payload inside its guard the emitted text re-lexes to data (emitted_ok: per context) *)
Theorem C05_site_sound : forall s p, site_safe s = true -> slot_guard s p = true -> emitted_ok s p.
Proof. exact site_sound. Qed.
Print Assumptions C05_site_sound.

Theorem C05_every_site_sound : forall s p, In s gen_sites -> slot_guard s p = true -> emitted_ok s p.
Proof. exact every_site_sound. Qed.
Print Assumptions C05_every_site_sound.

(* the guards accept the syntactic classes of the lexer theorems *)
Theorem C05_guard_dq_esc : forall slot file p, no_bs_nl p = true -> no_linesep p = true -> slot_guard (mk CDQ SEsc slot file) p = true.
Proof. exact guard_dq_esc. Qed.
Print Assumptions C05_guard_dq_esc.
Theorem C05_guard_dq_none : forall slot file p, plain_dq p = true -> no_linesep p = true -> slot_guard (mk CDQ SNone slot file) p = true.
Proof. exact guard_dq_none. Qed.
Print Assumptions C05_guard_dq_none.
Theorem C05_guard_sq_repr : forall slot file p, repr_printable p = true -> slot_guard (mk CSQ SRepr slot file) p = true.
Proof. exact guard_sq_repr. Qed.
Print Assumptions C05_guard_sq_repr.
Theorem C05_guard_doc_esc : forall slot file p, no_nul p = true -> slot_guard (mk CDoc SEsc slot file) p = true.
Proof. exact guard_doc_esc. Qed.
Print Assumptions C05_guard_doc_esc.
Theorem C05_guard_doc_none : forall slot file p, has_triple p = false -> no_nul p = true -> slot_guard (mk CDoc SNone slot file) p = true.
Proof. exact guard_doc_none. Qed.
Print Assumptions C05_guard_doc_none.
Theorem C05_guard_ident : forall slot file c sa p, ident_san sa = true -> g_xid p = true -> slot_guard (mk c sa slot file) p = true.
Proof. exact guard_ident. Qed.
Print Assumptions C05_guard_ident.

(* ---- refutation witnesses: the complement of each narrow guard is a known finding ---- *)
Theorem C05_docstring_refuted : exists c rest,
  has_triple c = true /\ lex_docstring (safe_docstring c ++ rest) <> Some ([32] ++ c ++ [32], rest).
Proof. exact docstring_refuted. Qed.
Print Assumptions C05_docstring_refuted.

Theorem C05_desc_code_exec_refuted : exists p v r,
  slot_guard (mk CDoc SNone "Schema.description@model" "models/*.py") p = false /\
  lex_docstring (safe_docstring p) = Some (v, r) /\
  r = s2l (String (ascii_of_N 10) "import os" ++ String (ascii_of_N 10) """"""" """"""")%string.
Proof. exact desc_code_exec_refuted. Qed.
Print Assumptions C05_desc_code_exec_refuted.

Theorem C05_meta_injection_refuted : exists p v r,
  slot_guard (mk CTomlBasic SNone "Info.version" "pyproject.toml") p = false /\
  slot_guard (mk CDQ SNone "Info.version" "setup.py") p = false /\
  lex_toml_basic (p ++ [DQ]) = Some (v, r) /\ r <> [].
Proof. exact meta_injection_refuted. Qed.
Print Assumptions C05_meta_injection_refuted.

Theorem C05_path_injection_refuted : exists p v r,
  slot_guard (mk CDQ SNone "OpenAPI.paths.key" "api/*/*.py") p = false /\
  slot_guard (mk CDQ SNone "RequestBody.content.key@param" "api/*/*.py") p = false /\
  lex_body DQ (p ++ [DQ]) = Some (v, r) /\ r <> [].
Proof. exact path_injection_refuted. Qed.
Print Assumptions C05_path_injection_refuted.

Theorem C05_name_backslash_refuted :
  slot_guard (mk CDQ SEsc "Schema.properties.key@model" "models/*.py") [97; 92] = false /\
  lex_body DQ (escape_dq [97; 92] ++ [DQ]) = None /\
  slot_guard (mk CDQ SEsc "Schema.properties.key@model" "models/*.py") [97; 10; 98] = false /\
  lex_body DQ (escape_dq [97; 10; 98] ++ [DQ]) = None.
Proof. exact name_backslash_refuted. Qed.
Print Assumptions C05_name_backslash_refuted.

Theorem C05_const_fstring_refuted :
  slot_guard (mk CFstrDQ SEsc "Schema.properties.key@const" "models/*.py") (s2l "{__import__('os')}") = false /\
  no_bs_nl (s2l "{__import__('os')}") = true /\
  slot_guard (mk CFstrDQ SReprEsc "Schema.const@prop" "models/*.py") (s2l "x""y") = false /\
  (exists v r, lex_body DQ (image SReprEsc (s2l "x""y") ++ [DQ]) = Some (v, r) /\ r <> []).
Proof. exact const_fstring_refuted. Qed.
Print Assumptions C05_const_fstring_refuted.

Theorem C05_default_not_verbatim_refuted : exists p,
  slot_guard (mk CSQ SReprEsc "Schema.default@prop-string" "models/*.py") p = true /\
  slot_verbatim (mk CSQ SReprEsc "Schema.default@prop-string" "models/*.py") p = false /\
  lex_string (image SReprEsc p) = Some (escape_dq p, []) /\ escape_dq p <> p.
Proof. exact default_not_verbatim_refuted. Qed.
Print Assumptions C05_default_not_verbatim_refuted.

(* default values are classified by HOW they are emitted: repr is acceptable, hand-quoting is not, for any kind (regression witness of the
   repaired finding uuid_default_whitespace and of the date-time variant) *)
Theorem C05_handquoted_default_refuted :
  slot_guard (mk CSQ SNone "Schema.default@prop-uuid" "models/*.py") (10 :: s2l "0000000-aaaa-4bbb-8ccc-dddddddddddd") = false /\
  lex_body SQ ((10 :: s2l "0000000-aaaa-4bbb-8ccc-dddddddddddd") ++ [SQ]) = None /\
  slot_guard (mk CSQ SNone "Schema.default@prop-datetime" "models/*.py") (s2l "2020-01-01'10:00:00") = false /\
  site_safe (mk CSQ SNone "Schema.default@prop-uuid" "models/*.py") = false /\
  site_safe (mk CSQ SNone "Schema.default@query-uuid" "api/*/*.py") = false /\
  site_safe (mk CSQ SNone "Schema.default@prop-datetime" "models/*.py") = false /\
  site_safe (mk CSQ SNone "Schema.default@query-datetime" "api/*/*.py") = false /\
  site_safe (mk CSQ SNone "Schema.default@prop-date" "models/*.py") = false /\
  site_safe (mk CSQ SRepr "Schema.default@prop-uuid" "models/*.py") = true /\
  site_safe (mk CSQ SRepr "Schema.default@prop-datetime" "models/*.py") = true /\
  slot_guard (mk CSQ SRepr "Schema.default@prop-uuid" "models/*.py") (10 :: s2l "0000000-aaaa-4bbb-8ccc-dddddddddddd") = true /\
  slot_guard (mk CSQ SRepr "Schema.default@prop-datetime" "models/*.py") (s2l "2020-01-01'10:00:00") = true.
Proof. exact handquoted_default_refuted. Qed.
Print Assumptions C05_handquoted_default_refuted.

Theorem C05_raw_fallback_site_refuted :
  slot_guard (mk CIdent SSanitize "Schema.properties.key@collide" "models/*.py") (s2l "user-id") = false /\
  site_finding (mk CIdent SSanitize "Schema.properties.key@collide" "models/*.py") (s2l "user-id") = "raw_fallback"%string /\
  slot_guard (mk CIdent SSanitize "Schema.properties.key@collide" "models/*.py") (s2l "userId;#()=""'") = true /\
  image SSanitize (s2l "userId;#()=""'") = s2l "userId".
Proof. exact raw_fallback_site_refuted. Qed.
Print Assumptions C05_raw_fallback_site_refuted.

Theorem C05_nul_char_refuted :
  slot_guard (mk CDoc SEsc "Operation.description" "api/*/*.py") [97; 0] = false /\
  slot_guard (mk CDQ SEsc "Schema.properties.key@model" "models/*.py") [97; 0] = false.
Proof. exact nul_char_refuted. Qed.
Print Assumptions C05_nul_char_refuted.

Theorem C05_linesep_newline_refuted :
  slot_guard (mk CDQ SEsc "Schema.properties.key@model" "models/*.py") [97; 8232; 98] = false /\
  no_bs_nl [97; 8232; 98] = true /\
  lex_body DQ ([97; 10; 98] ++ [DQ]) = None.
Proof. exact linesep_newline_refuted. Qed.
Print Assumptions C05_linesep_newline_refuted.

Theorem C05_dq_trailing_backslash_refuted : exists s, lex_body DQ (escape_dq s ++ [DQ]) = None.
Proof. exact dq_trailing_backslash_refuted. Qed.
Print Assumptions C05_dq_trailing_backslash_refuted.
