Require Import OPC.Uni OPC.Names OPC.Fs OPC.Retry OPC.gen.GenCli OPC.Cli OPC.CliThm.
From Coq Require Import NArith List Bool. Import ListNotations.

(* C06 is PARTIAL.  What is proved below is about the executable model Cli.v (total by construction) and holds for ALL
   inputs of the model.  The half of the property saying that the Python code raises no exception for any byte string is
   NOT a theorem: it rests on the junk / mutation exploration of harness/props/c06.py (distribution in the evidence). *)

(* the code still has the shape the model was written against (regenerated on every run from the working tree) *)
Theorem C06_code_shape : code_shape_ok = true.
Proof. exact code_shape. Qed.
Print Assumptions C06_code_shape.

(* exit status: non-zero exactly when an ERROR-level diagnostic was reported, or any diagnostic under fail_on_warning *)
Theorem C06_exit_status : forall (errs : list diag) (fow : bool),
  exit_code errs fow <> 0%N <-> (exists e, In e errs /\ d_level e = LError) \/ (fow = true /\ errs <> []).
Proof. exact exit_status. Qed.
Print Assumptions C06_exit_status.

(* a document rejected by the loader or by validation leaves the file tree unchanged, whatever the switches *)
Theorem C06_reject_writes_nothing : forall sg mp sc t, rejected sc = true -> snd (generate_with sg mp sc t) = t.
Proof. exact reject_writes_nothing. Qed.
Print Assumptions C06_reject_writes_nothing.

(* ... and is reported as exactly one ERROR-level diagnostic with exit status 1 (inside the scalar-document guard) *)
Theorem C06_reject_is_error : forall sg mp sc fow t,
  rejected sc = true -> g_scalar_document sg sc = true ->
  exists id, cli_with sg mp sc fow t = (Ret (mkOut 1 (Some LError) [id]), t)
             /\ (sc_load sc = Some id \/ (sc_load sc = None /\ sc_validation sc = Some id)).
Proof. exact reject_is_error. Qed.
Print Assumptions C06_reject_is_error.

(* the model crashes only outside the two guards, and then writes nothing; both known defects are reproduced by the model
   at the unrepaired switches *)
Theorem C06_no_crash_in_guard : forall sg mp sc t,
  g_scalar_document sg sc = true -> g_parent_dir mp sc = true -> fst (generate_with sg mp sc t) <> Crash.
Proof. exact no_crash_in_guard. Qed.
Print Assumptions C06_no_crash_in_guard.
Theorem C06_crash_writes_nothing : forall sg mp sc t, fst (generate_with sg mp sc t) = Crash -> snd (generate_with sg mp sc t) = t.
Proof. exact crash_writes_nothing. Qed.
Print Assumptions C06_crash_writes_nothing.
Theorem C06_scalar_document_crash_refuted : exists sc t, g_scalar_document false sc = false /\ fst (generate_with false false sc t) = Crash.
Proof. exact scalar_document_crash_refuted. Qed.
Print Assumptions C06_scalar_document_crash_refuted.
Theorem C06_missing_parent_dir_refuted : exists sc t, g_parent_dir false sc = false /\ fst (generate_with true false sc t) = Crash.
Proof. exact missing_parent_dir_refuted. Qed.
Print Assumptions C06_missing_parent_dir_refuted.

(* no stage drops a diagnostic: the list handed to handle_errors is exactly the union of schemas.errors, parameters.errors,
   every collection's parse_errors and the project's own errors; each is printed and an ERROR-level one forces exit 1 *)
Theorem C06_errors_are_values : forall sg mp sc t errs t',
  generate_with sg mp sc t = (Ret errs, t') ->
  rejected sc = false -> (sc_dir_exists sc && negb (sc_overwrite sc)) = false ->
  forall e, (In e (g_schema_errs (sc_data sc)) \/ In e (g_param_errs (sc_data sc))
             \/ (exists c, In c (g_collections (sc_data sc)) /\ In e c) \/ In e (sc_hooks sc))
            <-> In e errs.
Proof. exact errors_are_values. Qed.
Print Assumptions C06_errors_are_values.
Theorem C06_errors_reach_cli : forall sg mp sc t errs t' fow e,
  generate_with sg mp sc t = (Ret errs, t') ->
  rejected sc = false -> (sc_dir_exists sc && negb (sc_overwrite sc)) = false ->
  (In e (g_schema_errs (sc_data sc)) \/ In e (g_param_errs (sc_data sc))
   \/ (exists c, In c (g_collections (sc_data sc)) /\ In e c) \/ In e (sc_hooks sc)) ->
  In (d_id e) (co_printed (handle_errors errs fow)) /\ (d_level e = LError -> exit_code errs fow = 1%N).
Proof. exact errors_reach_cli. Qed.
Print Assumptions C06_errors_reach_cli.

(* the retry loops: for EVERY step function (success oracle) the loop ends by its own exit test after at most
   |worklist| + 1 rounds; the fuelled function computes the fuel-free big-step semantics Runs, which is deterministic *)
Theorem C06_loops_terminate : forall (I S E : Type) (step : S -> I -> S * verdict E) (s : S) (todo : list I),
  lr_exhausted (run_loop step s todo) = false
  /\ (1 <= lr_rounds (run_loop step s todo) <= length todo + 1)%nat
  /\ Runs step s todo [] O [] (run_loop step s todo).
Proof. exact loops_terminate. Qed.
Print Assumptions C06_loops_terminate.
Theorem C06_runs_deterministic : forall (I S E : Type) (step : S -> I -> S * verdict E) s todo drops n tr r1,
  Runs step s todo drops n tr r1 -> forall r2, Runs step s todo drops n tr r2 -> r1 = r2.
Proof. exact Runs_deterministic. Qed.
Print Assumptions C06_runs_deterministic.
Theorem C06_fuel_irrelevant : forall (I S E : Type) (step : S -> I -> S * verdict E) fuel s todo,
  (length todo < fuel)%nat -> loop step fuel s todo [] O [] = run_loop step s todo.
Proof. exact fuel_irrelevant. Qed.
Print Assumptions C06_fuel_irrelevant.
(* no error of the loop is lost: permanent failures of every round visited and re-queue failures of the last round *)
Theorem C06_loop_errors_complete : forall (I S E : Type) (step : S -> I -> S * verdict E) s todo s' todo' e,
  Visits step s todo s' todo' ->
  (In e (rr_drop (round step s' todo')) \/ (rr_progress (round step s' todo') = false /\ In e (rr_stay (round step s' todo')))) ->
  In e (lr_errors (run_loop step s todo)).
Proof. exact loop_errors_complete. Qed.
Print Assumptions C06_loop_errors_complete.
Theorem C06_last_round_all_reported : forall (I S E : Type) (step : S -> I -> S * verdict E) s todo,
  rr_progress (round step s todo) = false ->
  (length (rr_stay (round step s todo)) + length (rr_drop (round step s todo)) = length todo)%nat.
Proof. exact last_round_all_reported. Qed.
Print Assumptions C06_last_round_all_reported.
(* Retry.v's dependency-oracle loop (C12) is an instance: its fuel suffices *)
Theorem C06_retry_process_terminates : forall g todo,
  Retry.process g todo = (lr_state (run_loop (step_retry g) [] todo), lr_left (run_loop (step_retry g) [] todo))
  /\ lr_exhausted (run_loop (step_retry g) [] todo) = false.
Proof. exact retry_process_terminates. Qed.
Print Assumptions C06_retry_process_terminates.

(* request-body reference chains: at most |components| + 1 steps; a cycle gives the error value and only a cycle does;
   a chain that reaches a body resolves to it *)
Theorem C06_body_ref_terminates : forall tb b0,
  rl_exhausted (resolve_run tb b0) = false /\ (rl_steps (resolve_run tb b0) <= length tb + 1)%nat.
Proof. exact body_ref_terminates. Qed.
Print Assumptions C06_body_ref_terminates.
Theorem C06_cycle_is_error : forall tb b0,
  (forall n, is_ref (chain tb b0 n) = true) -> exists r, resolve_reference tb b0 = ResCircular r.
Proof. exact cycle_is_error. Qed.
Print Assumptions C06_cycle_is_error.
Theorem C06_circular_is_cycle : forall tb b0 r,
  resolve_reference tb b0 = ResCircular r ->
  exists i j, (i < j)%nat /\ chain tb b0 i = Some (RRef r) /\ chain tb b0 j = Some (RRef r).
Proof. exact circular_is_cycle. Qed.
Print Assumptions C06_circular_is_cycle.
Theorem C06_chain_resolves : forall tb b0 id n, chain tb b0 n = Some (RBody id) -> resolve_reference tb b0 = ResBody id.
Proof. exact chain_resolves. Qed.
Print Assumptions C06_chain_resolves.
