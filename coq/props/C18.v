(* C18 — Document names cannot capture the generated code's own names. *)
From Coq Require Import NArith ZArith List Bool.
Import ListNotations.
Require Import OPC.gen.GenTables OPC.gen.GenKinds OPC.gen.GenNames OPC.Uni OPC.Names OPC.Codec OPC.Types OPC.Endpoint OPC.EndpointThm OPC.Rename OPC.RenameThm.
Open Scope N_scope.

Theorem C18_rename_invariant : forall V (O : ops V) (rho : var -> var) (D T : list var) p (en : env V),
  incl (svars p) (D ++ T) -> incl (keys en) (D ++ T) ->
  (forall x, In x D -> ~ In x T) ->
  inj_on rho D ->
  (forall x, In x T -> rho x = x) ->
  (forall x, In x D -> ~ In (rho x) T) ->
  run O (ren_stmt rho p) (ren_env rho en) = run O p en.
Proof. exact rename_invariant. Qed.
Print Assumptions C18_rename_invariant.

Theorem C18_rename_invariant_inj : forall V (O : ops V) (rho : var -> var) p (en : env V),
  inj_on rho (svars p ++ keys en) ->
  run O (ren_stmt rho p) (ren_env rho en) = run O p en.
Proof. exact rename_invariant_inj. Qed.
Print Assumptions C18_rename_invariant_inj.

Theorem C18_capture_free_names : forall V (O : ops V) (scope : str) p (en : env V) x n,
  ~ In x (scope_names template_names scope) -> ~ In n (scope_names template_names scope) ->
  incl (svars p) (x :: scope_names template_names scope) -> incl (keys en) (x :: scope_names template_names scope) ->
  run O (ren_stmt (ren1 x n) p) (ren_env (ren1 x n) en) = run O p en.
Proof. exact capture_free_names. Qed.
Print Assumptions C18_capture_free_names.

Theorem C18_capture_refuted : exists (p : stmt) (en : env cval) (x n : var),
  ~ In x from_dict_template_vars /\ In n from_dict_template_vars /\
  incl (svars p) (x :: from_dict_template_vars) /\ incl (keys en) (x :: from_dict_template_vars) /\
  run cops (ren_stmt (ren1 x n) p) (ren_env (ren1 x n) en) <> run cops p en.
Proof. exact capture_refuted. Qed.
Print Assumptions C18_capture_refuted.

Theorem C18_kwargs_rename_invariant : forall T fuel (rho : str -> str) segs ep a,
  ep_path ep = render_tpl segs -> lits_ok segs = true -> slots segs = map pa_py (ep_pathp ep) ->
  forallb plain_name (slots segs) = true ->
  forallb (fun n => plain_name (rho n)) (slots segs) = true ->
  inj_on rho (s_body :: map fst a ++ py_names ep) -> rho s_body = s_body ->
  get_kwargs T fuel (ren_endpoint rho (render_tpl (map_seg rho segs)) ep) (ren_args rho a) = get_kwargs T fuel ep a.
Proof. exact kwargs_rename_invariant. Qed.
Print Assumptions C18_kwargs_rename_invariant.

Theorem C18_python_identifier_avoids : forall scope c,
  In (scope, c) template_names -> is_reserved c = true -> python_identifier c [] false <> c.
Proof. exact python_identifier_avoids. Qed.
Print Assumptions C18_python_identifier_avoids.

Theorem C18_gen_names_facts :
  gen_names_known = true /\ forallb (fun sn => avoids (snd sn)) template_names = true.
Proof. exact gen_names_facts. Qed.
Print Assumptions C18_gen_names_facts.

Theorem C18_spelling_avoids : forall s N, In (s, N) spelling_names ->
  let r := python_identifier s s_field false in
  is_reserved r = false /\
  (starts_us s = true -> r <> N) /\
  (starts_us N = false -> In r template_idents -> r = python_identifier N s_field false).
Proof. exact spelling_avoids. Qed.
Print Assumptions C18_spelling_avoids.
