Require Import OPC.gen.GenKinds OPC.Uni OPC.Names OPC.Codec OPC.CodecThm OPC.Types OPC.TypesThm OPC.Endpoint OPC.EndpointThm OPC.Returns.
From Coq Require Import NArith ZArith List Bool. Import ListNotations. Open Scope N_scope.

(* every value produced by decoding schema-valid data is an instance of the annotated type *)
Theorem C11_decode_inhabits_annotation : forall orc T f k j v,
  table_ok T = true -> k_ok k = true -> wf_json j = true ->
  valid orc T f k j = true -> dec orc T f k j = Some v -> inhabits v (type_of k true) = true.
Proof. exact decode_inhabits_annotation. Qed.
Print Assumptions C11_decode_inhabits_annotation.
(* ... including every attribute of a decoded model object against the attribute's own (possibly optional) declaration *)
Theorem C11_decoded_fields_inhabit : forall orc T f c cd j fs ad name req k v,
  table_ok T = true -> wf_json j = true -> get_class T c = Some cd -> valid orc T f (KModel c) j = true ->
  dec orc T f (KModel c) j = Some (PObj c fs ad) ->
  In (name, (req, k)) (c_props cd) -> In (name, v) fs -> inhabits v (type_of k req) = true.
Proof. exact decoded_fields_inhabit. Qed.
Print Assumptions C11_decoded_fields_inhabit.
(* ... and every parsed response value against the endpoint's return annotation member *)
Theorem C11_parsed_value_typed : forall orc T f rs flag h r j v,
  table_ok T = true -> k_ok (rs_kind r) = true -> wf_json j = true ->
  documented rs (h_status h) = Some r -> source_value (rs_source r) h = Some j ->
  valid orc T f (rs_kind r) j = true ->
  parse_response orc T f rs true flag h = PVal (Some v) -> inhabits v (type_of (rs_kind r) true) = true.
Proof. exact parsed_value_typed. Qed.
Print Assumptions C11_parsed_value_typed.
(* an annotated value the decoder produced is accepted by the encoder (round trip) *)
Theorem C11_decoded_value_accepted_by_encoder : forall orc T f k j,
  table_ok T = true -> k_ok k = true -> wf_json j = true -> valid orc T f k j = true ->
  exists v, dec orc T f k j = Some v /\ enc T f k v = Some j.
Proof. exact roundtrip. Qed.

(* the RETURN annotation of every endpoint function (Optional[Union of all documented response types]) is truthful: whatever
   _parse_response returns for a documented status inhabits it; every member of the union is needed *)
Theorem C11_return_annotation_truthful : forall orc T f rs flag h r j v,
  table_ok T = true -> k_ok (rs_kind r) = true -> wf_json j = true ->
  documented rs (h_status h) = Some r -> source_value (rs_source r) h = Some j ->
  valid orc T f (rs_kind r) j = true ->
  parse_response orc T f rs true flag h = PVal (Some v) -> inhabits v (response_ty rs) = true.
Proof. exact return_annotation_truthful. Qed.
Print Assumptions C11_return_annotation_truthful.
Theorem C11_none_inhabits_return_ty : forall rs, inhabits (PJ JNull) (return_ty rs) = true.
Proof. exact none_inhabits_return_ty. Qed.
Theorem C11_dropped_member_refuted : exists ks v, inhabits v (response_ty_kinds ks) = true /\
  inhabits v (response_ty_kinds (filter (fun k => match k with KAny => false | _ => true end) ks)) = false.
Proof. exact dropped_member_refuted. Qed.
