Require Import OPC.gen.GenKinds OPC.Uni OPC.Names OPC.Codec OPC.Types OPC.Endpoint OPC.EndpointThm OPC.Parse OPC.ParseThm OPC.gen.GenStatus OPC.Status.
From Coq Require Import NArith ZArith List Bool. Import ListNotations. Open Scope N_scope.

(* a response with a documented status is decoded from the documented source with the documented schema's decoder *)
Theorem C04_documented_status_decoded : forall orc T f rs flag h r,
  documented rs (h_status h) = Some r ->
  parse_response orc T f rs true flag h =
    match source_value (rs_source r) h with
    | None => PRaiseOther
    | Some j => match rs_kind r with
                | KFile => PVal (Some (PJ j))
                | _ => if has_construct (rs_kind r)
                       then match dec orc T f (rs_kind r) j with Some v => PVal (Some v) | None => PRaiseOther end
                       else PVal (Some (PJ j))
                end
    end.
Proof. exact documented_status_decoded. Qed.
Print Assumptions C04_documented_status_decoded.
Theorem C04_no_schema_no_value : forall orc T f rs flag h r,
  documented rs (h_status h) = Some r -> parse_response orc T f rs false flag h = PVal None.
Proof. exact no_schema_no_value. Qed.
(* an undocumented status yields no parsed value, or the dedicated error when the client is configured to raise *)
Theorem C04_undocumented_status : forall orc T f rs parsed flag h,
  documented rs (h_status h) = None ->
  parse_response orc T f rs parsed flag h = if flag then PRaiseUnexpected else PVal None.
Proof. exact undocumented_status. Qed.
Print Assumptions C04_undocumented_status.
(* the parsed value is an instance of the documented response's type *)
Theorem C04_parsed_value_typed : forall orc T f rs flag h r j v,
  table_ok T = true -> k_ok (rs_kind r) = true -> wf_json j = true ->
  documented rs (h_status h) = Some r -> source_value (rs_source r) h = Some j ->
  valid orc T f (rs_kind r) j = true ->
  parse_response orc T f rs true flag h = PVal (Some v) -> inhabits v (type_of (rs_kind r) true) = true.
Proof. exact parsed_value_typed. Qed.
Print Assumptions C04_parsed_value_typed.
(* two documented keys that denote the same status: the second is unreachable (a finding recorded under C07) *)
Theorem C04_status_alias_refuted : exists rs h r2,
  In r2 rs /\ rs_status r2 = h_status h /\ documented rs (h_status h) <> Some r2.
Proof. exact status_alias_refuted_corrected. Qed.

(* document level: which source a documented response is decoded from (first supported media type wins; no content -> None;
   only when nothing is supported is the response rejected, with a diagnostic) *)
Theorem C04_empty_content_is_no_content : response_plan [] = RNoContent.
Proof. exact empty_content_is_no_content. Qed.
Theorem C04_first_supported_wins : forall pre ct hs src rest,
  (forall c, In c pre -> response_source (fst c) = None) -> response_source ct = Some src ->
  first_supported (pre ++ (ct, hs) :: rest) = Some (src, hs).
Proof. exact first_supported_wins. Qed.
Theorem C04_unsupported_only_is_error : forall content,
  content <> [] -> (forall c, In c content -> response_source (fst c) = None) -> response_plan content = RError.
Proof. exact unsupported_only_is_error. Qed.
Theorem C04_supported_is_never_error : forall content c src,
  In c content -> response_source (fst c) = Some src -> response_plan content <> RError.
Proof. exact supported_is_never_error. Qed.
Print Assumptions C04_supported_is_never_error.

(* which keys of the responses map become a documented status: HTTPStatus(int(key)) (shape regenerated from the parser's AST,
   table regenerated from http.HTTPStatus) *)
Theorem C04_status_conv_known : status_conv_known = true.
Proof. reflexivity. Qed.
Theorem C04_accepted_is_registered : forall s n, status_of_key s = KStatus n -> In n http_statuses.
Proof. exact accepted_is_registered. Qed.
Theorem C04_registered_three_digits : forall z, In z http_statuses -> status_of_key (dec3 z) = KStatus z.
Proof. exact registered_three_digits. Qed.
Theorem C04_lettered_key_rejected : forall s,
  existsb (fun c => 127 <? c) (strip s) = false ->
  existsb (fun c => plain_bad c && negb (c =? 43) && negb (c =? 45)) (strip s) = true ->
  status_of_key s = KRejected.
Proof. exact lettered_key_rejected. Qed.
Print Assumptions C04_lettered_key_rejected.
Theorem C04_status_key_alias_refuted : exists a b, a <> b /\ status_of_key a = KStatus 200%Z /\ status_of_key b = KStatus 200%Z.
Proof. exact status_key_alias_refuted. Qed.
