Require Import OPC.Uni OPC.Names OPC.NamesThm.
Theorem C09_python_identifier_valid : forall value prefix,
  good_prefix prefix = true -> g_xid value = true ->
  is_identifier (python_identifier value prefix false) = true /\
  mem_str (python_identifier value prefix false) GenTables.keywords = false.
Proof. exact python_identifier_valid. Qed.
Print Assumptions C09_python_identifier_valid.

(* ---- second half: names of one scope never merge silently (Scopes.v) ---- *)
From Coq Require Import NArith List Bool.
Import ListNotations.
Require Import OPC.Values OPC.ValuesThm.
Require Import OPC.Scopes OPC.ScopesThm.

(* (a) model attributes *)
Theorem C09_attrs_distinct : forall prefix names,
  g_no_raw_fallback prefix names = true ->
  model_attrs prefix names = Ok (map (attr_init prefix) names) /\
  NoDup (map a_py (map (attr_init prefix) names)) /\
  map a_py (map (attr_init prefix) names) = map (fun n => python_identifier n prefix false) names.
Proof. exact attrs_distinct. Qed.
Print Assumptions C09_attrs_distinct.

Theorem C09_attrs_valid : forall prefix names,
  good_prefix prefix = true -> forallb g_xid names = true -> g_no_raw_fallback prefix names = true ->
  exists props, model_attrs prefix names = Ok props /\ NoDup (map a_py props) /\
    forall p, In p props -> is_identifier (a_py p) = true /\ mem_str (a_py p) GenTables.keywords = false.
Proof. exact attrs_valid. Qed.
Print Assumptions C09_attrs_valid.

Theorem C09_attrs_last_pair_distinct : forall prefix props new props',
  (forall o, In o props -> a_name o <> a_name new) ->
  add_attr prefix props new = Ok props' ->
  exists c others', props' = others' ++ [c] /\ a_name c = a_name new /\
    (a_py c = a_py new \/ a_py c = py_raw prefix (a_name new)) /\
    length others' = length props /\
    forall i o o', nth_error props i = Some o -> nth_error others' i = Some o' ->
      (o' = o \/ o' = attr_raw prefix o) /\
      (a_py o = a_py new -> a_py o' <> a_py c) /\
      (a_py c = a_py new -> a_py o' <> a_py c).
Proof. exact attrs_last_pair_distinct. Qed.
Print Assumptions C09_attrs_last_pair_distinct.

Theorem C09_attrs_fold_last_step : forall prefix names props n r,
  add_attrs prefix props (names ++ [n]) = Ok r ->
  exists mid, add_attrs prefix props names = Ok mid /\ add_attr prefix mid (attr_init prefix n) = Ok r.
Proof. exact add_attrs_snoc. Qed.
Print Assumptions C09_attrs_fold_last_step.

Theorem C09_attrs_distinct_refuted :
  exists names props, NoDup names /\ model_attrs [102;105;101;108;100;95]%N names = Ok props /\
    g_no_raw_fallback [102;105;101;108;100;95]%N names = false /\ ~ NoDup (map a_py props).
Proof. exact attrs_distinct_refuted. Qed.
Print Assumptions C09_attrs_distinct_refuted.

Theorem C09_raw_fallback_not_identifier_refuted :
  exists names props, forallb g_xid names = true /\ model_attrs [102;105;101;108;100;95]%N names = Ok props /\
    g_no_raw_fallback [102;105;101;108;100;95]%N names = false /\
    exists p, In p props /\ is_identifier (a_py p) = false.
Proof. exact raw_fallback_not_identifier_refuted. Qed.
Print Assumptions C09_raw_fallback_not_identifier_refuted.

(* (b) endpoint parameters *)
Theorem C09_conflict_check_terminates : forall prefix ps,
  check_fuel prefix (S (length ps)) None ps = Some (check_params_ev prefix ps) /\
  forall fuel, (2 <= fuel)%nat -> check_fuel prefix fuel None ps = Some (check_params_ev prefix ps).
Proof. exact conflict_check_terminates. Qed.
Print Assumptions C09_conflict_check_terminates.

Theorem C09_check_params_keys : forall prefix ps out,
  check_params prefix ps = Ok out -> map param_key out = map param_key ps.
Proof. exact check_params_keys. Qed.
Print Assumptions C09_check_params_keys.

Theorem C09_params_distinct_quiet : forall prefix ps out,
  check_params prefix ps = Ok out -> g_last_pass_quiet prefix ps = true ->
  NoDup (map p_py out) /\ forall p, In p out -> reserved_param (p_py p) = false.
Proof. exact params_distinct_quiet. Qed.
Print Assumptions C09_params_distinct_quiet.

Theorem C09_params_distinct : forall prefix ps out,
  g_params_plain ps = true -> check_params prefix ps = Ok out ->
  out = map (param_fix prefix) ps /\ NoDup (map p_py out) /\ forall p, In p out -> reserved_param (p_py p) = false.
Proof. exact params_distinct. Qed.
Print Assumptions C09_params_distinct.

Theorem C09_model_params_distinct : forall prefix raw out,
  g_no_raw_fallback prefix (map snd raw) = true ->
  model_params prefix raw = Ok out ->
  NoDup (map p_py out) /\ (forall p, In p out -> reserved_param (p_py p) = false) /\
  (forall p, In p out -> In (p_loc p, p_name p) raw /\
     p_py p = if reserved_param (py_default prefix (p_name p))
              then python_identifier (py_default prefix (p_name p) ++ [95%N] ++ loc_str (p_loc p)) prefix false
              else python_identifier (p_name p) prefix false) /\
  length out = length raw.
Proof. exact model_params_distinct. Qed.
Print Assumptions C09_model_params_distinct.

Theorem C09_params_distinct_refuted :
  exists raw out, NoDup raw /\ model_params [102;105;101;108;100;95]%N raw = Ok out /\
    g_last_pass_quiet [102;105;101;108;100;95]%N (order_params (map (param_init [102;105;101;108;100;95]%N) raw)) = false /\
    ~ NoDup (map p_py out).
Proof. exact params_distinct_refuted. Qed.
Print Assumptions C09_params_distinct_refuted.

(* (c) enum member keys (Values.v, shared with C14) *)
Theorem C09_enum_member_keys : forall vs m, values_from_list vs = Some m -> NoDup (keys m).
Proof. exact values_from_list_keys_nodup. Qed.
Print Assumptions C09_enum_member_keys.

(* (d) classes and modules *)
Theorem C09_classes_distinct_or_error : forall prefix names cs errs,
  model_classes prefix names = (cs, errs) ->
  NoDup cs /\
  (forall n, In n names -> In (class_of prefix n) cs) /\
  (forall c, In c cs -> exists n, In n names /\ c = class_of prefix n) /\
  (forall n, In n errs -> In n names) /\
  (length cs + length errs = length names)%nat /\
  (forall l1 n1 l2 n2 l3, names = l1 ++ n1 :: l2 ++ n2 :: l3 -> class_of prefix n1 = class_of prefix n2 -> In n2 errs).
Proof. exact classes_distinct_or_error. Qed.
Print Assumptions C09_classes_distinct_or_error.

Theorem C09_add_class_fresh : forall prefix cs n cs',
  add_class prefix cs n = Ok cs' -> ~ In (class_of prefix n) cs /\ cs' = cs ++ [class_of prefix n].
Proof. exact add_class_fresh. Qed.
Print Assumptions C09_add_class_fresh.

Theorem C09_modules_unchecked_refuted :
  exists names cs, model_classes [102;105;101;108;100;95]%N names = (cs, []) /\ NoDup cs /\ length cs = length names /\
    ~ NoDup (map (module_of [102;105;101;108;100;95]%N) cs).
Proof. exact modules_unchecked_refuted. Qed.
Print Assumptions C09_modules_unchecked_refuted.
