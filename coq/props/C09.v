Require Import OPC.Uni OPC.Names OPC.NamesThm.
Theorem C09_python_identifier_valid : forall value prefix,
  good_prefix prefix = true -> g_xid value = true ->
  is_identifier (python_identifier value prefix false) = true /\
  mem_str (python_identifier value prefix false) GenTables.keywords = false.
Proof. exact python_identifier_valid. Qed.
Print Assumptions C09_python_identifier_valid.
