Require Import OPC.Uni OPC.Names OPC.NamesThm.
Theorem C09_python_identifier_valid : forall value prefix,
  good_prefix prefix = true -> g_xid value = true ->
  is_identifier (python_identifier value prefix false) = true /\
  mem_str (python_identifier value prefix false) GenTables.keywords = false.
Proof. exact python_identifier_valid. Qed.
Print Assumptions C09_python_identifier_valid.

(* ---- second half: names of one scope never merge silently (Scopes.v) ---- *)
From Coq Require Import NArith List Bool.
Import ListNotations.
Require Import OPC.Values OPC.ValuesThm.
Require Import OPC.Scopes OPC.ScopesThm.

(* (a) model attributes *)
Theorem C09_attrs_distinct : forall prefix names,
  g_no_raw_fallback prefix names = true ->
  model_attrs prefix names = Ok (map (attr_init prefix) names) /\
  NoDup (map a_py (map (attr_init prefix) names)) /\
  map a_py (map (attr_init prefix) names) = map (fun n => python_identifier n prefix false) names.
Proof. exact attrs_distinct. Qed.
Print Assumptions C09_attrs_distinct.

Theorem C09_attrs_valid : forall prefix names,
  good_prefix prefix = true -> forallb g_xid names = true -> g_no_raw_fallback prefix names = true ->
  exists props, model_attrs prefix names = Ok props /\ NoDup (map a_py props) /\
    forall p, In p props -> is_identifier (a_py p) = true /\ mem_str (a_py p) GenTables.keywords = false.
Proof. exact attrs_valid. Qed.
Print Assumptions C09_attrs_valid.

Theorem C09_attrs_last_pair_distinct : forall prefix props new props',
  (forall o, In o props -> a_name o <> a_name new) ->
  add_attr prefix props new = Ok props' ->
  exists c others', props' = others' ++ [c] /\ a_name c = a_name new /\
    (a_py c = a_py new \/ a_py c = py_raw prefix (a_name new)) /\
    length others' = length props /\
    forall i o o', nth_error props i = Some o -> nth_error others' i = Some o' ->
      (o' = o \/ o' = attr_raw prefix o) /\
      (a_py o = a_py new -> a_py o' <> a_py c) /\
      (a_py c = a_py new -> a_py o' <> a_py c).
Proof. exact attrs_last_pair_distinct. Qed.
Print Assumptions C09_attrs_last_pair_distinct.

Theorem C09_attrs_fold_last_step : forall prefix names props n r,
  add_attrs prefix props (names ++ [n]) = Ok r ->
  exists mid, add_attrs prefix props names = Ok mid /\ add_attr prefix mid (attr_init prefix n) = Ok r.
Proof. exact add_attrs_snoc. Qed.
Print Assumptions C09_attrs_fold_last_step.

Theorem C09_attrs_distinct_refuted :
  exists names props, NoDup names /\ model_attrs [102;105;101;108;100;95]%N names = Ok props /\
    g_no_raw_fallback [102;105;101;108;100;95]%N names = false /\ ~ NoDup (map a_py props).
Proof. exact attrs_distinct_refuted. Qed.
Print Assumptions C09_attrs_distinct_refuted.

Theorem C09_raw_fallback_not_identifier_refuted :
  exists names props, forallb g_xid names = true /\ model_attrs [102;105;101;108;100;95]%N names = Ok props /\
    g_no_raw_fallback [102;105;101;108;100;95]%N names = false /\
    exists p, In p props /\ is_identifier (a_py p) = false.
Proof. exact raw_fallback_not_identifier_refuted. Qed.
Print Assumptions C09_raw_fallback_not_identifier_refuted.

(* (b) endpoint parameters *)
Theorem C09_conflict_check_terminates : forall prefix ps,
  check_fuel prefix (S (length ps)) None ps = Some (check_params_ev prefix ps) /\
  forall fuel, (2 <= fuel)%nat -> check_fuel prefix fuel None ps = Some (check_params_ev prefix ps).
Proof. exact conflict_check_terminates. Qed.
Print Assumptions C09_conflict_check_terminates.

Theorem C09_check_params_keys : forall prefix ps out,
  check_params prefix ps = Ok out -> map param_key out = map param_key ps.
Proof. exact check_params_keys. Qed.
Print Assumptions C09_check_params_keys.

Theorem C09_params_distinct_quiet : forall prefix ps out,
  check_params prefix ps = Ok out -> g_last_pass_quiet prefix ps = true ->
  NoDup (map p_py out) /\ forall p, In p out -> reserved_param (p_py p) = false.
Proof. exact params_distinct_quiet. Qed.
Print Assumptions C09_params_distinct_quiet.

Theorem C09_params_distinct : forall prefix ps out,
  g_params_plain ps = true -> check_params prefix ps = Ok out ->
  out = map (param_fix prefix) ps /\ NoDup (map p_py out) /\ forall p, In p out -> reserved_param (p_py p) = false.
Proof. exact params_distinct. Qed.
Print Assumptions C09_params_distinct.

Theorem C09_model_params_distinct : forall prefix raw out,
  g_no_raw_fallback prefix (map snd raw) = true ->
  model_params prefix raw = Ok out ->
  NoDup (map p_py out) /\ (forall p, In p out -> reserved_param (p_py p) = false) /\
  (forall p, In p out -> In (p_loc p, p_name p) raw /\
     p_py p = if reserved_param (py_default prefix (p_name p))
              then python_identifier (py_default prefix (p_name p) ++ [95%N] ++ loc_str (p_loc p)) prefix false
              else python_identifier (p_name p) prefix false) /\
  length out = length raw.
Proof. exact model_params_distinct. Qed.
Print Assumptions C09_model_params_distinct.

Theorem C09_params_distinct_refuted :
  exists raw out, NoDup raw /\ model_params [102;105;101;108;100;95]%N raw = Ok out /\
    g_last_pass_quiet [102;105;101;108;100;95]%N (order_params (map (param_init [102;105;101;108;100;95]%N) raw)) = false /\
    ~ NoDup (map p_py out).
Proof. exact params_distinct_refuted. Qed.
Print Assumptions C09_params_distinct_refuted.

(* (b') the operation-level and the path-item-level parameter list of one operation, split in any proportion *)
Theorem C09_model_params2_distinct_quiet : forall prefix op item out,
  model_params2 prefix op item = Ok out -> g_params2_quiet prefix op item = true ->
  NoDup (map p_py out) /\ forall p, In p out -> reserved_param (p_py p) = false.
Proof. exact model_params2_distinct_quiet. Qed.
Print Assumptions C09_model_params2_distinct_quiet.

Theorem C09_model_params2_distinct : forall prefix op it ps1 out,
  params_phase1 prefix op = Ok ps1 -> g_params_plain (phase2_input prefix ps1 it) = true ->
  model_params2 prefix op (Some it) = Ok out ->
  out = map (param_fix prefix) (phase2_input prefix ps1 it) /\ NoDup (map p_py out) /\
  forall p, In p out -> reserved_param (p_py p) = false.
Proof. exact model_params2_distinct. Qed.
Print Assumptions C09_model_params2_distinct.

Theorem C09_model_params2_keys : forall prefix op it ps1 out,
  params_phase1 prefix op = Ok ps1 -> model_params2 prefix op (Some it) = Ok out ->
  map param_key out = map param_key (phase2_input prefix ps1 it).
Proof. exact model_params2_keys. Qed.
Print Assumptions C09_model_params2_keys.

(* (c) enum member keys (Values.v, shared with C14) *)
Theorem C09_enum_member_keys : forall vs m, values_from_list vs = Some m -> NoDup (keys m).
Proof. exact values_from_list_keys_nodup. Qed.
Print Assumptions C09_enum_member_keys.

(* (d) classes and modules *)
Theorem C09_classes_distinct_or_error : forall prefix names cs errs,
  model_classes prefix names = (cs, errs) ->
  NoDup cs /\
  (forall n, In n names -> In (class_of prefix n) cs) /\
  (forall c, In c cs -> exists n, In n names /\ c = class_of prefix n) /\
  (forall n, In n errs -> In n names) /\
  (length cs + length errs = length names)%nat /\
  (forall l1 n1 l2 n2 l3, names = l1 ++ n1 :: l2 ++ n2 :: l3 -> class_of prefix n1 = class_of prefix n2 -> In n2 errs).
Proof. exact classes_distinct_or_error. Qed.
Print Assumptions C09_classes_distinct_or_error.

Theorem C09_add_class_fresh : forall prefix cs n cs',
  add_class prefix cs n = Ok cs' -> ~ In (class_of prefix n) cs /\ cs' = cs ++ [class_of prefix n].
Proof. exact add_class_fresh. Qed.
Print Assumptions C09_add_class_fresh.

Theorem C09_modules_unchecked_refuted :
  exists names cs, model_classes [102;105;101;108;100;95]%N names = (cs, []) /\ NoDup cs /\ length cs = length names /\
    ~ NoDup (map (module_of [102;105;101;108;100;95]%N) cs).
Proof. exact modules_unchecked_refuted. Qed.
Print Assumptions C09_modules_unchecked_refuted.

(* (d') the class-name scope with enums: equal tables share one class, different tables / enum vs model are reported *)
Theorem C09_enum_classes_distinct_or_shared : forall prefix ds tab errs,
  model_decls prefix ds = Some (tab, errs) ->
  NoDup (map fst tab) /\
  (forall c t, In (c, CEnum t) tab ->
     exists p n vs, In (DEnum p n vs) ds /\ decl_class prefix (DEnum p n vs) = c /\ values_from_list vs = Some t) /\
  (forall d, In d ds -> In d errs \/ exists e, clookup (decl_class prefix d) tab = Some e) /\
  (forall d1 d2 t1 t2, In d1 ds -> In d2 ds -> decl_class prefix d1 = decl_class prefix d2 ->
     decl_table d1 = Some t1 -> decl_table d2 = Some t2 -> ~ In d1 errs -> ~ In d2 errs -> tbl_equiv t1 t2) /\
  (forall n d2 t2, In (DModel n) ds -> In d2 ds -> decl_class prefix (DModel n) = decl_class prefix d2 ->
     decl_table d2 = Some t2 -> In (DModel n) errs \/ In d2 errs) /\
  (forall d, In d errs -> In d ds).
Proof. exact enum_classes_distinct_or_shared. Qed.
Print Assumptions C09_enum_classes_distinct_or_shared.

(* the same scope under literal_enums: true (LiteralEnumProperty.build: value SETS, tables keyed by the value itself) *)
Theorem C09_literal_classes_distinct_or_shared : forall prefix ds tab errs,
  model_decls_lit prefix ds = Some (tab, errs) ->
  NoDup (map fst tab) /\
  (forall c t, In (c, CEnum t) tab ->
     exists p n vs, In (DEnum p n vs) ds /\ decl_class prefix (DEnum p n vs) = c /\ lit_table vs = Some t) /\
  (forall d, In d ds -> In d errs \/ exists e, clookup (decl_class prefix d) tab = Some e) /\
  (forall d1 d2 t1 t2, In d1 ds -> In d2 ds -> decl_class prefix d1 = decl_class prefix d2 ->
     decl_table_g lit_table d1 = Some t1 -> decl_table_g lit_table d2 = Some t2 -> ~ In d1 errs -> ~ In d2 errs -> tbl_equiv t1 t2) /\
  (forall n d2 t2, In (DModel n) ds -> In d2 ds -> decl_class prefix (DModel n) = decl_class prefix d2 ->
     decl_table_g lit_table d2 = Some t2 -> In (DModel n) errs \/ In d2 errs) /\
  (forall d, In d errs -> In d ds).
Proof. exact literal_classes_distinct_or_shared. Qed.
Print Assumptions C09_literal_classes_distinct_or_shared.

(* (e) model attributes of a schema composed with allOf: merging (Merge.v, C15) x python-name conflict resolution (ProcProps.v) *)
Require Import OPC.PyLit OPC.Merge OPC.ProcProps OPC.ProcPropsThm.

Theorem C09_process_names_exact : forall o prefix ins out,
  process o prefix ins = POk out ->
  map i_name out = in_names ins /\ NoDup (map i_name out) /\
  forall n, In n (map i_name out) <-> In n (map i_name ins).
Proof. exact process_names_exact. Qed.
Print Assumptions C09_process_names_exact.

Theorem C09_process_python_names_distinct : forall o prefix ins,
  ins_default prefix ins = true -> g_no_raw_fallback prefix (in_names ins) = true ->
  process o prefix ins <> PErrName /\ process o prefix ins <> PErrRef /\ g_quiet o prefix ins = true /\
  forall out, process o prefix ins = POk out ->
    map i_name out = in_names ins /\
    map i_py out = map (py_default prefix) (in_names ins) /\ NoDup (map i_py out).
Proof. exact process_python_names_distinct. Qed.
Print Assumptions C09_process_python_names_distinct.

(* no static guard, any incoming python names: a run without raw-name fallback ends with pairwise distinct python names *)
Theorem C09_process_quiet_distinct : forall o prefix ins out,
  process o prefix ins = POk out -> g_quiet o prefix ins = true -> NoDup (map i_py out).
Proof. exact process_quiet_distinct. Qed.
Print Assumptions C09_process_quiet_distinct.

(* no guard at all: what each _add_if_no_conflict step guarantees *)
Theorem C09_add_pp_guarantee : forall o prefix st i st' q,
  add_pp_ev o prefix st i = POk (st', q) ->
  exists c attrs',
    st_attrs st' = put_attr c attrs' /\ a_name c = i_name i /\
    (a_py c = merged_py st i \/ a_py c = py_raw prefix (i_name i)) /\
    length attrs' = length (st_attrs st) /\
    forall k x x', nth_error (st_attrs st) k = Some x -> nth_error attrs' k = Some x' ->
      (x' = x \/ x' = attr_raw prefix x) /\
      (a_name x <> i_name i -> a_py x = merged_py st i -> a_py x' <> a_py c) /\
      (a_name x <> i_name i -> a_py c = merged_py st i -> a_py x' <> a_py c).
Proof. exact add_pp_guarantee. Qed.
Print Assumptions C09_add_pp_guarantee.

(* the composed schema of a document: its run is the run on the flat incoming list, so the list-level theorems apply *)
Theorem C09_process_doc_flat : forall o prefix d out,
  process_doc o prefix d = POk out ->
  exists ins, doc_inputs o prefix d = Some ins /\ process o prefix ins = POk out /\
              g_quiet o prefix ins = g_quiet_doc o prefix d.
Proof. exact process_doc_flat. Qed.
Print Assumptions C09_process_doc_flat.

Theorem C09_process_doc_quiet_distinct : forall o prefix d out,
  process_doc o prefix d = POk out -> g_quiet_doc o prefix d = true -> NoDup (map i_py out).
Proof. exact process_doc_quiet_distinct. Qed.
Print Assumptions C09_process_doc_quiet_distinct.

Theorem C09_process_doc_python_names_distinct : forall o prefix d ins out,
  g_parents prefix d = true -> doc_inputs o prefix d = Some ins ->
  g_no_raw_fallback prefix (in_names ins) = true ->
  process_doc o prefix d = POk out ->
  map i_name out = in_names ins /\ map i_py out = map (py_default prefix) (in_names ins) /\ NoDup (map i_py out).
Proof. exact process_doc_python_names_distinct. Qed.
Print Assumptions C09_process_doc_python_names_distinct.

(* the guards are necessary: a merge step turns a state with distinct python names into one with a duplicate (attr_rename_unchecked) *)
Theorem C09_process_step_distinct_refuted :
  exists ins i out_before out,
    process w_o w_fp ins = POk out_before /\ NoDup (map i_py out_before) /\
    In (i_name i) (map i_name ins) /\
    process w_o w_fp (ins ++ [i]) = POk out /\ ~ NoDup (map i_py out) /\
    g_quiet w_o w_fp (ins ++ [i]) = false.
Proof. exact process_step_distinct_refuted. Qed.
Print Assumptions C09_process_step_distinct_refuted.

(* non-vacuity: a merge whose base is the new declaration together with a raw-name fallback; and the static guard with a merge *)
Theorem C09_process_merge_fallback :
  process w_o w_fp [w_in s_startDate MStr; w_in s_start_date MStr; w_in s_startDate MDate]
  = POk [mk_inp s_startDate s_startDate (w_P MDate); mk_inp s_start_date s_start_date (w_P MStr)] /\
  merged_py (mk_st [mk_attr s_startDate s_startDate; mk_attr s_start_date s_start_date]
                   [(s_startDate, w_P MStr); (s_start_date, w_P MStr)]) (w_in s_startDate MDate) = s_start_date /\
  g_quiet w_o w_fp [w_in s_startDate MStr; w_in s_start_date MStr; w_in s_startDate MDate] = false.
Proof. exact process_merge_fallback. Qed.
Print Assumptions C09_process_merge_fallback.

Theorem C09_process_guard_nonvacuous :
  let ins := [w_in s_startDate MStr; w_in s_endTime MInt; w_in s_startDate MDate] in
  ins_default w_fp ins = true /\ g_no_raw_fallback w_fp (in_names ins) = true /\
  exists out, process w_o w_fp ins = POk out /\ length out = 2%nat /\ base_is_new (w_P MStr) (w_P MDate) = true.
Proof. exact process_guard_nonvacuous. Qed.
Print Assumptions C09_process_guard_nonvacuous.
