Require Import OPC.Uni OPC.Names OPC.NamesThm OPC.PyLit OPC.Values OPC.ValuesThm OPC.Merge OPC.MergeThm.
From Coq Require Import NArith ZArith List Bool. Import ListNotations. Open Scope N_scope.

(* a property is mandatory if any member requires it (for every pair of declarations, no well-formedness needed) *)
Theorem C15_merge_required_or : forall o p q r,
  merge o p q = MOk r -> mp_required r = mp_required p || mp_required q.
Proof. exact merge_required_or. Qed.
Print Assumptions C15_merge_required_or.

(* the kind of the merged property is the narrowest compatible kind: integer over number, formatted string over string,
   enum over its base type, any yields to everything *)
Theorem C15_merge_kind_narrowest : forall o p q r,
  wf_mprop p = true -> wf_mprop q = true -> merge o p q = MOk r ->
  narrow_kind (mp_kind p) (mp_kind q) (vt_of p) (vt_of q) = Some (mp_kind r).
Proof. exact merge_kind_narrowest. Qed.
Print Assumptions C15_merge_kind_narrowest.

Theorem C15_merge_wf : forall o p q r,
  wf_mprop p = true -> wf_mprop q = true -> merge o p q = MOk r -> wf_mprop r = true.
Proof. exact merge_wf. Qed.
Print Assumptions C15_merge_wf.

(* regardless of member order: under the guard, both orders give the same TYPE (kind + payload, enum values as a set, smaller enum) *)
Theorem C15_merge_type_symmetric : forall o p q r1 r2,
  wf_mprop p = true -> wf_mprop q = true -> g_merge p q = true ->
  merge o p q = MOk r1 -> merge o q p = MOk r2 -> ty_eqb r1 r2 = true.
Proof. exact merge_type_symmetric. Qed.
Print Assumptions C15_merge_type_symmetric.

(* ... or a diagnostic, in both orders *)
Theorem C15_merge_incompatible_symmetric : forall o p q,
  wf_mprop p = true -> wf_mprop q = true ->
  narrow_kind (mp_kind p) (mp_kind q) (vt_of p) (vt_of q) = None ->
  merge o p q = MErr /\ merge o q p = MErr.
Proof. exact merge_incompatible_symmetric. Qed.
Print Assumptions C15_merge_incompatible_symmetric.

(* the guard is necessary (known finding merge_first_wins) *)
Theorem C15_merge_first_wins_refuted : exists o p q r1 r2,
  wf_mprop p = true /\ wf_mprop q = true /\ g_merge p q = false /\
  merge o p q = MOk r1 /\ merge o q p = MOk r2 /\ ty_eqb r1 r2 = false.
Proof. exact merge_first_wins_refuted. Qed.
Print Assumptions C15_merge_first_wins_refuted.

(* the composed class has exactly the property names of all members, each once *)
Theorem C15_collect_names : forall o ins out,
  collect o ins = Some out ->
  (forall n, In n (map fst out) <-> In n (map fst ins)) /\ NoDup (map fst out).
Proof. exact collect_names. Qed.
Print Assumptions C15_collect_names.

(* and each is required iff some member's declaration of it is *)
Theorem C15_collect_required : forall o ins out n p,
  collect o ins = Some out -> In (n, p) out ->
  mp_required p = existsb (fun np => str_eqb n (fst np) && mp_required (snd np)) ins.
Proof. exact collect_required. Qed.
Print Assumptions C15_collect_required.

(* the guard is satisfiable by a non-trivial pair *)
Theorem C15_merge_nonvacuous : exists o p q r,
  wf_mprop p = true /\ wf_mprop q = true /\ g_merge p q = true /\ mp_kind p <> mp_kind q /\ merge o p q = MOk r.
Proof. exact merge_nonvacuous. Qed.
Print Assumptions C15_merge_nonvacuous.

(* three or more declarations: the left-to-right fold is order dependent even inside the guard (known finding merge_three_way_order) *)
Theorem C15_collect_order_refuted : exists o ins out,
  forallb (fun np => wf_mprop (snd np)) ins = true /\
  forallb (fun a => forallb (fun b => g_merge (snd a) (snd b)) ins) ins = true /\
  collect o ins = Some out /\ collect o (rev ins) = None.
Proof. exact collect_order_refuted. Qed.
Print Assumptions C15_collect_order_refuted.

(* the default of a merged enum can name the other enum's class (known finding merge_enum_default_stale_class) *)
Theorem C15_merge_enum_default_stale_refuted : exists o p q r vt vals cls v,
  wf_mprop p = true /\ wf_mprop q = true /\ g_merge p q = true /\ merge o p q = MOk r /\
  mp_pl r = PL_enum vt vals cls /\ mp_dflt r = Some v /\ is_prefix (cls ++ [46]) (code v) = false.
Proof. exact merge_enum_default_stale_refuted. Qed.
Print Assumptions C15_merge_enum_default_stale_refuted.

(* the full property loop of _process_properties (ProcProps.v: merging together with the python-name conflict resolution of C09)
   collects exactly what `collect` collects: the theorems above about names and requiredness hold for the composed model *)
Require Import OPC.Scopes OPC.ProcProps OPC.ProcPropsThm.
Theorem C15_process_collect : forall o prefix ins out,
  process o prefix ins = POk out -> collect o (payloads ins) = Some (payloads out).
Proof. exact process_collect. Qed.
Print Assumptions C15_process_collect.

Theorem C15_process_names_exact : forall o prefix ins out,
  process o prefix ins = POk out ->
  map i_name out = in_names ins /\ NoDup (map i_name out) /\
  forall n, In n (map i_name out) <-> In n (map i_name ins).
Proof. exact process_names_exact. Qed.
Print Assumptions C15_process_names_exact.

Theorem C15_process_required : forall o prefix ins out x,
  process o prefix ins = POk out -> In x out ->
  mp_required (i_prop x) = existsb (fun i => str_eqb (i_name x) (i_name i) && mp_required (i_prop i)) ins.
Proof. exact process_required. Qed.
Print Assumptions C15_process_required.

Theorem C15_process_doc_names_exact : forall o prefix d out,
  process_doc o prefix d = POk out ->
  exists ins, doc_inputs o prefix d = Some ins /\
    map i_name out = in_names ins /\ NoDup (map i_name out) /\ (forall n, In n (map i_name out) <-> In n (map i_name ins)) /\
    collect o (payloads ins) = Some (payloads out).
Proof. exact process_doc_names_exact. Qed.
Print Assumptions C15_process_doc_names_exact.
