Require Import OPC.gen.GenKinds OPC.Uni OPC.Names OPC.Codec OPC.CodecThm.
From Coq Require Import NArith List Bool. Import ListNotations. Open Scope N_scope.

(* every schema-valid (canonical) instance decodes, and re-encoding the decoded object yields the SAME JSON value — for every
   class table, kind, instance and nesting depth; objects are finite maps, so equality is independent of key order *)
Theorem C02_roundtrip : forall orc T f k j,
  table_ok T = true -> k_ok k = true -> wf_json j = true ->
  valid orc T f k j = true ->
  exists v, dec orc T f k j = Some v /\ enc T f k v = Some j.
Proof. exact roundtrip. Qed.
Print Assumptions C02_roundtrip.

(* ... and decoding the re-encoded value yields an equal object *)
Theorem C02_decode_reencoded : forall orc T f k j,
  table_ok T = true -> k_ok k = true -> wf_json j = true -> valid orc T f k j = true ->
  exists v j', dec orc T f k j = Some v /\ enc T f k v = Some j' /\ dec orc T f k j' = Some v.
Proof. exact decode_reencoded. Qed.
Print Assumptions C02_decode_reencoded.

(* undeclared properties survive whenever the schema permits additional properties *)
Theorem C02_additional_preserved : forall orc T f c cd m key x,
  table_ok T = true -> get_class T c = Some cd -> c_addl cd <> None -> wf_json (JObj m) = true ->
  valid orc T f (KModel c) (JObj m) = true ->
  m_get key m = Some x -> existsb (str_eqb key) (map fst (c_props cd)) = false ->
  exists v m', dec orc T f (KModel c) (JObj m) = Some v /\ enc T f (KModel c) v = Some (JObj m') /\ m_get key m' = Some x.
Proof. exact additional_preserved. Qed.
Print Assumptions C02_additional_preserved.

(* the encoder writes exactly the declared wire names (plus additional keys); the output type `json` has no sentinel or rich object *)
Theorem C02_wire_names_exact : forall (orc : oracles) T f c fs ad m key x,
  enc T f (KModel c) (PObj c fs ad) = Some (JObj m) -> m_get key m = Some x ->
  (exists cd, get_class T c = Some cd /\ existsb (str_eqb key) (map fst (c_props cd)) = true) \/ existsb (str_eqb key) (map fst ad) = true.
Proof. exact wire_names_exact. Qed.
Print Assumptions C02_wire_names_exact.

(* the guard k_ok is necessary: each conjunct's complement is a defect of the generated code (known findings) *)
Theorem C02_union_date_overlap_refuted : exists orc T f k j,
  table_ok T = true /\ wf_json j = true /\ valid orc T f k j = true /\ k_ok k = false /\
  exists v j', dec orc T f k j = Some v /\ enc T f k v = Some j' /\ j' <> j.
Proof. exact union_date_overlap_refuted. Qed.
Theorem C02_union_closed_model_first_refuted : exists orc T f k j,
  table_ok T = true /\ wf_json j = true /\ valid orc T f k j = true /\ k_ok k = false /\
  exists v j', dec orc T f k j = Some v /\ enc T f k v = Some j' /\ j' <> j.
Proof. exact union_closed_model_first_refuted. Qed.
Theorem C02_union_encoder_dispatch_refuted : exists orc T f k j v,
  table_ok T = true /\ wf_json j = true /\ valid orc T f k j = true /\ k_ok k = false /\
  dec orc T f k j = Some v /\ enc T f k v = None.
Proof. exact union_encoder_dispatch_refuted. Qed.
Theorem C02_union_const_unguarded_refuted : exists orc T f k j,
  table_ok T = true /\ wf_json j = true /\ valid orc T f k j = true /\ k_ok k = false /\ dec orc T f k j = None.
Proof. exact union_const_unguarded_refuted. Qed.

(* the hypotheses are satisfiable by a non-trivial instance *)
Theorem C02_roundtrip_nonvacuous : exists orc T f k j,
  table_ok T = true /\ k_ok k = true /\ wf_json j = true /\ valid orc T f k j = true /\
  (exists m, j = JObj m /\ 3 <= length m)%nat.
Proof. exact roundtrip_nonvacuous. Qed.
