Require Import OPC.Graph OPC.GraphThm OPC.GraphLfp.
From Coq Require Import NArith List Bool. Import ListNotations. Open Scope N_scope.

(* the fuel of the two retry loops and of the removal cascade suffices for every graph *)
Theorem C08_loops_terminate : forall g,
  (forall k, loop create_try no_final (S (length (create_todo g)) + k) st0 (create_todo g) [] = create_loop g) /\
  (forall s k, loop proc_try is_rec (S (length (s_queue s)) + k) s (s_queue s) [] = process_loop s) /\
  (forall D work cbr cbn k, remove_wl (remove_fuel D work cbr + k) D work cbr cbn [] = remove_roots D work cbr cbn) /\
  r_prog (create_loop g) = false /\ (forall s, r_prog (process_loop s) = false).
Proof. exact loops_terminate. Qed.
Print Assumptions C08_loops_terminate.

(* nothing that remains refers to anything that was removed: references *)
Theorem C08_removal_closed : forall g, wf_graph g = true -> g_no_union_edge_to_failing g = true ->
  forall n, In n g -> has (res_cbr (build_schemas g)) (n_ref n) = true ->
  forall e, In e (node_edges n) -> has (res_cbr (build_schemas g)) (snd (fst e)) = true.
Proof. exact removal_closed. Qed.
Print Assumptions C08_removal_closed.

(* ... and classes: every class a survivor mints has a module *)
Theorem C08_classes_closed : forall g, wf_graph g = true -> g_no_name_pressure g = true -> g_no_union_edge_to_failing g = true ->
  forall n, In n g -> has (res_cbr (build_schemas g)) (n_ref n) = true ->
  forall c, In c (node_mints n) -> has (res_cbn (build_schemas g)) c = true.
Proof. exact classes_closed. Qed.
Print Assumptions C08_classes_closed.

(* the guards cannot be dropped: the confirmed defects, as concrete graphs *)
Theorem C08_union_dependency_unrecorded_refuted :
  exists g, wf_graph g = true /\ g_no_name_pressure g = true /\ g_no_union_edge_to_failing g = false /\
    exists n e, In n g /\ has (res_cbr (build_schemas g)) (n_ref n) = true /\ In e (node_edges n) /\
                has (res_cbr (build_schemas g)) (snd (fst e)) = false.
Proof. exact union_dependency_unrecorded_refuted. Qed.
Print Assumptions C08_union_dependency_unrecorded_refuted.

Theorem C08_name_pressure_refuted :
  exists g, wf_graph g = true /\ g_no_union_edge_to_failing g = true /\ g_no_name_pressure g = false /\
    exists n c, In n g /\ has (res_cbr (build_schemas g)) (n_ref n) = true /\ In c (node_mints n) /\
                has (res_cbn (build_schemas g)) c = false /\
                forall e, In e (res_errs (build_schemas g)) -> er_unit e <> n_ref n /\ ~ In (n_ref n) (er_removed e).
Proof. exact name_pressure_refuted. Qed.
Print Assumptions C08_name_pressure_refuted.

(* the cascade deletes exactly the recorded dependants+ of the models that failed; create / process never delete *)
Theorem C08_removal_exact : forall g,
  let s2 := r_st (process_loop (r_st (create_loop g))) in
  let pl := process_loop (r_st (create_loop g)) in
  forall r, has (s_cbr s2) r = true -> has (res_cbr (build_schemas g)) r = false ->
  exists q c, In (q, c) (r_final pl ++ r_retry pl) /\ Reach (s_deps s2) (s_cbr s2) (e_roots (q_entry q)) r.
Proof. exact removal_exact. Qed.
Print Assumptions C08_removal_exact.

(* the retry loops compute least fixed points: order of the components does not matter *)
Theorem C08_create_lfp : forall g, wf_graph g = true -> g_plain g = true -> g_no_dup_error g = true ->
  forall n, In n g -> (has (s_cbr (r_st (create_loop g))) (n_ref n) = true <-> C g n).
Proof. exact create_lfp. Qed.
Print Assumptions C08_create_lfp.

Theorem C08_process_lfp : forall g, wf_graph g = true -> g_allof_direct g = true -> g_plain g = true -> g_no_dup_error g = true ->
  forall q, In q (s_queue (r_st (create_loop g))) ->
  ((exists c, In (q, c) (r_final (process_loop (r_st (create_loop g))) ++ r_retry (process_loop (r_st (create_loop g))))) <-> ~ P g (q_entry q)).
Proof. exact process_failed_iff. Qed.
Print Assumptions C08_process_lfp.

(* containment: D and D+b differ in the description of component b only; what does not reach b has the same fate in both *)
Theorem C08_containment : forall b g g', agree_off b g g' -> g_contain g = true -> g_contain g' = true ->
  forall n, In n g -> ~ reaches g b (n_ref n) -> (Surv g (n_ref n) <-> Surv g' (n_ref n)).
Proof. exact containment. Qed.
Print Assumptions C08_containment.

Theorem C08_containment_exact : forall b g g', agree_off b g g' -> g_contain g = true -> g_contain g' = true -> ~ Surv g' b ->
  forall n, In n g -> (Surv g' (n_ref n) <-> Surv g (n_ref n) /\ ~ reaches g b (n_ref n)).
Proof. exact containment_exact. Qed.
Print Assumptions C08_containment_exact.

Theorem C08_union_inline_reprocessed_refuted :
  exists g, wf_graph g = true /\ g_no_name_pressure g = true /\ g_no_union_edge_to_failing g = false /\
    exists n c, In n g /\ has (res_cbr (build_schemas g)) (n_ref n) = true /\ In c (node_mints n) /\
                has (res_cbn (build_schemas g)) c = false /\ map er_removed (res_errs (build_schemas g)) = [[]].
Proof. exact union_inline_reprocessed_refuted. Qed.
Print Assumptions C08_union_inline_reprocessed_refuted.
