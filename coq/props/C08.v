Require Import OPC.Graph OPC.GraphThm.
From Coq Require Import NArith List Bool. Import ListNotations. Open Scope N_scope.

(* the fuel of the two retry loops and of the removal cascade suffices for every graph *)
Theorem C08_loops_terminate : forall g,
  (forall k, loop create_try no_final (S (length (create_todo g)) + k) st0 (create_todo g) [] = create_loop g) /\
  (forall s k, loop proc_try is_rec (S (length (s_queue s)) + k) s (s_queue s) [] = process_loop s) /\
  (forall D work cbr cbn k, remove_wl (remove_fuel D work cbr + k) D work cbr cbn [] = remove_roots D work cbr cbn) /\
  r_prog (create_loop g) = false /\ (forall s, r_prog (process_loop s) = false).
Proof. exact loops_terminate. Qed.
Print Assumptions C08_loops_terminate.

(* nothing that remains refers to anything that was removed: references *)
Theorem C08_removal_closed : forall g, wf_graph g = true -> g_no_union_edge_to_failing g = true ->
  forall n, In n g -> has (res_cbr (build_schemas g)) (n_ref n) = true ->
  forall e, In e (node_edges n) -> has (res_cbr (build_schemas g)) (snd (fst e)) = true.
Proof. exact removal_closed. Qed.
Print Assumptions C08_removal_closed.

(* ... and classes: every class a survivor mints has a module *)
Theorem C08_classes_closed : forall g, wf_graph g = true -> g_no_name_pressure g = true -> g_no_union_edge_to_failing g = true ->
  forall n, In n g -> has (res_cbr (build_schemas g)) (n_ref n) = true ->
  forall c, In c (node_mints n) -> has (res_cbn (build_schemas g)) c = true.
Proof. exact classes_closed. Qed.
Print Assumptions C08_classes_closed.

(* the guards cannot be dropped: the confirmed defects, as concrete graphs *)
Theorem C08_union_dependency_unrecorded_refuted :
  exists g, wf_graph g = true /\ g_no_name_pressure g = true /\ g_no_union_edge_to_failing g = false /\
    exists n e, In n g /\ has (res_cbr (build_schemas g)) (n_ref n) = true /\ In e (node_edges n) /\
                has (res_cbr (build_schemas g)) (snd (fst e)) = false.
Proof. exact union_dependency_unrecorded_refuted. Qed.
Print Assumptions C08_union_dependency_unrecorded_refuted.

Theorem C08_name_pressure_refuted :
  exists g, wf_graph g = true /\ g_no_union_edge_to_failing g = true /\ g_no_name_pressure g = false /\
    exists n c, In n g /\ has (res_cbr (build_schemas g)) (n_ref n) = true /\ In c (node_mints n) /\
                has (res_cbn (build_schemas g)) c = false /\
                forall e, In e (res_errs (build_schemas g)) -> er_unit e <> n_ref n /\ ~ In (n_ref n) (er_removed e).
Proof. exact name_pressure_refuted. Qed.
Print Assumptions C08_name_pressure_refuted.
