(* Rename.v — property C18 (document names cannot capture the generated code's own names). Model file: definitions only.

   (1) A small statement IR sufficient for the bodies of the generated functions (from_dict / to_dict / to_multipart of
       templates/model.py.jinja, _get_kwargs / _parse_response of templates/endpoint_module.py.jinja and the property
       templates they expand): assignment, attribute read, dict pop / lookup by a CONSTANT wire key, call of an
       uninterpreted function on values, isinstance test, if, for loop (with append / item assignment in the body),
       try / except, raise, return.  Values are abstract (a type V with uninterpreted operations `ops V`); the only thing
       the evaluator itself interprets is the ENVIRONMENT (variable -> value, one flat function scope as in Python) -
       which is exactly where a name capture happens.
   (2) renaming of variables in programs and environments;
   (3) a concrete value domain for the refutation witness;
   (4) renaming of the python names of an Endpoint.v endpoint and of its argument list. *)
From Coq Require Import NArith ZArith List Bool.
Import ListNotations.
Require Import OPC.gen.GenKinds OPC.Uni OPC.Names OPC.Codec OPC.Types OPC.Endpoint.
Open Scope N_scope.

Definition var := str.

Inductive expr :=
| EVar (x : var)                               (* read of a local / parameter *)
| EConst (c : N)                               (* literal or module-level name (UNSET, a class, ...) *)
| EAttr (e : expr) (a : str)                   (* e.a      - constant attribute name *)
| EGet (e : expr) (k : str)                    (* e["k"]   - constant wire key *)
| EPop (d : var) (k : str) (dflt : option N)   (* d.pop("k") / d.pop("k", CONST): reads AND updates the variable d *)
| ECall (f : N) (args : list expr)             (* uninterpreted function / method f applied to values *)
| EIsInst (e : expr) (t : N).                  (* isinstance(e, t) *)

Inductive stmt :=
| SSkip
| SSeq (a b : stmt)
| SAssign (x : var) (e : expr)                 (* x = e *)
| SAppend (l : var) (e : expr)                 (* l.append(e) *)
| SSetKey (d : var) (k : str) (e : expr)       (* d["k"] = e *)
| SSetItem (d : var) (k e : expr)              (* d[k] = e *)
| SExpr (e : expr)                             (* expression statement *)
| SIf (c : expr) (a b : stmt)
| SFor (x : var) (e : expr) (body : stmt)      (* for x in e: body *)
| STry (body handler : stmt)                   (* try: body  except: handler *)
| SRaise
| SReturn (e : expr).

(* the uninterpreted part: operations on values; None = the operation raises *)
Record ops (V : Type) := {
  o_const : N -> V;
  o_attr : V -> str -> option V;
  o_get : V -> str -> option V;
  o_pop : V -> str -> option (V * V);          (* (popped value, remaining dict); None = KeyError *)
  o_call : N -> list V -> option V;
  o_isinst : N -> V -> bool;
  o_bool : bool -> V;
  o_truthy : V -> bool;
  o_iter : V -> option (list V);
  o_append : V -> V -> option V;
  o_setkey : V -> str -> V -> option V;
  o_setitem : V -> V -> V -> option V }.
Arguments o_const {V}. Arguments o_attr {V}. Arguments o_get {V}. Arguments o_pop {V}. Arguments o_call {V}.
Arguments o_isinst {V}. Arguments o_bool {V}. Arguments o_truthy {V}. Arguments o_iter {V}. Arguments o_append {V}.
Arguments o_setkey {V}. Arguments o_setitem {V}.

Section Eval.
  Variable V : Type.
  Variable O : ops V.

  Definition env := list (var * V).             (* most recent binding first *)
  Fixpoint lookup (en : env) (x : var) : option V :=
    match en with [] => None | (k, v) :: r => if str_eqb k x then Some v else lookup r x end.
  Definition upd (x : var) (v : V) (en : env) : env := (x, v) :: en.
  Definition keys (en : env) : list var := map fst en.

  Section EvalList.
    Variable ev : expr -> env -> env * option V.
    Fixpoint eval_list (l : list expr) (en : env) : env * option (list V) :=
      match l with
      | [] => (en, Some [])
      | a :: r =>
          match ev a en with
          | (en1, None) => (en1, None)
          | (en1, Some va) => match eval_list r en1 with (en2, rr) => (en2, option_map (cons va) rr) end
          end
      end.
  End EvalList.

  (* expressions: the environment is threaded (pop updates its dict variable); None = an exception was raised *)
  Fixpoint eval (e : expr) (en : env) : env * option V :=
    match e with
    | EVar x => (en, lookup en x)               (* unbound: NameError / UnboundLocalError *)
    | EConst c => (en, Some (o_const O c))
    | EAttr e1 a => match eval e1 en with (en1, r) => (en1, match r with Some v => o_attr O v a | None => None end) end
    | EGet e1 k => match eval e1 en with (en1, r) => (en1, match r with Some v => o_get O v k | None => None end) end
    | EPop d k dflt =>
        match lookup en d with
        | None => (en, None)
        | Some dv => match o_pop O dv k with
                     | Some (v, dv') => (upd d dv' en, Some v)
                     | None => (en, match dflt with Some c => Some (o_const O c) | None => None end)
                     end
        end
    | ECall f args => match eval_list eval args en with (en1, r) => (en1, match r with Some vs => o_call O f vs | None => None end) end
    | EIsInst e1 t => match eval e1 en with (en1, r) => (en1, option_map (fun v => o_bool O (o_isinst O t v)) r) end
    end.

  Inductive res := RNorm (en : env) | RRet (v : V) | RExc (en : env).

  Section Loop.
    Variable body : env -> res.
    Variable x : var.
    Fixpoint loop (items : list V) (en : env) : res :=
      match items with
      | [] => RNorm en
      | it :: r => match body (upd x it en) with RNorm en' => loop r en' | o => o end
      end.
  End Loop.

  Fixpoint exec (s : stmt) (en : env) : res :=
    match s with
    | SSkip => RNorm en
    | SSeq a b => match exec a en with RNorm en1 => exec b en1 | r => r end
    | SAssign x e => match eval e en with (en1, Some v) => RNorm (upd x v en1) | (en1, None) => RExc en1 end
    | SAppend l e =>
        match eval e en with
        | (en1, Some v) => match lookup en1 l with
                           | Some lv => match o_append O lv v with Some lv' => RNorm (upd l lv' en1) | None => RExc en1 end
                           | None => RExc en1 end
        | (en1, None) => RExc en1
        end
    | SSetKey d k e =>
        match eval e en with
        | (en1, Some v) => match lookup en1 d with
                           | Some dv => match o_setkey O dv k v with Some dv' => RNorm (upd d dv' en1) | None => RExc en1 end
                           | None => RExc en1 end
        | (en1, None) => RExc en1
        end
    | SSetItem d k e =>
        match eval e en with
        | (en1, Some v) =>
            match eval k en1 with
            | (en2, Some kv) => match lookup en2 d with
                                | Some dv => match o_setitem O dv kv v with Some dv' => RNorm (upd d dv' en2) | None => RExc en2 end
                                | None => RExc en2 end
            | (en2, None) => RExc en2
            end
        | (en1, None) => RExc en1
        end
    | SExpr e => match eval e en with (en1, Some _) => RNorm en1 | (en1, None) => RExc en1 end
    | SIf c a b => match eval c en with
                   | (en1, Some v) => if o_truthy O v then exec a en1 else exec b en1
                   | (en1, None) => RExc en1 end
    | SFor x e body =>
        match eval e en with
        | (en1, Some v) => match o_iter O v with Some items => loop (exec body) x items en1 | None => RExc en1 end
        | (en1, None) => RExc en1
        end
    | STry body h => match exec body en with RExc en1 => exec h en1 | r => r end
    | SRaise => RExc en
    | SReturn e => match eval e en with (en1, Some v) => RRet v | (en1, None) => RExc en1 end
    end.

  (* what a caller of the function observes *)
  Inductive outcome := ORet (v : V) | ONone | ORaise.
  Definition run (p : stmt) (en : env) : outcome :=
    match exec p en with RRet v => ORet v | RNorm _ => ONone | RExc _ => ORaise end.

  Definition ren_env (rho : var -> var) (en : env) : env := map (fun kv => (rho (fst kv), snd kv)) en.
  Definition map_res (f : env -> env) (r : res) : res :=
    match r with RNorm en => RNorm (f en) | RRet v => RRet v | RExc en => RExc (f en) end.
End Eval.
Arguments lookup {V}. Arguments upd {V}. Arguments keys {V}. Arguments eval {V}. Arguments exec {V}. Arguments run {V}.
Arguments ren_env {V}. Arguments RNorm {V}. Arguments RRet {V}. Arguments RExc {V}. Arguments map_res {V}.
Arguments ORet {V}. Arguments ONone {V}. Arguments ORaise {V}. Arguments eval_list {V}. Arguments loop {V}.

(* ---- renaming ---- *)
Section Ren.
  Variable rho : var -> var.
  Fixpoint ren_expr (e : expr) : expr :=
    match e with
    | EVar x => EVar (rho x)
    | EConst c => EConst c
    | EAttr e1 a => EAttr (ren_expr e1) a
    | EGet e1 k => EGet (ren_expr e1) k
    | EPop d k dflt => EPop (rho d) k dflt
    | ECall f args => ECall f (map ren_expr args)
    | EIsInst e1 t => EIsInst (ren_expr e1) t
    end.
  Fixpoint ren_stmt (s : stmt) : stmt :=
    match s with
    | SSkip => SSkip
    | SSeq a b => SSeq (ren_stmt a) (ren_stmt b)
    | SAssign x e => SAssign (rho x) (ren_expr e)
    | SAppend l e => SAppend (rho l) (ren_expr e)
    | SSetKey d k e => SSetKey (rho d) k (ren_expr e)
    | SSetItem d k e => SSetItem (rho d) (ren_expr k) (ren_expr e)
    | SExpr e => SExpr (ren_expr e)
    | SIf c a b => SIf (ren_expr c) (ren_stmt a) (ren_stmt b)
    | SFor x e body => SFor (rho x) (ren_expr e) (ren_stmt body)
    | STry a b => STry (ren_stmt a) (ren_stmt b)
    | SRaise => SRaise
    | SReturn e => SReturn (ren_expr e)
    end.
End Ren.

(* variables a program mentions *)
Fixpoint evars (e : expr) : list var :=
  match e with
  | EVar x => [x]
  | EConst _ => []
  | EAttr e1 _ | EGet e1 _ | EIsInst e1 _ => evars e1
  | EPop d _ _ => [d]
  | ECall _ args => flat_map evars args
  end.
Fixpoint svars (s : stmt) : list var :=
  match s with
  | SSkip | SRaise => []
  | SSeq a b | STry a b => svars a ++ svars b
  | SAssign x e | SAppend x e | SSetKey x _ e => x :: evars e
  | SSetItem d k e => d :: evars k ++ evars e
  | SExpr e | SReturn e => evars e
  | SIf c a b => evars c ++ svars a ++ svars b
  | SFor x e body => x :: evars e ++ svars body
  end.

(* rename one variable *)
Definition ren1 (x n : var) : var -> var := fun y => if str_eqb y x then n else y.

(* the names of one scope of the regenerated table *)
Definition scope_names (tbl : list (str * str)) (scope : str) : list str :=
  map snd (filter (fun sn => str_eqb (fst sn) scope) tbl).

(* ---- a concrete value domain (for the refutation witness and the non-vacuity examples) ---- *)
Inductive cval := CStr (s : str) | CDict (m : list (str * cval)) | CTup (l : list cval) | CNone | CBool (b : bool).
Fixpoint cd_get (m : list (str * cval)) (k : str) : option cval :=
  match m with [] => None | (k', v) :: r => if str_eqb k' k then Some v else cd_get r k end.
Fixpoint cd_del (m : list (str * cval)) (k : str) : list (str * cval) :=
  match m with [] => [] | (k', v) :: r => if str_eqb k' k then r else (k', v) :: cd_del r k end.
Definition f_dict : N := 0.        (* dict(x): a copy *)
Definition f_tuple : N := 1.       (* the observable result: a tuple of the values *)
Definition cops : ops cval := {|
  o_const := fun _ => CNone;
  o_attr := fun _ _ => None;
  o_get := fun v k => match v with CDict m => cd_get m k | _ => None end;
  o_pop := fun v k => match v with CDict m => match cd_get m k with Some x => Some (x, CDict (cd_del m k)) | None => None end | _ => None end;
  o_call := fun f vs => if f =? f_dict then match vs with [CDict m] => Some (CDict m) | _ => None end else Some (CTup vs);
  o_isinst := fun _ _ => false;
  o_bool := CBool;
  o_truthy := fun v => match v with CBool b => b | CNone => false | _ => true end;
  o_iter := fun v => match v with CTup l => Some l | CDict m => Some (map (fun kv => CStr (fst kv)) m) | _ => None end;
  o_append := fun l v => match l with CTup xs => Some (CTup (xs ++ [v])) | _ => None end;
  o_setkey := fun d k v => match d with CDict m => Some (CDict ((k, v) :: cd_del m k)) | _ => None end;
  o_setitem := fun d k v => match d, k with CDict m, CStr ks => Some (CDict ((ks, v) :: cd_del m ks)) | _, _ => None end |}.

Definition v_d : var := [100].                       (* d *)
Definition v_src : var := [115;114;99].              (* src *)
Definition v_addl : var := [97;100;100;108].         (* addl *)
Definition v_x : var := [120].                       (* x: the document-derived local *)
Definition k_k : str := [107].
(* shaped like the generated from_dict:  d = dict(src); x = d.pop("k"); addl = d; return (x, addl) *)
Definition from_dict_shape (x : var) : stmt :=
  SSeq (SAssign v_d (ECall f_dict [EVar v_src]))
  (SSeq (SAssign x (EPop v_d k_k None))
  (SSeq (SAssign v_addl (EVar v_d))
        (SReturn (ECall f_tuple [EVar x; EVar v_addl])))).
Definition from_dict_template_vars : list var := [v_d; v_src; v_addl].
Definition from_dict_env : list (var * cval) := [(v_src, CDict [(k_k, CStr [118]); ([101], CStr [119])])].

(* ---- renaming the python names of an endpoint of Endpoint.v (wire names untouched) ---- *)
Definition ren_param (rho : str -> str) (p : param) : param :=
  {| pa_name := pa_name p; pa_py := rho (pa_py p); pa_req := pa_req p; pa_kind := pa_kind p |}.
Definition ren_args (rho : str -> str) (a : args) : args := map (fun kv => (rho (fst kv), snd kv)) a.
(* path' is the path template with its {python name} placeholders renamed *)
Definition ren_endpoint (rho : str -> str) (path' : str) (ep : endpoint) : endpoint :=
  {| ep_method := ep_method ep; ep_path := path';
     ep_pathp := map (ren_param rho) (ep_pathp ep); ep_query := map (ren_param rho) (ep_query ep);
     ep_header := map (ren_param rho) (ep_header ep); ep_cookie := map (ren_param rho) (ep_cookie ep);
     ep_bodies := ep_bodies ep; ep_security := ep_security ep; ep_responses := ep_responses ep |}.
Definition py_names (ep : endpoint) : list str :=
  map pa_py (ep_pathp ep ++ ep_query ep ++ ep_header ep ++ ep_cookie ep).
Definition s_body : str := [98;111;100;121].
