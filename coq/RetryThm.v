(* RetryThm.v -- the retry loop computes a least fixed point, hence its result does not depend on the order of the to-do list *)
From Coq Require Import NArith List Bool Lia Permutation PeanoNat.
Import ListNotations.
Require Import OPC.Retry.
Open Scope N_scope.

(* the order-free specification: n is derivable iff it is in the document and everything it depends on is derivable *)
Inductive Derivable (g : graph) (todo : list N) : N -> Prop :=
| der : forall n, In n todo -> (forall d, In d (deps g n) -> Derivable g todo d) -> Derivable g todo n.

Lemma memn_in n l : memn n l = true <-> In n l.
Proof.
  unfold memn. rewrite existsb_exists. split.
  - intros [x [Hx He]]. apply N.eqb_eq in He. now subst.
  - intro H. exists n. split; [exact H|apply N.eqb_refl].
Qed.

Lemma ready_spec g done n : ready g done n = true <-> (forall d, In d (deps g n) -> In d done).
Proof.
  unfold ready. rewrite forallb_forall. split; intros H d Hd.
  - apply memn_in. now apply H.
  - apply memn_in. now apply H.
Qed.

Lemma round_spec g : forall todo done,
  let r := round g done todo in
  (forall x, In x done -> In x (fst r)) /\
  (forall x, In x (fst r) -> In x done \/ In x todo) /\
  (forall x, In x (snd r) -> In x todo) /\
  (forall x, In x todo -> In x (fst r) \/ In x (snd r)) /\
  (length (snd r) <= length todo)%nat /\
  (length (snd r) = length todo -> fst r = done /\ snd r = todo /\ forall x, In x todo -> ready g done x = false).
Proof.
  induction todo as [|n t IH]; intro done; cbn [round].
  - cbn. refine (conj _ (conj _ (conj _ (conj _ (conj _ _))))); auto; try tauto.
  - destruct (ready g done n) eqn:E.
    + specialize (IH (n :: done)). cbn zeta in IH. destruct IH as (I1 & I2 & I3 & I4 & I5 & I6).
      cbn zeta. refine (conj _ (conj _ (conj _ (conj _ (conj _ _))))).
      * intros x Hx. apply I1. now right.
      * intros x Hx. destruct (I2 x Hx) as [[H|H]|H]; [right; left; exact H|now left|right; now right].
      * intros x Hx. right. now apply I3.
      * intros x [Hx|Hx]; [subst; left; apply I1; now left|now apply I4].
      * cbn [length]. lia.
      * cbn [length]. intro H. lia.
    + specialize (IH done). cbn zeta in IH. destruct IH as (I1 & I2 & I3 & I4 & I5 & I6).
      cbn zeta. cbn [fst snd]. refine (conj _ (conj _ (conj _ (conj _ (conj _ _))))).
      * exact I1.
      * intros x Hx. destruct (I2 x Hx) as [H|H]; [now left|right; now right].
      * intros x [Hx|Hx]; [now left|right; now apply I3].
      * intros x [Hx|Hx]; [subst; right; now left|]. destruct (I4 x Hx) as [H|H]; [now left|right; now right].
      * cbn [length]. lia.
      * cbn [length]. intro H. assert (H' : length (snd (round g done t)) = length t) by lia.
        destruct (I6 H') as (J1 & J2 & J3). split; [exact J1|]. split; [now rewrite J2|].
        intros x [Hx|Hx]; [now subst|now apply J3].
Qed.

(* when the fuel exceeds the length of the to-do list the loop ends because a round made no progress: the result is stuck *)
Lemma retry_stuck g : forall fuel done todo, (length todo < fuel)%nat ->
  let r := retry fuel g done todo in
  (forall x, In x (snd r) -> ready g (fst r) x = false) /\
  (forall x, In x todo -> In x (fst r) \/ In x (snd r)) /\
  (forall x, In x done -> In x (fst r)) /\
  (forall x, In x (fst r) -> In x done \/ In x todo) /\
  (forall x, In x (snd r) -> In x todo).
Proof.
  induction fuel as [|f IH]; intros done todo Hf; [lia|].
  cbn [retry]. pose proof (round_spec g todo done) as R. cbn zeta in R. destruct R as (R1 & R2 & R3 & R4 & R5 & R6).
  cbn zeta. destruct (Nat.eqb_spec (length (snd (round g done todo))) (length todo)) as [E|E].
  - destruct (R6 E) as (J1 & J2 & J3). refine (conj _ (conj _ (conj _ (conj _ _)))); auto.
    intros x Hx. rewrite J1. apply J3. now apply R3.
  - assert (Hlt : (length (snd (round g done todo)) < f)%nat) by lia.
    specialize (IH (fst (round g done todo)) (snd (round g done todo)) Hlt). cbn zeta in IH.
    destruct IH as (K1 & K2 & K3 & K4 & K5). refine (conj _ (conj _ (conj _ (conj _ _)))).
    + exact K1.
    + intros x Hx. destruct (R4 x Hx) as [H|H]; [left; now apply K3|now apply K2].
    + intros x Hx. apply K3. now apply R1.
    + intros x Hx. destruct (K4 x Hx) as [H|H]; [now apply R2|right; now apply R3].
    + intros x Hx. apply R3. now apply K5.
Qed.

Lemma round_sound g T : forall todo done,
  (forall x, In x done -> Derivable g T x) -> (forall x, In x todo -> In x T) ->
  forall x, In x (fst (round g done todo)) -> Derivable g T x.
Proof.
  induction todo as [|n t IH]; intros done Hd Ht x; cbn [round]; [now apply Hd|].
  destruct (ready g done n) eqn:E.
  - apply IH; [|intros y Hy; apply Ht; now right].
    intros y [Hy|Hy]; [subst y|now apply Hd].
    constructor; [apply Ht; now left|]. intros d Hdep. apply Hd. rewrite ready_spec in E. now apply E.
  - cbn [fst]. apply IH; [exact Hd|intros y Hy; apply Ht; now right].
Qed.

Lemma retry_sound g T : forall fuel done todo,
  (forall x, In x done -> Derivable g T x) -> (forall x, In x todo -> In x T) ->
  forall x, In x (fst (retry fuel g done todo)) -> Derivable g T x.
Proof.
  induction fuel as [|f IH]; intros done todo Hd Ht x; cbn [retry]; [now apply Hd|].
  destruct (Nat.eqb (length (snd (round g done todo))) (length todo)).
  - now apply round_sound.
  - apply IH.
    + now apply round_sound.
    + intros y Hy. apply Ht. pose proof (round_spec g todo done) as R. cbn zeta in R. now apply R.
Qed.

(* soundness: whatever the loop handles is derivable *)
Theorem process_sound g todo n : In n (fst (process g todo)) -> Derivable g todo n.
Proof. unfold process. apply retry_sound; [intros x []|auto]. Qed.

(* completeness: every derivable node is handled (the fuel |todo|+1 suffices) *)
Theorem process_complete g todo n : Derivable g todo n -> In n (fst (process g todo)).
Proof.
  pose proof (retry_stuck g (S (length todo)) [] todo (Nat.lt_succ_diag_r _)) as S. cbn zeta in S.
  fold (process g todo) in S. destruct S as (S1 & S2 & _).
  induction 1 as [n Hin _ IH].
  destruct (S2 n Hin) as [H|H]; [exact H|].
  apply S1 in H. assert (ready g (fst (process g todo)) n = true); [|congruence].
  apply ready_spec. exact IH.
Qed.

(* what is left over is exactly the part of the document that is not derivable *)
Theorem process_leftover g todo n : In n (snd (process g todo)) -> In n todo /\ ~ Derivable g todo n.
Proof.
  pose proof (retry_stuck g (S (length todo)) [] todo (Nat.lt_succ_diag_r _)) as S. cbn zeta in S.
  fold (process g todo) in S. destruct S as (S1 & _ & _ & _ & S5).
  intro H. split; [now apply S5|]. intro D. inversion D as [? _ Hd]; subst.
  apply S1 in H. assert (ready g (fst (process g todo)) n = true); [|congruence].
  apply ready_spec. intros d Hdep. apply process_complete. now apply Hd.
Qed.

Lemma derivable_perm g todo todo' n : (forall x, In x todo -> In x todo') -> Derivable g todo n -> Derivable g todo' n.
Proof. intros Hi. induction 1 as [n Hin _ IH]. constructor; [now apply Hi|exact IH]. Qed.

(* order independence: the set of handled nodes is the same for every order of the to-do list *)
Theorem order_independent g todo todo' : Permutation todo todo' ->
  forall n, In n (fst (process g todo)) <-> In n (fst (process g todo')).
Proof.
  intros Hp n. split; intro H.
  - apply process_complete. eapply derivable_perm; [|apply process_sound; exact H].
    intros x Hx. eapply Permutation_in; eassumption.
  - apply process_complete. eapply derivable_perm; [|apply process_sound; exact H].
    intros x Hx. eapply Permutation_in; [apply Permutation_sym|]; eassumption.
Qed.

(* a diagnostic-free run (nothing left over) handles the whole document, in every order *)
Theorem clean_run_order_independent g todo todo' : Permutation todo todo' ->
  snd (process g todo) = [] -> forall n, In n todo' -> In n (fst (process g todo')).
Proof.
  intros Hp Hs n Hn.
  apply (order_independent g todo todo' Hp).
  assert (Hin : In n todo) by (eapply Permutation_in; [apply Permutation_sym|]; eassumption).
  pose proof (retry_stuck g (S (length todo)) [] todo (Nat.lt_succ_diag_r _)) as S. cbn zeta in S.
  fold (process g todo) in S. destruct S as (_ & S2 & _).
  destruct (S2 n Hin) as [H|H]; [exact H|]. rewrite Hs in H. destruct H.
Qed.

(* non-vacuity: parent declared after child, mutual dependency is stuck, forward reference resolved in round 2 *)
Example retry_example :
  let g := [(1, [2]); (2, [3]); (3, []); (4, [5]); (5, [4])] in
  process g [1; 2; 3; 4; 5] = ([1; 2; 3], [4; 5]) /\ process g [5; 4; 3; 2; 1] = ([1; 2; 3], [5; 4]).
Proof. vm_compute. split; reflexivity. Qed.

(* ------------------------------------------------------------------ the loop with the recursion test *)
Lemma first_missing_none g done n : first_missing g done n = None <-> (forall d, In d (deps g n) -> In d done).
Proof.
  unfold first_missing. split.
  - intros H d Hd. pose proof (find_none _ _ H d Hd) as Hn. apply negb_false_iff in Hn. now apply memn_in.
  - intro H. destruct (find (fun d => negb (memn d done)) (deps g n)) as [r|] eqn:F; [|reflexivity].
    apply find_some in F. destruct F as [Hr Hm]. apply negb_true_iff in Hm.
    apply H, memn_in in Hr. congruence.
Qed.

Lemma first_missing_some g done n r : first_missing g done n = Some r -> In r (deps g n) /\ ~ In r done.
Proof.
  unfold first_missing. intro F. apply find_some in F. destruct F as [Hr Hm]. split; [exact Hr|].
  apply negb_true_iff in Hm. intro Hin. apply memn_in in Hin. congruence.
Qed.

(* a derivable node does not depend on itself (Derivable is the LEAST fixed point) *)
Lemma derivable_not_self g T n : Derivable g T n -> ~ In n (deps g n).
Proof. induction 1 as [n _ _ IH]. intro H. exact (IH n H H). Qed.

Section RecExact.
  Variable g : graph.
  Variable T : list N.

  (* invariants of one round with the exact test *)
  Lemma round_rec_spec : forall todo done,
    let r := round_rec N.eqb g done todo in
    (forall x, In x done -> In x (fst r)) /\
    (forall x, In x (snd r) -> In x todo) /\
    (forall x, In x todo -> Derivable g T x -> In x (fst r) \/ In x (snd r)) /\
    ((forall x, In x done -> Derivable g T x) -> (forall x, In x todo -> In x T) -> forall x, In x (fst r) -> Derivable g T x) /\
    (length done <= length (fst r))%nat /\
    (length (fst r) + length (snd r) <= length done + length todo)%nat /\
    (length (fst r) = length done -> fst r = done /\ forall x, In x todo -> first_missing g done x <> None).
  Proof.
    induction todo as [|n t IH]; intro done; cbn [round_rec].
    - cbn. refine (conj _ (conj _ (conj _ (conj _ (conj _ (conj _ _)))))); auto; try tauto; try lia.
    - destruct (first_missing g done n) as [r|] eqn:F.
      + specialize (IH done). cbn zeta in IH. destruct IH as (I1 & I2 & I3 & I4 & I5 & I7 & I6).
        assert (C4 : (forall x, In x done -> Derivable g T x) -> (forall x, In x (n :: t) -> In x T) -> forall x, In x (fst (round_rec N.eqb g done t)) -> Derivable g T x).
        { intros Hd Ht. apply I4; [exact Hd|]. intros y Hy. apply Ht. now right. }
        assert (C6 : length (fst (round_rec N.eqb g done t)) = length done -> fst (round_rec N.eqb g done t) = done /\ forall x, In x (n :: t) -> first_missing g done x <> None).
        { intro H. destruct (I6 H) as [J1 J2]. split; [exact J1|]. intros x [Hx|Hx]; [subst; congruence|now apply J2]. }
        cbn zeta. destruct (N.eqb_spec n r) as [E|E].
        * (* finalised as self-recursive: n depends on itself, hence is not derivable *)
          subst r. refine (conj I1 (conj _ (conj _ (conj C4 (conj I5 (conj _ C6)))))).
          -- intros x Hx. right. now apply I2.
          -- intros x [Hx|Hx] Hder; [|now apply I3]. subst x. exfalso.
             apply first_missing_some in F. destruct F as [Hself _]. exact (derivable_not_self g T n Hder Hself).
          -- cbn [length]. lia.
        * cbn [fst snd]. refine (conj I1 (conj _ (conj _ (conj C4 (conj I5 (conj _ C6)))))).
          -- intros x [Hx|Hx]; [now left|right; now apply I2].
          -- intros x [Hx|Hx] Hder; [subst; right; now left|]. destruct (I3 x Hx Hder) as [H|H]; [now left|right; now right].
          -- cbn [length]. lia.
      + specialize (IH (n :: done)). cbn zeta in IH. destruct IH as (I1 & I2 & I3 & I4 & I5 & I7 & I6).
        cbn zeta. refine (conj _ (conj _ (conj _ (conj _ (conj _ (conj _ _)))))).
        * intros x Hx. apply I1. now right.
        * intros x Hx. right. now apply I2.
        * intros x [Hx|Hx] Hder; [subst; left; apply I1; now left|now apply I3].
        * intros Hd Ht. apply I4; [|intros y Hy; apply Ht; now right].
          intros y [Hy|Hy]; [subst y|now apply Hd].
          constructor; [apply Ht; now left|]. intros d Hdep. apply Hd. rewrite first_missing_none in F. now apply F.
        * cbn [length] in I5. lia.
        * cbn [length] in I7 |- *. lia.
        * cbn [length] in I5. intro H. lia.
  Qed.

  Lemma retry_rec_spec : forall fuel done todo, (length todo < fuel)%nat ->
    let r := retry_rec N.eqb fuel g done todo in
    (forall x, In x done -> In x (fst r)) /\
    (forall x, In x todo -> Derivable g T x -> In x (fst r) \/ In x (snd r)) /\
    (forall x, In x (snd r) -> first_missing g (fst r) x <> None) /\
    ((forall x, In x done -> Derivable g T x) -> (forall x, In x todo -> In x T) -> forall x, In x (fst r) -> Derivable g T x).
  Proof.
    induction fuel as [|f IH]; intros done todo Hf; [lia|].
    cbn [retry_rec]. pose proof (round_rec_spec todo done) as R. cbn zeta in R. destruct R as (R1 & R2 & R3 & R4 & R5 & R7 & R6).
    cbn zeta. destruct (Nat.eqb_spec (length (fst (round_rec N.eqb g done todo))) (length done)) as [E|E].
    - destruct (R6 E) as [J1 J2]. refine (conj R1 (conj R3 (conj _ R4))).
      intros x Hx. rewrite J1. apply J2. now apply R2.
    - assert (Hlt : (length (snd (round_rec N.eqb g done todo)) < f)%nat) by lia.
      specialize (IH (fst (round_rec N.eqb g done todo)) (snd (round_rec N.eqb g done todo)) Hlt). cbn zeta in IH.
      destruct IH as (K1 & K2 & K3 & K4). refine (conj _ (conj _ (conj K3 _))).
      + intros x Hx. apply K1. now apply R1.
      + intros x Hx Hder. destruct (R3 x Hx Hder) as [H|H]; [left; now apply K1|now apply K2].
      + intros Hd Ht. apply K4; [now apply R4|]. intros y Hy. apply Ht. now apply R2.
  Qed.
End RecExact.

(* with the exact test the loop still handles exactly the derivable nodes ... *)
Theorem process_rec_sound g todo n : In n (fst (process_rec N.eqb g todo)) -> Derivable g todo n.
Proof.
  pose proof (retry_rec_spec g todo (S (length todo)) [] todo (Nat.lt_succ_diag_r _)) as S. cbn zeta in S.
  destruct S as (_ & _ & _ & S4). apply S4; [intros x []|auto].
Qed.

Theorem process_rec_complete g todo n : Derivable g todo n -> In n (fst (process_rec N.eqb g todo)).
Proof.
  pose proof (retry_rec_spec g todo (S (length todo)) [] todo (Nat.lt_succ_diag_r _)) as S. cbn zeta in S.
  fold (process_rec N.eqb g todo) in S. destruct S as (_ & S2 & S3 & _).
  intro D. induction D as [n Hin Hd IH].
  destruct (S2 n Hin (der g todo n Hin Hd)) as [H|H]; [exact H|].
  exfalso. apply (S3 n H). apply first_missing_none. exact IH.
Qed.

(* ... hence is independent of the order of the to-do list, *)
Theorem rec_exact_order_independent g todo todo' : Permutation todo todo' ->
  forall n, In n (fst (process_rec N.eqb g todo)) <-> In n (fst (process_rec N.eqb g todo')).
Proof.
  intros Hp n. split; intro H.
  - apply process_rec_complete. eapply derivable_perm; [|apply process_rec_sound; exact H].
    intros x Hx. eapply Permutation_in; eassumption.
  - apply process_rec_complete. eapply derivable_perm; [|apply process_rec_sound; exact H].
    intros x Hx. eapply Permutation_in; [apply Permutation_sym|]; eassumption.
Qed.

(* ... whereas a sloppy test (child 1 = Cat is taken for its parent 2 = WildCat) finalises the child when it comes before its parent *)
Theorem rec_sloppy_refuted : exists self g todo todo' n,
  Permutation todo todo' /\ In n (fst (process_rec self g todo')) /\ ~ In n (fst (process_rec self g todo)).
Proof.
  exists (fun n r => (n =? r) || ((n =? 1) && (r =? 2))), [(1, [2]); (2, [])], [1; 2], [2; 1], 1.
  split; [apply perm_swap|]. vm_compute. split; [now left|]. intros [H|[]]. discriminate.
Qed.

(* in the model a failed attempt leaves no trace: the nodes after a node that is not ready see exactly the state it saw (the correspondence
   checks this hypothesis on the real Schemas object before / after every failed update_schemas_with_data and process_model) *)
Theorem failed_attempt_no_trace g done n t : ready g done n = false ->
  round g done (n :: t) = (fst (round g done t), n :: snd (round g done t)).
Proof. intro H. cbn [round]. now rewrite H. Qed.
