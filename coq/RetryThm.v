(* RetryThm.v -- the retry loop computes a least fixed point, hence its result does not depend on the order of the to-do list *)
From Coq Require Import NArith List Bool Lia Permutation PeanoNat.
Import ListNotations.
Require Import OPC.Retry.
Open Scope N_scope.

(* the order-free specification: n is derivable iff it is in the document and everything it depends on is derivable *)
Inductive Derivable (g : graph) (todo : list N) : N -> Prop :=
| der : forall n, In n todo -> (forall d, In d (deps g n) -> Derivable g todo d) -> Derivable g todo n.

Lemma memn_in n l : memn n l = true <-> In n l.
Proof.
  unfold memn. rewrite existsb_exists. split.
  - intros [x [Hx He]]. apply N.eqb_eq in He. now subst.
  - intro H. exists n. split; [exact H|apply N.eqb_refl].
Qed.

Lemma ready_spec g done n : ready g done n = true <-> (forall d, In d (deps g n) -> In d done).
Proof.
  unfold ready. rewrite forallb_forall. split; intros H d Hd.
  - apply memn_in. now apply H.
  - apply memn_in. now apply H.
Qed.

Lemma round_spec g : forall todo done,
  let r := round g done todo in
  (forall x, In x done -> In x (fst r)) /\
  (forall x, In x (fst r) -> In x done \/ In x todo) /\
  (forall x, In x (snd r) -> In x todo) /\
  (forall x, In x todo -> In x (fst r) \/ In x (snd r)) /\
  (length (snd r) <= length todo)%nat /\
  (length (snd r) = length todo -> fst r = done /\ snd r = todo /\ forall x, In x todo -> ready g done x = false).
Proof.
  induction todo as [|n t IH]; intro done; cbn [round].
  - cbn. refine (conj _ (conj _ (conj _ (conj _ (conj _ _))))); auto; try tauto.
  - destruct (ready g done n) eqn:E.
    + specialize (IH (n :: done)). cbn zeta in IH. destruct IH as (I1 & I2 & I3 & I4 & I5 & I6).
      cbn zeta. refine (conj _ (conj _ (conj _ (conj _ (conj _ _))))).
      * intros x Hx. apply I1. now right.
      * intros x Hx. destruct (I2 x Hx) as [[H|H]|H]; [right; left; exact H|now left|right; now right].
      * intros x Hx. right. now apply I3.
      * intros x [Hx|Hx]; [subst; left; apply I1; now left|now apply I4].
      * cbn [length]. lia.
      * cbn [length]. intro H. lia.
    + specialize (IH done). cbn zeta in IH. destruct IH as (I1 & I2 & I3 & I4 & I5 & I6).
      cbn zeta. cbn [fst snd]. refine (conj _ (conj _ (conj _ (conj _ (conj _ _))))).
      * exact I1.
      * intros x Hx. destruct (I2 x Hx) as [H|H]; [now left|right; now right].
      * intros x [Hx|Hx]; [now left|right; now apply I3].
      * intros x [Hx|Hx]; [subst; right; now left|]. destruct (I4 x Hx) as [H|H]; [now left|right; now right].
      * cbn [length]. lia.
      * cbn [length]. intro H. assert (H' : length (snd (round g done t)) = length t) by lia.
        destruct (I6 H') as (J1 & J2 & J3). split; [exact J1|]. split; [now rewrite J2|].
        intros x [Hx|Hx]; [now subst|now apply J3].
Qed.

(* when the fuel exceeds the length of the to-do list the loop ends because a round made no progress: the result is stuck *)
Lemma retry_stuck g : forall fuel done todo, (length todo < fuel)%nat ->
  let r := retry fuel g done todo in
  (forall x, In x (snd r) -> ready g (fst r) x = false) /\
  (forall x, In x todo -> In x (fst r) \/ In x (snd r)) /\
  (forall x, In x done -> In x (fst r)) /\
  (forall x, In x (fst r) -> In x done \/ In x todo) /\
  (forall x, In x (snd r) -> In x todo).
Proof.
  induction fuel as [|f IH]; intros done todo Hf; [lia|].
  cbn [retry]. pose proof (round_spec g todo done) as R. cbn zeta in R. destruct R as (R1 & R2 & R3 & R4 & R5 & R6).
  cbn zeta. destruct (Nat.eqb_spec (length (snd (round g done todo))) (length todo)) as [E|E].
  - destruct (R6 E) as (J1 & J2 & J3). refine (conj _ (conj _ (conj _ (conj _ _)))); auto.
    intros x Hx. rewrite J1. apply J3. now apply R3.
  - assert (Hlt : (length (snd (round g done todo)) < f)%nat) by lia.
    specialize (IH (fst (round g done todo)) (snd (round g done todo)) Hlt). cbn zeta in IH.
    destruct IH as (K1 & K2 & K3 & K4 & K5). refine (conj _ (conj _ (conj _ (conj _ _)))).
    + exact K1.
    + intros x Hx. destruct (R4 x Hx) as [H|H]; [left; now apply K3|now apply K2].
    + intros x Hx. apply K3. now apply R1.
    + intros x Hx. destruct (K4 x Hx) as [H|H]; [now apply R2|right; now apply R3].
    + intros x Hx. apply R3. now apply K5.
Qed.

Lemma round_sound g T : forall todo done,
  (forall x, In x done -> Derivable g T x) -> (forall x, In x todo -> In x T) ->
  forall x, In x (fst (round g done todo)) -> Derivable g T x.
Proof.
  induction todo as [|n t IH]; intros done Hd Ht x; cbn [round]; [now apply Hd|].
  destruct (ready g done n) eqn:E.
  - apply IH; [|intros y Hy; apply Ht; now right].
    intros y [Hy|Hy]; [subst y|now apply Hd].
    constructor; [apply Ht; now left|]. intros d Hdep. apply Hd. rewrite ready_spec in E. now apply E.
  - cbn [fst]. apply IH; [exact Hd|intros y Hy; apply Ht; now right].
Qed.

Lemma retry_sound g T : forall fuel done todo,
  (forall x, In x done -> Derivable g T x) -> (forall x, In x todo -> In x T) ->
  forall x, In x (fst (retry fuel g done todo)) -> Derivable g T x.
Proof.
  induction fuel as [|f IH]; intros done todo Hd Ht x; cbn [retry]; [now apply Hd|].
  destruct (Nat.eqb (length (snd (round g done todo))) (length todo)).
  - now apply round_sound.
  - apply IH.
    + now apply round_sound.
    + intros y Hy. apply Ht. pose proof (round_spec g todo done) as R. cbn zeta in R. now apply R.
Qed.

(* soundness: whatever the loop handles is derivable *)
Theorem process_sound g todo n : In n (fst (process g todo)) -> Derivable g todo n.
Proof. unfold process. apply retry_sound; [intros x []|auto]. Qed.

(* completeness: every derivable node is handled (the fuel |todo|+1 suffices) *)
Theorem process_complete g todo n : Derivable g todo n -> In n (fst (process g todo)).
Proof.
  pose proof (retry_stuck g (S (length todo)) [] todo (Nat.lt_succ_diag_r _)) as S. cbn zeta in S.
  fold (process g todo) in S. destruct S as (S1 & S2 & _).
  induction 1 as [n Hin _ IH].
  destruct (S2 n Hin) as [H|H]; [exact H|].
  apply S1 in H. assert (ready g (fst (process g todo)) n = true); [|congruence].
  apply ready_spec. exact IH.
Qed.

(* what is left over is exactly the part of the document that is not derivable *)
Theorem process_leftover g todo n : In n (snd (process g todo)) -> In n todo /\ ~ Derivable g todo n.
Proof.
  pose proof (retry_stuck g (S (length todo)) [] todo (Nat.lt_succ_diag_r _)) as S. cbn zeta in S.
  fold (process g todo) in S. destruct S as (S1 & _ & _ & _ & S5).
  intro H. split; [now apply S5|]. intro D. inversion D as [? _ Hd]; subst.
  apply S1 in H. assert (ready g (fst (process g todo)) n = true); [|congruence].
  apply ready_spec. intros d Hdep. apply process_complete. now apply Hd.
Qed.

Lemma derivable_perm g todo todo' n : (forall x, In x todo -> In x todo') -> Derivable g todo n -> Derivable g todo' n.
Proof. intros Hi. induction 1 as [n Hin _ IH]. constructor; [now apply Hi|exact IH]. Qed.

(* order independence: the set of handled nodes is the same for every order of the to-do list *)
Theorem order_independent g todo todo' : Permutation todo todo' ->
  forall n, In n (fst (process g todo)) <-> In n (fst (process g todo')).
Proof.
  intros Hp n. split; intro H.
  - apply process_complete. eapply derivable_perm; [|apply process_sound; exact H].
    intros x Hx. eapply Permutation_in; eassumption.
  - apply process_complete. eapply derivable_perm; [|apply process_sound; exact H].
    intros x Hx. eapply Permutation_in; [apply Permutation_sym|]; eassumption.
Qed.

(* a diagnostic-free run (nothing left over) handles the whole document, in every order *)
Theorem clean_run_order_independent g todo todo' : Permutation todo todo' ->
  snd (process g todo) = [] -> forall n, In n todo' -> In n (fst (process g todo')).
Proof.
  intros Hp Hs n Hn.
  apply (order_independent g todo todo' Hp).
  assert (Hin : In n todo) by (eapply Permutation_in; [apply Permutation_sym|]; eassumption).
  pose proof (retry_stuck g (S (length todo)) [] todo (Nat.lt_succ_diag_r _)) as S. cbn zeta in S.
  fold (process g todo) in S. destruct S as (_ & S2 & _).
  destruct (S2 n Hin) as [H|H]; [exact H|]. rewrite Hs in H. destruct H.
Qed.

(* non-vacuity: parent declared after child, mutual dependency is stuck, forward reference resolved in round 2 *)
Example retry_example :
  let g := [(1, [2]); (2, [3]); (3, []); (4, [5]); (5, [4])] in
  process g [1; 2; 3; 4; 5] = ([1; 2; 3], [4; 5]) /\ process g [5; 4; 3; 2; 1] = ([1; 2; 3], [5; 4]).
Proof. vm_compute. split; reflexivity. Qed.
