(* CookiesThm.v — for EVERY sequence of constructions, derivations (with_cookies / evolve / with_headers / with_timeout) and uses,
   each request carries exactly the client's own cookie jar, overridden in turn by the additions requested through that very
   client after the variant's httpx client was built. *)
From Coq Require Import NArith Arith List Bool Lia.
Import ListNotations.
Require Import OPC.Uni OPC.Client OPC.ClientThm OPC.Cookies.
Open Scope N_scope.

Lemma pairs_eqb_refl : forall d, pairs_eqb d d = true.
Proof. induction d as [|[k v] r IH]; [reflexivity|]. cbn [pairs_eqb]. now rewrite !str_eqb_refl, IH. Qed.

Definition cinv_client (c : cclient) : Prop :=
  forall v k, kcache c v = Some k -> k = fold_left dmerge (klate c v) (jar c).
Definition CInv (w : list cclient) : Prop := Forall cinv_client w.

Lemma CInv_step : forall w o, CInv w -> CInv (fst (cstep w o)).
Proof.
  intros w o H. destruct o as [j | i add | i v]; cbn [cstep].
  - cbn [fst]. apply Forall_snoc; [exact H|]. intros v k Hk. destruct v; discriminate Hk.
  - destruct (nth_error w i) as [c|] eqn:E; [|exact H]. cbn [fst].
    pose proof (Forall_nth_error _ _ _ _ H E) as Hc.
    apply Forall_snoc.
    + apply Forall_upd; [exact H|]. intros v k Hk. destruct v; cbn [kcache klate jar] in *.
      * destruct (ksync c) as [k0|] eqn:Ek; [|discriminate]. cbn [option_map] in Hk. injection Hk as <-. cbn [late_sync late_async].
        rewrite fold_left_app. cbn [fold_left]. f_equal. apply (Hc Sync k0). cbn [kcache]. exact Ek.
      * destruct (kasync c) as [k0|] eqn:Ek; [|discriminate]. cbn [option_map] in Hk. injection Hk as <-. cbn [late_sync late_async].
        rewrite fold_left_app. cbn [fold_left]. f_equal. apply (Hc Async k0). cbn [kcache]. exact Ek.
    + intros v k Hk. destruct v; discriminate Hk.
  - destruct (nth_error w i) as [c|] eqn:E; [|exact H].
    pose proof (Forall_nth_error _ _ _ _ H E) as Hc.
    destruct (kcache c v) as [k0|] eqn:Ek; [exact H|]. cbn [fst].
    apply Forall_upd; [exact H|]. intros v' k Hk.
    destruct v, v'; cbn [kcache klate jar] in *.
    + injection Hk as <-. reflexivity.
    + exact (Hc Async k Hk).
    + exact (Hc Sync k Hk).
    + injection Hk as <-. reflexivity.
Qed.

Lemma use_sends_expected : forall w i v c sent,
  CInv w -> nth_error w i = Some c -> snd (cstep w (CUse i v)) = Some sent -> sent = use_expected c v.
Proof.
  intros w i v c sent H E Hs. cbn [cstep] in Hs. rewrite E in Hs. unfold use_expected.
  pose proof (Forall_nth_error _ _ _ _ H E) as Hc.
  destruct (kcache c v) as [k|] eqn:Ek; cbn [snd] in Hs; injection Hs as <-; [exact (Hc v k Ek) | reflexivity].
Qed.

Theorem cookies_sent_from : forall ops w, CInv w -> cookies_run w ops = true.
Proof.
  induction ops as [|o r IH]; intros w H; [reflexivity|].
  cbn [cookies_run]. destruct (cstep w o) as [w1 out] eqn:Es.
  assert (H1 : CInv w1) by (replace w1 with (fst (cstep w o)) by (now rewrite Es); apply CInv_step; exact H).
  rewrite (IH w1 H1), andb_true_r.
  destruct o as [j | i add | i v]; try reflexivity.
  destruct out as [sent|]; [|reflexivity].
  destruct (nth_error w i) as [c|] eqn:E; [|reflexivity].
  assert (Hs : snd (cstep w (CUse i v)) = Some sent) by (now rewrite Es).
  rewrite (use_sends_expected w i v c sent H E Hs). apply pairs_eqb_refl.
Qed.

Theorem cookies_sent : forall ops, cookies_run [] ops = true.
Proof. intro ops. apply cookies_sent_from. constructor. Qed.

Lemma length_upd : forall {T} (l : list T) n x, length (upd l n x) = length l.
Proof. induction l as [|y r IH]; intros [|n] x; cbn [upd length]; try reflexivity. now rewrite IH. Qed.

(* a freshly derived client sends its parent's jar merged with the addition - and nothing of what the parent is given later *)
Theorem derived_jar : forall w i add c, nth_error w i = Some c ->
  nth_error (fst (cstep w (CDerive i add))) (length w) = Some {| jar := dmerge (jar c) add; ksync := None; kasync := None; late_sync := []; late_async := [] |}.
Proof.
  intros w i add c E. cbn [cstep]. rewrite E. cbn [fst].
  rewrite nth_error_app2 by (rewrite length_upd; lia).
  rewrite length_upd, Nat.sub_diag. reflexivity.
Qed.

(* non-vacuity, and the side effect on the ORIGINAL client: with_cookies also changes what the client it was called on sends *)
Example cookies_example :
  snd (crun [] [CNew [([115], [49])]; CUse 0 Sync; CDerive 0 [([115], [50]); ([116], [51])]; CUse 0 Sync; CUse 0 Async; CUse 1 Async])
  = [None; Some [([115], [49])]; None; Some [([115], [50]); ([116], [51])]; Some [([115], [49])]; Some [([115], [50]); ([116], [51])]].
Proof. vm_compute. reflexivity. Qed.
Theorem with_cookies_changes_original_refuted : exists ops i v a b,
  nth_error (snd (crun [] ops)) i = Some (Some a) /\ nth_error (snd (crun [] (ops ++ [CDerive 0 [([115], [50])]; CUse 0 v]))) (S (S i)) = Some (Some b) /\ a <> b.
Proof.
  exists [CNew [([115], [49])]; CUse 0 Sync], 1%nat, Sync, [([115], [49])], [([115], [50])]. vm_compute. repeat split; try reflexivity. discriminate.
Qed.
