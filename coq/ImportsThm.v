(* ImportsThm.v — proofs about Imports.v and the regenerated table gen/GenClosed.v (C01, C11). *)
From Coq Require Import NArith List Bool.
Import ListNotations.
Require Import OPC.gen.GenClosed OPC.Uni OPC.Names OPC.NamesThm OPC.Imports.
Open Scope N_scope.

Lemma mem_name_app_r : forall n a b, mem_name n b = true -> mem_name n (a ++ b) = true.
Proof. intros n a b H. unfold mem_name in *. rewrite existsb_app, H. apply orb_true_r. Qed.
Lemma mem_name_app_l : forall n a b, mem_name n a = true -> mem_name n (a ++ b) = true.
Proof. intros n a b H. unfold mem_name in *. rewrite existsb_app, H. reflexivity. Qed.

Lemma provided_mono : forall header f fs n,
  mem_name n (module_provided header fs) = true -> mem_name n (module_provided header (f :: fs)) = true.
Proof.
  intros header f fs n H. unfold module_provided, mem_name in *. cbn [flat_map].
  rewrite existsb_app in *. apply orb_true_iff in H as [H|H].
  - rewrite H. reflexivity.
  - rewrite existsb_app, H. rewrite !orb_true_r. reflexivity.
Qed.

(* if every property's fragments only read names that the property's own imports or the fixed header provide, then a module
   assembled from ANY list of properties reads only names that the module provides *)
Theorem module_names_closed : forall header fs,
  forallb (closed_frag header) fs = true ->
  forallb (fun n => mem_name n (module_provided header fs)) (module_used fs) = true.
Proof.
  intros header fs. induction fs as [|f fs IH]; intros H; [reflexivity|].
  cbn [forallb] in H. apply andb_true_iff in H as [Hf Hfs].
  unfold module_used. cbn [flat_map]. rewrite forallb_app. apply andb_true_iff. split.
  - unfold closed_frag in Hf. rewrite forallb_forall in *. intros n Hn. specialize (Hf n Hn).
    apply orb_true_iff in Hf as [Hp|Hh].
    + unfold module_provided. cbn [flat_map]. apply mem_name_app_r. apply mem_name_app_l. exact Hp.
    + unfold module_provided. apply mem_name_app_l. exact Hh.
  - specialize (IH Hfs). unfold module_used in IH. rewrite forallb_forall in *. intros n Hn.
    apply provided_mono. apply IH. exact Hn.
Qed.

(* regenerated fact: in every module of every probe package (every property kind in every position, parameters in every
   location, bodies, responses, both enum styles) nothing is read that is not provided, and every relative import resolves *)
Theorem all_probe_modules_closed : gen_unprovided = [].
Proof. reflexivity. Qed.
Example probes_nonvacuous : (100 <=? gen_modules_analysed) = true.
Proof. reflexivity. Qed.
