(* ValuesThm.v — proofs about Values.v / PyEval.v (C13, C14). *)
From Coq Require Import NArith ZArith List Bool Lia.
Import ListNotations.
Require Import OPC.gen.GenTables OPC.Uni OPC.Names OPC.NamesThm OPC.PyLit OPC.PyLitThm OPC.Values OPC.PyEval.
Open Scope N_scope.

(* STATEMENTS TO PROVE (keep the statements exactly as written):

(* decimal printing and parsing are inverse; hence printing is injective *)
Theorem parse_int_dec_Z : forall z, parse_int (dec_Z z) = Some z.
Theorem dec_Z_inj : forall a b, dec_Z a = dec_Z b -> a = b.
Theorem int_code_evals : forall z, eval_code (dec_Z z) = Some (PVInt z).

(* C13 default_sound / default_complete, integer kind *)
Theorem conv_int_sound : forall o v x,
  conv_int o v = Ok (Some x) -> exists z, int_meaning o v = Some z /\ eval_code (code x) = Some (PVInt z) /\ raw x = v.
Theorem conv_int_complete : forall o v,
  v <> JNull -> int_meaning o v = None -> conv_int o v = Err \/ conv_int o v = Crash.
Theorem conv_int_crash_refuted : exists o v, conv_int o v = Crash.

(* boolean kind *)
Theorem conv_bool_sound : forall v x,
  conv_bool v = Ok (Some x) -> exists b, bool_meaning v = Some b /\ eval_code (code x) = Some (PVBool b).
Theorem conv_bool_complete : forall v, v <> JNull -> bool_meaning v = None -> conv_bool v = Err.

(* string kind: under the guard (printable, no double quote) the emitted literal evaluates to the text itself *)
Theorem conv_string_sound : forall s x,
  repr_printable s = true -> existsb (N.eqb DQ) s = false ->
  conv_string (JStr s) = Ok (Some x) -> lex_string (code x) = Some (s, []).
Theorem conv_string_dq_refuted : exists s x,
  conv_string (JStr s) = Ok (Some x) /\ lex_string (code x) <> Some (s, []).

(* float kind: the emitted code is the float's str() token, whatever it is (inf / nan are not literals) *)
Theorem conv_float_token : forall o v x, conv_float o v = Ok (Some x) ->
  exists f, code x = f_tok f.
Theorem conv_float_nonfinite_refuted : exists o v x,
  conv_float o v = Ok (Some x) /\ eval_code (code x) = None.

(* enum kind: an accepted default is a member whose stored value is the default *)
Theorem conv_enum_sound : forall vt cls ms v x,
  conv_enum vt cls ms v = Ok (Some x) ->
  exists k ev, code x = cls ++ [46] ++ k /\ In (k, ev) ms /\
    match v, ev with
    | JInt z, EInt z' => z = z'
    | JBool b, EInt z' => z' = (if b then 1 else 0)%Z
    | JStr s, EStr s' => s = s'
    | _, _ => False
    end.
(* literal enum: accepted iff listed *)
Theorem conv_litenum_sound : forall vt vals v x,
  conv_litenum vt vals v = Ok (Some x) ->
  exists ev, In ev vals /\
    match v, ev with
    | JInt z, EInt z' => z = z'
    | JBool b, EInt z' => z' = (if b then 1 else 0)%Z
    | JStr s, EStr s' => s = s'
    | _, _ => False
    end.
(* const: an accepted default equals the constant (as a Value: same code, same raw value) *)
Theorem conv_const_sound : forall cv v x,
  conv_const cv v = Ok (Some x) -> exists c, conv_any cv = Ok (Some c) /\ value_eqb x c = true.

(* union: the accepted default is the result of the FIRST member that does not reject it *)
Theorem conv_union_first : forall o ms v r,
  v <> JNull -> convert_value o (CUnion ms) v = r -> r <> Err ->
  exists pre m post, ms = pre ++ m :: post /\ convert_value o m v = r /\
    forall m', In m' pre -> convert_value o m' v = Err.

(* C14: member tables *)
Definition keys (m : list (str * evalue)) : list str := map fst m.
Theorem values_from_list_keys_nodup : forall vs m, values_from_list vs = Some m -> NoDup (keys m).
Definition esc_ev (e : evalue) : evalue := match e with EInt z => EInt z | EStr s => EStr (escape_dq s) end.
(* no invented members: every member value is (the escaped spelling of) a declared value *)
Theorem values_from_list_members_declared : forall vs m k ev,
  values_from_list vs = Some m -> In (k, ev) m -> exists v, In v vs /\ ev = esc_ev v.

(* the sanitised key of a value at index i, as values_from_list computes it *)
Definition member_key (i : N) (e : evalue) : str :=
  match e with
  | EInt (Zneg p) => s_VALUE_NEGATIVE_ ++ dec_N (Npos p)
  | EInt z => s_VALUE_ ++ dec_Z z
  | EStr s => upper (snake_case (match s with
                                 | c :: _ => if c_isalpha c then upper s else s_VALUE_ ++ dec_N i
                                 | [] => s_VALUE_ ++ dec_N i end))
  end.
Fixpoint member_keys_from (i : N) (vs : list evalue) : list str :=
  match vs with [] => [] | e :: vs' => member_key i e :: member_keys_from (N.succ i) vs' end.
(* guard g_enum_sanitised_distinct: the stored keys are pairwise distinct; then every declared value has its member *)
Theorem values_from_list_complete : forall vs m,
  NoDup (member_keys_from 0 vs) -> values_from_list vs = Some m ->
  forall i e, nth_error vs i = Some e -> In (member_key (N.of_nat i) e, esc_ev e) m.
(* without the guard a declared value can vanish silently: the values a b and a-b *)
Theorem enum_silent_merge_refuted : exists vs m e,
  values_from_list vs = Some m /\ In e vs /\ ~ In (esc_ev e) (map snd m).
*)
