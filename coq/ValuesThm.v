(* ValuesThm.v — proofs about Values.v / PyEval.v (C13, C14). *)
From Coq Require Import NArith ZArith List Bool Lia ZifyBool.
Import ListNotations.
Require Import OPC.gen.GenTables OPC.Uni OPC.Names OPC.NamesThm OPC.PyLit OPC.PyLitThm OPC.Values OPC.PyEval.
Open Scope N_scope.

(* never compute the table-driven functions on variables *)
#[local] Opaque printable upper lower snake_case c_isalpha.

(* ================= decimal printing / parsing ================= *)

Lemma digit_lt n : n mod 10 < 10.
Proof. apply N.mod_lt. discriminate. Qed.

Lemma is_digit_dig n : is_digit (48 + n mod 10) = true.
Proof.
  pose proof (digit_lt n) as H. set (m := n mod 10) in *. clearbody m.
  unfold is_digit. apply andb_true_intro. split; apply N.leb_le; lia.
Qed.

Lemma dig_sub n : 48 + n mod 10 - 48 = n mod 10.
Proof. set (m := n mod 10). clearbody m. lia. Qed.

Lemma parse_dec_cons c s a :
  parse_dec (c :: s) a = if is_digit c then parse_dec s (a * 10 + (c - 48)) else None.
Proof. reflexivity. Qed.

Lemma dec_pos_fuel_S f n acc :
  dec_pos_fuel (S f) n acc =
  if n / 10 =? 0 then (48 + n mod 10) :: acc else dec_pos_fuel f (n / 10) ((48 + n mod 10) :: acc).
Proof. reflexivity. Qed.

Lemma div10_zero n : n / 10 = 0 -> n mod 10 = n.
Proof.
  intros H. apply N.mod_small. apply N.div_small_iff in H; [exact H | discriminate].
Qed.

Lemma div10_bound n q : n < 2 * (2 * q) -> n / 10 < 2 * q.
Proof.
  intros H. apply N.div_lt_upper_bound; [discriminate | lia].
Qed.

Lemma pow_fuel_S f : 2 * 2 ^ N.of_nat (S f) = 2 * (2 * 2 ^ N.of_nat f).
Proof. rewrite Nat2N.inj_succ, N.pow_succ_r'. reflexivity. Qed.

Lemma parse_dec_last n acc :
  parse_dec ((48 + n mod 10) :: acc) (n / 10) = parse_dec acc n.
Proof.
  rewrite parse_dec_cons, is_digit_dig, dig_sub. f_equal.
  pose proof (N.div_mod n 10) as H. lia.
Qed.

Lemma parse_dec_fuel : forall f n acc, n < 2 * 2 ^ N.of_nat f ->
  parse_dec (dec_pos_fuel (S f) n acc) 0 = parse_dec acc n.
Proof.
  induction f as [|f IH]; intros n acc Hn; rewrite dec_pos_fuel_S.
  - change (2 * 2 ^ N.of_nat 0) with 2 in Hn.
    assert (E : n / 10 = 0) by (apply N.div_small; lia).
    rewrite E. change (0 =? 0) with true. cbv iota.
    rewrite <- E at 1. apply parse_dec_last.
  - destruct (N.eqb_spec (n / 10) 0) as [E|NE].
    + rewrite <- E at 1. apply parse_dec_last.
    + rewrite IH; [apply parse_dec_last|].
      rewrite pow_fuel_S in Hn. apply div10_bound. exact Hn.
Qed.

Lemma dec_pos_fuel_head : forall f n acc, n <> 0 -> n < 2 * 2 ^ N.of_nat f ->
  exists c r, dec_pos_fuel (S f) n acc = c :: r /\ 49 <= c <= 57.
Proof.
  assert (Small : forall n, n <> 0 -> n / 10 = 0 -> 49 <= 48 + n mod 10 <= 57).
  { intros n Hn E. rewrite (div10_zero n E).
    apply N.div_small_iff in E; [lia | discriminate]. }
  induction f as [|f IH]; intros n acc Hn0 Hn; rewrite dec_pos_fuel_S.
  - change (2 * 2 ^ N.of_nat 0) with 2 in Hn.
    assert (E : n / 10 = 0) by (apply N.div_small; lia).
    rewrite E. change (0 =? 0) with true. cbv iota.
    exists (48 + n mod 10), acc. split; [reflexivity | apply Small; assumption].
  - destruct (N.eqb_spec (n / 10) 0) as [E|NE].
    + exists (48 + n mod 10), acc. split; [reflexivity | apply Small; assumption].
    + apply IH; [exact NE|]. rewrite pow_fuel_S in Hn. apply div10_bound. exact Hn.
Qed.

Lemma dec_N_fuel_ok n : n < 2 * 2 ^ N.of_nat (N.to_nat (N.size n)).
Proof. rewrite N2Nat.id. pose proof (N.size_gt n) as H. lia. Qed.

Lemma parse_dec_dec_N n : parse_dec (dec_N n) 0 = Some n.
Proof. unfold dec_N. rewrite parse_dec_fuel; [reflexivity | apply dec_N_fuel_ok]. Qed.

Lemma dec_N_head n : n <> 0 -> exists c r, dec_N n = c :: r /\ 49 <= c <= 57.
Proof. intros H. unfold dec_N. apply dec_pos_fuel_head; [exact H | apply dec_N_fuel_ok]. Qed.

Lemma parse_nat_lit_ne48 c r : c <> 48 -> parse_nat_lit (c :: r) = parse_dec (c :: r) 0.
Proof.
  intros H. unfold parse_nat_lit.
  destruct c as [|p]; [reflexivity|].
  do 6 (try (destruct p as [p|p|]; try reflexivity)).
  all: try (exfalso; apply H; reflexivity).
Qed.

Lemma parse_int_ne45 c r : c <> 45 ->
  parse_int (c :: r) = match parse_nat_lit (c :: r) with Some n => Some (Z.of_N n) | None => None end.
Proof.
  intros H. unfold parse_int.
  destruct c as [|p]; [reflexivity|].
  do 6 (try (destruct p as [p|p|]; try reflexivity)).
  all: try (exfalso; apply H; reflexivity).
Qed.

Lemma parse_int_neg r :
  parse_int (45 :: r) = match parse_nat_lit r with Some n => Some (- Z.of_N n)%Z | None => None end.
Proof. reflexivity. Qed.

Lemma parse_nat_lit_dec_N p : parse_nat_lit (dec_N (Npos p)) = Some (Npos p).
Proof.
  destruct (dec_N_head (Npos p)) as (c & r & E & Hc); [discriminate|].
  pose proof (parse_dec_dec_N (Npos p)) as P. rewrite E in P |- *.
  rewrite parse_nat_lit_ne48; [exact P | lia].
Qed.

(* decimal printing and parsing are inverse; hence printing is injective *)
Theorem parse_int_dec_Z : forall z, parse_int (dec_Z z) = Some z.
Proof.
  intros [|p|p]; unfold dec_Z.
  - reflexivity.
  - pose proof (parse_nat_lit_dec_N p) as P.
    destruct (dec_N_head (Npos p)) as (c & r & E & Hc); [discriminate|].
    rewrite E in P |- *. rewrite parse_int_ne45; [|lia]. rewrite P. reflexivity.
  - rewrite parse_int_neg, parse_nat_lit_dec_N. reflexivity.
Qed.

Theorem dec_Z_inj : forall a b, dec_Z a = dec_Z b -> a = b.
Proof.
  intros a b H. pose proof (parse_int_dec_Z a) as Ha. rewrite H, parse_int_dec_Z in Ha. congruence.
Qed.

Lemma dec_Z_head z : exists c r, dec_Z z = c :: r /\ (c = 45 \/ 48 <= c <= 57).
Proof.
  destruct z as [|p|p]; unfold dec_Z.
  - exists 48, []. split; [reflexivity | lia].
  - destruct (dec_N_head (Npos p)) as (c & r & E & Hc); [discriminate|].
    exists c, r. split; [exact E | lia].
  - exists 45, (dec_N (Npos p)). split; [reflexivity | lia].
Qed.

Lemma str_eqb_head_ne c r d t : c <> d -> str_eqb (c :: r) (d :: t) = false.
Proof. intros H. cbn [str_eqb]. rewrite (proj2 (N.eqb_neq c d) H). reflexivity. Qed.

Theorem int_code_evals : forall z, eval_code (dec_Z z) = Some (PVInt z).
Proof.
  intros z. unfold eval_code. rewrite parse_int_dec_Z.
  destruct (dec_Z_head z) as (c & r & E & Hc). rewrite E.
  unfold s_True, s_False, s_None.
  rewrite !str_eqb_head_ne by lia. reflexivity.
Qed.

(* ================= C13: integer kind ================= *)

Theorem conv_int_sound : forall o v x,
  conv_int o v = Ok (Some x) -> exists z, int_meaning o v = Some z /\ eval_code (code x) = Some (PVInt z) /\ raw x = v.
Proof.
  intros o v x H.
  assert (IOF : forall f, int_of_float v f = Ok (Some x) ->
            f_finite f = true /\ exists z, f_int f = Some z /\ code x = dec_Z z /\ raw x = v).
  { intros f Hf. unfold int_of_float in Hf.
    destruct (f_finite f); cbn [negb] in Hf; [|discriminate].
    destruct (f_int f) as [z|]; [|discriminate].
    injection Hf as <-. split; [reflexivity|]. exists z. cbn [code raw]. auto. }
  destruct v as [|b|z|f|s|s]; cbn [conv_int] in H; try discriminate.
  - injection H as <-. exists z. cbn [int_meaning code raw]. rewrite int_code_evals. auto.
  - apply IOF in H as (Hf & z & Hz & Hc & Hr). exists z. cbn [int_meaning].
    rewrite Hf, Hz, Hc, int_code_evals. auto.
  - destruct (parse_float o s) as [f|] eqn:E; [|discriminate].
    apply IOF in H as (Hf & z & Hz & Hc & Hr). exists z. cbn [int_meaning].
    rewrite E, Hf, Hz, Hc, int_code_evals. auto.
Qed.

Theorem conv_int_complete : forall o v,
  v <> JNull -> int_meaning o v = None -> conv_int o v = Err \/ conv_int o v = Crash.
Proof.
  intros o v Hv H.
  assert (IOF : forall f, (if f_finite f then f_int f else None) = None ->
            int_of_float v f = Err \/ int_of_float v f = Crash).
  { intros f Hf. unfold int_of_float. destruct (f_finite f); cbn [negb]; [|right; reflexivity].
    rewrite Hf. left; reflexivity. }
  destruct v as [|b|z|f|s|s]; cbn [conv_int int_meaning] in *.
  - congruence.
  - left; reflexivity.
  - discriminate.
  - apply IOF. exact H.
  - destruct (parse_float o s) as [f|]; [apply IOF; exact H | left; reflexivity].
  - left; reflexivity.
Qed.

Definition dummy_oracles : oracles :=
  {| parse_float := fun _ => Some {| f_tok := [105;110;102]; f_int := None; f_finite := false |};
     float_of_int := fun _ => None;
     isoparse_ok := fun _ => false;
     uuid_ok := fun _ => false |}.

Theorem conv_int_crash_refuted : exists o v, conv_int o v = Crash.
Proof.
  exists dummy_oracles, (JFloat {| f_tok := [105;110;102]; f_int := None; f_finite := false |}).
  reflexivity.
Qed.

(* ================= boolean kind ================= *)

Lemma eval_True : eval_code s_True = Some (PVBool true).
Proof. reflexivity. Qed.
Lemma eval_False : eval_code s_False = Some (PVBool false).
Proof. reflexivity. Qed.

Theorem conv_bool_sound : forall v x,
  conv_bool v = Ok (Some x) -> exists b, bool_meaning v = Some b /\ eval_code (code x) = Some (PVBool b).
Proof.
  intros v x H. destruct v as [|b|z|f|s|s]; cbn [conv_bool bool_meaning] in *; try discriminate.
  - injection H as <-. exists b. cbn [code]. split; [reflexivity|].
    destruct b; [apply eval_True | apply eval_False].
  - destruct (str_eqb (lower s) s_true).
    + injection H as <-. exists true. split; [reflexivity | apply eval_True].
    + destruct (str_eqb (lower s) s_false); [|discriminate].
      injection H as <-. exists false. split; [reflexivity | apply eval_False].
Qed.

Theorem conv_bool_complete : forall v, v <> JNull -> bool_meaning v = None -> conv_bool v = Err.
Proof.
  intros v Hv H. destruct v as [|b|z|f|s|s]; cbn [conv_bool bool_meaning] in *;
    try congruence; try reflexivity.
  destruct (str_eqb (lower s) s_true); [discriminate|].
  destruct (str_eqb (lower s) s_false); [discriminate|]. reflexivity.
Qed.

(* ================= string kind ================= *)

Lemma escape_dq_id : forall s, existsb (N.eqb DQ) s = false -> escape_dq s = s.
Proof.
  induction s as [|c s IH]; intros H; [reflexivity|].
  cbn [existsb] in H. apply orb_false_iff in H as [Hc Hs].
  rewrite escape_dq_cons, (IH Hs).
  rewrite N.eqb_sym in Hc. change DQ with 34 in Hc. rewrite Hc. reflexivity.
Qed.

Theorem conv_string_sound : forall s x,
  repr_printable s = true -> existsb (N.eqb DQ) s = false ->
  conv_string (JStr s) = Ok (Some x) -> lex_string (code x) = Some (s, []).
Proof.
  intros s x Hp Hq H. cbn [conv_string py_str] in H. injection H as <-. cbn [code].
  rewrite (escape_dq_id s Hq). apply repr_roundtrip_printable. exact Hp.
Qed.

Theorem conv_string_dq_refuted : exists s x,
  conv_string (JStr s) = Ok (Some x) /\ lex_string (code x) <> Some (s, []).
Proof.
  exists [34], {| code := py_repr (escape_dq [34]); raw := JStr [34] |}.
  split; [reflexivity|]. vm_compute. discriminate.
Qed.

(* ================= float kind ================= *)

Theorem conv_float_token : forall o v x, conv_float o v = Ok (Some x) ->
  exists f, code x = f_tok f.
Proof.
  intros o v x H. destruct v as [|b|z|f|s|s]; cbn [conv_float] in H; try discriminate.
  - destruct (float_of_int o z) as [f|]; [|discriminate]. injection H as <-. exists f. reflexivity.
  - injection H as <-. exists f. reflexivity.
  - destruct (parse_float o s) as [f|]; [|discriminate]. injection H as <-. exists f. reflexivity.
Qed.

Theorem conv_float_nonfinite_refuted : exists o v x,
  conv_float o v = Ok (Some x) /\ eval_code (code x) = None.
Proof.
  exists dummy_oracles, (JStr [105;110;102]),
    {| code := [105;110;102]; raw := JStr [105;110;102] |}.
  split; [reflexivity | vm_compute; reflexivity].
Qed.

(* ================= enum kinds ================= *)

Lemma inverse_lookup_In ev : forall ms k, inverse_lookup ev ms = Some k ->
  exists ev', In (k, ev') ms /\ evalue_eqb ev ev' = true.
Proof.
  induction ms as [|[k' v'] ms IH]; intros k H; cbn [inverse_lookup] in H; [discriminate|].
  destruct (inverse_lookup ev ms) as [k2|] eqn:E.
  - injection H as <-. destruct (IH _ eq_refl) as (ev' & Hin & He).
    exists ev'. split; [right; exact Hin | exact He].
  - destruct (evalue_eqb ev v') eqn:E2; [|discriminate]. injection H as <-.
    exists v'. split; [left; reflexivity | exact E2].
Qed.

Lemma evalue_eqb_int z ev : evalue_eqb (EInt z) ev = true -> ev = EInt z.
Proof. destruct ev as [z'|s']; cbn [evalue_eqb]; [|discriminate]. intros H. apply Z.eqb_eq in H. now subst. Qed.
Lemma evalue_eqb_str s ev : evalue_eqb (EStr s) ev = true -> ev = EStr s.
Proof. destruct ev as [z'|s']; cbn [evalue_eqb]; [discriminate|]. intros H. apply str_eqb_eq in H. now subst. Qed.

Theorem conv_enum_sound : forall vt cls ms v x,
  conv_enum vt cls ms v = Ok (Some x) ->
  exists k ev, code x = cls ++ [46] ++ k /\ In (k, ev) ms /\
    match v, ev with
    | JInt z, EInt z' => z = z'
    | JBool b, EInt z' => z' = (if b then 1 else 0)%Z
    | JStr s, EStr s' => s = s'
    | _, _ => False
    end.
Proof.
  intros vt cls ms v x H. unfold conv_enum in H.
  destruct v as [|b|z|f|s|s], vt; try discriminate.
  - destruct (inverse_lookup _ ms) as [k|] eqn:E; [|discriminate]. injection H as <-.
    apply inverse_lookup_In in E as (ev' & Hin & He). apply evalue_eqb_int in He. subst ev'.
    exists k, (EInt (if b then 1 else 0)%Z). cbn [code]. auto.
  - destruct (inverse_lookup _ ms) as [k|] eqn:E; [|discriminate]. injection H as <-.
    apply inverse_lookup_In in E as (ev' & Hin & He). apply evalue_eqb_int in He. subst ev'.
    exists k, (EInt z). cbn [code]. auto.
  - destruct (inverse_lookup _ ms) as [k|] eqn:E; [|discriminate]. injection H as <-.
    apply inverse_lookup_In in E as (ev' & Hin & He). apply evalue_eqb_str in He. subst ev'.
    exists k, (EStr s). cbn [code]. auto.
Qed.

Theorem conv_litenum_sound : forall vt vals v x,
  conv_litenum vt vals v = Ok (Some x) ->
  exists ev, In ev vals /\
    match v, ev with
    | JInt z, EInt z' => z = z'
    | JBool b, EInt z' => z' = (if b then 1 else 0)%Z
    | JStr s, EStr s' => s = s'
    | _, _ => False
    end.
Proof.
  intros vt vals v x H. unfold conv_litenum in H.
  destruct v as [|b|z|f|s|s], vt; try discriminate.
  - destruct (existsb _ vals) eqn:E; [|discriminate].
    apply existsb_exists in E as (ev' & Hin & He). apply evalue_eqb_int in He. subst ev'.
    exists (EInt (if b then 1 else 0)%Z). auto.
  - destruct (existsb _ vals) eqn:E; [|discriminate].
    apply existsb_exists in E as (ev' & Hin & He). apply evalue_eqb_int in He. subst ev'.
    exists (EInt z). auto.
  - destruct (existsb _ vals) eqn:E; [|discriminate].
    apply existsb_exists in E as (ev' & Hin & He). apply evalue_eqb_str in He. subst ev'.
    exists (EStr s). auto.
Qed.

Theorem conv_const_sound : forall cv v x,
  conv_const cv v = Ok (Some x) -> exists c, conv_any cv = Ok (Some c) /\ value_eqb x c = true.
Proof.
  intros cv v x H. unfold conv_const in H.
  destruct (conv_any v) as [[x'|]| |]; try discriminate.
  destruct (conv_any cv) as [[c|]| |]; try discriminate.
  destruct (value_eqb x' c) eqn:E; [|discriminate].
  injection H as <-. exists c. auto.
Qed.

(* ================= union ================= *)

Definition union_go (o : oracles) (v : jval) :=
  fix go (ms : list ckind) (last : result) {struct ms} : result :=
    match ms with
    | [] => last
    | m :: ms' => let r := convert_value o m v in
                  if is_err r then go ms' r else r
    end.

Lemma convert_union_eq o ms v :
  convert_value o (CUnion ms) v = match v with JNull => Ok None | _ => union_go o v ms Err end.
Proof. destruct v; reflexivity. Qed.

Lemma is_err_true r : is_err r = true -> r = Err.
Proof. destruct r; try discriminate. reflexivity. Qed.

Lemma union_go_first o v : forall ms last r,
  union_go o v ms last = r -> r <> Err ->
  (r = last /\ forall m', In m' ms -> convert_value o m' v = Err) \/
  exists pre m post, ms = pre ++ m :: post /\ convert_value o m v = r /\
    forall m', In m' pre -> convert_value o m' v = Err.
Proof.
  induction ms as [|m ms IH]; intros last r H Hr.
  - left. split; [symmetry; exact H | intros m' []].
  - cbn [union_go] in H. cbv zeta in H.
    destruct (is_err (convert_value o m v)) eqn:E.
    + apply is_err_true in E.
      destruct (IH _ _ H Hr) as [[Hl _]|(pre & m0 & post & Hms & Hm & Hpre)].
      * congruence.
      * right. exists (m :: pre), m0, post. split; [rewrite Hms; reflexivity|].
        split; [exact Hm|]. intros m' [<-|Hin]; [exact E | apply Hpre; exact Hin].
    + right. exists [], m, ms. split; [reflexivity|]. split; [exact H | intros m' []].
Qed.

Theorem conv_union_first : forall o ms v r,
  v <> JNull -> convert_value o (CUnion ms) v = r -> r <> Err ->
  exists pre m post, ms = pre ++ m :: post /\ convert_value o m v = r /\
    forall m', In m' pre -> convert_value o m' v = Err.
Proof.
  intros o ms v r Hv H Hr. rewrite convert_union_eq in H.
  assert (H' : union_go o v ms Err = r) by (destruct v; [congruence | exact H ..]).
  destruct (union_go_first o v ms Err r H' Hr) as [[Hl _]|Hex]; [congruence | exact Hex].
Qed.

(* ================= C14: member tables ================= *)

Definition keys (m : list (str * evalue)) : list str := map fst m.

Lemma keys_cons k v m : keys ((k, v) :: m) = k :: keys m.
Proof. reflexivity. Qed.

Lemma assoc_mem_cons k k' v' m : assoc_mem k ((k', v') :: m) = str_eqb k k' || assoc_mem k m.
Proof. reflexivity. Qed.

Lemma assoc_set_cons k v k' v' m :
  assoc_set k v ((k', v') :: m) = if str_eqb k k' then (k', v) :: m else (k', v') :: assoc_set k v m.
Proof. reflexivity. Qed.

Lemma assoc_set_keys k v : forall m,
  keys (assoc_set k v m) = if assoc_mem k m then keys m else keys m ++ [k].
Proof.
  induction m as [|[k' v'] m IH]; [reflexivity|].
  rewrite assoc_set_cons, assoc_mem_cons.
  destruct (str_eqb k k'); cbn [orb]; [reflexivity|].
  rewrite !keys_cons, IH. destruct (assoc_mem k m); reflexivity.
Qed.

Lemma assoc_mem_false k : forall m, assoc_mem k m = false -> ~ In k (keys m).
Proof.
  induction m as [|[k' v'] m IH]; intros H; [intros []|].
  rewrite assoc_mem_cons in H. apply orb_false_iff in H as [H1 H2].
  rewrite keys_cons. intros [E|Hin].
  - subst k'. assert (X : str_eqb k k = true) by (apply str_eqb_eq; reflexivity). congruence.
  - exact (IH H2 Hin).
Qed.

Lemma NoDup_snoc (A : Type) (l : list A) (a : A) : NoDup l -> ~ In a l -> NoDup (l ++ [a]).
Proof.
  induction l as [|b l IH]; intros Hn Ha; cbn [app].
  - constructor; [intros [] | constructor].
  - inversion Hn as [|b' l' Hb Hl]; subst. constructor.
    + intros Hin. apply in_app_or in Hin as [Hin|[E|[]]]; [exact (Hb Hin)|].
      subst. apply Ha. left; reflexivity.
    + apply IH; [exact Hl|]. intros Hin. apply Ha. right; exact Hin.
Qed.

Lemma assoc_set_nodup k v m : NoDup (keys m) -> NoDup (keys (assoc_set k v m)).
Proof.
  intros H. rewrite assoc_set_keys. destruct (assoc_mem k m) eqn:E; [exact H|].
  apply NoDup_snoc; [exact H | apply assoc_mem_false; exact E].
Qed.

(* what can be found in a table after assoc_set *)
Lemma assoc_set_In k v : forall m k' v', In (k', v') (assoc_set k v m) -> In (k', v') m \/ (k' = k /\ v' = v).
Proof.
  induction m as [|[k0 v0] m IH]; intros k' v' H.
  - destruct H as [H|[]]. injection H as <- <-. right; auto.
  - rewrite assoc_set_cons in H. destruct (str_eqb k k0) eqn:E.
    + apply str_eqb_eq in E. subst k0. destruct H as [H|H].
      * injection H as <- <-. right; auto.
      * left; right; exact H.
    + destruct H as [H|H]; [left; left; exact H|].
      destruct (IH _ _ H) as [H'|H']; [left; right; exact H' | right; exact H'].
Qed.

Lemma assoc_set_new k v : forall m, In (k, v) (assoc_set k v m).
Proof.
  induction m as [|[k0 v0] m IH]; [left; reflexivity|].
  rewrite assoc_set_cons. destruct (str_eqb k k0) eqn:E.
  - apply str_eqb_eq in E. subst k0. left; reflexivity.
  - right; exact IH.
Qed.

Lemma assoc_set_other k v : forall m k' v', In (k', v') m -> k' <> k -> In (k', v') (assoc_set k v m).
Proof.
  induction m as [|[k0 v0] m IH]; intros k' v' H Hne; [destruct H|].
  rewrite assoc_set_cons. destruct (str_eqb k k0) eqn:E.
  - apply str_eqb_eq in E. subst k0. destruct H as [H|H].
    + injection H as <- <-. congruence.
    + right; exact H.
  - destruct H as [H|H]; [left; exact H | right; apply IH; assumption].
Qed.

Definition esc_ev (e : evalue) : evalue := match e with EInt z => EInt z | EStr s => EStr (escape_dq s) end.

(* the sanitised key of a value at index i, as values_from_list computes it *)
Definition member_key (i : N) (e : evalue) : str :=
  match e with
  | EInt (Zneg p) => s_VALUE_NEGATIVE_ ++ dec_N (Npos p)
  | EInt z => s_VALUE_ ++ dec_Z z
  | EStr s => upper (snake_case (match s with
                                 | c :: _ => if c_isalpha c then upper s else s_VALUE_ ++ dec_N i
                                 | [] => s_VALUE_ ++ dec_N i end))
  end.

(* one step of the loop, when it does not raise *)
Lemma go_step i e vs out m : values_from_list_go i (e :: vs) out = Some m ->
  values_from_list_go (N.succ i) vs (assoc_set (member_key i e) (esc_ev e) out) = Some m.
Proof.
  destruct e as [z|s]; cbn [values_from_list_go member_key esc_ev]; intros H.
  - destruct z; exact H.
  - destruct (assoc_mem _ out); [discriminate | exact H].
Qed.

Lemma go_keys_nodup : forall vs i out m,
  NoDup (keys out) -> values_from_list_go i vs out = Some m -> NoDup (keys m).
Proof.
  induction vs as [|e vs IH]; intros i out m Hn H.
  - cbn [values_from_list_go] in H. injection H as <-. exact Hn.
  - apply go_step in H. apply (IH _ _ _ (assoc_set_nodup _ _ _ Hn) H).
Qed.

Theorem values_from_list_keys_nodup : forall vs m, values_from_list vs = Some m -> NoDup (keys m).
Proof.
  intros vs m H. unfold values_from_list in H. apply (go_keys_nodup vs 0 [] m); [constructor | exact H].
Qed.

Lemma go_members (P : evalue -> Prop) : forall vs i out m,
  (forall k ev, In (k, ev) out -> P ev) -> (forall v, In v vs -> P (esc_ev v)) ->
  values_from_list_go i vs out = Some m -> forall k ev, In (k, ev) m -> P ev.
Proof.
  induction vs as [|e vs IH]; intros i out m Hout Hvs H.
  - cbn [values_from_list_go] in H. injection H as <-. exact Hout.
  - apply go_step in H. apply (IH _ _ _) with (3 := H).
    + intros k ev Hin. apply assoc_set_In in Hin as [Hin|[_ ->]].
      * apply (Hout _ _ Hin).
      * apply Hvs. left; reflexivity.
    + intros v Hv. apply Hvs. right; exact Hv.
Qed.

(* no invented members: every member value is (the escaped spelling of) a declared value *)
Theorem values_from_list_members_declared : forall vs m k ev,
  values_from_list vs = Some m -> In (k, ev) m -> exists v, In v vs /\ ev = esc_ev v.
Proof.
  intros vs m k ev H Hin. unfold values_from_list in H.
  apply (go_members (fun ev => exists v, In v vs /\ ev = esc_ev v) vs 0 [] m) with (k := k);
    [ intros k' ev' [] | | exact H | exact Hin ].
  intros v Hv. exists v. auto.
Qed.

Fixpoint member_keys_from (i : N) (vs : list evalue) : list str :=
  match vs with [] => [] | e :: vs' => member_key i e :: member_keys_from (N.succ i) vs' end.

Lemma go_complete : forall vs i out m,
  NoDup (member_keys_from i vs) ->
  (forall k, In k (keys out) -> ~ In k (member_keys_from i vs)) ->
  values_from_list_go i vs out = Some m ->
  (forall k ev, In (k, ev) out -> In (k, ev) m) /\
  (forall j e, nth_error vs j = Some e -> In (member_key (i + N.of_nat j) e, esc_ev e) m).
Proof.
  induction vs as [|e vs IH]; intros i out m Hnd Hdisj H.
  - cbn [values_from_list_go] in H. injection H as <-. split; [auto|].
    intros [|j] e Hj; discriminate Hj.
  - apply go_step in H. cbn [member_keys_from] in Hnd, Hdisj.
    inversion Hnd as [|k0 l0 Hk0 Hnd']; subst.
    destruct (IH (N.succ i) (assoc_set (member_key i e) (esc_ev e) out) m Hnd') as [Hsub Hidx]; [ | exact H | ].
    { intros k Hk Hin. rewrite assoc_set_keys in Hk.
      destruct (assoc_mem (member_key i e) out).
      - apply (Hdisj k Hk). right; exact Hin.
      - apply in_app_or in Hk as [Hk|[<-|[]]].
        + apply (Hdisj k Hk). right; exact Hin.
        + exact (Hk0 Hin). }
    split.
    + intros k ev Hin. apply Hsub. apply assoc_set_other; [exact Hin|].
      intros ->. apply (Hdisj (member_key i e)); [|left; reflexivity].
      change (In (fst (member_key i e, ev)) (keys out)). apply in_map. exact Hin.
    + intros [|j] e' Hj.
      * cbn [nth_error] in Hj. injection Hj as <-.
        replace (i + N.of_nat 0) with i by lia. apply Hsub. apply assoc_set_new.
      * cbn [nth_error] in Hj.
        replace (i + N.of_nat (S j)) with (N.succ i + N.of_nat j) by lia.
        apply Hidx. exact Hj.
Qed.

(* guard g_enum_sanitised_distinct: the stored keys are pairwise distinct; then every declared value has its member *)
Theorem values_from_list_complete : forall vs m,
  NoDup (member_keys_from 0 vs) -> values_from_list vs = Some m ->
  forall i e, nth_error vs i = Some e -> In (member_key (N.of_nat i) e, esc_ev e) m.
Proof.
  intros vs m Hnd H i e Hi. unfold values_from_list in H.
  destruct (go_complete vs 0 [] m Hnd) as [_ Hidx]; [intros k [] | exact H | ].
  apply (Hidx i e Hi).
Qed.

(* without the guard a declared value can vanish silently: the values a b and a-b *)
Theorem enum_silent_merge_refuted : exists vs m e,
  values_from_list vs = Some m /\ In e vs /\ ~ In (esc_ev e) (map snd m).
Proof.
  exists [EStr [97;32;98]; EStr [97;45;98]], [([65;95;66], EStr [97;45;98])], (EStr [97;32;98]).
  split; [vm_compute; reflexivity|]. split; [left; reflexivity|].
  intros [H|[]]. discriminate H.
Qed.

Print Assumptions parse_int_dec_Z.
Print Assumptions dec_Z_inj.
Print Assumptions int_code_evals.
Print Assumptions conv_int_sound.
Print Assumptions conv_int_complete.
Print Assumptions conv_int_crash_refuted.
Print Assumptions conv_bool_sound.
Print Assumptions conv_bool_complete.
Print Assumptions conv_string_sound.
Print Assumptions conv_string_dq_refuted.
Print Assumptions conv_float_token.
Print Assumptions conv_float_nonfinite_refuted.
Print Assumptions conv_enum_sound.
Print Assumptions conv_litenum_sound.
Print Assumptions conv_const_sound.
Print Assumptions conv_union_first.
Print Assumptions values_from_list_keys_nodup.
Print Assumptions values_from_list_members_declared.
Print Assumptions values_from_list_complete.
Print Assumptions enum_silent_merge_refuted.
