(* Fs.v — the file-tree side of Project.build (openapi_python_client/__init__.py:108-290) as a state machine over a
   finite map from relative paths to content tags. Model file. *)
From Coq Require Import NArith List Bool Lia.
Import ListNotations.
Require Import OPC.gen.GenTables OPC.Uni OPC.Names.
Open Scope N_scope.

Definition path := list str.                       (* components below the output directory *)
Inductive content := User (u : N) | Gen (id : N).  (* who wrote the file last: the user (tag u) or generation number id *)
Definition tree := list (path * content).           (* association list; first binding wins *)

Fixpoint path_eqb (a b : path) : bool :=
  match a, b with
  | [], [] => true
  | x :: a', y :: b' => str_eqb x y && path_eqb a' b'
  | _, _ => false
  end.
Fixpoint is_prefix_path (pre p : path) : bool :=
  match pre, p with
  | [], _ => true
  | x :: pre', y :: p' => str_eqb x y && is_prefix_path pre' p'
  | _ :: _, [] => false
  end.
Fixpoint lookup_path (t : tree) (p : path) : option content :=
  match t with
  | [] => None
  | (k, c) :: t' => if path_eqb k p then Some c else lookup_path t' p
  end.
Definition write (t : tree) (p : path) (c : content) : tree := (p, c) :: t.
(* shutil.rmtree(dir, ignore_errors=True): everything at or below dir disappears *)
Definition rmtree (t : tree) (pre : path) : tree := filter (fun kv => negb (is_prefix_path pre (fst kv))) t.
Definition mem_path (p : path) (l : list path) : bool := existsb (path_eqb p) l.

Definition f_init : str := [95;95;105;110;105;116;95;95;46;112;121]. (* __init__.py *)
Definition f_pytyped : str := [112;121;46;116;121;112;101;100]. (* py.typed *)
Definition f_types : str := [116;121;112;101;115;46;112;121]. (* types.py *)
Definition f_pyproject : str := [112;121;112;114;111;106;101;99;116;46;116;111;109;108]. (* pyproject.toml *)
Definition f_setup : str := [115;101;116;117;112;46;112;121]. (* setup.py *)
Definition f_readme : str := [82;69;65;68;77;69;46;109;100]. (* README.md *)
Definition f_gitignore : str := [46;103;105;116;105;103;110;111;114;101]. (* .gitignore *)
Definition f_client : str := [99;108;105;101;110;116;46;112;121]. (* client.py *)
Definition f_errors : str := [101;114;114;111;114;115;46;112;121]. (* errors.py *)
Definition d_models_dir : str := [109;111;100;101;108;115]. (* models *)
Definition d_api_dir : str := [97;112;105]. (* api *)
Definition ext_py : str := [46;112;121]. (* .py *)

Inductive flavour := FNone | FPoetry | FPdm | FSetup.
(* what the parser hands to the writer: module names of models and enums, and per tag directory the endpoint module names
   (all already PythonIdentifiers) *)
Record doc := { d_models : list str; d_tags : list (str * list str) }.

Definition pkg_prefix (fl : flavour) (pkg : str) : path := match fl with FNone => [] | _ => [pkg] end.

(* Project._run_command: post hooks run with cwd = project_dir, which is the output directory itself in every flavour
   (for FNone project_dir = package_dir = the output directory; its PARENT is outside) *)
Definition hook_cwd (fl : flavour) (pkg : str) : path := [].

Definition package_files (fl : flavour) (pkg : str) : list path :=
  let pp := pkg_prefix fl pkg in
  [pp ++ [f_init]] ++ (match fl with FNone => [] | _ => [pp ++ [f_pytyped]] end) ++ [pp ++ [f_types]].
Definition metadata_files (fl : flavour) : list path :=
  match fl with
  | FNone => []
  | FSetup => [[f_pyproject]; [f_setup]; [f_readme]; [f_gitignore]]
  | _ => [[f_pyproject]; [f_readme]; [f_gitignore]]
  end.
Definition model_files (fl : flavour) (pkg : str) (d : doc) : list path :=
  let pp := pkg_prefix fl pkg in
  map (fun m => pp ++ [d_models_dir; m ++ ext_py]) (d_models d) ++ [pp ++ [d_models_dir; f_init]].
Definition client_files (fl : flavour) (pkg : str) : list path :=
  let pp := pkg_prefix fl pkg in [pp ++ [f_client]; pp ++ [f_errors]].
Definition api_files (fl : flavour) (pkg : str) (d : doc) : list path :=
  let pp := pkg_prefix fl pkg in
  (pp ++ [d_api_dir; f_init]) ::
  flat_map (fun te => (pp ++ [d_api_dir; fst te; f_init]) :: map (fun e => pp ++ [d_api_dir; fst te; e ++ ext_py]) (snd te)) (d_tags d).

Definition gen_files (fl : flavour) (pkg : str) (d : doc) : list path :=
  package_files fl pkg ++ metadata_files fl ++ model_files fl pkg d ++ client_files fl pkg ++ api_files fl pkg d.

Definition write_all (id : N) (t : tree) (ps : list path) : tree := fold_left (fun t p => write t p (Gen id)) ps t.

(* Project.build after the directory check, in the order of the code: _create_package, _build_metadata, _build_models, _build_api *)
Definition build_steps (fl : flavour) (pkg : str) (d : doc) (id : N) (t : tree) : tree :=
  let pp := pkg_prefix fl pkg in
  let t := write_all id t (package_files fl pkg) in
  let t := write_all id t (metadata_files fl) in
  let t := rmtree t (pp ++ [d_models_dir]) in
  let t := write_all id t (model_files fl pkg d) in
  let t := write_all id t (client_files fl pkg) in
  let t := rmtree t (pp ++ [d_api_dir]) in
  write_all id t (api_files fl pkg d).

(* Project.build: mkdir; on FileExistsError without --overwrite return an error and touch nothing *)
Definition build (fl : flavour) (pkg : str) (overwrite dir_exists : bool) (d : doc) (id : N) (t : tree) : tree * bool :=
  if dir_exists && negb overwrite then (t, true) else (build_steps fl pkg d id t, false).

Definition managed (fl : flavour) (pkg : str) (p : path) : bool :=
  let pp := pkg_prefix fl pkg in is_prefix_path (pp ++ [d_models_dir]) p || is_prefix_path (pp ++ [d_api_dir]) p.

(* histories *)
Inductive step := Build (id : N) (d : doc) | UserWrite (p : path) (u : N).
Definition run_step (fl : flavour) (pkg : str) (t : tree) (s : step) : tree :=
  match s with
  | Build id d => fst (build fl pkg true true d id t)
  | UserWrite p u => write t p (User u)
  end.
Definition run (fl : flavour) (pkg : str) (h : list step) (t : tree) : tree := fold_left (run_step fl pkg) h t.

(* a user write the theorem speaks about: outside the managed subtrees *)
Definition user_step_ok (fl : flavour) (pkg : str) (s : step) : bool :=
  match s with UserWrite p _ => negb (managed fl pkg p) | Build _ _ => true end.

(* path-component safety (C19 writes_confined): non-empty, not a dot segment, no separator / NUL *)
Definition safe_component (c : str) : bool :=
  negb (str_eqb c []) && negb (str_eqb c [46]) && negb (str_eqb c [46;46]) &&
  forallb (fun x => negb ((x =? 47) || (x =? 92) || (x =? 0))) c.
