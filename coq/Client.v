(* Client.v — the life cycle of generated clients (templates/client.py.jinja): which credential header a request carries.

   Modelled (hand-written, tied to the generated code by the correspondence of harness/props/c03.py, stage "client life cycle"):
   - AuthenticatedClient is an attrs class: token / prefix / auth_header_name, a `_headers` dict and two lazily built, cached
     httpx clients (`_client`, `_async_client`; `init=False`, so every derived client starts without them);
   - attrs.evolve / with_timeout / with_cookies pass the SAME `_headers` dict object on to the derived client (aliasing: the dict
     lives in a heap here); with_headers allocates the merged dict {**old, **new} and also updates the caller's cached httpx clients;
   - get_httpx_client / get_async_httpx_client: on first use `self._headers[auth_header_name] = credential` (a dict store, case
     sensitive) and the httpx client copies the dict into httpx.Headers (a list of pairs compared case-insensitively);
   - `token` is a plain mutable attribute (SetToken).
   Not modelled: set_httpx_client (the caller's own client replaces everything), cookies, time-outs, TLS options. *)
From Coq Require Import NArith List Bool.
Import ListNotations.
Require Import OPC.Uni.
Open Scope N_scope.

(* header names compare ASCII-case-insensitively in httpx *)
Definition alow_c (c : N) : N := if (65 <=? c) && (c <=? 90) then c + 32 else c.
Definition alow (s : str) : str := map alow_c s.
Definition key_eqb (a b : str) : bool := str_eqb (alow a) (alow b).

(* a Python dict[str, str]: insertion ordered, keys compared exactly *)
Definition dict := list (str * str).
Fixpoint dset (d : dict) (k v : str) : dict :=
  match d with
  | [] => [(k, v)]
  | (k', v') :: r => if str_eqb k k' then (k, v) :: r else (k', v') :: dset r k v
  end.
Definition dmerge (a b : dict) : dict := fold_left (fun acc kv => dset acc (fst kv) (snd kv)) b a.   (* {**a, **b} *)
Definition dkeys (d : dict) : list str := map fst d.

(* httpx.Headers: list of pairs; __setitem__ replaces the first case-insensitive match, deletes the other matches, else appends *)
Definition hdrs := list (str * str).
Definition hremove (h : hdrs) (k : str) : hdrs := filter (fun kv => negb (key_eqb (fst kv) k)) h.
Fixpoint hset (h : hdrs) (k v : str) : hdrs :=
  match h with
  | [] => [(k, v)]
  | (k', v') :: r => if key_eqb k' k then (k, v) :: hremove r k else (k', v') :: hset r k v
  end.
Definition hupdate (h : hdrs) (d : dict) : hdrs := fold_left (fun acc kv => hset acc (fst kv) (snd kv)) d h.
Definition hget (h : hdrs) (k : str) : list str := map snd (filter (fun kv => key_eqb (fst kv) k) h).      (* Headers.get_list *)
Definition of_dict (d : dict) : hdrs := d.            (* httpx.Headers(dict): the items in order *)

Record client := { hid : nat; token : str; prefix : str; authname : str; csync : option hdrs; casync : option hdrs; dirty : bool }.
Record world := { heap : list dict; clients : list client }.
Inductive variant := Sync | Async.
Inductive op :=
| New (tok pre auth : str) (h0 : dict)        (* AuthenticatedClient(token=, prefix=, auth_header_name=, headers=) *)
| EvolveToken (i : nat) (tok : str)           (* attrs.evolve(c, token=tok) *)
| EvolveAuth (i : nat) (pre auth : str)       (* attrs.evolve(c, prefix=, auth_header_name=) *)
| Derive (i : nat)                            (* with_timeout / with_cookies / evolve of an attribute that is not modelled *)
| WithHeaders (i : nat) (h : dict)
| SetToken (i : nat) (tok : str)              (* c.token = tok *)
| Use (i : nat) (v : variant).                (* call an endpoint function with client c: first use builds the httpx client *)

Definition cred (c : client) : str := match prefix c with [] => token c | p => p ++ [32] ++ token c end.
Definition init : world := {| heap := []; clients := [] |}.

Fixpoint upd {A} (l : list A) (n : nat) (x : A) : list A :=
  match l, n with
  | [], _ => []
  | _ :: r, O => x :: r
  | y :: r, S m => y :: upd r m x
  end.

Definition fresh_from (c : client) (h : nat) : client :=
  {| hid := h; token := token c; prefix := prefix c; authname := authname c; csync := None; casync := None; dirty := false |}.
Definition with_token (c : client) (t : str) : client :=
  {| hid := hid c; token := t; prefix := prefix c; authname := authname c; csync := csync c; casync := casync c; dirty := dirty c |}.
Definition cache (c : client) (v : variant) : option hdrs := match v with Sync => csync c | Async => casync c end.
Definition set_cache (c : client) (v : variant) (h : hdrs) : client :=
  match v with
  | Sync => {| hid := hid c; token := token c; prefix := prefix c; authname := authname c; csync := Some h; casync := casync c; dirty := dirty c |}
  | Async => {| hid := hid c; token := token c; prefix := prefix c; authname := authname c; csync := csync c; casync := Some h; dirty := dirty c |}
  end.
Definition has_cache (c : client) : bool := match csync c, casync c with None, None => false | _, _ => true end.

(* one operation: the new world and, for Use, the values of the client's auth header on the request that is sent
   (None: not a Use, or the client index does not exist) *)
Definition step (w : world) (o : op) : world * option (list str) :=
  match o with
  | New tok pre auth h0 =>
      let c := {| hid := length (heap w); token := tok; prefix := pre; authname := auth; csync := None; casync := None; dirty := false |} in
      ({| heap := heap w ++ [dmerge [] h0]; clients := clients w ++ [c] |}, None)
  | EvolveToken i tok =>
      match nth_error (clients w) i with
      | Some c => ({| heap := heap w; clients := clients w ++ [with_token (fresh_from c (hid c)) tok] |}, None)
      | None => (w, None)
      end
  | EvolveAuth i pre auth =>
      match nth_error (clients w) i with
      | Some c => ({| heap := heap w;
                      clients := clients w ++ [{| hid := hid c; token := token c; prefix := pre; authname := auth; csync := None; casync := None; dirty := false |}] |}, None)
      | None => (w, None)
      end
  | Derive i =>
      match nth_error (clients w) i with
      | Some c => ({| heap := heap w; clients := clients w ++ [fresh_from c (hid c)] |}, None)
      | None => (w, None)
      end
  | WithHeaders i h =>
      match nth_error (clients w) i with
      | Some c =>
          let c' := {| hid := hid c; token := token c; prefix := prefix c; authname := authname c;
                       csync := option_map (fun x => hupdate x h) (csync c); casync := option_map (fun x => hupdate x h) (casync c); dirty := dirty c |} in
          let d := dmerge (nth (hid c) (heap w) []) h in
          ({| heap := heap w ++ [d]; clients := upd (clients w) i c' ++ [fresh_from c (length (heap w))] |}, None)
      | None => (w, None)
      end
  | SetToken i tok =>
      match nth_error (clients w) i with
      | Some c =>
          let c' := {| hid := hid c; token := tok; prefix := prefix c; authname := authname c; csync := csync c; casync := casync c;
                       dirty := dirty c || has_cache c |} in
          ({| heap := heap w; clients := upd (clients w) i c' |}, None)
      | None => (w, None)
      end
  | Use i v =>
      match nth_error (clients w) i with
      | Some c =>
          match cache c v with
          | Some h => (w, Some (hget h (authname c)))
          | None =>
              let d := dset (nth (hid c) (heap w) []) (authname c) (cred c) in
              let h := of_dict d in
              ({| heap := upd (heap w) (hid c) d; clients := upd (clients w) i (set_cache c v h) |}, Some (hget h (authname c)))
          end
      | None => (w, None)
      end
  end.

Fixpoint run (w : world) (ops : list op) : world * list (option (list str)) :=
  match ops with
  | [] => (w, [])
  | o :: r => let '(w1, out) := step w o in let '(w2, outs) := run w1 r in (w2, out :: outs)
  end.

(* ---- the guard of the theorem ---- *)
(* A: the auth header names in use; spelt consistently (two names that httpx identifies are the same string) *)
Fixpoint consistent (A : list str) : bool :=
  match A with
  | [] => true
  | a :: r => forallb (fun b => implb (key_eqb a b) (str_eqb a b)) r && consistent r
  end.
Definition plain_key (A : list str) (k : str) : bool := negb (existsb (key_eqb k) A).
Definition op_ok (A : list str) (o : op) : bool :=
  match o with
  | New _ _ auth h0 => mem_str auth A && forallb (plain_key A) (dkeys h0)
  | EvolveAuth _ _ auth => mem_str auth A
  | WithHeaders _ h => forallb (plain_key A) (dkeys h)
  | _ => true
  end.

(* every Use of a client whose token was not reassigned after its httpx client was built carries exactly that client's own credential *)
Fixpoint own_credential_run (w : world) (ops : list op) : bool :=
  match ops with
  | [] => true
  | o :: r =>
      let '(w1, out) := step w o in
      (match o, out with
       | Use i _, Some vals =>
           match nth_error (clients w) i with
           | Some c => if dirty c then true else match vals with [x] => str_eqb x (cred c) | _ => false end
           | None => true
           end
       | _, _ => true
       end) && own_credential_run w1 r
  end.

Definition lstr_eqb (a b : list str) : bool := (Nat.eqb (length a) (length b)) && forallb (fun p => str_eqb (fst p) (snd p)) (combine a b).
Definition out_eqb (a b : option (list str)) : bool := match a, b with None, None => true | Some x, Some y => lstr_eqb x y | _, _ => false end.
Definition outs_eqb (a b : list (option (list str))) : bool := (Nat.eqb (length a) (length b)) && forallb (fun p => out_eqb (fst p) (snd p)) (combine a b).
