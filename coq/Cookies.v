(* Cookies.v — which cookies a generated client sends (templates/client.py.jinja), companion of Client.v (credential header).
   `_cookies` is never mutated in place: the constructor stores the caller's dict, with_cookies builds {**old, **new} for the
   DERIVED client - and also calls `.cookies.update(new)` on the httpx clients the ORIGINAL client has already built; attrs.evolve /
   with_headers / with_timeout hand the same dict on. An httpx client copies the dict when it is first built (snapshot).
   Ghost state: per client and variant, the additions requested THROUGH that client after the variant's httpx client was built. *)
From Coq Require Import NArith List Bool.
Import ListNotations.
Require Import OPC.Uni OPC.Client.
Open Scope N_scope.

Record cclient := { jar : dict; ksync : option dict; kasync : option dict; late_sync : list dict; late_async : list dict }.
Inductive cop :=
| CNew (j : dict)                       (* AuthenticatedClient(..., cookies=j) / Client(..., cookies=j) *)
| CDerive (i : nat) (add : dict)        (* c.with_cookies(add); add = [] for evolve / with_headers / with_timeout *)
| CUse (i : nat) (v : variant).         (* first use of a variant builds its httpx client from the jar *)

Definition kcache (c : cclient) (v : variant) : option dict := match v with Sync => ksync c | Async => kasync c end.
Definition klate (c : cclient) (v : variant) : list dict := match v with Sync => late_sync c | Async => late_async c end.

Definition cstep (w : list cclient) (o : cop) : list cclient * option dict :=
  match o with
  | CNew j => (w ++ [{| jar := dmerge [] j; ksync := None; kasync := None; late_sync := []; late_async := [] |}], None)
  | CDerive i add =>
      match nth_error w i with
      | Some c =>
          let c' := {| jar := jar c;
                       ksync := option_map (fun k => dmerge k add) (ksync c); kasync := option_map (fun k => dmerge k add) (kasync c);
                       late_sync := (match ksync c with Some _ => late_sync c ++ [add] | None => late_sync c end);
                       late_async := (match kasync c with Some _ => late_async c ++ [add] | None => late_async c end) |} in
          (upd w i c' ++ [{| jar := dmerge (jar c) add; ksync := None; kasync := None; late_sync := []; late_async := [] |}], None)
      | None => (w, None)
      end
  | CUse i v =>
      match nth_error w i with
      | Some c =>
          match kcache c v with
          | Some k => (w, Some k)
          | None =>
              let c' := match v with
                        | Sync => {| jar := jar c; ksync := Some (jar c); kasync := kasync c; late_sync := []; late_async := late_async c |}
                        | Async => {| jar := jar c; ksync := ksync c; kasync := Some (jar c); late_sync := late_sync c; late_async := [] |}
                        end in
              (upd w i c', Some (jar c))
          end
      | None => (w, None)
      end
  end.

Fixpoint crun (w : list cclient) (ops : list cop) : list cclient * list (option dict) :=
  match ops with
  | [] => (w, [])
  | o :: r => let '(w1, out) := cstep w o in let '(w2, outs) := crun w1 r in (w2, out :: outs)
  end.

(* what a use of client c through variant v must send: its own jar, overridden in turn by every addition requested THROUGH this very
   client after the variant's httpx client was built (none when the variant is built by this use) *)
Definition use_expected (c : cclient) (v : variant) : dict :=
  match kcache c v with Some _ => fold_left dmerge (klate c v) (jar c) | None => jar c end.
Fixpoint pairs_eqb (a b : dict) : bool :=
  match a, b with
  | [], [] => true
  | (k1, v1) :: a', (k2, v2) :: b' => str_eqb k1 k2 && str_eqb v1 v2 && pairs_eqb a' b'
  | _, _ => false
  end.
Fixpoint cookies_run (w : list cclient) (ops : list cop) : bool :=
  match ops with
  | [] => true
  | o :: r =>
      let '(w1, out) := cstep w o in
      (match o, out with
       | CUse i v, Some sent => match nth_error w i with Some c => pairs_eqb sent (use_expected c v) | None => true end
       | _, _ => true
       end) && cookies_run w1 r
  end.

(* dict equality as the correspondence observes it: same keys with the same values (order-insensitive: httpx sends a Cookie header) *)
Definition dict_sub (a b : dict) : bool := forallb (fun kv => match find (fun x => str_eqb (fst x) (fst kv)) b with Some x => str_eqb (snd x) (snd kv) | None => false end) a.
Definition dict_same (a b : dict) : bool := dict_sub a b && dict_sub b a.
Definition cout_eqb (a b : option dict) : bool := match a, b with None, None => true | Some x, Some y => dict_same x y | _, _ => false end.
Definition couts_eqb (a b : list (option dict)) : bool := Nat.eqb (length a) (length b) && forallb (fun p => cout_eqb (fst p) (snd p)) (combine a b).
