(* Scopes.v — executable model of the per-scope name-collision logic (C09, second half), over Names.v:
   (a) model attributes:   _add_if_no_conflict + _resolve_naming_conflict   (parser/properties/model_property.py:221-229,256-275)
   (b) endpoint parameters: Endpoint._check_parameters_for_conflicts        (parser/openapi.py:318-373)
   (d) classes / modules:   duplicate class-name test of ModelProperty.build (parser/properties/model_property.py:117-121),
                            Class.from_string (parser/properties/schemas.py:63-79); module names are NOT checked by the code.
   (c) enum member keys live in Values.v (values_from_list).
   Model file: definitions only. *)
From Coq Require Import NArith List Bool.
Import ListNotations.
Require Import OPC.gen.GenTables OPC.Uni OPC.Names OPC.Values.
Open Scope N_scope.

Inductive res (A : Type) : Type := Ok (a : A) | Err.
Arguments Ok {A} a.
Arguments Err {A}.

Fixpoint nodupb (l : list str) : bool :=
  match l with [] => true | x :: r => negb (mem_str x r) && nodupb r end.

(* the default python name of a property / parameter: PythonIdentifier(value=name, prefix=config.field_prefix) *)
Definition py_default (prefix n : str) : str := python_identifier n prefix false.
(* the fallback: set_python_name(name, skip_snake_case=True) *)
Definition py_raw (prefix n : str) : str := python_identifier n prefix true.

(* guard shared by (a) and (b): no two document names of the scope collide after snake-casing *)
Definition g_no_raw_fallback (prefix : str) (names : list str) : bool := nodupb (map (py_default prefix) names).

(* ------------------------------------------------------------------ (a) model attributes *)
Record attr := mk_attr { a_name : str; a_py : str }.

Definition attr_init (prefix n : str) : attr := mk_attr n (py_default prefix n).
Definition attr_raw (prefix : str) (a : attr) : attr := mk_attr (a_name a) (py_raw prefix (a_name a)).

(* the `for other_prop in properties.values()` loop of _add_if_no_conflict: `cur` is merged_prop (mutated in place by
   _resolve_naming_conflict, so later iterations compare against its NEW python name); every `other` that collides is renamed
   too; earlier `other`s are never looked at again. *)
Fixpoint scan_conflicts (prefix : str) (cur : attr) (others : list attr) : res (attr * list attr) :=
  match others with
  | [] => Ok (cur, [])
  | o :: os =>
    if str_eqb (a_name o) (a_name cur) || negb (str_eqb (a_py o) (a_py cur)) then
      match scan_conflicts prefix cur os with Ok (c, os') => Ok (c, o :: os') | Err => Err end
    else
      let cur' := attr_raw prefix cur in
      let o' := attr_raw prefix o in
      if str_eqb (a_py cur') (a_py o') then Err
      else match scan_conflicts prefix cur' os with Ok (c, os') => Ok (c, o' :: os') | Err => Err end
  end.

(* properties[merged_prop.name] = merged_prop  (dict: replaces in place or appends).  Names of one `properties` object are
   distinct JSON keys; the same name can only re-appear through allOf, whose merge is the subject of Merge.v (C15) *)
Fixpoint put_attr (c : attr) (l : list attr) : list attr :=
  match l with
  | [] => [c]
  | o :: l' => if str_eqb (a_name o) (a_name c) then c :: l' else o :: put_attr c l'
  end.

Definition add_attr (prefix : str) (props : list attr) (new : attr) : res (list attr) :=
  match scan_conflicts prefix new props with
  | Err => Err
  | Ok (c, props') => Ok (put_attr c props')
  end.

Fixpoint add_attrs (prefix : str) (props : list attr) (names : list str) : res (list attr) :=
  match names with
  | [] => Ok props
  | n :: ns => match add_attr prefix props (attr_init prefix n) with
               | Err => Err
               | Ok props' => add_attrs prefix props' ns
               end
  end.

Definition model_attrs (prefix : str) (names : list str) : res (list attr) := add_attrs prefix [] names.

Definition res_pys (r : res (list attr)) : res (list str) :=
  match r with Ok l => Ok (map a_py l) | Err => Err end.

(* ------------------------------------------------------------------ (b) endpoint parameters *)
Inductive loc := LPath | LQuery | LHeader | LCookie.

Definition loc_eqb (a b : loc) : bool :=
  match a, b with LPath, LPath | LQuery, LQuery | LHeader, LHeader | LCookie, LCookie => true | _, _ => false end.

(* str(ParameterLocation.X) — a StrEnum formats as its value *)
Definition loc_str (l : loc) : str :=
  match l with
  | LPath => [112; 97; 116; 104]
  | LQuery => [113; 117; 101; 114; 121]
  | LHeader => [104; 101; 97; 100; 101; 114]
  | LCookie => [99; 111; 111; 107; 105; 101]
  end.

Record param := mk_param { p_loc : loc; p_name : str; p_py : str }.
Definition pkey := (loc * str)%type.
Definition pkey_eqb (a b : pkey) : bool := loc_eqb (fst a) (fst b) && str_eqb (snd a) (snd b).
Definition mem_key (k : pkey) (m : list pkey) : bool := existsb (pkey_eqb k) m.

Definition param_init (prefix : str) (x : loc * str) : param := mk_param (fst x) (snd x) (py_default prefix (snd x)).
Definition set_py (p : param) (s : str) : param := mk_param (p_loc p) (p_name p) s.
(* prop.set_python_name(f"{prop.python_name}_{location}") : goes through PythonIdentifier again (snake-cased) *)
Definition param_suffix (prefix : str) (p : param) : param :=
  set_py p (python_identifier (p_py p ++ [95] ++ loc_str (p_loc p)) prefix false).
Definition param_raw (prefix : str) (p : param) : param := set_py p (py_raw prefix (p_name p)).

(* reserved_names = ["client", "url"] *)
Definition s_client : str := [99; 108; 105; 101; 110; 116].
Definition s_url : str := [117; 114; 108].
Definition reserved_param (s : str) : bool := str_eqb s s_client || str_eqb s s_url.

(* used_python_names : dict python_name -> parameter (an index into the parameters already iterated) *)
Fixpoint dict_pop (k : str) (d : list (str * nat)) : option nat * list (str * nat) :=
  match d with
  | [] => (None, [])
  | (k', v) :: d' => if str_eqb k' k then (Some v, d')
                     else let (r, d'') := dict_pop k d' in (r, (k', v) :: d'')
  end.
Fixpoint dict_set (k : str) (v : nat) (d : list (str * nat)) : list (str * nat) :=
  match d with
  | [] => [(k, v)]
  | (k', v') :: d' => if str_eqb k' k then (k, v) :: d' else (k', v') :: dict_set k v d'
  end.

Fixpoint update_nth {A} (n : nat) (x : A) (l : list A) : list A :=
  match l, n with
  | [], _ => []
  | _ :: l', O => x :: l'
  | y :: l', S n' => y :: update_nth n' x l'
  end.

(* one run of the for-loop.  todo: parameters still to iterate; done: those already iterated (mutated in place by renames);
   m: modified_params (a set: only membership and emptiness are observed); ev: did this run meet a reserved name or a conflict *)
Fixpoint pass_loop (prefix : str) (todo done : list param) (used : list (str * nat)) (m : list pkey) (ev : bool)
  : res (list param * list pkey * bool) :=
  match todo with
  | [] => Ok (done, m, ev)
  | p :: todo' =>
    if reserved_param (p_py p) then
      pass_loop prefix todo' (done ++ [param_suffix prefix p]) used ((p_loc p, p_name p) :: m) true
    else
      match dict_pop (p_py p) used with
      | (None, _) => pass_loop prefix todo' (done ++ [p]) (dict_set (p_py p) (length done) used) m ev
      | (Some j, used') =>
        match nth_error done j with
        | None => Err (* unreachable: indices in used always point into done *)
        | Some c =>
          if mem_key (p_loc c, p_name c) m || mem_key (p_loc p, p_name p) m then Err
          else
            let cp :=
              if negb (loc_eqb (p_loc p) (p_loc c)) then (param_suffix prefix c, param_suffix prefix p)
              else if negb (str_eqb (p_name c) (p_name p)) then (param_raw prefix c, param_raw prefix p)
              else (c, p) in
            (* modified_params.add((location, conflicting_prop.name)); modified_params.add((conflicting_location, conflicting_prop.name))
               — as written in the code: the first pair combines the CURRENT location with the CONFLICTING name *)
            let m' := (p_loc c, p_name c) :: (p_loc p, p_name c) :: m in
            let used'' := dict_set (p_py (fst cp)) j (dict_set (p_py (snd cp)) (length done) used') in
            pass_loop prefix todo' (update_nth j (fst cp) done ++ [snd cp]) used'' m' true
        end
      end
  end.

Definition is_nil {A} (l : list A) : bool := match l with [] => true | _ => false end.

(* _check_parameters_for_conflicts with its recursion.  `modified_params = previously_modified_params or set()` ALIASES a non-empty
   previous set, so in every re-run `modified_params != previously_modified_params` compares an object with itself and is False:
   the function runs the loop once, and once more iff the first run modified something.  check_fuel keeps the shape of the
   recursion (prev = None on the first call); conflict_check_terminates shows which fuel suffices. *)
Fixpoint check_fuel (prefix : str) (fuel : nat) (prev : option (list pkey)) (ps : list param) : option (res (list param * bool)) :=
  match fuel with
  | O => None
  | S f =>
    let m0 := match prev with Some m => m | None => [] end in
    match pass_loop prefix ps [] [] m0 false with
    | Err => Some Err
    | Ok (ps', m, ev) =>
      let differs := match prev with None => true | Some _ => false end in
      if negb (is_nil m) && differs then check_fuel prefix f (Some m) ps' else Some (Ok (ps', ev))
    end
  end.

(* closed form: result and whether the LAST run of the loop met a reserved name or a conflict *)
Definition check_params_ev (prefix : str) (ps : list param) : res (list param * bool) :=
  match pass_loop prefix ps [] [] [] false with
  | Err => Err
  | Ok (ps1, m1, ev1) =>
    if is_nil m1 then Ok (ps1, ev1)
    else match pass_loop prefix ps1 [] [] m1 false with
         | Err => Err
         | Ok (ps2, _, ev2) => Ok (ps2, ev2)
         end
  end.

Definition check_params (prefix : str) (ps : list param) : res (list param) :=
  match check_params_ev prefix ps with Ok (r, _) => Ok r | Err => Err end.

(* iter_all_parameters: path, query, header, cookie; document order inside one location *)
Definition in_loc (l : loc) (p : param) : bool := loc_eqb (p_loc p) l.
Definition order_params (ps : list param) : list param :=
  filter (in_loc LPath) ps ++ filter (in_loc LQuery) ps ++ filter (in_loc LHeader) ps ++ filter (in_loc LCookie) ps.

Definition model_params (prefix : str) (raw : list (loc * str)) : res (list param) :=
  check_params prefix (order_params (map (param_init prefix) raw)).

Definition param_pys (r : res (list param)) : res (list str) :=
  match r with Ok l => Ok (map p_py l) | Err => Err end.

(* run-time guard of params_distinct_quiet: the last run of the loop renamed nothing (what the code relies on) *)
Definition g_last_pass_quiet (prefix : str) (ps : list param) : bool :=
  match check_params_ev prefix ps with Ok (_, ev) => negb ev | Err => true end.

(* static guard of params_distinct: the python names of ALL parameters (whatever their location) are pairwise distinct;
   for model_params this is g_no_raw_fallback on the parameter names *)
Definition g_params_plain (ps : list param) : bool := nodupb (map p_py ps).

(* what params_distinct shows the result to be under g_params_plain: only the reserved names are renamed *)
Definition param_fix (prefix : str) (p : param) : param := if reserved_param (p_py p) then param_suffix prefix p else p.
Definition param_key (p : param) : pkey := (p_loc p, p_name p).

(* ------------------------------------------------------------------ (d) classes and modules *)
(* get_reference_simple_name: ref_path.split("/")[-1] *)
Fixpoint last_seg (s cur : str) : str :=
  match s with
  | [] => rev cur
  | c :: s' => if c =? 47 then last_seg s' [] else last_seg s' (c :: cur)
  end.

(* Class.from_string without class_overrides *)
Definition class_of (prefix n : str) : str := class_name (last_seg n []) prefix.
Definition module_of (prefix cls : str) : str := python_identifier cls prefix false.

(* `if class_info.name in schemas.classes_by_name: return PropertyError("Attempted to generate duplicate models ...")` *)
Definition add_class (prefix : str) (cs : list str) (n : str) : res (list str) :=
  let c := class_of prefix n in if mem_str c cs then Err else Ok (cs ++ [c]).

(* schemas one after the other; a failing one is reported and the others go on (build_schemas keeps the error) *)
Fixpoint add_classes (prefix : str) (cs errs names : list str) : list str * list str :=
  match names with
  | [] => (cs, errs)
  | n :: ns => match add_class prefix cs n with
               | Ok cs' => add_classes prefix cs' errs ns
               | Err => add_classes prefix cs (errs ++ [n]) ns
               end
  end.

Definition model_classes (prefix : str) (names : list str) : list str * list str := add_classes prefix [] [] names.

(* ------------------------------------------------------------------ (d') the class-name scope with enums
   EnumProperty.build (parser/properties/enum_property.py:121-154): the member table {member name: value} is computed first
   (values_from_list, Values.v: raises ValueError on a duplicate member name), then
     if class_info.name in schemas.classes_by_name:
         existing = ...; if not isinstance(existing, EnumProperty) or values != existing.values: return PropertyError
   otherwise classes_by_name = {**classes_by_name, class_info.name: prop}  (an equal twin REPLACES the entry, position kept).
   `values != existing.values` is Python dict inequality: same key set and equal value under every key, order irrelevant. *)
Inductive centry := CModel | CEnum (t : list (str * evalue)).
(* a declaration that mints a class name: an object schema, or an enum (parent = class name of the enclosing model, empty for a component) *)
Inductive cdecl := DModel (n : str) | DEnum (parent n : str) (vs : list evalue).

Definition decl_class (prefix : str) (d : cdecl) : str :=
  match d with
  | DModel n => class_of prefix n
  | DEnum [] n _ => class_of prefix n
  | DEnum p n _ => class_of prefix (pascal_case p ++ pascal_case n)
  end.

Fixpoint elookup (k : str) (m : list (str * evalue)) : option evalue :=
  match m with [] => None | (k', v) :: m' => if str_eqb k' k then Some v else elookup k m' end.

Definition table_eqb (a b : list (str * evalue)) : bool :=
  Nat.eqb (length a) (length b) &&
  forallb (fun kv => match elookup (fst kv) b with Some v => evalue_eqb (snd kv) v | None => false end) a.

Fixpoint clookup (c : str) (tab : list (str * centry)) : option centry :=
  match tab with [] => None | (c', e) :: tab' => if str_eqb c' c then Some e else clookup c tab' end.
Fixpoint creplace (c : str) (e : centry) (tab : list (str * centry)) : list (str * centry) :=
  match tab with
  | [] => []
  | (c', e') :: tab' => if str_eqb c' c then (c', e) :: tab' else (c', e') :: creplace c e tab'
  end.

(* None = the generator crashes (ValueError of values_from_list, finding enum_dup_crash); Some Err = a PropertyError is reported *)
Definition add_decl (prefix : str) (tab : list (str * centry)) (d : cdecl) : option (res (list (str * centry))) :=
  let c := decl_class prefix d in
  match d with
  | DModel _ => Some (match clookup c tab with Some _ => Err | None => Ok (tab ++ [(c, CModel)]) end)
  | DEnum _ _ vs =>
    match values_from_list vs with
    | None => None
    | Some t => Some (match clookup c tab with
                      | None => Ok (tab ++ [(c, CEnum t)])
                      | Some (CEnum t') => if table_eqb t t' then Ok (creplace c (CEnum t) tab) else Err
                      | Some CModel => Err
                      end)
    end
  end.

Fixpoint add_decls (prefix : str) (tab : list (str * centry)) (errs : list cdecl) (ds : list cdecl)
  : option (list (str * centry) * list cdecl) :=
  match ds with
  | [] => Some (tab, errs)
  | d :: ds' => match add_decl prefix tab d with
                | None => None
                | Some (Ok tab') => add_decls prefix tab' errs ds'
                | Some Err => add_decls prefix tab (errs ++ [d]) ds'
                end
  end.

Definition model_decls (prefix : str) (ds : list cdecl) := add_decls prefix [] [] ds.

(* same member names and the same value under every member name *)
Definition tbl_equiv (a b : list (str * evalue)) : Prop := forall k, elookup k a = elookup k b.
Definition decl_table (d : cdecl) : option (list (str * evalue)) :=
  match d with DModel _ => None | DEnum _ _ vs => values_from_list vs end.

(* ------------------------------------------------------------------ (b') the two parameter lists of one operation
   Endpoint.from_data calls add_parameters with the OPERATION's list, and EndpointCollection.from_data then calls it again with the
   PATH ITEM's list (parser/openapi.py:85-93, 434-440).  Each call: `if data.parameters is None: return endpoint` (no check at all);
   otherwise every listed parameter that is not already present under the same (name, location) is appended to its location's list
   (so operation-level parameters win and come first), and _check_parameters_for_conflicts runs over ALL parameters of the endpoint,
   with the python names the first call left on them and a fresh modified set. *)
(* `other_param.name == param.name`: the stored property name went through remove_string_escapes (property_from_data), the listed
   parameter's name did not - a name containing a double quote is therefore not recognised as already present *)
Definition fresh_items (existing : list param) (item : list (loc * str)) : list (loc * str) :=
  filter (fun x => negb (mem_key x (map (fun p => (p_loc p, escape_dq (p_name p))) existing))) item.

Definition phase2_input (prefix : str) (existing : list param) (item : list (loc * str)) : list param :=
  order_params (existing ++ map (param_init prefix) (fresh_items existing item)).

Definition params_phase1 (prefix : str) (op : option (list (loc * str))) : res (list param) :=
  match op with None => Ok [] | Some l => model_params prefix l end.

Definition model_params2 (prefix : str) (op item : option (list (loc * str))) : res (list param) :=
  match params_phase1 prefix op with
  | Err => Err
  | Ok ps1 => match item with
              | None => Ok ps1
              | Some it => check_params prefix (phase2_input prefix ps1 it)
              end
  end.

(* run-time guard: the last run of the loop of the LAST check that was executed renamed nothing *)
Definition g_params2_quiet (prefix : str) (op item : option (list (loc * str))) : bool :=
  match params_phase1 prefix op with
  | Err => true
  | Ok ps1 => match item with
              | Some it => g_last_pass_quiet prefix (phase2_input prefix ps1 it)
              | None => match op with
                        | Some l => g_last_pass_quiet prefix (order_params (map (param_init prefix) l))
                        | None => true
                        end
              end
  end.

(* ------------------------------------------------------------------ (d'') the same fold for any table builder; the Literal style
   LiteralEnumProperty.build (literal_enums: true, literal_enum_property.py:121-133) has its own copy of EnumProperty.build's guard, over
   `values = set(value_list)`: `values != existing.values` is set inequality.  add_decl_g values_from_list is add_decl. *)
Section DeclsG.
Variable tbl : list evalue -> option (list (str * evalue)).

Definition add_decl_g (prefix : str) (tab : list (str * centry)) (d : cdecl) : option (res (list (str * centry))) :=
  let c := decl_class prefix d in
  match d with
  | DModel _ => Some (match clookup c tab with Some _ => Err | None => Ok (tab ++ [(c, CModel)]) end)
  | DEnum _ _ vs =>
    match tbl vs with
    | None => None
    | Some t => Some (match clookup c tab with
                      | None => Ok (tab ++ [(c, CEnum t)])
                      | Some (CEnum t') => if table_eqb t t' then Ok (creplace c (CEnum t) tab) else Err
                      | Some CModel => Err
                      end)
    end
  end.

Fixpoint add_decls_g (prefix : str) (tab : list (str * centry)) (errs : list cdecl) (ds : list cdecl)
  : option (list (str * centry) * list cdecl) :=
  match ds with
  | [] => Some (tab, errs)
  | d :: ds' => match add_decl_g prefix tab d with
                | None => None
                | Some (Ok tab') => add_decls_g prefix tab' errs ds'
                | Some Err => add_decls_g prefix tab (errs ++ [d]) ds'
                end
  end.

Definition model_decls_g (prefix : str) (ds : list cdecl) := add_decls_g prefix [] [] ds.
Definition decl_table_g (d : cdecl) : option (list (str * evalue)) :=
  match d with DModel _ => None | DEnum _ _ vs => tbl vs end.
End DeclsG.

(* a set of str | int as a table keyed by the value itself (type tag + text): table_eqb is then set equality; never crashes *)
Definition lit_key (v : evalue) : str := match v with EInt z => 105 :: dec_Z z | EStr s => 115 :: s end.
Fixpoint lit_go (vs : list evalue) (out : list (str * evalue)) : list (str * evalue) :=
  match vs with [] => out | v :: vs' => lit_go vs' (assoc_set (lit_key v) v out) end.
Definition lit_table (vs : list evalue) : option (list (str * evalue)) := Some (lit_go vs []).
Definition model_decls_lit := model_decls_g lit_table.
